(* C13/C14 - executable model of the integer stage of tangermeme/tools/tomtom.py
   (everything after the floating-point stage), kernel by kernel, on explicit scratch arrays.

   Numbers.  Every float of the code is an exact rational here.  A one-dimensional slice of a
   float array (a "row") is a list of integer numerators over ONE common denominator carried
   with the row: the histogram f[i,:] has denominator ys = sum(Y_counts), a product a*b has the
   product of the denominators, the literal 1.0 written into / subtracted from a row is that
   row's denominator.  The sentinel -1.0 (B[0] = -1, B[i] = -1) is numerator -1 over 1.

   Scratch.  The per-thread arrays of _tomtom (_gamma_int, _f, _A, _A_csum, _B, _results) are
   total functions from the leading indices to rows, given to the model in an ARBITRARY state
   (numpy.empty, or whatever earlier queries of the same thread left there); kernels read and
   write them as the code does.  Within a row, a loop that writes cells [0,m) is modelled as
   "new cells ++ skipn m old", so the stale tail survives exactly as in the code.

   Versions.  [fixed] is the code after the three fix: commits; the flags of [ver] switch the
   pre-fix behaviours back on (used only for the _v0_refuted lemmas). *)
From TM Require Import Base.Prelude.
Open Scope Z_scope.

Record ver := mkver {
  v_bin0 : bool;   (* true: the span pmfs include score bin 0 (fix 2381d4d); false: range(1, n_bins+1) *)
  v_p0   : bool;   (* true: p = 1 for a best score of 0 and results[i,2:4] initialised (fix a3f2523) *)
  v_int8 : bool }. (* true: gamma_int wraps to int8 (before fix 704dadb) *)
Definition fixed   := mkver true true false.

(* ------------------------------------------------------------------ rows and arrays *)
Record row := mkrow { rden : Z; rnum : list Z }.
Definition arr  := nat -> row.
Definition arr2 := nat -> nat -> row.
Definition aset {T} (a : nat -> T) (i : nat) (r : T) : nat -> T :=
  fun k => if Nat.eqb k i then r else a k.
Definition aset2 (a : arr2) (i j : nat) (r : row) : arr2 :=
  fun i' j' => if Nat.eqb i' i && Nat.eqb j' j then r else a i' j'.

(* one row of _results[pid]: p-value (numerator, denominator), score, offset, overlap, strand *)
Record rrow := mkrr { r_p : Z * Z; r_score : Z; r_off : Z; r_ovl : Z; r_strand : Z }.

Record scratch := mkscratch {
  sGam : nat -> list Z;    (* _gamma_int[pid][j, :]  *)
  sF   : arr;              (* _f[pid][i, :]          *)
  sA   : arr2;             (* _A[pid][i, j, :]       *)
  sAcs : arr2;             (* _A_csum[pid][i, j, :]  *)
  sB   : arr;              (* _B[pid][nt, :]         *)
  sRes : nat -> rrow }.    (* _results[pid][i, :]    *)

(* ------------------------------------------------------------------ inputs *)
Record tdata := mktd {      (* what tomtom() hands to _tomtom about the targets *)
  t_nbins  : nat;           (* n_score_bins *)
  t_counts : list Z;        (* rr_counts: multiplicity of each unique target column *)
  t_lens   : list nat;      (* T_lens (both strands when reverse_complement) *)
  t_rrinv  : list nat;      (* rr_inv: unique-column index of every concatenated target position *)
  t_rc     : bool }.
Record dims := mkdims { d_qmax : nat; d_ncache : nat }.   (* Q_max of the call, n_cache *)
Record qdata := mkqd {      (* what the float stage computes for one query *)
  q_nq  : nat;
  q_off : nat;              (* offset returned by _integer_distances_and_histogram *)
  q_x   : list (list Z) }.  (* x[j][i]: integerised similarity of unique target column j and query
                               column i (query order), so that gamma_int[j, nq-1-i] = x[j][i] - offset *)

Definition nlen_of (t : tdata) (d : dims) : nat := d_qmax d * t_nbins t + d_qmax d * d_ncache d.
Definition tmax_of (t : tdata) : nat := fold_right Nat.max 0%nat (t_lens t).
Definition sumZ (l : list Z) : Z := fold_right Z.add 0 l.

(* ------------------------------------------------------------------ list kernels *)
Fixpoint zip_add (r v : list Z) : list Z :=
  match r, v with
  | x :: r', y :: v' => (x + y) :: zip_add r' v'
  | _, [] => r
  | [], _ => []
  end.
(* r[s + l] += v[l] for every l (cells beyond the end of r do not exist in the model) *)
Fixpoint add_at (r : list Z) (s : nat) (v : list Z) {struct s} : list Z :=
  match s, r with
  | O, _ => zip_add r v
  | S s', x :: r' => x :: add_at r' s' v
  | S _, [] => []
  end.
Fixpoint cumsum (acc : Z) (l : list Z) : list Z :=
  match l with [] => [] | x :: t => (acc + x) :: cumsum (acc + x) t end.

Definition wrap8 (z : Z) : Z := (z + 128) mod 256 - 128.

(* ------------------------------------------------------------------ float stage, integer part
   (_integer_distances_and_histogram L98-L111: f[:] = 0; for each query column i and unique target
   column j: gamma_int[j, nq-i-1] = x - offset; f[i, x] += Y_counts[j] / ys) *)
Definition xcol (q : qdata) (i : nat) : list Z := map (fun r => nth i r 0) (q_x q).
Definition hist_row (nb : nat) (counts xs : list Z) : list Z :=
  fold_left (fun acc xc => add_at acc (Z.to_nat (fst xc)) [snd xc]) (combine xs counts)
            (repeat 0 (S nb)).
Definition stage_f (t : tdata) (q : qdata) : arr :=
  fun i => if (i <? q_nq q)%nat then mkrow (sumZ (t_counts t)) (hist_row (t_nbins t) (t_counts t) (xcol q i))
           else mkrow (sumZ (t_counts t)) (repeat 0 (S (t_nbins t))).
Definition stage_gamma (v : ver) (q : qdata) (old : nat -> list Z) : nat -> list Z :=
  fun j => if (j <? length (q_x q))%nat
           then map (fun x => let g := x - Z.of_nat (q_off q) in if v_int8 v then wrap8 g else g)
                    (rev (firstn (q_nq q) (nth j (q_x q) [])))
                ++ skipn (q_nq q) (old j)
           else old j.

(* ------------------------------------------------------------------ _pairwise_max *)
Fixpoint pm_cells (x y ycs : list Z) (xcs : Z) (n : nat) {struct n} : list Z :=
  match n with
  | O => []
  | S n' => match x, y, ycs with
            | xi :: x', yi :: y', ci :: c' =>
                let xcs' := xcs + xi in
                (xi * ci + yi * xcs' - xi * yi) :: pm_cells x' y' c' xcs' n'
            | _, _, _ => []
            end
  end.
(* x and z may be the same array in the code; cell i of x is read before cell i of z is written
   and never again, so the aliasing is unobservable *)
Definition pairwise_max (x y ycs z : row) (n : nat) : row :=
  if hd 0 (rnum x) =? - rden x then y                                 (* x[0] == -1: z[:] = y[:] *)
  else mkrow (rden x * rden y) (pm_cells (rnum x) (rnum y) (rnum ycs) 0 n ++ skipn n (rnum z)).

(* ------------------------------------------------------------------ _p_value_backgrounds *)
Definition span_c (nq off i j : nat) : nat := (off * (nq - j + i - 1))%nat.
Definition frow (v : ver) (f : list Z) : list Z := if v_bin0 v then f else 0 :: tl f.

(* inner loops over k and l, row (i,j) for i < j, starting from the zeroed row *)
Definition conv_cells (prev fr : list Z) (c off nb j nlen : nat) : list Z :=
  fold_left (fun acc k => let a := nth (k + c + off) prev 0 in
                          if a =? 0 then acc else add_at acc (k + c) (map (Z.mul a) fr))
            (seq 0 (nb * j + 1)) (repeat 0 nlen).

Definition build_A_row (v : ver) (A : arr2) (F : arr) (nq nb off nlen i j : nat) : row :=
  let c := span_c nq off i j in
  let fr := frow v (rnum (F j)) in
  if Nat.eqb i j then mkrow (rden (F j)) (add_at (repeat 0 nlen) c fr)
  else let prev := A i (j - 1)%nat in
       mkrow (rden prev * rden (F j)) (conv_cells (rnum prev) fr c off nb j nlen).

(* A_csum[i,j,m:] = 1 ; A_csum[i,j,k] = A[i,j,k] + A_csum[i,j,k-1] for k < m: every cell written *)
Definition csum_row (a : row) (m nlen : nat) : row :=
  mkrow (rden a) (cumsum 0 (firstn m (rnum a)) ++ repeat (rden a) (nlen - m)).

Definition zero_row (nlen : nat) : row := mkrow 1 (repeat 0 nlen).
Definition sentinel (nlen : nat) : row := mkrow 1 (repeat (-1) nlen).

Definition build_A (v : ver) (F : arr) (nq nb off nlen : nat) (Acs0 : arr2) : arr2 * arr2 :=
  fold_left (fun st i =>
    fold_left (fun st j =>
      let r := build_A_row v (fst st) F nq nb off nlen i j in
      (aset2 (fst st) i j r,
       aset2 (snd st) i j (csum_row r (nb * (j + 1) + span_c nq off i j) nlen)))
      (seq i (nq - i)) st)
    (seq 0 nq) ((fun _ _ => zero_row nlen) : arr2, Acs0).      (* A[:] = 0 *)

Definition pmA (A Acs : arr2) (n : nat) (x : row) (i j : nat) (z : row) : row :=
  pairwise_max x (A i j) (Acs i j) z n.

Definition loop1 (A Acs : arr2) (nq tmax n : nat) (B : arr) : arr :=
  fold_left (fun B i =>
     let b1 := pmA A Acs n (B (i - 1)%nat) 0 (i - 1) (B i) in
     let b2 := pmA A Acs n b1 (nq - i) (nq - 1) b1 in
     aset B i b2) (seq 1 (Nat.min nq (tmax + 1) - 1)) B.
Definition loop2 (A Acs : arr2) (nq tmax n : nat) (B : arr) : arr :=
  fold_left (fun B i => aset B i (pmA A Acs n (B (i - 1)%nat) 0 (nq - 1) (B i)))
            (seq nq (tmax + 1 - nq)) B.
Definition loop3_row (A Acs : arr2) (nq n nlen i : nat) : row :=
  let r := fold_left (fun r j => pmA A Acs n r j (j + i - 1) r) (seq 0 (nq - i + 1)) (sentinel nlen) in
  fold_left (fun r j => let r1 := pmA A Acs n r 0 j r in
                        pmA A Acs n r1 (nq - 1 - j) (nq - 1) r1) (seq 0 (i - 1)) r.
Definition loop3 (A Acs : arr2) (nq tmax n nlen : nat) (B : arr) : arr :=
  fold_left (fun B i => aset B i (loop3_row A Acs nq n nlen i))
            (seq 1 (Nat.min nq (tmax + 1) - 1)) B.
(* cumsum over cells [1,n), then 1 - B over cells [0,n), for every row of B *)
Definition finalize (r : row) (n : nat) : row :=
  mkrow (rden r) (map (fun s => rden r - s) (cumsum 0 (firstn n (rnum r))) ++ skipn n (rnum r)).

Definition backgrounds (v : ver) (F : arr) (nq nb off nlen tmax : nat) (Acs0 : arr2) (B0 : arr)
  : arr2 * arr2 * arr :=
  let n := (nb * nq + nq * off)%nat in
  let AA := build_A v F nq nb off nlen Acs0 in
  let A := fst AA in let Acs := snd AA in
  let B := aset B0 0 (sentinel nlen) in
  let B := loop1 A Acs nq tmax n B in
  let B := loop2 A Acs nq tmax n B in
  let B := loop3 A Acs nq tmax n nlen B in
  let Bl := map (fun k => finalize (B k) n) (seq 0 (S tmax)) in
  (A, Acs, fun k => if (k <=? tmax)%nat then nth k Bl (zero_row 0) else B k).

(* ------------------------------------------------------------------ _p_values (iq = -1) *)
Definition overlap_of (k nq nt : nat) : Z :=
  Z.of_nat (Nat.min (k + 1) nq) - Z.of_nat (k + 1 - nt).
Definition tsums (gam : nat -> list Z) (rrinv : list nat) (total nt nq off : nat) : list Z :=
  fold_left (fun ts k => add_at ts k (firstn nq (gam (nth (total + k) rrinv 0%nat))))
            (seq 0 nt) (repeat (Z.of_nat (nq * off)) (nt + nq - 1)).
Definition cell (r : row) (i : nat) : Z * Z := (nth i (rnum r) 0, rden r).
(* B_cdfs[nt, uint64(score-1)] *)
Definition p_lookup (v : ver) (B : arr) (nt nlen : nat) (score : Z) : Z * Z :=
  if score >? 0 then cell (B nt) (Z.to_nat (score - 1))
  else if v_p0 v then (1, 1)
  else (* score = 0: the unsigned index 2^64-1 lands on the last cell of the previous row *)
       cell (B (nt - 1)%nat) (nlen - 1).
Definition scan_step (v : ver) (B : arr) (nq nt nlen : nat) (st : rrow) (k : nat) (score : Z) : rrow :=
  let ovl := overlap_of k nq nt in
  if score >=? r_score st then
    if (score =? r_score st) && (r_off st >=? ovl) then st
    else mkrr (p_lookup v B nt nlen score) score (Z.of_nat k - Z.of_nat nq + 1) ovl (r_strand st)
  else st.
Fixpoint p_values (v : ver) (gam : nat -> list Z) (B : arr) (rrinv : list nat) (nq off nlen : nat)
                  (tl : list nat) (i total : nat) (R : nat -> rrow) : nat -> rrow :=
  match tl with
  | [] => R
  | nt :: tl' =>
      let old := R i in
      let st0 := if v_p0 v then mkrr (1, 1) 0 0 0 (r_strand old)
                 else mkrr (1, 1) 0 (r_off old) (r_ovl old) (r_strand old) in
      let ts := tsums gam rrinv total nt nq off in
      let st := fold_left (fun st ks => scan_step v B nq nt nlen st (fst ks) (snd ks))
                          (combine (seq 0 (nt + nq - 1)) ts) st0 in
      p_values v gam B rrinv nq off nlen tl' (S i) (total + nt)%nat (aset R i st)
  end.

(* ------------------------------------------------------------------ _merge_rc_results *)
Definition pmin (a b : Z * Z) : Z * Z := if fst a * snd b <=? fst b * snd a then a else b.
Definition psq (p : Z * Z) : Z * Z :=
  (snd p * snd p - (snd p - fst p) * (snd p - fst p), snd p * snd p).       (* 1 - (1-p)^2 *)
Definition merge_rc (n : nat) (R : nat -> rrow) : nat -> rrow :=
  fold_left (fun R i =>
     let a := R i in let b := R (i + n)%nat in
     let p := psq (pmin (r_p a) (r_p b)) in
     aset R i (if r_score a <=? r_score b
               then mkrr p (r_score b) (r_off b) (r_ovl b) 1
               else mkrr p (r_score a) (r_off a) (r_ovl a) 0)) (seq 0 n) R.
Definition clear_strand (n : nat) (R : nat -> rrow) : nat -> rrow :=
  fun i => if (i <? n)%nat then let a := R i in mkrr (r_p a) (r_score a) (r_off a) (r_ovl a) 0 else R i.

(* ------------------------------------------------------------------ one iteration of the prange loop *)
Definition n_in (t : tdata) : nat :=
  if t_rc t then Nat.div (length (t_lens t)) 2 else length (t_lens t).

Definition run_query_ver (v : ver) (t : tdata) (d : dims) (q : qdata) (s : scratch)
  : scratch * list rrow :=
  let nq := q_nq q in let nb := t_nbins t in let off := q_off q in
  let nlen := nlen_of t d in
  let gam := stage_gamma v q (sGam s) in
  let F := stage_f t q in
  let ABB := backgrounds v F nq nb off nlen (tmax_of t) (sAcs s) (sB s) in
  let B := snd ABB in
  let R := p_values v gam B (t_rrinv t) nq off nlen (t_lens t) 0 0 (sRes s) in
  let R := if t_rc t then merge_rc (n_in t) R else clear_strand (length (t_lens t)) R in
  (mkscratch gam F (fst (fst ABB)) (snd (fst ABB)) B R, map R (seq 0 (n_in t))).

Definition run_query := run_query_ver fixed.

(* the scratch of a fresh thread under the verification hook: every cell holds the poison value *)
Definition poison_scratch (p : Z) (w : nat) : scratch :=
  mkscratch (fun _ => repeat p w) (fun _ => mkrow 1 (repeat p w)) (fun _ _ => mkrow 1 (repeat p w))
            (fun _ _ => mkrow 1 (repeat p w)) (fun _ => mkrow 1 (repeat p w))
            (fun _ => mkrr (p, 1) p p p p).
