(* C14 - proofs.  Layers: polynomials of the spec; the float-stage histogram; the span pmfs A and
   their cdfs A_csum; _pairwise_max; the three loops building B; the alignment scan; strand merge;
   assembly into spec_ok c (model c) = true.  Everything is stated for an arbitrary initial
   scratch, which also yields C13's scratch independence. *)
From TM Require Import Base.Prelude Base.PyList C14.Model C14.Spec C14.Lib.
Open Scope Z_scope.

(* ================================================================== polynomials (spec side) *)
Lemma nth_map_mul a l k : coef (map (Z.mul a) l) k = a * coef l k.
Proof.
  revert k; induction l as [|x l IH]; intros [|k]; cbn [map nth]; try ring; auto.
Qed.
Lemma nth_padd p q k : coef (padd p q) k = coef p k + coef q k.
Proof.
  revert q k; induction p as [|a p IH]; intros q k.
  - cbn [padd]. rewrite nth_nil_Z. ring.
  - destruct q as [|b q]; cbn [padd].
    + rewrite nth_nil_Z. ring.
    + destruct k; cbn [nth]; [ring|apply IH].
Qed.
Lemma padd_length p q : length (padd p q) = Nat.max (length p) (length q).
Proof.
  revert q; induction p as [|a p IH]; intros [|b q]; cbn [padd length]; auto.
  rewrite IH. reflexivity.
Qed.
Lemma sumZ_padd p q : sumZ (padd p q) = sumZ p + sumZ q.
Proof.
  revert q; induction p as [|a p IH]; intros [|b q]; cbn [padd]; rewrite ?sumZ_cons, ?sumZ_nil; try ring.
  rewrite IH. ring.
Qed.

Lemma pmul_cons a p q :
  forall k, coef (pmul (a :: p) q) k = a * coef q k + coef (0 :: pmul p q) k.
Proof.
  intros k. cbn [pmul]. destruct (a =? 0) eqn:E.
  - assert (a = 0) by lia. subst. ring.
  - rewrite nth_padd, nth_map_mul. reflexivity.
Qed.
Lemma nth_pmul p q k :
  coef (pmul p q) k
  = sum_f (length p) (fun a => if (a <=? k)%nat then coef p a * coef q (k - a) else 0).
Proof.
  revert k; induction p as [|a p IH]; intros k.
  - cbn [pmul length sum_f]. apply nth_nil_Z.
  - rewrite pmul_cons. cbn [length]. rewrite sum_f_front. cbn [nth Nat.leb]. rewrite Nat.sub_0_r.
    f_equal. destruct k as [|k]; cbn [nth].
    + symmetry. apply sum_f_zero. intros; reflexivity.
    + rewrite IH. apply sum_f_ext. intros i _. cbn [Nat.leb Nat.sub]. reflexivity.
Qed.
Lemma sumZ_pmul p q : sumZ (pmul p q) = sumZ p * sumZ q.
Proof.
  induction p as [|a p IH]; [reflexivity|].
  cbn [pmul]. destruct (a =? 0) eqn:E.
  - assert (a = 0) by lia. subst. rewrite !sumZ_cons, IH. ring.
  - rewrite sumZ_padd, sumZ_map_mul, !sumZ_cons, IH. ring.
Qed.
Lemma pmul_length_le p q : (1 <= length q)%nat -> (length (pmul p q) <= length p + length q - 1)%nat.
Proof.
  intros Hq. induction p as [|a p IH]; [cbn; lia|].
  cbn [pmul]. destruct (a =? 0).
  - cbn [length]. lia.
  - rewrite padd_length, map_length. cbn [length]. lia.
Qed.
Lemma pmul_nonneg p q : (forall k, 0 <= coef p k) -> (forall k, 0 <= coef q k) ->
  forall k, 0 <= coef (pmul p q) k.
Proof.
  intros Hp Hq k. rewrite nth_pmul. apply sum_f_nonneg. intros a _.
  destruct (a <=? k)%nat; [|lia]. apply Z.mul_nonneg_nonneg; auto.
Qed.
Lemma pmul_one q k : coef (pmul [1] q) k = coef q k.
Proof.
  rewrite nth_pmul. cbn [length sum_f Nat.leb nth]. rewrite Nat.sub_0_r. ring.
Qed.

(* ================================================================== preconditions as propositions *)
Section WithCall.
Variable c : call.
Let t := c_t c.
Let q := c_q c.
Let nq := q_nq q.
Let nb := t_nbins t.
Let off := q_off q.
Let nlen := nlen_of t (c_d c).

Record WF : Prop := mkWF {
  wf_nq : (1 <= nq)%nat;
  wf_nb : (1 <= nb)%nat;
  wf_n : (nb * nq + nq * off < nlen)%nat;
  wf_ncols : (1 <= ncols c)%nat;
  wf_cnt : forall w, In w (t_counts t) -> 1 <= w;
  wf_xlen : length (q_x q) = ncols c;
  wf_xrow : forall r, In r (q_x q) -> length r = nq /\ forall x, In x r -> 0 <= x <= Z.of_nat nb;
  wf_tl1 : (1 <= length (t_lens t))%nat;
  wf_tlpos : forall nt, In nt (t_lens t) -> (1 <= nt)%nat;
  wf_rrlen : length (t_rrinv t) = sum_nat (t_lens t);
  wf_rr : forall j, In j (t_rrinv t) -> (j < ncols c)%nat;
  wf_rc : t_rc t = true ->
          length (t_lens t) = (2 * (length (t_lens t) / 2))%nat /\
          firstn (length (t_lens t) / 2) (t_lens t) = skipn (length (t_lens t) / 2) (t_lens t) }.

Lemma wf_WF : wf c = true -> WF.
Proof.
  unfold wf. fold t q nq nb off. intros H.
  rewrite !andb_true_iff in H.
  destruct H as [[[[[[[[[[[[[H1 H2] H3] H4] H5] H6] H7] H8] H9] H10] H11] H12] H13] H14].
  constructor.
  - apply Nat.leb_le; exact H1.
  - apply Nat.leb_le; exact H2.
  - apply Nat.ltb_lt; exact H5.
  - apply Nat.leb_le; exact H6.
  - intros w Hw. rewrite forallb_forall in H7. apply H7 in Hw. lia.
  - apply Nat.eqb_eq; exact H8.
  - intros r Hr. rewrite forallb_forall in H9. apply H9 in Hr.
    apply andb_true_iff in Hr as [Hl Hx]. split; [apply Nat.eqb_eq; exact Hl|].
    intros x Hin. rewrite forallb_forall in Hx. apply Hx in Hin. lia.
  - apply Nat.leb_le; exact H10.
  - intros nt Hnt. rewrite forallb_forall in H11. apply H11 in Hnt. apply Nat.leb_le; exact Hnt.
  - apply Nat.eqb_eq; exact H12.
  - intros j Hj. rewrite forallb_forall in H13. apply H13 in Hj. apply Nat.ltb_lt; exact Hj.
  - intros Hrc. rewrite Hrc in H14. apply andb_true_iff in H14 as [Ha Hb].
    split; [apply Nat.eqb_eq; exact Ha|].
    apply (list_eqb_spec Nat.eqb); [intros; apply Nat.eqb_eq | exact Hb].
Qed.

Hypothesis W : WF.

Lemma xval_range j i : 0 <= xval c j i <= Z.of_nat nb.
Proof.
  unfold xval. fold q.
  destruct (Nat.lt_ge_cases j (length (q_x q))) as [Hj|Hj].
  - pose proof (nth_In (q_x q) [] Hj) as Hin. apply (wf_xrow W) in Hin as [Hl Hx].
    destruct (Nat.lt_ge_cases i (length (nth j (q_x q) []))) as [Hi|Hi].
    + apply Hx. apply nth_In; exact Hi.
    + rewrite nth_overflow by exact Hi. lia.
  - rewrite (nth_overflow (q_x q)) by exact Hj. destruct i; cbn; lia.
Qed.
Lemma D_pos : 1 <= D c.
Proof.
  unfold D. fold t. pose proof (wf_ncols W) as Hn. unfold ncols in Hn. fold t in Hn.
  pose proof (wf_cnt W) as Hc.
  destruct (t_counts t) as [|w l]; [cbn in Hn; lia|].
  rewrite sumZ_cons. assert (1 <= w) by (apply Hc; left; reflexivity).
  assert (0 <= sumZ l).
  { clear -Hc. induction l as [|y l IH]; [cbn; lia|]. rewrite sumZ_cons.
    assert (1 <= y) by (apply Hc; right; left; reflexivity).
    assert (0 <= sumZ l) by (apply IH; intros w' [->|Hw]; apply Hc; [left|right; right]; auto). lia. }
  lia.
Qed.
End WithCall.

(* ================================================================== the histogram f (float stage, integer part) *)
Lemma combine_map_l {A B C} (f : A -> B) (l : list A) (l' : list C) :
  combine (map f l) l' = map (fun p => (f (fst p), snd p)) (combine l l').
Proof. revert l'; induction l; intros [|y l']; cbn; auto. f_equal; auto. Qed.

Lemma nth_map_seq (g : nat -> Z) a n v : (v < n)%nat -> coef (map g (seq a n)) v = g (a + v)%nat.
Proof.
  intros H. rewrite nth_indep with (d' := g 0%nat) by (rewrite map_length, seq_length; lia).
  rewrite (map_nth g), seq_nth by lia. reflexivity.
Qed.

Lemma hist_fold_nth (l : list (Z * Z)) : forall acc v,
  coef (fold_left (fun acc xc => add_at acc (Z.to_nat (fst xc)) [snd xc]) l acc) v
  = coef acc v + sumZ (map (fun xc => if (Z.to_nat (fst xc) =? v)%nat && (v <? length acc)%nat
                                       then snd xc else 0) l).
Proof.
  induction l as [|xc l IH]; intros acc v; cbn [fold_left map].
  - rewrite sumZ_nil. ring.
  - rewrite IH, add_at_length, nth_add_at, sumZ_cons.
    destruct (Nat.eq_dec (Z.to_nat (fst xc)) v) as [E|E].
    + rewrite E, Nat.leb_refl, Nat.eqb_refl, Nat.sub_diag. cbn [andb nth].
      destruct (v <? length acc)%nat; ring.
    + apply Nat.eqb_neq in E as E'. rewrite E'. cbn [andb].
      destruct ((Z.to_nat (fst xc) <=? v)%nat && (v <? length acc)%nat) eqn:G; [|ring].
      apply andb_true_iff in G as [G1 G2]. apply Nat.leb_le in G1.
      assert (coef [snd xc] (v - Z.to_nat (fst xc)) = 0) as ->.
      { destruct (v - Z.to_nat (fst xc))%nat as [|[|?]] eqn:Ed; cbn; try reflexivity. lia. }
      ring.
Qed.
Lemma hist_fold_length (l : list (Z * Z)) : forall acc,
  length (fold_left (fun acc xc => add_at acc (Z.to_nat (fst xc)) [snd xc]) l acc) = length acc.
Proof. induction l; intros; cbn [fold_left]; auto. rewrite IHl, add_at_length. reflexivity. Qed.
Lemma hist_row_length nb cs xs : length (hist_row nb cs xs) = S nb.
Proof. unfold hist_row. rewrite hist_fold_length, repeat_length. reflexivity. Qed.

Section Hist.
Variable c : call.
Hypothesis W : WF c.
Let t := c_t c.
Let q := c_q c.
Let nb := t_nbins t.

Lemma hist_row_colpoly i : hist_row nb (t_counts t) (xcol q i) = colpoly c i.
Proof.
  apply nth_ext with (d := 0) (d' := 0).
  - rewrite hist_row_length. unfold colpoly. rewrite map_length, seq_length. reflexivity.
  - rewrite hist_row_length. intros v Hv.
    unfold colpoly. fold t nb. rewrite nth_map_seq by lia. cbn [Nat.add].
    unfold hist_row. rewrite hist_fold_nth, nth_repeat0, repeat_length.
    unfold weight, xcol. fold q t. rewrite combine_map_l, map_map. cbn [fst snd].
    rewrite Z.add_0_l. f_equal. apply map_ext_in. intros [r w] Hin. cbn [fst snd].
    assert (Hr : In r (q_x q)) by (apply in_combine_l in Hin; exact Hin).
    assert (0 <= nth i r 0 <= Z.of_nat nb).
    { destruct (Nat.lt_ge_cases i (length r)) as [Hi|Hi].
      - apply (wf_xrow c W r Hr). apply nth_In; exact Hi.
      - rewrite nth_overflow by exact Hi. lia. }
    destruct (nth i r 0 =? Z.of_nat v) eqn:E.
    + assert (Z.to_nat (nth i r 0) = v) as -> by lia. rewrite Nat.eqb_refl.
      apply Nat.ltb_lt in Hv. rewrite Hv. reflexivity.
    + assert (Nat.eqb (Z.to_nat (nth i r 0)) v = false) as -> by (apply Nat.eqb_neq; lia). reflexivity.
Qed.

Lemma colpoly_length i : length (colpoly c i) = S nb.
Proof. unfold colpoly. rewrite map_length, seq_length. reflexivity. Qed.

Lemma weight_nonneg i v : 0 <= weight c i v.
Proof.
  unfold weight. fold q t.
  assert (forall l : list (list Z * Z), (forall rw, In rw l -> 0 <= snd rw) ->
          0 <= sumZ (map (fun rw => if nth i (fst rw) 0 =? v then snd rw else 0) l)) as G.
  { induction l as [|rw l IH]; intros H; cbn [map]; rewrite ?sumZ_nil, ?sumZ_cons; [lia|].
    assert (0 <= snd rw) by (apply H; left; reflexivity).
    assert (0 <= sumZ (map (fun rw => if nth i (fst rw) 0 =? v then snd rw else 0) l))
      by (apply IH; intros; apply H; right; auto).
    destruct (nth i (fst rw) 0 =? v); lia. }
  apply G. intros [r w] Hin. apply in_combine_r in Hin. cbn. pose proof (wf_cnt c W w Hin). lia.
Qed.
Lemma colpoly_nonneg i k : 0 <= coef (colpoly c i) k.
Proof.
  destruct (Nat.lt_ge_cases k (S nb)) as [Hk|Hk].
  - unfold colpoly. fold t nb. rewrite nth_map_seq by lia. apply weight_nonneg.
  - rewrite nth_overflow; [lia|]. rewrite colpoly_length. exact Hk.
Qed.

(* the histogram of one query column sums to the total multiplicity D *)
Lemma hist_fold_sum (l : list (Z * Z)) : forall acc,
  (forall xc, In xc l -> (Z.to_nat (fst xc) < length acc)%nat) ->
  sumZ (fold_left (fun acc xc => add_at acc (Z.to_nat (fst xc)) [snd xc]) l acc)
  = sumZ acc + sumZ (map snd l).
Proof.
  induction l as [|xc l IH]; intros acc H; cbn [fold_left map]; rewrite ?sumZ_nil, ?sumZ_cons; [ring|].
  rewrite IH.
  - assert (sumZ (add_at acc (Z.to_nat (fst xc)) [snd xc]) = sumZ acc + snd xc) as ->; [|ring].
    assert (Hp : (Z.to_nat (fst xc) < length acc)%nat) by (apply H; left; reflexivity).
    clear -Hp. revert Hp. generalize (Z.to_nat (fst xc)) as p. intros p; revert acc.
    induction p; intros [|a acc] Hp; cbn [length] in Hp; try lia; cbn [add_at zip_add].
    + assert (zip_add acc [] = acc) as -> by (destruct acc; reflexivity).
      rewrite !sumZ_cons. ring.
    + rewrite !sumZ_cons, IHp by lia. ring.
  - intros xc' Hin. rewrite add_at_length. apply H. right; exact Hin.
Qed.
Lemma colpoly_sum i : (i < q_nq q)%nat -> sumZ (colpoly c i) = D c.
Proof.
  intros Hi. rewrite <- hist_row_colpoly. unfold hist_row.
  rewrite hist_fold_sum.
  - rewrite sumZ_repeat0, Z.add_0_l. unfold D. fold t. f_equal.
    unfold xcol. rewrite combine_map_l, map_map. cbn [snd].
    pose proof (wf_xlen c W) as Hl. unfold ncols in Hl. fold q t in Hl.
    clear -Hl. revert Hl. generalize (t_counts t) as cs. generalize (q_x q) as xs.
    induction xs as [|x xs IH]; intros [|w cs] Hl; cbn in Hl; try lia; cbn; [reflexivity|].
    f_equal. apply IH. lia.
  - intros [x w] Hin. rewrite repeat_length. cbn [fst].
    unfold xcol in Hin. apply in_combine_l in Hin. apply in_map_iff in Hin as [r [<- Hr]].
    pose proof (wf_xrow c W r Hr) as [Hlen Hx].
    assert (0 <= nth i r 0 <= Z.of_nat nb) by (apply Hx; apply nth_In; fold q in Hlen; lia).
    fold t nb. lia.
Qed.
End Hist.

(* ================================================================== span polynomials and the rows of A *)
(* SP c i len: distribution (numerators over D^len) of X_i + ... + X_{i+len-1}, as the spec builds it *)
Definition SP (c : call) (i len : nat) : list Z :=
  fold_left (fun acc k => pmul acc (colpoly c k)) (seq i len) [1].
Definition shifted (P : list Z) (cc s : nat) : Z := if (cc <=? s)%nat then coef P (s - cc) else 0.

Lemma SP_S c i len : SP c i (S len) = pmul (SP c i len) (colpoly c (i + len)).
Proof. unfold SP. rewrite seq_S, fold_left_app. reflexivity. Qed.

(* generic closed form of the k/l loops *)
Lemma conv_fold prev fr c off s : forall m a acc,
  let step := fun acc k => let a := coef prev (k + c + off) in
                           if a =? 0 then acc else add_at acc (k + c) (map (Z.mul a) fr) in
  length (fold_left step (seq a m) acc) = length acc /\
  coef (fold_left step (seq a m) acc) s
  = coef acc s + sum_f m (fun k => if ((a + k) + c <=? s)%nat && (s <? length acc)%nat
                                   then coef prev ((a + k) + c + off) * coef fr (s - ((a + k) + c)) else 0).
Proof.
  induction m; intros a acc step; cbn [seq fold_left].
  - split; [reflexivity|cbn [sum_f]; ring].
  - specialize (IHm (S a) (step acc a)). cbn zeta in IHm. destruct IHm as [IHl IHn].
    assert (Hlen : length (step acc a) = length acc).
    { unfold step. destruct (_ =? 0); [reflexivity|apply add_at_length]. }
    fold step in IHl, IHn. split; [rewrite IHl; exact Hlen|].
    rewrite IHn, Hlen. rewrite sum_f_front. rewrite Nat.add_0_r.
    assert (coef (step acc a) s
            = coef acc s + (if (a + c <=? s)%nat && (s <? length acc)%nat
                            then coef prev (a + c + off) * coef fr (s - (a + c)) else 0)) as ->.
    { unfold step. destruct (coef prev (a + c + off) =? 0) eqn:E.
      - assert (coef prev (a + c + off) = 0) as -> by lia. destruct (_ && _); ring.
      - rewrite nth_add_at, nth_map_mul. reflexivity. }
    rewrite <- Z.add_assoc. f_equal. f_equal. apply sum_f_ext. intros k _.
    replace (S a + k)%nat with (a + S k)%nat by lia. reflexivity.
Qed.
Lemma nth_conv_cells prev fr c off nb j nlen s :
  coef (conv_cells prev fr c off nb j nlen) s
  = sum_f (nb * j + 1) (fun k => if (k + c <=? s)%nat && (s <? nlen)%nat
                                 then coef prev (k + c + off) * coef fr (s - (k + c)) else 0).
Proof.
  unfold conv_cells. pose proof (conv_fold prev fr c off s (nb * j + 1) 0 (repeat 0 nlen)) as [_ H].
  cbn zeta in H. rewrite H, nth_repeat0, repeat_length, Z.add_0_l. reflexivity.
Qed.
Lemma conv_cells_length prev fr c off nb j nlen : length (conv_cells prev fr c off nb j nlen) = nlen.
Proof.
  unfold conv_cells. pose proof (conv_fold prev fr c off 0 (nb * j + 1) 0 (repeat 0 nlen)) as [H _].
  cbn zeta in H. rewrite H, repeat_length. reflexivity.
Qed.

Section Backgrounds.
Variable c : call.
Hypothesis W : WF c.
Let t := c_t c.
Let q := c_q c.
Let nq := q_nq q.
Let nb := t_nbins t.
Let off := q_off q.
Let nlen := nlen_of t (c_d c).
Let F := stage_f t q.
Let n := (nb * nq + nq * off)%nat.

Lemma n_lt_nlen : (n < nlen)%nat.
Proof. exact (wf_n c W). Qed.

Lemma SP_length i len : (length (SP c i len) <= nb * len + 1)%nat.
Proof.
  induction len.
  - unfold SP. cbn. lia.
  - rewrite SP_S. pose proof (pmul_length_le (SP c i len) (colpoly c (i + len))) as H.
    rewrite colpoly_length in H. fold t nb in H. specialize (H ltac:(lia)). lia.
Qed.
Lemma SP_nonneg i len k : 0 <= coef (SP c i len) k.
Proof.
  revert k; induction len; intros k.
  - unfold SP. cbn [seq fold_left]. destruct k as [|[|k]]; cbn; lia.
  - rewrite SP_S. apply pmul_nonneg; [exact IHlen|]. intros; apply colpoly_nonneg; exact W.
Qed.
Lemma SP_sum i len : (i + len <= nq)%nat -> sumZ (SP c i len) = D c ^ Z.of_nat len.
Proof.
  induction len; intros H.
  - reflexivity.
  - rewrite SP_S, sumZ_pmul, IHlen by lia. rewrite (colpoly_sum c W) by (fold q nq; lia).
    rewrite Nat2Z.inj_succ, Z.pow_succ_r by lia. ring.
Qed.
Lemma F_row j : (j < nq)%nat -> F j = mkrow (D c) (colpoly c j).
Proof.
  intros H. unfold F, stage_f. fold nq. apply Nat.ltb_lt in H. rewrite H.
  fold nb. rewrite (hist_row_colpoly c W). reflexivity.
Qed.

Definition cc (i j : nat) : nat := span_c nq off i j.
Lemma cc_bound i j : (i <= j < nq)%nat -> (cc i j + nb * (j + 1 - i) <= n)%nat.
Proof.
  intros H. unfold cc, span_c, n.
  assert (off * (nq - j + i - 1) <= nq * off)%nat.
  { rewrite (Nat.mul_comm nq off). apply Nat.mul_le_mono_l. lia. }
  assert (nb * (j + 1 - i) <= nb * nq)%nat by (apply Nat.mul_le_mono_l; lia).
  lia.
Qed.
Lemma cc_pred i j : (i < j < nq)%nat -> cc i (j - 1) = (cc i j + off)%nat.
Proof.
  intros H. unfold cc, span_c.
  replace (nq - (j - 1) + i - 1)%nat with (S (nq - j + i - 1)) by lia.
  rewrite Nat.mul_succ_r. reflexivity.
Qed.

Definition Aok (i j : nat) (r : row) : Prop :=
  rden r = D c ^ Z.of_nat (j + 1 - i) /\ length (rnum r) = nlen /\
  forall s, coef (rnum r) s = shifted (SP c i (j + 1 - i)) (cc i j) s.
Definition Acsok (i j : nat) (r : row) : Prop :=
  rden r = D c ^ Z.of_nat (j + 1 - i) /\ length (rnum r) = nlen /\
  forall s, (s < nlen)%nat -> coef (rnum r) s = sumZ (firstn (s + 1 - cc i j) (SP c i (j + 1 - i))).

(* span_pmf: row (i,j) of A is the pmf of the span i..j, shifted by offset * #unaligned columns *)
Lemma build_A_row_ok (A : arr2) i j : (i <= j < nq)%nat ->
  ((i < j)%nat -> Aok i (j - 1) (A i (j - 1)%nat)) ->
  Aok i j (build_A_row fixed A F nq nb off nlen i j).
Proof.
  intros Hij Hprev. unfold Aok, build_A_row. fold (cc i j). rewrite F_row by lia.
  cbn [rden rnum frow fixed v_bin0].
  pose proof (cc_bound i j Hij) as Hb. pose proof n_lt_nlen as Hn.
  destruct (Nat.eqb_spec i j) as [E|E].
  - subst j. replace (i + 1 - i)%nat with 1%nat in * by lia. cbn [rden rnum].
    split; [change (Z.of_nat 1) with 1; rewrite Z.pow_1_r; reflexivity|]. split; [rewrite add_at_length, repeat_length; reflexivity|].
    intros s. rewrite nth_add_at, nth_repeat0, repeat_length, Z.add_0_l. unfold shifted.
    replace (SP c i 1) with (pmul [1] (colpoly c i)).
    2:{ unfold SP. cbn [seq fold_left]. reflexivity. }
    rewrite pmul_one.
    destruct (cc i i <=? s)%nat eqn:E1; cbn [andb]; [|reflexivity].
    destruct (s <? nlen)%nat eqn:E2; [reflexivity|].
    symmetry. apply nth_beyond. rewrite (colpoly_length c). fold t nb.
    apply Nat.leb_le in E1. apply Nat.ltb_ge in E2. lia.
  - assert (Hlt : (i < j)%nat) by lia. destruct (Hprev Hlt) as [Hd [Hl Hc]].
    cbn [rden rnum]. split; [|split].
    + rewrite Hd. replace (j + 1 - i)%nat with (S (j - 1 + 1 - i)) by lia.
      rewrite Nat2Z.inj_succ, Z.pow_succ_r by lia. ring.
    + apply conv_cells_length.
    + intros s. rewrite nth_conv_cells. unfold shifted.
      replace (j + 1 - i)%nat with (S (j - i)) by lia. rewrite SP_S.
      replace (i + (j - i))%nat with j by lia.
      replace (j - 1 + 1 - i)%nat with (j - i)%nat in Hc by lia.
      assert (Hprevc : forall k, coef (rnum (A i (j - 1)%nat)) (k + cc i j + off) = coef (SP c i (j - i)) k).
      { intros k. rewrite Hc. unfold shifted. rewrite cc_pred by lia.
        replace (cc i j + off <=? k + cc i j + off)%nat with true by (symmetry; apply Nat.leb_le; lia).
        f_equal. lia. }
      destruct (cc i j <=? s)%nat eqn:E1.
      * apply Nat.leb_le in E1. destruct (s <? nlen)%nat eqn:E2.
        -- rewrite nth_pmul.
           rewrite <- (sum_f_extend (length (SP c i (j - i))) (nb * j + 1)).
           ++ apply sum_f_ext. intros k Hk. rewrite Hprevc.
              replace (k + cc i j <=? s)%nat with (k <=? s - cc i j)%nat.
              2:{ destruct (k <=? s - cc i j)%nat eqn:G; symmetry;
                  [apply Nat.leb_le; apply Nat.leb_le in G | apply Nat.leb_gt; apply Nat.leb_gt in G]; lia. }
              rewrite andb_true_r. destruct (k <=? s - cc i j)%nat eqn:G; [|reflexivity].
              apply Nat.leb_le in G. do 2 f_equal. lia.
           ++ pose proof (SP_length i (j - i)).
              assert (nb * (j - i) <= nb * j)%nat by (apply Nat.mul_le_mono_l; lia). lia.
           ++ intros k Hk. rewrite (nth_beyond (SP c i (j - i))) by lia. destruct (_ <=? _)%nat; ring.
        -- rewrite sum_f_zero by (intros; rewrite andb_false_r; reflexivity).
           symmetry. apply nth_beyond.
           pose proof (SP_length i (S (j - i))) as HL. rewrite SP_S in HL.
           replace (i + (j - i))%nat with j in HL by lia. apply Nat.ltb_ge in E2.
           replace (S (j - i)) with (j + 1 - i)%nat in HL by lia. lia.
      * apply sum_f_zero. intros k _. apply Nat.leb_gt in E1.
        replace (k + cc i j <=? s)%nat with false by (symmetry; apply Nat.leb_gt; lia). reflexivity.
Qed.

Lemma presum_shifted (r P : list Z) cc0 s :
  (forall u, coef r u = shifted P cc0 u) -> presum r s = sumZ (firstn (s + 1 - cc0) P).
Proof.
  intros H. induction s.
  - rewrite presum_0, H. unfold shifted. destruct cc0 as [|cc0]; cbn [Nat.leb].
    + cbn [Nat.sub Nat.add]. rewrite firstn_S_sum. cbn [firstn]. rewrite sumZ_nil. ring.
    + replace (0 + 1 - S cc0)%nat with 0%nat by lia. reflexivity.
  - rewrite presum_S, IHs, H. unfold shifted.
    destruct (cc0 <=? S s)%nat eqn:E.
    + apply Nat.leb_le in E. replace (S s + 1 - cc0)%nat with (S (s + 1 - cc0)) by lia.
      rewrite firstn_S_sum. do 2 f_equal. lia.
    + apply Nat.leb_gt in E. replace (S s + 1 - cc0)%nat with 0%nat by lia.
      replace (s + 1 - cc0)%nat with 0%nat by lia. ring.
Qed.

Lemma csum_row_ok i j r : (i <= j < nq)%nat -> Aok i j r ->
  Acsok i j (csum_row r (nb * (j + 1) + cc i j) nlen).
Proof.
  intros Hij [Hd [Hl Hc]]. unfold Acsok, csum_row. cbn [rden rnum].
  pose proof (cc_bound i j Hij) as Hb. pose proof n_lt_nlen as Hn.
  assert (Hm : (nb * (j + 1) + cc i j <= nlen)%nat).
  { assert (nb * (j + 1) <= nb * nq)%nat by (apply Nat.mul_le_mono_l; lia).
    assert (cc i j <= nq * off)%nat.
    { unfold cc, span_c. rewrite (Nat.mul_comm nq off). apply Nat.mul_le_mono_l. lia. }
    unfold n in Hn. lia. }
  split; [exact Hd|]. split.
  - rewrite app_length, cumsum_length, firstn_length, repeat_length. lia.
  - intros s Hs. destruct (Nat.lt_ge_cases s (nb * (j + 1) + cc i j)) as [Hlt|Hge].
    + rewrite app_nth1 by (rewrite cumsum_length, firstn_length; lia).
      rewrite nth_cumsum by (rewrite firstn_length; lia).
      rewrite presum_firstn by lia. rewrite Z.add_0_l. apply presum_shifted. exact Hc.
    + rewrite app_nth2 by (rewrite cumsum_length, firstn_length; lia).
      rewrite nth_repeat_lt by (rewrite cumsum_length, firstn_length; lia).
      rewrite Hd. rewrite sumZ_firstn_all.
      * symmetry. apply SP_sum. lia.
      * pose proof (SP_length i (j + 1 - i)).
        assert (nb * (j + 1 - i) <= nb * (j + 1))%nat by (apply Nat.mul_le_mono_l; lia). lia.
Qed.

(* ------------------------------------------------------------------ the double loop filling A and A_csum *)
Definition ABok (st : arr2 * arr2) : Prop :=
  forall i j, (i <= j < nq)%nat -> Aok i j (fst st i j) /\ Acsok i j (snd st i j).

Lemma aset2_same a i j r : aset2 a i j r i j = r.
Proof. unfold aset2. rewrite !Nat.eqb_refl. reflexivity. Qed.
Lemma aset2_other a i j r i' j' : (i', j') <> (i, j) -> aset2 a i j r i' j' = a i' j'.
Proof.
  intros H. unfold aset2. destruct (Nat.eqb_spec i' i); destruct (Nat.eqb_spec j' j); cbn; try reflexivity.
  subst. congruence.
Qed.

Lemma build_A_ok (Acs0 : arr2) : ABok (build_A fixed F nq nb off nlen Acs0).
Proof.
  unfold build_A.
  set (fin := fun i (st : arr2 * arr2) j =>
         let r := build_A_row fixed (fst st) F nq nb off nlen i j in
         (aset2 (fst st) i j r, aset2 (snd st) i j (csum_row r (nb * (j + 1) + span_c nq off i j) nlen))).
  set (Inv := fun (i0 j0 : nat) (st : arr2 * arr2) =>
         forall i j, ((i < i0 /\ i <= j < nq) \/ (i = i0 /\ i0 <= j < j0))%nat ->
                     Aok i j (fst st i j) /\ Acsok i j (snd st i j)).
  assert (Hin : forall i0 st, (i0 < nq)%nat -> Inv i0 i0 st ->
                Inv (S i0) (S i0) (fold_left (fin i0) (seq i0 (nq - i0)) st)).
  { intros i0 st Hi0 H0.
    assert (Inv i0 (i0 + (nq - i0))%nat (fold_left (fin i0) (seq i0 (nq - i0)) st)) as H1.
    { apply (fold_seq_inv (fin i0) (fun j st => Inv i0 j st)); [exact H0|].
      intros j st' Hj Hst i j' Hc. unfold fin. cbn [fst snd].
      destruct (Nat.eq_dec i i0) as [Ei|Ei]; [destruct (Nat.eq_dec j' j) as [Ej|Ej]|].
      - subst i j'. rewrite !aset2_same.
        assert (Aok i0 j (build_A_row fixed (fst st') F nq nb off nlen i0 j)) as HA.
        { apply build_A_row_ok; [lia|]. intros Hlt. apply Hst. right. lia. }
        split; [exact HA|]. apply csum_row_ok; [lia|exact HA].
      - rewrite !aset2_other by congruence. apply Hst. lia.
      - rewrite !aset2_other by congruence. apply Hst. lia. }
    intros i j Hc. apply H1. replace (i0 + (nq - i0))%nat with nq by lia. lia. }
  assert (Inv (0 + nq)%nat (0 + nq)%nat
            (fold_left (fun st i => fold_left (fin i) (seq i (nq - i)) st) (seq 0 nq)
                       ((fun _ _ => zero_row nlen) : arr2, Acs0))) as H.
  { apply (fold_seq_inv (fun st i => fold_left (fin i) (seq i (nq - i)) st) (fun i st => Inv i i st)).
    - intros i j Hc. lia.
    - intros i st Hi Hst. apply Hin; [lia|exact Hst]. }
  intros i j Hij. apply H. lia.
Qed.
End Backgrounds.

(* ================================================================== _pairwise_max *)
Lemma prodZ_cons x l : prodZ (x :: l) = x * prodZ l.
Proof. reflexivity. Qed.
Lemma hd_nth (l : list Z) : hd 0 l = coef l 0.
Proof. destruct l; reflexivity. Qed.

Lemma pm_cells_spec : forall n x y ycs X0,
  (n <= length x)%nat -> (n <= length y)%nat -> (n <= length ycs)%nat ->
  length (pm_cells x y ycs X0 n) = n /\
  forall k, (k < n)%nat ->
    coef (pm_cells x y ycs X0 n) k
    = coef x k * coef ycs k + coef y k * (X0 + presum x k) - coef x k * coef y k.
Proof.
  induction n; intros x y ycs X0 Hx Hy Hc.
  - split; [reflexivity|]. intros; lia.
  - destruct x as [|xi x]; [cbn in Hx; lia|]. destruct y as [|yi y]; [cbn in Hy; lia|].
    destruct ycs as [|ci ycs]; [cbn in Hc; lia|]. cbn [length] in *. cbn [pm_cells].
    destruct (IHn x y ycs (X0 + xi) ltac:(lia) ltac:(lia) ltac:(lia)) as [IHl IHk].
    split; [cbn [length]; rewrite IHl; reflexivity|].
    intros [|k] Hk; cbn [nth].
    + rewrite presum_0. cbn [nth]. ring.
    + rewrite IHk by lia. unfold presum. rewrite firstn_cons, sumZ_cons. ring.
Qed.

(* pairwise_max_cdf: the recurrence yields the pmf whose cdf is the product of the two cdfs *)
Lemma pairwise_max_cdf n x y ycs :
  (n <= length x)%nat -> (n <= length y)%nat -> (n <= length ycs)%nat ->
  (forall k, (k < n)%nat -> coef ycs k = presum y k) ->
  forall k, (k < n)%nat -> presum (pm_cells x y ycs 0 n) k = presum x k * coef ycs k.
Proof.
  intros Hx Hy Hc Hcs. destruct (pm_cells_spec n x y ycs 0 Hx Hy Hc) as [_ Hz].
  induction k; intros Hk.
  - rewrite presum_0, Hz by lia. rewrite !presum_0, Hcs, presum_0 by lia. ring.
  - rewrite presum_S, IHk, Hz by lia. rewrite !(Hcs (S k)), (Hcs k) by lia.
    rewrite !presum_S. ring.
Qed.

(* ================================================================== the rows of B *)
Section BLoops.
Variable c : call.
Hypothesis W : WF c.
Let t := c_t c.
Let q := c_q c.
Let nq := q_nq q.
Let nb := t_nbins t.
Let off := q_off q.
Let nlen := nlen_of t (c_d c).
Let n := (nb * nq + nq * off)%nat.
Variables A Acs : arr2.
Hypothesis HAB : ABok c (A, Acs).

Definition span := (nat * nat)%type.
Definition valid (sp : span) : Prop := (fst sp <= snd sp < nq)%nat.
Definition slen (sp : span) : nat := (snd sp + 1 - fst sp)%nat.
Definition denL (L : list span) : Z := prodZ (map (fun sp => D c ^ Z.of_nat (slen sp)) L).
Definition cdfL (L : list span) (k : nat) : Z :=
  prodZ (map (fun sp => coef (rnum (Acs (fst sp) (snd sp))) k) L).

Lemma A_props sp : valid sp ->
  rden (A (fst sp) (snd sp)) = D c ^ Z.of_nat (slen sp) /\
  rden (Acs (fst sp) (snd sp)) = D c ^ Z.of_nat (slen sp) /\
  length (rnum (A (fst sp) (snd sp))) = nlen /\ length (rnum (Acs (fst sp) (snd sp))) = nlen /\
  (forall k, 0 <= coef (rnum (A (fst sp) (snd sp))) k) /\
  (forall k, (k < nlen)%nat -> coef (rnum (Acs (fst sp) (snd sp))) k = presum (rnum (A (fst sp) (snd sp))) k).
Proof.
  intros Hv. destruct (HAB (fst sp) (snd sp) Hv) as [[Hd [Hl Hc]] [Hd' [Hl' Hc']]]. cbn [fst snd] in *.
  repeat split; auto.
  - intros k. rewrite Hc. unfold shifted. destruct (_ <=? _)%nat; [apply (SP_nonneg c W)|lia].
  - intros k Hk. rewrite Hc' by exact Hk. symmetry. apply (presum_shifted c). exact Hc.
Qed.
Lemma D_pow_pos m : 0 < D c ^ Z.of_nat m.
Proof. apply Z.pow_pos_nonneg; [pose proof (D_pos c W); lia | lia]. Qed.
Lemma denL_pos L : 0 < denL L.
Proof.
  induction L as [|sp L IH]; unfold denL in *; cbn [map prodZ fold_right]; [lia|].
  apply Z.mul_pos_pos; [apply D_pow_pos | exact IH].
Qed.

Definition is_sentinel (r : row) : Prop := hd 0 (rnum r) = - rden r.
Definition Brow_ok (L : list span) (r : row) : Prop :=
  rden r = denL L /\ (n <= length (rnum r))%nat /\ 0 <= coef (rnum r) 0 /\
  forall k, (k < n)%nat -> presum (rnum r) k = cdfL L k.
Definition Bst (L : list span) (r : row) : Prop :=
  (L = [] /\ is_sentinel r) \/ (L <> [] /\ Brow_ok L r).

Lemma n_pos : (1 <= n)%nat.
Proof.
  unfold n. pose proof (wf_nq c W) as H1. pose proof (wf_nb c W) as H2.
  change (1 <= nq)%nat in H1. change (1 <= nb)%nat in H2. nia.
Qed.

Lemma sentinel_Bst : Bst [] (sentinel nlen).
Proof.
  left. split; [reflexivity|]. unfold is_sentinel, sentinel. cbn [rnum rden].
  pose proof (n_lt_nlen c W) as H. change (n < nlen)%nat in H. destruct nlen; [lia|]. reflexivity.
Qed.

(* one call _pairwise_max(x, A[i,j], A_csum[i,j], z, n) *)
Lemma pm_step L x sp z : valid sp -> Bst L x ->
  Bst (sp :: L) (pmA A Acs n x (fst sp) (snd sp) z).
Proof.
  intros Hv Hx. destruct (A_props sp Hv) as [Hd [Hd' [Hl [Hl' [Hnn Hcs]]]]].
  pose proof (n_lt_nlen c W) as Hn. change (n < nlen)%nat in Hn.
  right. split; [discriminate|]. unfold pmA, pairwise_max.
  destruct Hx as [[-> Hs]|[Hne [Hxd [Hxl [Hx0 Hxp]]]]].
  - unfold is_sentinel in Hs. rewrite Hs, Z.eqb_refl.
    split; [|split; [|split]].
    + rewrite Hd. unfold denL. cbn [map]; rewrite ?prodZ_cons; cbn [prodZ fold_right]; ring.
    + lia.
    + apply Hnn.
    + intros k Hk. unfold cdfL. cbn [map]; rewrite ?prodZ_cons; cbn [prodZ fold_right]; rewrite Hcs by lia; ring.
  - assert (hd 0 (rnum x) =? - rden x = false) as ->.
    { rewrite hd_nth, Hxd. pose proof (denL_pos L). lia. }
    unfold Brow_ok. cbn [rden rnum].
    destruct (pm_cells_spec n (rnum x) (rnum (A (fst sp) (snd sp))) (rnum (Acs (fst sp) (snd sp))) 0
                ltac:(lia) ltac:(lia) ltac:(lia)) as [Hzl Hzk].
    split; [|split; [|split]].
    + rewrite Hxd, Hd. unfold denL. cbn [map]; rewrite ?prodZ_cons. ring.
    + rewrite app_length, Hzl. lia.
    + pose proof n_pos. rewrite app_nth1 by lia. rewrite Hzk by lia.
      rewrite presum_0, (Hcs 0%nat) by lia. rewrite presum_0.
      pose proof (Hnn 0%nat). nia.
    + intros k Hk. rewrite presum_app_l by lia.
      rewrite pairwise_max_cdf; try lia.
      * rewrite Hxp by exact Hk. unfold cdfL. cbn [map]; rewrite ?prodZ_cons; cbn [prodZ fold_right]; ring.
      * intros k' Hk'. apply Hcs. lia.
Qed.

(* a run of calls on one row variable *)
Lemma pm_fold (sps : list span) : forall L r,
  (forall sp, In sp sps -> valid sp) -> Bst L r ->
  Bst (rev sps ++ L) (fold_left (fun r sp => pmA A Acs n r (fst sp) (snd sp) r) sps r).
Proof.
  induction sps as [|sp sps IH]; intros L r Hv Hr; cbn [fold_left rev app]; [exact Hr|].
  rewrite <- app_assoc. cbn [app]. apply IH.
  - intros sp' Hin. apply Hv. right; exact Hin.
  - apply pm_step; [apply Hv; left; reflexivity | exact Hr].
Qed.

(* ------------------------------------------------------------------ the three loops *)
Fixpoint L1 (i : nat) : list span :=
  match i with
  | O => []
  | S i' => ((nq - S i')%nat, (nq - 1)%nat) :: (0%nat, i') :: L1 i'
  end.
Definition L2 (m : nat) : list span := repeat (0%nat, (nq - 1)%nat) m ++ L1 (nq - 1).
Definition sps3a (i : nat) : list span := map (fun j => (j, (j + i - 1)%nat)) (seq 0 (nq - i + 1)).
Definition sps3b (i : nat) : list span :=
  flat_map (fun j => [(0%nat, j); ((nq - 1 - j)%nat, (nq - 1)%nat)]) (seq 0 (i - 1)).
Definition L3 (i : nat) : list span := rev (sps3b i) ++ rev (sps3a i).
(* the spans folded into B[nt] by the code *)
Definition Lfin (nt : nat) : list span := if (nt <? nq)%nat then L3 nt else L2 (nt - nq + 1).

Lemma aset_same {T} (a : nat -> T) i r : aset a i r i = r.
Proof. unfold aset. rewrite Nat.eqb_refl. reflexivity. Qed.
Lemma aset_other {T} (a : nat -> T) i r k : k <> i -> aset a i r k = a k.
Proof. intros H. unfold aset. apply Nat.eqb_neq in H. rewrite H. reflexivity. Qed.

Lemma loop1_ok tmax (B0 : arr) : Bst [] (B0 0%nat) ->
  let m1 := Nat.min nq (tmax + 1) in
  let B := loop1 A Acs nq tmax n B0 in
  (forall i, (i < m1)%nat -> Bst (L1 i) (B i)) /\ (forall i, (m1 <= i)%nat -> (1 <= i)%nat -> B i = B0 i).
Proof.
  intros H0 m1 B. unfold B, loop1. fold m1.
  set (f1 := fun (B : arr) i =>
     let b1 := pmA A Acs n (B (i - 1)%nat) 0 (i - 1) (B i) in
     let b2 := pmA A Acs n b1 (nq - i) (nq - 1) b1 in aset B i b2).
  assert (G : (forall i, (i < 1 + (m1 - 1))%nat -> Bst (L1 i) (fold_left f1 (seq 1 (m1 - 1)) B0 i)) /\
              (forall i, (1 + (m1 - 1) <= i)%nat -> (1 <= i)%nat -> fold_left f1 (seq 1 (m1 - 1)) B0 i = B0 i)).
  { apply (fold_seq_inv f1 (fun k B => (forall i, (i < k)%nat -> Bst (L1 i) (B i)) /\
                                      (forall i, (k <= i)%nat -> (1 <= i)%nat -> B i = B0 i))).
    - split; [|reflexivity]. intros i Hi. replace i with 0%nat by lia. exact H0.
    - intros k B' Hk [Hlt Hge]. unfold f1. cbn zeta. split.
      + intros i Hi. destruct (Nat.eq_dec i k) as [->|Ne].
        * rewrite aset_same. destruct k as [|k']; [lia|].
          replace (S k' - 1)%nat with k' by lia. cbn [L1].
          apply (pm_step ((0%nat, k') :: L1 k') _ ((nq - S k')%nat, (nq - 1)%nat)); [unfold valid; cbn; lia|].
          apply (pm_step (L1 k') _ (0%nat, k')); [unfold valid; cbn; lia|].
          apply Hlt. lia.
        * rewrite aset_other by exact Ne. apply Hlt. lia.
      + intros i Hi H1. rewrite aset_other by lia. apply Hge; lia. }
  destruct G as [G1 G2]. split.
  - intros i Hi. apply G1. lia.
  - intros i Hi H1. apply G2; lia.
Qed.

Lemma loop2_ok tmax (B : arr) : Bst (L1 (nq - 1)) (B (nq - 1)%nat) ->
  let B' := loop2 A Acs nq tmax n B in
  (forall i, (nq <= i <= tmax)%nat -> Bst (L2 (i - nq + 1)) (B' i)) /\ (forall i, (i < nq)%nat -> B' i = B i).
Proof.
  intros H0 B'. unfold B', loop2.
  pose proof (wf_nq c W) as Hnq. change (1 <= nq)%nat in Hnq.
  assert (G : (forall i, (nq <= i < nq + (tmax + 1 - nq))%nat ->
                 Bst (L2 (i - nq + 1)) (fold_left (fun B i => aset B i (pmA A Acs n (B (i - 1)%nat) 0 (nq - 1) (B i)))
                                                  (seq nq (tmax + 1 - nq)) B i)) /\
              (forall i, (i < nq)%nat -> fold_left (fun B i => aset B i (pmA A Acs n (B (i - 1)%nat) 0 (nq - 1) (B i)))
                                                   (seq nq (tmax + 1 - nq)) B i = B i)).
  { apply (fold_seq_inv _ (fun k B' => (forall i, (nq <= i < k)%nat -> Bst (L2 (i - nq + 1)) (B' i)) /\
                                        (forall i, (i < nq)%nat -> B' i = B i))).
    - split; [intros; lia|reflexivity].
    - intros k B'' Hk [Hin Hlow]. split.
      + intros i Hi. destruct (Nat.eq_dec i k) as [->|Ne].
        * rewrite aset_same.
          replace (L2 (k - nq + 1)) with ((0%nat, (nq - 1)%nat) :: L2 (k - nq)).
          2:{ unfold L2. replace (k - nq + 1)%nat with (S (k - nq)) by lia. reflexivity. }
          apply (pm_step (L2 (k - nq)) _ (0%nat, (nq - 1)%nat)); [unfold valid; cbn; lia|].
          destruct (Nat.eq_dec k nq) as [->|Nk].
          -- rewrite Hlow by lia. replace (nq - nq)%nat with 0%nat by lia. exact H0.
          -- replace (k - nq)%nat with (k - 1 - nq + 1)%nat by lia. apply Hin. lia.
        * rewrite aset_other by exact Ne. apply Hin. lia.
      + intros i Hi. rewrite aset_other by lia. apply Hlow. exact Hi. }
  destruct G as [G1 G2]. split; [|exact G2]. intros i Hi. apply G1. lia.
Qed.

Lemma fold_left_map_arg {S T U} (g : S -> U -> S) (s : T -> U) (l : list T) : forall r,
  fold_left (fun r j => g r (s j)) l r = fold_left g (map s l) r.
Proof. induction l; intros; cbn; auto. Qed.
Lemma fold_left_two {S T U} (g : S -> U -> S) (s1 s2 : T -> U) (l : list T) : forall r,
  fold_left (fun r j => g (g r (s1 j)) (s2 j)) l r = fold_left g (flat_map (fun j => [s1 j; s2 j]) l) r.
Proof. induction l; intros; cbn; auto. Qed.

Lemma loop3_row_ok i : (1 <= i < nq)%nat -> Bst (L3 i) (loop3_row A Acs nq n nlen i).
Proof.
  intros Hi. unfold loop3_row.
  set (g := fun (r : row) (sp : span) => pmA A Acs n r (fst sp) (snd sp) r).
  change (fold_left (fun r j => pmA A Acs n r j (j + i - 1) r) (seq 0 (nq - i + 1)) (sentinel nlen))
    with (fold_left (fun r j => g r ((fun j => (j, (j + i - 1)%nat)) j)) (seq 0 (nq - i + 1)) (sentinel nlen)).
  rewrite fold_left_map_arg.
  match goal with |- Bst _ (fold_left ?f ?l ?r0) =>
    change (fold_left f l r0) with
      (fold_left (fun r j => g (g r ((fun j => (0%nat, j)) j)) ((fun j => ((nq - 1 - j)%nat, (nq - 1)%nat)) j)) l r0) end.
  rewrite fold_left_two. rewrite <- fold_left_app.
  fold (sps3a i). fold (sps3b i).
  replace (L3 i) with (rev (sps3a i ++ sps3b i) ++ []) by (rewrite rev_app_distr, app_nil_r; reflexivity).
  apply pm_fold; [|apply sentinel_Bst].
  intros sp Hin. apply in_app_or in Hin as [Hin|Hin].
  - unfold sps3a in Hin. apply in_map_iff in Hin as [j [<- Hj]]. apply in_seq in Hj. unfold valid; cbn. lia.
  - unfold sps3b in Hin. apply in_flat_map in Hin as [j [Hj Hin]]. apply in_seq in Hj.
    destruct Hin as [<-|[<-|[]]]; unfold valid; cbn; lia.
Qed.

Lemma L3_nonempty i : (1 <= i < nq)%nat -> L3 i <> [].
Proof.
  intros Hi E. unfold L3 in E. apply app_eq_nil in E as [_ E].
  apply (f_equal (@length _)) in E. rewrite rev_length in E. unfold sps3a in E.
  rewrite map_length, seq_length in E. cbn in E. lia.
Qed.
Lemma L2_nonempty m : (1 <= m)%nat -> L2 m <> [].
Proof. intros Hm E. unfold L2 in E. destruct m; [lia|]. discriminate. Qed.

(* B_rows: after the three loops, row nt holds the max over exactly the spans Lfin nt *)
Lemma B_rows_ok tmax (B0 : arr) nt : (1 <= nt <= tmax)%nat ->
  Brow_ok (Lfin nt)
    (loop3 A Acs nq tmax n nlen (loop2 A Acs nq tmax n (loop1 A Acs nq tmax n (aset B0 0 (sentinel nlen)))) nt).
Proof.
  intros Hnt.
  pose proof (wf_nq c W) as Hnq. change (1 <= nq)%nat in Hnq.
  set (Bs := aset B0 0 (sentinel nlen)).
  assert (Hs : Bst [] (Bs 0%nat)) by (unfold Bs; rewrite aset_same; apply sentinel_Bst).
  destruct (loop1_ok tmax Bs Hs) as [H1a H1b]. cbn zeta in H1a, H1b.
  set (B1 := loop1 A Acs nq tmax n Bs) in *.
  set (m1 := Nat.min nq (tmax + 1)) in *.
  (* loop3 only rewrites rows 1..m1-1 *)
  assert (H3 : forall B k, loop3 A Acs nq tmax n nlen B k
                 = if (1 <=? k)%nat && (k <? m1)%nat then loop3_row A Acs nq n nlen k else B k).
  { intros B k. unfold loop3. fold m1.
    assert (G : forall m a B, fold_left (fun B i => aset B i (loop3_row A Acs nq n nlen i)) (seq a m) B k
                = if (a <=? k)%nat && (k <? a + m)%nat then loop3_row A Acs nq n nlen k else B k).
    { induction m; intros a B'; cbn [seq fold_left].
      - replace ((a <=? k)%nat && (k <? a + 0)%nat) with false by lia. reflexivity.
      - rewrite IHm. destruct (Nat.eq_dec k a) as [->|Ne].
        + replace ((S a <=? a)%nat && (a <? S a + m)%nat) with false by lia.
          replace ((a <=? a)%nat && (a <? a + S m)%nat) with true by lia.
          rewrite aset_same. reflexivity.
        + rewrite aset_other by exact Ne.
          replace ((S a <=? k)%nat && (k <? S a + m)%nat) with ((a <=? k)%nat && (k <? a + S m)%nat) by lia.
          reflexivity. }
    rewrite G. replace ((1 <=? k)%nat && (k <? 1 + (m1 - 1))%nat) with ((1 <=? k)%nat && (k <? m1)%nat) by lia.
    reflexivity. }
  rewrite H3. unfold Lfin.
  destruct (Nat.ltb_spec nt nq) as [Hlt|Hge].
  - assert (nt < m1)%nat by (unfold m1; lia).
    replace ((1 <=? nt)%nat && (nt <? m1)%nat) with true by lia.
    destruct (loop3_row_ok nt ltac:(lia)) as [[E _]|[_ Hok]]; [|exact Hok].
    exfalso. apply (L3_nonempty nt); [lia|exact E].
  - replace ((1 <=? nt)%nat && (nt <? m1)%nat) with false by (unfold m1; lia).
    assert (Hm1 : m1 = nq) by (unfold m1; lia).
    assert (Hb : Bst (L1 (nq - 1)) (B1 (nq - 1)%nat)) by (apply H1a; lia).
    destruct (loop2_ok tmax B1 Hb) as [H2a _]. cbn zeta in H2a.
    destruct (H2a nt ltac:(lia)) as [[E _]|[_ Hok]]; [|exact Hok].
    exfalso. apply (L2_nonempty (nt - nq + 1)); [lia|exact E].
Qed.
End BLoops.

(* ================================================================== spans_enumerated *)
From Coq Require Import Permutation.

Lemma perm_eq {T} (l l' : list T) : l = l' -> Permutation l l'.
Proof. intros ->. reflexivity. Qed.
Lemma prodZ_perm (f : (nat * nat) -> Z) l l' : Permutation l l' -> prodZ (map f l) = prodZ (map f l').
Proof.
  induction 1; cbn [map]; rewrite ?prodZ_cons; try congruence; try ring.
Qed.
Lemma seq_as_map a m : seq a m = map (Nat.add a) (seq 0 m).
Proof.
  induction a; [symmetry; apply map_id|].
  rewrite <- seq_shift, IHa, map_map. reflexivity.
Qed.
Lemma map_seq_shift {T} (g : nat -> T) a m : map g (seq a m) = map (fun k => g (a + k)%nat) (seq 0 m).
Proof. rewrite seq_as_map, map_map. reflexivity. Qed.
Lemma map_seq_reflect {T} (f : nat -> T) m :
  Permutation (map (fun k => f (m - k)%nat) (seq 0 m)) (map f (seq 1 m)).
Proof.
  induction m; [constructor|].
  rewrite (seq_S m 1), map_app. cbn [seq map]. cbn [Nat.add]. rewrite Nat.sub_0_r.
  apply Permutation_cons_app. rewrite app_nil_r.
  replace (map (fun k => f (S m - k)%nat) (seq 1 m)) with (map (fun k => f (m - k)%nat) (seq 0 m)); [exact IHm|].
  rewrite <- seq_shift, map_map. reflexivity.
Qed.
Lemma flat_map_two_perm {T} (s1 s2 : nat -> T) l :
  Permutation (flat_map (fun j => [s1 j; s2 j]) l) (map s1 l ++ map s2 l).
Proof.
  induction l as [|x l IH]; [constructor|].
  cbn [flat_map map app]. constructor. apply Permutation_cons_app. exact IH.
Qed.

Section Spans.
Variable c : call.
Hypothesis W : WF c.
Let nq := q_nq (c_q c).

(* overlap interval (first, last aligned query column) of alignment k, i.e. relative offset k-nq+1 *)
Definition span_of (nt k : nat) : span := ((nq - 1 - k)%nat, Nat.min (nq - 1) (nt + nq - 2 - k)).

Lemma L1_perm m :
  Permutation (L1 c m) (map (fun i => ((nq - i)%nat, (nq - 1)%nat)) (seq 1 m) ++ map (fun i => (0%nat, (i - 1)%nat)) (seq 1 m)).
Proof.
  induction m; [constructor|].
  cbn [L1]. fold nq. rewrite (seq_S m 1), !map_app. cbn [map]. cbn [Nat.add].
  replace (S m - 1)%nat with m by lia.
  etransitivity; [|apply Permutation_app; apply Permutation_app_comm].
  cbn [app]. constructor. etransitivity; [|apply Permutation_middle]. constructor. exact IHm.
Qed.

Lemma repeat_as_map {T} (v : T) m a : repeat v m = map (fun _ => v) (seq a m).
Proof. revert a; induction m; intros a; cbn [repeat seq map]; [reflexivity|]. f_equal. apply IHm. Qed.

Lemma seg_sfx_long nt : (1 <= nq <= nt)%nat ->
  Permutation (map (fun i => ((nq - i)%nat, (nq - 1)%nat)) (seq 1 (nq - 1))) (map (span_of nt) (seq 0 (nq - 1))).
Proof.
  intros H. apply perm_eq. rewrite <- seq_shift, map_map. apply map_ext_in.
  intros k Hk. apply in_seq in Hk. unfold span_of. f_equal; lia.
Qed.
Lemma seg_full_long nt : (1 <= nq <= nt)%nat ->
  Permutation (repeat (0%nat, (nq - 1)%nat) (nt - nq + 1)) (map (span_of nt) (seq (nq - 1) (nt - nq + 1))).
Proof.
  intros H. apply perm_eq. rewrite (repeat_as_map _ _ (nq - 1)). apply map_ext_in.
  intros k Hk. apply in_seq in Hk. unfold span_of. f_equal; lia.
Qed.
Lemma seg_pfx_long nt : (1 <= nq <= nt)%nat ->
  Permutation (map (fun i => (0%nat, (i - 1)%nat)) (seq 1 (nq - 1)))
              (map (span_of nt) (seq (nq - 1 + (nt - nq + 1)) (nq - 1))).
Proof.
  intros H. rewrite (map_seq_shift (span_of nt)). symmetry.
  etransitivity; [|apply (map_seq_reflect (fun i => (0%nat, (i - 1)%nat)) (nq - 1))].
  apply perm_eq. apply map_ext_in. intros k Hk. apply in_seq in Hk. unfold span_of. f_equal; lia.
Qed.
Lemma seg_sfx_short nt : (1 <= nt < nq)%nat ->
  Permutation (map (fun j => ((nq - 1 - j)%nat, (nq - 1)%nat)) (seq 0 (nt - 1))) (map (span_of nt) (seq 0 (nt - 1))).
Proof.
  intros H. apply perm_eq. apply map_ext_in.
  intros k Hk. apply in_seq in Hk. unfold span_of. f_equal; lia.
Qed.
Lemma seg_mid_short nt : (1 <= nt < nq)%nat ->
  Permutation (map (fun j => (j, (j + nt - 1)%nat)) (seq 0 (nq - nt + 1)))
              (map (span_of nt) (seq (nt - 1) (nq - nt + 1))).
Proof.
  intros H. rewrite (map_seq_shift (span_of nt)). symmetry.
  etransitivity; [|etransitivity;
     [apply (map_seq_reflect (fun j => ((j - 1)%nat, (j - 1 + nt - 1)%nat)) (nq - nt + 1))|]].
  - apply perm_eq. apply map_ext_in. intros k Hk. apply in_seq in Hk. unfold span_of. f_equal; lia.
  - apply perm_eq. rewrite <- seq_shift, map_map. apply map_ext. intros j. f_equal; lia.
Qed.
Lemma seg_pfx_short nt : (1 <= nt < nq)%nat ->
  Permutation (map (fun j => (0%nat, j)) (seq 0 (nt - 1)))
              (map (span_of nt) (seq (nt - 1 + (nq - nt + 1)) (nt - 1))).
Proof.
  intros H. rewrite (map_seq_shift (span_of nt)). symmetry.
  etransitivity; [|etransitivity; [apply (map_seq_reflect (fun j => (0%nat, (j - 1)%nat)) (nt - 1))|]].
  - apply perm_eq. apply map_ext_in. intros k Hk. apply in_seq in Hk. unfold span_of. f_equal; lia.
  - apply perm_eq. rewrite <- seq_shift, map_map. apply map_ext. intros j. f_equal; lia.
Qed.

(* for all nq, nt >= 1: the spans folded into B[nt] are exactly the overlap intervals of the
   alignments k = 0 .. nt+nq-2 *)
Lemma spans_enumerated nt : (1 <= nt)%nat ->
  Permutation (Lfin c nt) (map (span_of nt) (seq 0 (nt + nq - 1))).
Proof.
  intros Hnt. pose proof (wf_nq c W) as Hnq. change (1 <= nq)%nat in Hnq.
  unfold Lfin. fold nq. destruct (Nat.ltb_spec nt nq) as [Hlt|Hge].
  - (* target shorter than the query *)
    replace (nt + nq - 1)%nat with ((nt - 1) + ((nq - nt + 1) + (nt - 1)))%nat by lia.
    rewrite (seq_app (nt - 1) ((nq - nt + 1) + (nt - 1)) 0), (seq_app (nq - nt + 1) (nt - 1) (0 + (nt - 1))), !map_app.
    rewrite !Nat.add_0_l. unfold L3, sps3a, sps3b. fold nq.
    refine (Permutation_trans _ (Permutation_app (seg_sfx_short nt ltac:(lia))
               (Permutation_app (seg_mid_short nt ltac:(lia)) (seg_pfx_short nt ltac:(lia))))).
    etransitivity; [apply Permutation_app; symmetry; apply Permutation_rev|].
    etransitivity; [apply Permutation_app; [apply flat_map_two_perm|reflexivity]|].
    rewrite <- app_assoc.
    etransitivity; [apply Permutation_app_swap_app|].
    apply Permutation_app; [reflexivity|]. apply Permutation_app_comm.
  - (* target at least as long as the query *)
    replace (nt + nq - 1)%nat with ((nq - 1) + ((nt - nq + 1) + (nq - 1)))%nat by lia.
    rewrite (seq_app (nq - 1) ((nt - nq + 1) + (nq - 1)) 0), (seq_app (nt - nq + 1) (nq - 1) (0 + (nq - 1))), !map_app.
    rewrite !Nat.add_0_l. unfold L2. fold nq.
    refine (Permutation_trans _ (Permutation_app (seg_sfx_long nt ltac:(lia))
               (Permutation_app (seg_full_long nt ltac:(lia)) (seg_pfx_long nt ltac:(lia))))).
    etransitivity; [apply Permutation_app; [reflexivity|apply L1_perm]|].
    apply Permutation_app_swap_app.
Qed.
End Spans.

(* ================================================================== the link to the spec's per-offset null *)
Lemma fold_if_false {S} (p : nat -> bool) (g : S -> nat -> S) l : forall a,
  (forall i, In i l -> p i = false) -> fold_left (fun acc i => if p i then g acc i else acc) l a = a.
Proof.
  induction l as [|x l IH]; intros a H; cbn [fold_left]; [reflexivity|].
  rewrite (H x) by (left; reflexivity). apply IH. intros; apply H; right; assumption.
Qed.
Lemma fold_if_true {S} (p : nat -> bool) (g : S -> nat -> S) l : forall a,
  (forall i, In i l -> p i = true) -> fold_left (fun acc i => if p i then g acc i else acc) l a = fold_left g l a.
Proof.
  induction l as [|x l IH]; intros a H; cbn [fold_left]; [reflexivity|].
  rewrite (H x) by (left; reflexivity). apply IH. intros; apply H; right; assumption.
Qed.
Lemma filter_false {T} (p : T -> bool) l : (forall i, In i l -> p i = false) -> filter p l = [].
Proof.
  induction l as [|x l IH]; intros H; cbn [filter]; [reflexivity|].
  rewrite (H x) by (left; reflexivity). apply IH. intros; apply H; right; assumption.
Qed.
Lemma filter_true {T} (p : T -> bool) l : (forall i, In i l -> p i = true) -> filter p l = l.
Proof.
  induction l as [|x l IH]; intros H; cbn [filter]; [reflexivity|].
  rewrite (H x) by (left; reflexivity). f_equal. apply IH. intros; apply H; right; assumption.
Qed.
Lemma nth_map_seq_gen {T} (g : nat -> T) a m v d : (v < m)%nat -> nth v (map g (seq a m)) d = g (a + v)%nat.
Proof.
  intros H. rewrite nth_indep with (d' := g 0%nat) by (rewrite map_length, seq_length; lia).
  rewrite (map_nth g), seq_nth by lia. reflexivity.
Qed.

Section NullLink.
Variable c : call.
Hypothesis W : WF c.
Let t := c_t c.
Let q := c_q c.
Let nq := q_nq q.
Let nb := t_nbins t.
Let off := q_off q.
Let nlen := nlen_of t (c_d c).
Let n := (nb * nq + nq * off)%nat.

Definition o_of (k : nat) : Z := Z.of_nat k - Z.of_nat nq + 1.

Lemma offsets_eq nt : offsets c nt = map o_of (seq 0 (nt + nq - 1)).
Proof. reflexivity. Qed.

Section OneAlignment.
Variables nt k : nat.
Hypothesis Hnt : (1 <= nt)%nat.
Hypothesis Hk : (k < nt + nq - 1)%nat.
Let i0 := fst (span_of c nt k).
Let j0 := snd (span_of c nt k).

Lemma span_valid : (i0 <= j0 < nq)%nat.
Proof.
  pose proof (wf_nq c W) as Hnq. change (1 <= nq)%nat in Hnq.
  unfold i0, j0, span_of. cbn [fst snd]. fold q nq. lia.
Qed.
Lemma aligned_interval i : (i < nq)%nat -> aligned nt (o_of k) i = (i0 <=? i)%nat && (i <=? j0)%nat.
Proof.
  intros Hi. unfold aligned, o_of, i0, j0, span_of. cbn [fst snd]. fold q nq. lia.
Qed.
Lemma split_qcols : qcols c = seq 0 i0 ++ seq i0 (j0 + 1 - i0) ++ seq (j0 + 1) (nq - (j0 + 1)).
Proof.
  pose proof span_valid as H. unfold qcols. fold q nq.
  replace nq with (i0 + ((j0 + 1 - i0) + (nq - (j0 + 1))))%nat at 1 by lia.
  rewrite (seq_app i0), (seq_app (j0 + 1 - i0)). cbn [Nat.add]. do 3 f_equal. lia.
Qed.
Lemma null_poly_SP : null_poly c nt (o_of k) = SP c i0 (j0 + 1 - i0).
Proof.
  pose proof span_valid as H. unfold null_poly. rewrite split_qcols, !fold_left_app.
  rewrite fold_if_false.
  2:{ intros i Hi. apply in_seq in Hi. rewrite aligned_interval by lia. lia. }
  rewrite fold_if_true.
  2:{ intros i Hi. apply in_seq in Hi. rewrite aligned_interval by lia. lia. }
  rewrite fold_if_false.
  2:{ intros i Hi. apply in_seq in Hi. rewrite aligned_interval by lia. lia. }
  reflexivity.
Qed.
Lemma overlap_len : overlap_at c nt (o_of k) = Z.of_nat (j0 + 1 - i0).
Proof.
  pose proof span_valid as H. unfold overlap_at. rewrite split_qcols, !filter_app.
  rewrite filter_false.
  2:{ intros i Hi. apply in_seq in Hi. rewrite aligned_interval by lia. lia. }
  rewrite filter_true.
  2:{ intros i Hi. apply in_seq in Hi. rewrite aligned_interval by lia. lia. }
  rewrite filter_false.
  2:{ intros i Hi. apply in_seq in Hi. rewrite aligned_interval by lia. lia. }
  rewrite app_nil_r. cbn [app]. rewrite seq_length. reflexivity.
Qed.
Lemma cdf_den_span : cdf_den c nt (o_of k) = D c ^ Z.of_nat (slen (span_of c nt k)).
Proof. unfold cdf_den. rewrite overlap_len. reflexivity. Qed.
Lemma cc_Z : Z.of_nat (cc c i0 j0) = off_z c * (Z.of_nat nq - Z.of_nat (j0 + 1 - i0)).
Proof.
  pose proof span_valid as H. unfold cc, span_c, off_z. fold q nq off.
  rewrite Nat2Z.inj_mul. f_equal. lia.
Qed.
Lemma cdf_num_span (r : row) s : Acsok c i0 j0 r -> (s < nlen)%nat ->
  coef (rnum r) s = cdf_num c nt (o_of k) (Z.of_nat s).
Proof.
  intros [_ [_ Hc]] Hs. rewrite Hc by exact Hs. unfold cdf_num.
  rewrite null_poly_SP, overlap_len. fold q nq. rewrite <- cc_Z. f_equal. f_equal. lia.
Qed.
End OneAlignment.
End NullLink.

(* ================================================================== B_is_null *)
Section BNull.
Variable c : call.
Hypothesis W : WF c.
Let t := c_t c.
Let q := c_q c.
Let nq := q_nq q.
Let nb := t_nbins t.
Let off := q_off q.
Let nlen := nlen_of t (c_d c).
Let n := (nb * nq + nq * off)%nat.
Let F := stage_f t q.

(* the reference's products over the relative offsets, for target length nt *)
Definition ref_den (nt : nat) : Z := prodZ (map (cdf_den c nt) (offsets c nt)).
Definition ref_cdf (nt : nat) (s : Z) : Z := prodZ (map (fun o => cdf_num c nt o s) (offsets c nt)).

Lemma Lfin_den nt : (1 <= nt)%nat -> denL c (Lfin c nt) = ref_den nt.
Proof.
  intros Hnt. unfold denL, ref_den.
  rewrite (prodZ_perm _ _ _ (spans_enumerated c W nt Hnt)).
  rewrite offsets_eq, !map_map. f_equal. apply map_ext_in. intros k Hk. apply in_seq in Hk.
  symmetry. apply (cdf_den_span c W nt k Hnt). lia.
Qed.
Lemma Lfin_cdf A Acs nt s : ABok c (A, Acs) -> (1 <= nt)%nat -> (s < nlen)%nat ->
  cdfL Acs (Lfin c nt) s = ref_cdf nt (Z.of_nat s).
Proof.
  intros HAB Hnt Hs. unfold cdfL, ref_cdf.
  rewrite (prodZ_perm _ _ _ (spans_enumerated c W nt Hnt)).
  rewrite offsets_eq, !map_map. f_equal. apply map_ext_in. intros k Hk. apply in_seq in Hk.
  assert (Hk' : (k < nt + q_nq (c_q c) - 1)%nat) by lia.
  apply (cdf_num_span c W nt k Hnt Hk'); [|exact Hs].
  apply (HAB _ _ (span_valid c W nt k Hnt Hk')).
Qed.

(* B_is_null: after _p_value_backgrounds, B[nt][s] = 1 - prod over offsets of the offset's null cdf at s *)
Lemma B_is_null (Acs0 : arr2) (B0 : arr) tmax nt s : (1 <= nt <= tmax)%nat -> (s < n)%nat ->
  let B := snd (backgrounds fixed F nq nb off nlen tmax Acs0 B0) in
  rden (B nt) = ref_den nt /\ coef (rnum (B nt)) s = ref_den nt - ref_cdf nt (Z.of_nat s).
Proof.
  intros Hnt Hs. unfold backgrounds. cbn zeta. cbn [snd].
  pose proof (build_A_ok c W Acs0) as HAB. fold t q nq nb off nlen F in HAB.
  set (AA := build_A fixed F nq nb off nlen Acs0) in *.
  assert (HAB' : ABok c (fst AA, snd AA)) by (destruct AA; exact HAB).
  pose proof (B_rows_ok c W (fst AA) (snd AA) HAB' tmax B0 nt Hnt) as [Hd [Hl [_ Hp]]].
  fold t q nq nb off nlen n in Hd, Hl, Hp. fold n.
  set (Bl := loop3 (fst AA) (snd AA) nq tmax n nlen
               (loop2 (fst AA) (snd AA) nq tmax n (loop1 (fst AA) (snd AA) nq tmax n (aset B0 0 (sentinel nlen))))) in *.
  replace (nt <=? tmax)%nat with true by lia.
  rewrite nth_map_seq_gen by lia. cbn [Nat.add]. unfold finalize. cbn [rden rnum].
  pose proof (n_lt_nlen c W) as Hn. change (n < nlen)%nat in Hn.
  rewrite Hd, (Lfin_den nt) by lia. split; [reflexivity|].
  rewrite app_nth1 by (rewrite map_length, cumsum_length, firstn_length; lia).
  rewrite nth_indep with (d' := (fun v => ref_den nt - v) 0)
    by (rewrite map_length, cumsum_length, firstn_length; lia).
  rewrite (map_nth (fun v => ref_den nt - v)).
  rewrite nth_cumsum by (rewrite firstn_length; lia).
  rewrite presum_firstn by lia. rewrite Hp by exact Hs.
  rewrite (Lfin_cdf (fst AA) (snd AA)) by (auto; lia). ring.
Qed.
End BNull.

(* ================================================================== t_sums: the alignment scores *)
Lemma add_fold_nth (v : nat -> list Z) s : forall m a acc,
  length (fold_left (fun ts k => add_at ts k (v k)) (seq a m) acc) = length acc /\
  coef (fold_left (fun ts k => add_at ts k (v k)) (seq a m) acc) s
  = coef acc s + sum_f m (fun k => if ((a + k) <=? s)%nat && (s <? length acc)%nat
                                   then coef (v (a + k)%nat) (s - (a + k)) else 0).
Proof.
  induction m; intros a acc; cbn [seq fold_left].
  - split; [reflexivity|cbn [sum_f]; ring].
  - destruct (IHm (S a) (add_at acc a (v a))) as [IHl IHn].
    split; [rewrite IHl; apply add_at_length|].
    rewrite IHn, add_at_length, nth_add_at, sum_f_front, Nat.add_0_r.
    rewrite <- Z.add_assoc. f_equal. f_equal. apply sum_f_ext. intros k _.
    replace (S a + k)%nat with (a + S k)%nat by lia. reflexivity.
Qed.

(* a window sum re-indexed by a shift *)
Lemma sum_shift_window (H : Z -> Z) (o : Z) m : forall n,
  sum_f n (fun k => if (0 <=? Z.of_nat k - o) && (Z.of_nat k - o <? Z.of_nat m) then H (Z.of_nat k - o) else 0)
  = sum_f m (fun i => if (0 <=? Z.of_nat i + o) && (Z.of_nat i + o <? Z.of_nat n) then H (Z.of_nat i) else 0).
Proof.
  induction n.
  - cbn [sum_f]. symmetry. apply sum_f_zero. intros i _.
    replace ((0 <=? Z.of_nat i + o) && (Z.of_nat i + o <? Z.of_nat 0)) with false by lia. reflexivity.
  - rewrite sum_f_S, IHn.
    rewrite (sum_f_ext m (fun i => if (0 <=? Z.of_nat i + o) && (Z.of_nat i + o <? Z.of_nat (S n)) then H (Z.of_nat i) else 0)
                         (fun i => (if (0 <=? Z.of_nat i + o) && (Z.of_nat i + o <? Z.of_nat n) then H (Z.of_nat i) else 0)
                                   + (if Z.of_nat i + o =? Z.of_nat n then H (Z.of_nat i) else 0))).
    2:{ intros i _.
        destruct (Z.of_nat i + o =? Z.of_nat n) eqn:E.
        - replace ((0 <=? Z.of_nat i + o) && (Z.of_nat i + o <? Z.of_nat (S n))) with true by lia.
          replace ((0 <=? Z.of_nat i + o) && (Z.of_nat i + o <? Z.of_nat n)) with false by lia. ring.
        - replace ((0 <=? Z.of_nat i + o) && (Z.of_nat i + o <? Z.of_nat (S n)))
            with ((0 <=? Z.of_nat i + o) && (Z.of_nat i + o <? Z.of_nat n)) by lia. ring. }
    rewrite sum_f_add. f_equal.
    destruct ((0 <=? Z.of_nat n - o) && (Z.of_nat n - o <? Z.of_nat m)) eqn:E.
    + rewrite (sum_f_single m _ (Z.to_nat (Z.of_nat n - o))).
      * replace (Z.of_nat (Z.to_nat (Z.of_nat n - o)) + o =? Z.of_nat n) with true by lia.
        f_equal. lia.
      * lia.
      * intros i Hi Hne. replace (Z.of_nat i + o =? Z.of_nat n) with false by lia. reflexivity.
    + symmetry. apply sum_f_zero. intros i Hi.
      replace (Z.of_nat i + o =? Z.of_nat n) with false by lia. reflexivity.
Qed.

Lemma sumZ_map_seq (g : nat -> Z) m : sumZ (map g (seq 0 m)) = sum_f m g.
Proof.
  induction m; [reflexivity|]. rewrite seq_S, map_app, sumZ_app, IHm. cbn [map Nat.add].
  rewrite sumZ_cons, sumZ_nil, sum_f_S. ring.
Qed.
Lemma sum_f_const m (v : Z) : sum_f m (fun _ => v) = Z.of_nat m * v.
Proof. induction m; [cbn; ring|]. rewrite sum_f_S, IHm. lia. Qed.

Section Scores.
Variable c : call.
Hypothesis W : WF c.
Let t := c_t c.
Let q := c_q c.
Let nq := q_nq q.
Let nb := t_nbins t.
Let off := q_off q.
Variable old : nat -> list Z.
Let gam := stage_gamma fixed q old.

Lemma gam_prefix j l : (j < ncols c)%nat ->
  coef (firstn nq (gam j)) l = if (l <? nq)%nat then xval c j (nq - 1 - l) - Z.of_nat off else 0.
Proof.
  intros Hj. unfold gam, stage_gamma. cbn [fixed v_int8]. fold q nq off.
  pose proof (wf_xlen c W) as Hxl. fold q in Hxl.
  replace (j <? length (q_x q))%nat with true by lia.
  assert (Hin : In (nth j (q_x q) []) (q_x q)) by (apply nth_In; lia).
  destruct (wf_xrow c W _ Hin) as [Hlen _]. fold q nq in Hlen.
  rewrite firstn_all2 with (l := nth j (q_x q) []) by lia.
  rewrite firstn_app, map_length, rev_length, Hlen, Nat.sub_diag. cbn [firstn]. rewrite app_nil_r.
  rewrite firstn_all2 by (rewrite map_length, rev_length; lia).
  destruct (Nat.ltb_spec l nq) as [Hl|Hl].
  - rewrite nth_indep with (d' := (fun x => x - Z.of_nat off) 0) by (rewrite map_length, rev_length; lia).
    rewrite (map_nth (fun x => x - Z.of_nat off)). rewrite rev_nth by lia. unfold xval. fold q.
    rewrite Hlen. do 2 f_equal. lia.
  - apply nth_beyond. rewrite map_length, rev_length. lia.
Qed.

Lemma rr_col total k : (nth (total + k) (t_rrinv t) 0 < ncols c)%nat.
Proof.
  destruct (Nat.lt_ge_cases (total + k) (length (t_rrinv t))) as [H|H].
  - apply (wf_rr c W). apply nth_In. exact H.
  - rewrite nth_overflow by exact H. pose proof (wf_ncols c W). lia.
Qed.

(* best_alignment, part 1: t_sums[k] is the complete score of relative offset k - nq + 1 *)
Lemma tsums_score total nt a : (1 <= nt)%nat -> (a < nt + nq - 1)%nat ->
  coef (tsums gam (t_rrinv t) total nt nq off) a = score_at c total nt (o_of c a).
Proof.
  intros Hnt Ha. unfold tsums.
  destruct (add_fold_nth (fun k => firstn nq (gam (nth (total + k) (t_rrinv t) 0%nat))) a nt 0
              (repeat (Z.of_nat (nq * off)) (nt + nq - 1))) as [_ H].
  rewrite H. clear H. rewrite repeat_length, nth_repeat_lt by lia.
  unfold score_at, qcols. fold q nq. rewrite sumZ_map_seq.
  set (o := o_of c a).
  set (Hf := fun z : Z => xval c (nth (total + Z.to_nat (z + o)) (t_rrinv t) 0%nat) (Z.to_nat z) - Z.of_nat off).
  rewrite (sum_f_ext nt _ (fun k => if (0 <=? Z.of_nat k - o) && (Z.of_nat k - o <? Z.of_nat nq)
                                    then Hf (Z.of_nat k - o) else 0)).
  2:{ intros k Hk. cbn [Nat.add]. rewrite gam_prefix by apply rr_col.
      unfold o, o_of. fold q nq.
      destruct ((k <=? a)%nat && (a <? nt + nq - 1)%nat) eqn:E1.
      - destruct (a - k <? nq)%nat eqn:E2.
        + replace ((0 <=? Z.of_nat k - (Z.of_nat a - Z.of_nat nq + 1)) &&
                   (Z.of_nat k - (Z.of_nat a - Z.of_nat nq + 1) <? Z.of_nat nq)) with true by lia.
          unfold Hf, o, o_of. fold q nq. f_equal. f_equal; [f_equal; lia | lia].
        + replace ((0 <=? Z.of_nat k - (Z.of_nat a - Z.of_nat nq + 1)) &&
                   (Z.of_nat k - (Z.of_nat a - Z.of_nat nq + 1) <? Z.of_nat nq)) with false by lia.
          reflexivity.
      - replace ((0 <=? Z.of_nat k - (Z.of_nat a - Z.of_nat nq + 1)) &&
                 (Z.of_nat k - (Z.of_nat a - Z.of_nat nq + 1) <? Z.of_nat nq)) with false by lia.
        reflexivity. }
  rewrite sum_shift_window.
  rewrite (sum_f_ext nq (fun i => if aligned nt o i then xval c (tcol c total o i) i else off_z c)
                        (fun i => Z.of_nat off + (if (0 <=? Z.of_nat i + o) && (Z.of_nat i + o <? Z.of_nat nt)
                                                  then Hf (Z.of_nat i) else 0))).
  2:{ intros i Hi. unfold aligned, off_z. fold q off.
      destruct ((0 <=? Z.of_nat i + o) && (Z.of_nat i + o <? Z.of_nat nt)); [|ring].
      unfold Hf, tcol. fold t. rewrite Nat2Z.id. ring. }
  rewrite sum_f_add, sum_f_const. rewrite Nat2Z.inj_mul. ring.
Qed.

Lemma tsums_length total nt : length (tsums gam (t_rrinv t) total nt nq off) = (nt + nq - 1)%nat.
Proof.
  unfold tsums.
  destruct (add_fold_nth (fun k => firstn nq (gam (nth (total + k) (t_rrinv t) 0%nat))) 0 nt 0
              (repeat (Z.of_nat (nq * off)) (nt + nq - 1))) as [H _].
  rewrite H, repeat_length. reflexivity.
Qed.

(* every score lies in [0, n] *)
Lemma score_range total nt o : 0 <= score_at c total nt o <= Z.of_nat (nb * nq + nq * off).
Proof.
  unfold score_at, qcols. fold q nq. rewrite sumZ_map_seq.
  assert (G : forall m, 0 <= sum_f m (fun i => if aligned nt o i then xval c (tcol c total o i) i else off_z c)
                        <= Z.of_nat m * (Z.of_nat nb + Z.of_nat off)).
  { induction m; [cbn; lia|]. rewrite sum_f_S, Nat2Z.inj_succ.
    pose proof (xval_range c W (tcol c total o m) m) as Hx. fold t nb in Hx.
    unfold off_z. fold q off.
    set (sm := sum_f m _) in *. set (xv := xval c _ m) in *.
    destruct (aligned nt o m); nia. }
  specialize (G nq). rewrite Nat2Z.inj_add, !Nat2Z.inj_mul. nia.
Qed.
End Scores.

(* ================================================================== the alignment scan of _p_values *)
Lemma combine_seq_coef (ts : list Z) : forall a,
  combine (seq a (length ts)) ts = map (fun k => (k, coef ts (k - a))) (seq a (length ts)).
Proof.
  induction ts as [|x ts IH]; intros a; cbn [length seq combine map]; [reflexivity|].
  rewrite Nat.sub_diag. cbn [nth]. f_equal. rewrite IH. apply map_ext_in.
  intros k Hk. apply in_seq in Hk. replace (k - a)%nat with (S (k - S a)) by lia. reflexivity.
Qed.

Section Scan.
Variables (B : arr) (nq nt nlen : nat) (T : nat -> Z) (strand : Z).
Hypothesis Hnq : (1 <= nq)%nat.
Hypothesis Hnt : (1 <= nt)%nat.

Definition scan_state (ks : nat) : rrow :=
  mkrr (p_lookup fixed B nt nlen (T ks)) (T ks) (Z.of_nat ks - Z.of_nat nq + 1) (overlap_of ks nq nt) strand.
Definition scan_post (k : nat) (st : rrow) : Prop :=
  exists ks, (ks < k)%nat /\ (forall k', (k' < k)%nat -> T k' <= T ks) /\ st = scan_state ks.

Lemma overlap_of_pos k : (k < nt + nq - 1)%nat -> 1 <= overlap_of k nq nt.
Proof. intros H. unfold overlap_of. lia. Qed.

Lemma scan_ok L : (1 <= L <= nt + nq - 1)%nat -> (forall k, (k < L)%nat -> 0 <= T k) ->
  scan_post L (fold_left (fun st k => scan_step fixed B nq nt nlen st k (T k)) (seq 0 L)
                         (mkrr (1, 1) 0 0 0 strand)).
Proof.
  intros HL HT.
  set (st0 := mkrr (1, 1) 0 0 0 strand).
  assert (G : (fun k st => (k = 0%nat /\ st = st0) \/ scan_post k st) (0 + L)%nat
                (fold_left (fun st k => scan_step fixed B nq nt nlen st k (T k)) (seq 0 L) st0)).
  { apply (fold_seq_inv (fun st k => scan_step fixed B nq nt nlen st k (T k))
                        (fun k st => (k = 0%nat /\ st = st0) \/ scan_post k st)).
    - left. split; reflexivity.
    - intros k st Hk [[-> ->]|[ks [Hks [Hmax ->]]]]; right.
      + (* first alignment: always replaces the initial state *)
        exists 0%nat. split; [lia|]. split; [intros k' Hk'; replace k' with 0%nat by lia; lia|].
        unfold scan_step, st0. cbn [r_score r_off r_strand].
        pose proof (HT 0%nat ltac:(lia)) as H0.
        replace (T 0%nat >=? 0) with true by lia.
        pose proof (overlap_of_pos 0 ltac:(lia)) as Ho.
        replace ((T 0%nat =? 0) && (0 >=? overlap_of 0 nq nt)) with false by lia.
        reflexivity.
      + unfold scan_step, scan_state. cbn [r_score r_off r_strand].
        destruct (T k >=? T ks) eqn:E1.
        * destruct ((T k =? T ks) && (Z.of_nat ks - Z.of_nat nq + 1 >=? overlap_of k nq nt)) eqn:E2.
          -- exists ks. split; [lia|]. split; [|reflexivity].
             intros k' Hk'. destruct (Nat.eq_dec k' k) as [->|]; [lia|apply Hmax; lia].
          -- exists k. split; [lia|]. split; [|reflexivity].
             intros k' Hk'. destruct (Nat.eq_dec k' k) as [->|]; [lia|].
             specialize (Hmax k' ltac:(lia)). lia.
        * exists ks. split; [lia|]. split; [|reflexivity].
          intros k' Hk'. destruct (Nat.eq_dec k' k) as [->|]; [lia|apply Hmax; lia]. }
  destruct G as [[E _]|G]; [lia|exact G].
Qed.
End Scan.

(* ================================================================== _p_values over all targets *)
Definition target_row (B : arr) (gam : nat -> list Z) (rrinv : list nat) (nq off nlen total nt : nat)
                      (strand : Z) : rrow :=
  fold_left (fun st ks => scan_step fixed B nq nt nlen st (fst ks) (snd ks))
            (combine (seq 0 (nt + nq - 1)) (tsums gam rrinv total nt nq off)) (mkrr (1, 1) 0 0 0 strand).

Lemma p_values_nth B gam rrinv nq off nlen : forall tl i total R,
  (forall j, (j < length tl)%nat ->
     p_values fixed gam B rrinv nq off nlen tl i total R (i + j)%nat
     = target_row B gam rrinv nq off nlen (nth j (starts tl total) 0%nat) (nth j tl 0%nat) (r_strand (R (i + j)%nat))) /\
  (forall idx, (idx < i)%nat -> p_values fixed gam B rrinv nq off nlen tl i total R idx = R idx).
Proof.
  induction tl as [|nt tl IH]; intros i total R; cbn [p_values length].
  - split; [intros; lia|reflexivity].
  - cbn [fixed v_p0].
    set (st := fold_left _ _ _).
    destruct (IH (S i) (total + nt)%nat (aset R i st)) as [IH1 IH2]. split.
    + intros [|j] Hj.
      * rewrite Nat.add_0_r, IH2 by lia. rewrite aset_same. cbn [starts nth]. reflexivity.
      * replace (i + S j)%nat with (S i + j)%nat by lia. rewrite IH1 by lia.
        cbn [starts nth]. rewrite aset_other by lia. reflexivity.
    + intros idx Hidx. rewrite IH2 by lia. apply aset_other. lia.
Qed.

Lemma maxZ_ub l v : (forall x, In x l -> x <= v) -> 0 <= v -> maxZ l <= v.
Proof.
  unfold maxZ. induction l as [|y l IH]; intros Hle H0; cbn [fold_right]; [lia|].
  assert (y <= v) by (apply Hle; left; reflexivity).
  assert (fold_right Z.max 0 l <= v) by (apply IH; [intros; apply Hle; right; assumption|exact H0]).
  lia.
Qed.
Lemma maxZ_ge l v : In v l -> v <= maxZ l.
Proof.
  unfold maxZ. induction l as [|y l IH]; intros Hin; [destruct Hin|]. cbn [fold_right].
  destruct Hin as [->|Hin]; [lia|]. specialize (IH Hin). lia.
Qed.
Lemma maxZ_is l v : In v l -> (forall x, In x l -> x <= v) -> 0 <= v -> maxZ l = v.
Proof.
  intros Hin Hle H0. pose proof (maxZ_ub l v Hle H0). pose proof (maxZ_ge l v Hin). lia.
Qed.

Section Target.
Variable c : call.
Hypothesis W : WF c.
Let t := c_t c.
Let q := c_q c.
Let nq := q_nq q.
Let nb := t_nbins t.
Let off := q_off q.
Let nlen := nlen_of t (c_d c).
Let n := (nb * nq + nq * off)%nat.
Let F := stage_f t q.
Variables (old : nat -> list Z) (Acs0 : arr2) (B0 : arr) (tmax : nat).
Let gam := stage_gamma fixed q old.
Let B := snd (backgrounds fixed F nq nb off nlen tmax Acs0 B0).

(* best_alignment: what _p_values leaves in results[i] for one target on one strand *)
Lemma target_row_spec total nt strand : (1 <= nt <= tmax)%nat ->
  let r := target_row B gam (t_rrinv t) nq off nlen total nt strand in
  let best := best_ref c total nt in
  r_score r = best /\ attains c total nt best (r_off r) (r_ovl r) = true /\ r_strand r = strand /\
  ((0 < best /\ r_p r = p_ref c nt best) \/ (best = 0 /\ r_p r = (1, 1))).
Proof.
  intros Hnt r best.
  pose proof (wf_nq c W) as Hnq. change (1 <= nq)%nat in Hnq.
  set (ts := tsums gam (t_rrinv t) total nt nq off).
  assert (Hlen : length ts = (nt + nq - 1)%nat) by apply (tsums_length c).
  assert (HT : forall k, (k < nt + nq - 1)%nat -> coef ts k = score_at c total nt (o_of c k)).
  { intros k Hk. apply (tsums_score c W); [lia|exact Hk]. }
  unfold r, target_row. fold ts. rewrite <- Hlen, combine_seq_coef.
  rewrite <- fold_left_map_arg with (g := fun st ks => scan_step fixed B nq nt nlen st (fst ks) (snd ks))
                                    (s := fun k => (k, coef ts (k - 0))).
  cbn [fst snd]. rewrite Hlen.
  assert (Hpos : forall k, (k < nt + nq - 1)%nat -> 0 <= coef ts (k - 0)).
  { intros k Hk. rewrite Nat.sub_0_r, HT by exact Hk. pose proof (score_range c W old total nt (o_of c k)). lia. }
  destruct (scan_ok B nq nt nlen (fun k => coef ts (k - 0)) strand Hnq ltac:(lia) (nt + nq - 1) ltac:(lia) Hpos)
    as [ks [Hks [Hmax ->]]].
  unfold scan_state. cbn [r_score r_off r_ovl r_strand r_p]. rewrite Nat.sub_0_r, HT by lia.
  assert (Hbest : best = score_at c total nt (o_of c ks)).
  { unfold best, best_ref. apply maxZ_is.
    - rewrite offsets_eq. fold q nq. apply in_map. apply in_map. apply in_seq. lia.
    - intros x Hx. rewrite offsets_eq, map_map in Hx. fold q nq in Hx. apply in_map_iff in Hx as [k [<- Hk]].
      apply in_seq in Hk. specialize (Hmax k ltac:(lia)). rewrite !Nat.sub_0_r, !HT in Hmax by lia. exact Hmax.
    - apply (score_range c W old). }
  rewrite <- Hbest. split; [reflexivity|]. split; [|split; [reflexivity|]].
  - unfold attains. change (Z.of_nat ks - Z.of_nat nq + 1) with (o_of c ks).
    rewrite <- Hbest, Z.eqb_refl.
    rewrite (overlap_len c W nt ks) by (fold q nq; lia).
    unfold o_of, overlap_of, span_of. cbn [fst snd]. fold q nq. lia.
  - pose proof (score_range c W old total nt (o_of c ks)) as Hr. rewrite <- Hbest in Hr. fold t q nq nb off n in Hr.
    unfold p_lookup. cbn [fixed v_p0].
    destruct (best >? 0) eqn:Eb.
    + left. split; [lia|]. unfold cell.
      assert (Hs : (Z.to_nat (best - 1) < n)%nat) by lia.
      destruct (B_is_null c W Acs0 B0 tmax nt (Z.to_nat (best - 1)) Hnt Hs) as [Hd Hc].
      fold t q nq nb off nlen F B in Hd, Hc. rewrite Hd, Hc. unfold p_ref, ref_den, ref_cdf.
      replace (Z.of_nat (Z.to_nat (best - 1))) with (best - 1) by lia. reflexivity.
    + right. split; [lia|reflexivity].
Qed.
End Target.

(* ================================================================== comparison helpers *)
Lemma all2_intro {A B} (f : A -> B -> bool) (d1 : A) (d2 : B) : forall l1 l2,
  length l1 = length l2 ->
  (forall j, (j < length l1)%nat -> f (nth j l1 d1) (nth j l2 d2) = true) ->
  all2 f l1 l2 = true.
Proof.
  intros l1 l2 Hl H. unfold all2. apply andb_true_iff. split; [apply Nat.eqb_eq; exact Hl|].
  revert l2 Hl H. induction l1 as [|x l1 IH]; intros [|y l2] Hl H; cbn in Hl; try lia; [reflexivity|].
  cbn [combine forallb fst snd]. apply andb_true_iff. split.
  - apply (H 0%nat). cbn; lia.
  - apply IH; [lia|]. intros j Hj. apply (H (S j)). cbn; lia.
Qed.

Lemma Qle_bool_abs_zero (x y z : Q) : (x == y)%Q -> (0 <= z)%Q -> Qle_bool (Qabs (x - y)) z = true.
Proof.
  intros E Hz. apply Qle_bool_iff. setoid_replace (x - y)%Q with 0%Q by (rewrite E; ring).
  exact Hz.
Qed.
Lemma close_Qeq (x y : Q) : (x == y)%Q -> close x y = true.
Proof.
  intros E. unfold close. apply Qle_bool_abs_zero; [exact E|].
  unfold tol_rel, tol_abs. pose proof (Qabs_nonneg y) as H.
  apply Qle_trans with (0 * Qabs y + 0)%Q; [ring_simplify; apply Qle_refl|].
  apply Qplus_le_compat; [apply Qmult_le_compat_r; [discriminate|exact H]|discriminate].
Qed.

(* rationals as (numerator, denominator) pairs *)
Definition peq (p p' : Z * Z) : Prop := 0 < snd p /\ 0 < snd p' /\ fst p * snd p' = fst p' * snd p.
Lemma peq_refl p : 0 < snd p -> peq p p.
Proof. intros H. unfold peq. auto. Qed.
Lemma peq_toQ p p' : peq p p' -> (toQ p == toQ p')%Q.
Proof.
  intros [H1 [H2 E]]. unfold toQ, Qeq. cbn [Qnum Qden].
  rewrite !Z2Pos.id by assumption. exact E.
Qed.
Lemma cross_le n1 d1 n1' d1' n2 d2 n2' d2' :
  0 < d1 -> 0 < d1' -> 0 < d2 -> 0 < d2' -> n1 * d1' = n1' * d1 -> n2 * d2' = n2' * d2 ->
  (n1 * d2 <= n2 * d1 <-> n1' * d2' <= n2' * d1').
Proof.
  intros H1 H1' H2 H2' E1 E2.
  assert (A1 : n1' * d2' * (d1 * d2) = n1 * d2 * (d1' * d2')).
  { transitivity ((n1' * d1) * (d2' * d2)); [ring|]. rewrite <- E1. ring. }
  assert (A2 : n2' * d1' * (d1 * d2) = n2 * d1 * (d1' * d2')).
  { transitivity ((n2' * d2) * (d1' * d1)); [ring|]. rewrite <- E2. ring. }
  assert (P : 0 < d1 * d2) by (apply Z.mul_pos_pos; assumption).
  assert (P' : 0 < d1' * d2') by (apply Z.mul_pos_pos; assumption).
  split; intros H.
  - apply (Z.mul_le_mono_pos_r _ _ (d1 * d2) P). rewrite A1, A2.
    apply Z.mul_le_mono_nonneg_r; [lia|exact H].
  - apply (Z.mul_le_mono_pos_r _ _ (d1' * d2') P'). rewrite <- A1, <- A2.
    apply Z.mul_le_mono_nonneg_r; [lia|exact H].
Qed.
Lemma pmin_peq a a' b b' : peq a a' -> peq b b' -> peq (pmin a b) (pmin a' b').
Proof.
  intros [Ha [Ha' Ea]] [Hb [Hb' Eb]]. unfold pmin.
  pose proof (cross_le (fst a) (snd a) (fst a') (snd a') (fst b) (snd b) (fst b') (snd b')
                Ha Ha' Hb Hb' Ea Eb) as X.
  destruct (fst a * snd b <=? fst b * snd a) eqn:E1; destruct (fst a' * snd b' <=? fst b' * snd a') eqn:E2;
    unfold peq; auto; exfalso.
  - apply Z.leb_le in E1. apply Z.leb_gt in E2. apply X in E1. lia.
  - apply Z.leb_gt in E1. apply Z.leb_le in E2. apply X in E2. lia.
Qed.
Lemma psq_peq a a' : peq a a' -> peq (psq a) (psq a').
Proof.
  intros [Ha [Ha' E]]. unfold psq, peq. cbn [fst snd].
  split; [apply Z.mul_pos_pos; assumption|]. split; [apply Z.mul_pos_pos; assumption|].
  transitivity ((fst a * snd a') * (2 * snd a * snd a' - fst a * snd a')); [ring|].
  rewrite E. ring.
Qed.

Lemma starts_length l : forall a, length (starts l a) = length l.
Proof. induction l; intros; cbn; auto. Qed.
Lemma tmax_ge l nt : In nt l -> (nt <= fold_right Nat.max 0%nat l)%nat.
Proof.
  induction l as [|x l IH]; intros H; [destruct H|]. cbn [fold_right].
  destruct H as [->|H]; [lia|]. specialize (IH H). lia.
Qed.

(* ================================================================== assembling the result rows *)
Lemma filter_length_le {T} (p : T -> bool) l : (length (filter p l) <= length l)%nat.
Proof. induction l as [|x l IH]; cbn [filter length]; [lia|]. destruct (p x); cbn [length]; lia. Qed.
Lemma prodZ_pos l : (forall x, In x l -> 0 < x) -> 0 < prodZ l.
Proof.
  induction l as [|y l IH]; intros H; [cbn; lia|]. rewrite prodZ_cons.
  apply Z.mul_pos_pos; [apply H; left; reflexivity|apply IH; intros; apply H; right; assumption].
Qed.
Lemma prodZ_zero l : In 0 l -> prodZ l = 0.
Proof.
  induction l as [|y l IH]; intros H; [destruct H|]. rewrite prodZ_cons.
  destruct H as [->|H]; [ring|rewrite (IH H); ring].
Qed.

Lemma merge_rc_nth n (R : nat -> rrow) i : (i < n)%nat ->
  merge_rc n R i =
    let a := R i in let b := R (i + n)%nat in
    let p := psq (pmin (r_p a) (r_p b)) in
    if r_score a <=? r_score b then mkrr p (r_score b) (r_off b) (r_ovl b) 1
    else mkrr p (r_score a) (r_off a) (r_ovl a) 0.
Proof.
  intros Hi. unfold merge_rc.
  set (f := fun (R : nat -> rrow) i =>
     let a := R i in let b := R (i + n)%nat in
     let p := psq (pmin (r_p a) (r_p b)) in
     aset R i (if r_score a <=? r_score b then mkrr p (r_score b) (r_off b) (r_ovl b) 1
               else mkrr p (r_score a) (r_off a) (r_ovl a) 0)).
  assert (G : (fun k R' => (forall j, (j < k)%nat -> R' j = f R j j) /\ (forall j, (k <= j)%nat -> R' j = R j))
                (0 + n)%nat (fold_left f (seq 0 n) R)).
  { apply (fold_seq_inv f (fun k R' => (forall j, (j < k)%nat -> R' j = f R j j) /\
                                       (forall j, (k <= j)%nat -> R' j = R j))).
    - split; [intros; lia|reflexivity].
    - intros k R' Hk [H1 H2]. split.
      + intros j Hj. destruct (Nat.eq_dec j k) as [->|Ne].
        * unfold f at 1. cbn zeta. rewrite aset_same. unfold f. cbn zeta. rewrite aset_same.
          rewrite !H2 by lia. reflexivity.
        * unfold f at 1. cbn zeta. rewrite aset_other by exact Ne. apply H1. lia.
      + intros j Hj. unfold f. cbn zeta. rewrite aset_other by lia. apply H2. lia. }
  destruct G as [G1 _]. rewrite G1 by lia. unfold f. cbn zeta. rewrite aset_same. reflexivity.
Qed.

Section Final.
Variable c : call.
Hypothesis W : WF c.
Variable s : scratch.
Let t := c_t c.
Let q := c_q c.
Let nq := q_nq q.
Let nb := t_nbins t.
Let off := q_off q.
Let nlen := nlen_of t (c_d c).
Let F := stage_f t q.
Let tmax := tmax_of t.
Let gam := stage_gamma fixed q (sGam s).
Let B := snd (backgrounds fixed F nq nb off nlen tmax (sAcs s) (sB s)).
Let R1 := p_values fixed gam B (t_rrinv t) nq off nlen (t_lens t) 0 0 (sRes s).
Let sts := starts (t_lens t) 0.

Lemma rows_unfold :
  snd (run_query_ver fixed t (c_d c) q s)
  = map (if t_rc t then merge_rc (n_in t) R1 else clear_strand (length (t_lens t)) R1) (seq 0 (n_in t)).
Proof. reflexivity. Qed.

Lemma nt_range j : (j < length (t_lens t))%nat -> (1 <= nth j (t_lens t) 0 <= tmax)%nat.
Proof.
  intros Hj. pose proof (nth_In (t_lens t) 0%nat Hj) as Hin. split.
  - apply (wf_tlpos c W). exact Hin.
  - apply tmax_ge. exact Hin.
Qed.

Lemma R1_nth j : (j < length (t_lens t))%nat ->
  R1 j = target_row B gam (t_rrinv t) nq off nlen (nth j sts 0%nat) (nth j (t_lens t) 0%nat) (r_strand (sRes s j)).
Proof.
  intros Hj. unfold R1.
  destruct (p_values_nth B gam (t_rrinv t) nq off nlen (t_lens t) 0 0 (sRes s)) as [H _].
  apply (H j Hj).
Qed.

Lemma ref_den_pos nt : 0 < ref_den c nt.
Proof.
  unfold ref_den. apply prodZ_pos. intros x Hx. apply in_map_iff in Hx as [o [<- _]].
  unfold cdf_den. apply Z.pow_pos_nonneg; [pose proof (D_pos c W); lia|]. unfold overlap_at. lia.
Qed.
Lemma ref_cdf_neg nt : (1 <= nt)%nat -> ref_cdf c nt (-1) = 0.
Proof.
  intros Hnt1. unfold ref_cdf. apply prodZ_zero.
  pose proof (wf_nq c W) as Hnq. fold q nq in Hnq.
  apply in_map_iff. exists (o_of c 0). split.
  - unfold cdf_num.
    assert (overlap_at c nt (o_of c 0) <= Z.of_nat nq).
    { unfold overlap_at. pose proof (filter_length_le (aligned nt (o_of c 0)) (qcols c)) as H.
      unfold qcols in H at 2. rewrite seq_length in H. fold q nq in H. lia. }
    replace (Z.to_nat (-1 - off_z c * (Z.of_nat (q_nq (c_q c)) - overlap_at c nt (o_of c 0)) + 1)) with 0%nat.
    + reflexivity.
    + fold q nq. unfold off_z. assert (0 <= Z.of_nat (q_off (c_q c)) * (Z.of_nat nq - overlap_at c nt (o_of c 0))) by nia. lia.
  - rewrite offsets_eq. apply in_map. apply in_seq. fold q nq. lia.
Qed.

(* what one strand of one target contributes, in the form the spec compares against *)
Lemma strand_fields j : (j < length (t_lens t))%nat ->
  let total := nth j sts 0%nat in let nt := nth j (t_lens t) 0%nat in
  let best := best_ref c total nt in
  r_score (R1 j) = best /\ attains c total nt best (r_off (R1 j)) (r_ovl (R1 j)) = true /\
  peq (r_p (R1 j)) (p_ref c nt best).
Proof.
  intros Hj total nt best. rewrite R1_nth by exact Hj. fold total nt.
  destruct (target_row_spec c W (sGam s) (sAcs s) (sB s) tmax total nt (r_strand (sRes s j)) (nt_range j Hj))
    as [H1 [H2 [_ H4]]].
  fold t q nq nb off nlen F gam B best in H1, H2, H4.
  split; [exact H1|]. split; [exact H2|].
  destruct H4 as [[Hpos ->]|[H0 ->]].
  - apply peq_refl. unfold p_ref. cbn [snd]. apply ref_den_pos.
  - rewrite H0. unfold p_ref. cbn [Z.sub]. change (0 - 1) with (-1).
    fold (ref_cdf c nt (-1)). fold (ref_den c nt). rewrite ref_cdf_neg by (apply (nt_range j Hj)).
    pose proof (ref_den_pos nt). unfold peq. cbn [fst snd]. split; [lia|]. split; [lia|ring].
Qed.

Lemma hist_ok_model : hist_ok c (model_f c) = true.
Proof.
  unfold hist_ok, model_f. fold t q.
  apply (all2_intro _ 0%nat []).
  - rewrite map_length. reflexivity.
  - unfold qcols. fold q nq. rewrite seq_length. intros i Hi.
    rewrite nth_map_seq_gen, seq_nth by lia. cbn [Nat.add]. cbn zeta.
    pose proof (F_row c W i) as HF. fold t q nq F in HF. fold F. rewrite HF by lia. cbn [rden rnum].
    apply (all2_intro _ 0%nat 0%Q).
    + rewrite map_length, seq_length, (colpoly_length c). reflexivity.
    + rewrite seq_length. intros v Hv. rewrite seq_nth by lia. cbn [Nat.add].
      rewrite nth_indep with (d' := (fun v => Qmake v (Z.to_pos (D c))) 0)
        by (rewrite map_length, (colpoly_length c); fold t nb; lia).
      rewrite (map_nth (fun v => Qmake v (Z.to_pos (D c)))).
      unfold colpoly at 1. fold t nb. rewrite nth_map_seq by lia. cbn [Nat.add].
      apply Qle_bool_abs_zero; [reflexivity|]. unfold f_tol. discriminate.
Qed.

Lemma sts_nth j : (j < length (t_lens t))%nat ->
  nth j (combine sts (t_lens t)) (0%nat, 0%nat) = (nth j sts 0%nat, nth j (t_lens t) 0%nat).
Proof. intros Hj. apply combine_nth. unfold sts. apply starts_length. Qed.

Lemma rows_fwd_ok : t_rc t = false ->
  all2 (strand_ok c) (combine sts (t_lens t))
       (map to_orow (map (clear_strand (length (t_lens t)) R1) (seq 0 (length (t_lens t))))) = true.
Proof.
  intros Hrc. apply (all2_intro _ (0%nat, 0%nat) (to_orow (mkrr (0, 1) 0 0 0 0))).
  - rewrite combine_length, !map_length, seq_length. unfold sts. rewrite starts_length. lia.
  - rewrite combine_length. unfold sts at 1. rewrite starts_length, Nat.min_id. intros j Hj.
    rewrite sts_nth by exact Hj.
    rewrite map_map, nth_map_seq_gen by exact Hj. cbn [Nat.add].
    unfold clear_strand. replace (j <? length (t_lens t))%nat with true by lia.
    destruct (strand_fields j Hj) as [H1 [H2 H3]]. cbn zeta in H1, H2, H3.
    unfold strand_ok, to_orow. cbn [fst snd o_score o_off o_ovl o_p o_strand r_p r_score r_off r_ovl r_strand].
    rewrite H1, Z.eqb_refl, H2. cbn [andb]. rewrite close_Qeq by (apply peq_toQ; exact H3). reflexivity.
Qed.

Lemma rows_rc_ok : t_rc t = true ->
  let n := Nat.div (length (t_lens t)) 2 in
  all2 (fun fb r => pair_ok c (fst fb) (snd fb) r)
       (combine (firstn n (combine sts (t_lens t))) (skipn n (combine sts (t_lens t))))
       (map to_orow (map (merge_rc n R1) (seq 0 n))) = true.
Proof.
  intros Hrc n. destruct (wf_rc c W Hrc) as [Hlen _]. fold t in Hlen. fold n in Hlen.
  assert (Hts : length (combine sts (t_lens t)) = (2 * n)%nat).
  { rewrite combine_length. unfold sts. rewrite starts_length. lia. }
  apply (all2_intro _ ((0%nat, 0%nat), (0%nat, 0%nat)) (to_orow (mkrr (0, 1) 0 0 0 0))).
  - rewrite combine_length, firstn_length, skipn_length, !map_length, seq_length, Hts. lia.
  - rewrite combine_length, firstn_length, skipn_length, Hts.
    replace (Nat.min (Nat.min n (2 * n)) (2 * n - n)) with n by lia. intros i Hi.
    rewrite combine_nth by (rewrite firstn_length, skipn_length, Hts; lia).
    rewrite nth_firstn by exact Hi. rewrite nth_skipn.
    rewrite !sts_nth by lia. cbn [fst snd].
    rewrite map_map, nth_map_seq_gen by exact Hi. cbn [Nat.add].
    rewrite merge_rc_nth by exact Hi. cbn zeta. replace (i + n)%nat with (n + i)%nat by lia.
    destruct (strand_fields i ltac:(lia)) as [A1 [A2 A3]]. cbn zeta in A1, A2, A3.
    destruct (strand_fields (n + i) ltac:(lia)) as [B1 [B2 B3]]. cbn zeta in B1, B2, B3.
    set (bf := best_ref c (nth i sts 0%nat) (nth i (t_lens t) 0%nat)) in *.
    set (bb := best_ref c (nth (n + i) sts 0%nat) (nth (n + i) (t_lens t) 0%nat)) in *.
    assert (Hp : close (toQ (psq (pmin (r_p (R1 i)) (r_p (R1 (n + i)%nat)))))
                       (toQ (psq (pmin (p_ref c (nth i (t_lens t) 0%nat) bf)
                                       (p_ref c (nth (n + i) (t_lens t) 0%nat) bb)))) = true).
    { apply close_Qeq, peq_toQ, psq_peq, pmin_peq; assumption. }
    unfold pair_ok. cbn [fst snd]. fold bf bb. rewrite A1, B1.
    destruct (bf <=? bb) eqn:E; unfold to_orow;
      cbn [o_score o_off o_ovl o_p o_strand r_p r_score r_off r_ovl r_strand]; rewrite Hp.
    + replace (bb =? Z.max bf bb) with true by lia. rewrite B2. cbn [andb].
      replace (1 =? 1) with true by reflexivity. rewrite !andb_true_r. apply orb_true_r.
    + replace (bf =? Z.max bf bb) with true by lia. rewrite A2. cbn [andb].
      replace (bb <=? bf) with true by lia. reflexivity.
Qed.

(* C14: for every well-formed input and EVERY initial scratch, the model's outcome satisfies the reference *)
Theorem model_spec_ok_scratch : spec_ok c (model_ver fixed s c) = true.
Proof.
  unfold spec_ok. destruct (wf c); [|reflexivity].
  unfold model_ver. cbn [o_f o_rows]. rewrite hist_ok_model. cbn [andb].
  fold t q. rewrite rows_unfold. fold sts.
  destruct (t_rc t) eqn:Hrc.
  - unfold n_in. rewrite Hrc.
    assert (length (combine sts (t_lens t)) = length (t_lens t)) as ->.
    { rewrite combine_length. unfold sts. rewrite starts_length. lia. }
    apply rows_rc_ok. exact Hrc.
  - unfold n_in. rewrite Hrc. apply rows_fwd_ok. exact Hrc.
Qed.
End Final.

Theorem model_spec_ok : forall c, spec_ok c (model c) = true.
Proof.
  intros c. destruct (wf c) eqn:E.
  - apply model_spec_ok_scratch. apply wf_WF. exact E.
  - unfold spec_ok. rewrite E. reflexivity.
Qed.

(* ================================================================== independence of scratch contents and of
   the array dimensions (Q_max of the co-processed queries, n_cache): used by C13 *)
Definition nostrand (r : rrow) : (Z * Z) * Z * Z * Z := (r_p r, r_score r, r_off r, r_ovl r).

Lemma nostrand_inv a b : nostrand a = nostrand b ->
  r_p a = r_p b /\ r_score a = r_score b /\ r_off a = r_off b /\ r_ovl a = r_ovl b.
Proof. unfold nostrand. intros H. injection H as -> -> -> ->. auto. Qed.

Lemma scan_fold_rel (B B' : arr) nq nt nlen nlen' (l : list (nat * Z)) : forall st st',
  nostrand st = nostrand st' ->
  (forall ks, In ks l -> p_lookup fixed B nt nlen (snd ks) = p_lookup fixed B' nt nlen' (snd ks)) ->
  nostrand (fold_left (fun st ks => scan_step fixed B nq nt nlen st (fst ks) (snd ks)) l st)
  = nostrand (fold_left (fun st ks => scan_step fixed B' nq nt nlen' st (fst ks) (snd ks)) l st').
Proof.
  induction l as [|ks l IH]; intros st st' Hst Hp; cbn [fold_left]; [exact Hst|].
  apply IH; [|intros; apply Hp; right; assumption].
  unfold nostrand in Hst. injection Hst as E1 E2 E3 E4.
  unfold scan_step. rewrite (Hp ks) by (left; reflexivity). rewrite E2, E3.
  destruct (snd ks >=? r_score st'); [|unfold nostrand; congruence].
  destruct ((snd ks =? r_score st') && (r_off st' >=? overlap_of (fst ks) nq nt)); unfold nostrand; cbn; congruence.
Qed.

Section Indep.
Variables (t : tdata) (q : qdata) (d d' : dims) (s s' : scratch).
Let c := mkcall t d q.
Let c' := mkcall t d' q.
Hypothesis W : WF c.
Hypothesis W' : WF c'.
Let nq := q_nq q.
Let nb := t_nbins t.
Let off := q_off q.
Let F := stage_f t q.
Let tmax := tmax_of t.

Lemma target_row_indep total nt st st' : (1 <= nt <= tmax)%nat ->
  nostrand (target_row (snd (backgrounds fixed F nq nb off (nlen_of t d) tmax (sAcs s) (sB s)))
              (stage_gamma fixed q (sGam s)) (t_rrinv t) nq off (nlen_of t d) total nt st)
  = nostrand (target_row (snd (backgrounds fixed F nq nb off (nlen_of t d') tmax (sAcs s') (sB s')))
              (stage_gamma fixed q (sGam s')) (t_rrinv t) nq off (nlen_of t d') total nt st').
Proof.
  intros Hnt. unfold target_row.
  pose proof (wf_nq c W) as Hnq. change (1 <= nq)%nat in Hnq.
  set (ts := tsums (stage_gamma fixed q (sGam s)) (t_rrinv t) total nt nq off).
  set (ts' := tsums (stage_gamma fixed q (sGam s')) (t_rrinv t) total nt nq off).
  assert (Hl : length ts = (nt + nq - 1)%nat) by apply (tsums_length c).
  assert (Hl' : length ts' = (nt + nq - 1)%nat) by apply (tsums_length c').
  assert (HT : forall k, (k < nt + nq - 1)%nat -> coef ts k = score_at c total nt (o_of c k)).
  { intros k Hk. apply (tsums_score c W); [lia|exact Hk]. }
  assert (Hts : ts' = ts).
  { apply nth_ext with (d := 0) (d' := 0); [lia|]. intros k Hk. rewrite Hl' in Hk.
    rewrite HT by exact Hk. apply (tsums_score c' W'); [lia|exact Hk]. }
  rewrite Hts. apply scan_fold_rel; [reflexivity|].
  intros [k sc] Hin. cbn [snd]. apply in_combine_r in Hin. apply In_nth with (d := 0) in Hin as [idx [Hidx <-]].
  rewrite Hl in Hidx. rewrite HT by exact Hidx.
  pose proof (score_range c W (sGam s) total nt (o_of c idx)) as Hr.
  set (sc := score_at c total nt (o_of c idx)) in *.
  unfold p_lookup. cbn [fixed v_p0]. destruct (sc >? 0) eqn:E; [|reflexivity].
  assert (Hs : (Z.to_nat (sc - 1) < t_nbins (c_t c) * q_nq (c_q c) + q_nq (c_q c) * q_off (c_q c))%nat).
  { cbn [c c_t c_q]. fold nb nq off. cbn [c c_t c_q] in Hr. fold nb nq off in Hr. lia. }
  destruct (B_is_null c W (sAcs s) (sB s) tmax nt _ Hnt Hs) as [Hd Hc].
  destruct (B_is_null c' W' (sAcs s') (sB s') tmax nt _ Hnt Hs) as [Hd' Hc'].
  unfold cell. cbn [c c' c_t c_q c_d] in Hd, Hc, Hd', Hc'. fold nq nb off F in Hd, Hc, Hd', Hc'.
  rewrite Hd, Hc, Hd', Hc'. reflexivity.
Qed.

(* scratch_independent / dims_independent: the result rows of a query do not depend on what the
   scratch arrays held, nor on the dimensions Q_max / n_cache they were allocated with *)
Theorem rows_independent : snd (run_query t d q s) = snd (run_query t d' q s').
Proof.
  unfold run_query.
  change (snd (run_query_ver fixed (c_t c) (c_d c) (c_q c) s)
          = snd (run_query_ver fixed (c_t c') (c_d c') (c_q c') s')).
  rewrite (rows_unfold c s), (rows_unfold c' s'). cbn [c c' c_t c_q c_d].
  fold nq nb off F tmax.
  set (R := p_values fixed (stage_gamma fixed q (sGam s))
              (snd (backgrounds fixed F nq nb off (nlen_of t d) tmax (sAcs s) (sB s)))
              (t_rrinv t) nq off (nlen_of t d) (t_lens t) 0 0 (sRes s)).
  set (R' := p_values fixed (stage_gamma fixed q (sGam s'))
              (snd (backgrounds fixed F nq nb off (nlen_of t d') tmax (sAcs s') (sB s')))
              (t_rrinv t) nq off (nlen_of t d') (t_lens t) 0 0 (sRes s')).
  assert (Hrows : forall i, (i < length (t_lens t))%nat -> nostrand (R i) = nostrand (R' i)).
  { intros i Hi. unfold R, R'.
    pose proof (R1_nth c s i Hi) as E1. pose proof (R1_nth c' s' i Hi) as E2.
    cbn [c c' c_t c_q c_d] in E1, E2. fold nq nb off F tmax in E1, E2. rewrite E1, E2.
    apply target_row_indep. apply (nt_range c W i Hi). }
  clearbody R R'.
  apply map_ext_in. intros j Hj. apply in_seq in Hj.
  destruct (t_rc t) eqn:Hrc.
  - unfold n_in in Hj |- *. rewrite Hrc in Hj |- *.
    pose proof (wf_rc c W Hrc) as Hlen. apply proj1 in Hlen. unfold c in Hlen. cbn [c_t] in Hlen.
    rewrite !merge_rc_nth by lia. cbn zeta.
    destruct (nostrand_inv _ _ (Hrows j ltac:(lia))) as [A1 [A2 [A3 A4]]].
    destruct (nostrand_inv _ _ (Hrows (j + length (t_lens t) / 2)%nat ltac:(lia))) as [B1 [B2 [B3 B4]]].
    rewrite A1, A2, A3, A4, B1, B2, B3, B4. reflexivity.
  - unfold n_in in Hj |- *. rewrite Hrc in Hj. unfold clear_strand.
    replace (j <? length (t_lens t))%nat with true by lia.
    destruct (nostrand_inv _ _ (Hrows j ltac:(lia))) as [A1 [A2 [A3 A4]]].
    rewrite A1, A2, A3, A4. reflexivity.
Qed.
End Indep.

(* ================================================================== strand merge *)
Definition merged (a b : rrow) : rrow :=
  let p := psq (pmin (r_p a) (r_p b)) in
  if r_score a <=? r_score b then mkrr p (r_score b) (r_off b) (r_ovl b) 1
  else mkrr p (r_score a) (r_off a) (r_ovl a) 0.

(* strand_merge: the p-value is 1-(1-min p)^2, the higher-scoring strand is reported *)
Lemma strand_merge n R i : (i < n)%nat ->
  let m := merge_rc n R i in let a := R i in let b := R (i + n)%nat in
  r_p m = psq (pmin (r_p a) (r_p b)) /\ r_score m = Z.max (r_score a) (r_score b) /\
  (r_score a < r_score b -> r_strand m = 1 /\ r_off m = r_off b /\ r_ovl m = r_ovl b) /\
  (r_score b < r_score a -> r_strand m = 0 /\ r_off m = r_off a /\ r_ovl m = r_ovl a).
Proof.
  intros Hi. cbn zeta. rewrite merge_rc_nth by exact Hi. cbn zeta.
  destruct (r_score (R i) <=? r_score (R (i + n)%nat)) eqn:E; cbn [r_p r_score r_strand r_off r_ovl];
    repeat split; try lia; intros; lia.
Qed.

(* reverse-complementing the targets (the two strands change places) changes only the reported
   strand, provided the two strands score differently (on a tie the code reports strand 1 both times) *)
Lemma strand_swap a b : r_score a <> r_score b -> 0 < snd (r_p a) -> 0 < snd (r_p b) ->
  let m1 := merged a b in let m2 := merged b a in
  peq (r_p m1) (r_p m2) /\ r_score m1 = r_score m2 /\ r_off m1 = r_off m2 /\ r_ovl m1 = r_ovl m2 /\
  r_strand m1 = 1 - r_strand m2.
Proof.
  intros Hne Ha Hb. unfold merged.
  assert (Hp : peq (psq (pmin (r_p a) (r_p b))) (psq (pmin (r_p b) (r_p a)))).
  { apply psq_peq. unfold pmin.
    destruct (fst (r_p a) * snd (r_p b) <=? fst (r_p b) * snd (r_p a)) eqn:E1;
    destruct (fst (r_p b) * snd (r_p a) <=? fst (r_p a) * snd (r_p b)) eqn:E2; unfold peq; repeat split; auto; lia. }
  destruct (r_score a <=? r_score b) eqn:E1; destruct (r_score b <=? r_score a) eqn:E2;
    cbn [r_p r_score r_strand r_off r_ovl]; try lia; repeat split; auto; try lia;
    unfold peq in *; intuition lia.
Qed.

(* ================================================================== self match *)
Lemma sumZ_map_le {T} (f g : T -> Z) l : (forall x, In x l -> f x <= g x) -> sumZ (map f l) <= sumZ (map g l).
Proof.
  induction l as [|x l IH]; intros H; cbn [map]; rewrite ?sumZ_nil, ?sumZ_cons; [lia|].
  assert (f x <= g x) by (apply H; left; reflexivity).
  assert (sumZ (map f l) <= sumZ (map g l)) by (apply IH; intros; apply H; right; assumption). lia.
Qed.

(* a query compared with a target equal to itself (the target's column i is the unique column that
   is most similar to query column i, and at least as similar as the median): the best score is
   the one of relative offset 0, which has full overlap *)
Lemma self_match c total : WF c ->
  let nq := q_nq (c_q c) in
  (forall i j, (i < nq)%nat -> xval c j i <= xval c (tcol c total 0 i) i) ->
  (forall i, (i < nq)%nat -> off_z c <= xval c (tcol c total 0 i) i) ->
  best_ref c total nq = score_at c total nq 0 /\ overlap_at c nq 0 = Z.of_nat nq.
Proof.
  intros W nq Hmax Hmed. pose proof (wf_nq c W) as Hnq. fold nq in Hnq.
  assert (Hal : forall i, In i (qcols c) -> aligned nq 0 i = true).
  { intros i Hi. unfold qcols in Hi. apply in_seq in Hi. fold nq in Hi. unfold aligned. lia. }
  split.
  - unfold best_ref. apply maxZ_is.
    + apply in_map. unfold offsets. fold nq. apply in_map_iff. exists (nq - 1)%nat. split; [lia|].
      apply in_seq. lia.
    + intros x Hx. apply in_map_iff in Hx as [o [<- _]]. unfold score_at.
      apply sumZ_map_le. intros i Hi. rewrite (Hal i Hi).
      unfold qcols in Hi. apply in_seq in Hi. fold nq in Hi.
      destruct (aligned nq o i); [apply Hmax; lia|apply Hmed; lia].
    + apply (score_range c W (fun _ => [])).
  - unfold overlap_at. rewrite filter_true by exact Hal. unfold qcols. rewrite seq_length. reflexivity.
Qed.

(* ================================================================== integerise_monotone *)
From Coq Require Import Qround.
(* the integerisation of the float stage, x = floor((gamma - median) * scale + 1/2) with
   gamma = -distance, as a function of the Euclidean distance to one query column *)
Definition integerise (med scale dist : Q) : Z := Qfloor ((- dist - med) * scale + (1 # 2)).
Lemma integerise_monotone med scale d1 d2 : (0 <= scale)%Q -> (d1 <= d2)%Q ->
  integerise med scale d2 <= integerise med scale d1.
Proof.
  intros Hs Hd. unfold integerise. apply Qfloor_resp_le.
  apply Qplus_le_compat; [|apply Qle_refl].
  apply Qmult_le_compat_r; [|exact Hs].
  apply Qplus_le_compat; [|apply Qle_refl]. apply Qopp_le_compat. exact Hd.
Qed.

(* the spec's integerisation clause is the function [integerise]: an exactly recomputed cell is accepted
   iff the kernel's integer is floor((gamma - med) * scale + 1/2) *)
Lemma int_cell_exact med scale dist x :
  int_cell_ok ((- dist - med) * scale, (- dist - med) * scale, x)%Q = (x =? integerise med scale dist).
Proof. unfold int_cell_ok, integerise. cbn [fst snd]. rewrite Z.eqb_refl. reflexivity. Qed.

(* with exact z_min, z_max (and z_max above floor z_min) the clause is exactly the definition of the code *)
Definition offset_def (nb : Z) (zmin zmax : Q) : Z :=
  let i_min := Qfloor zmin in - i_min * Qfloor (inject_Z nb / (zmax - inject_Z i_min)).
Lemma shift_exact nb zmin zmax off : Qle_bool (zmax - inject_Z (Qfloor zmin)) 0 = false ->
  shift_ok nb zmin zmin zmax zmax off = (off =? offset_def nb zmin zmax).
Proof. intros H. unfold shift_ok, offset_def. rewrite !Z.eqb_refl, H. reflexivity. Qed.

(* ================================================================== the reference's polynomials enumerate column tuples *)
(* for query column i: (similarity value, multiplicity) of every unique target column *)
Definition wcol (c : call) (i : nat) : list (Z * Z) :=
  map (fun rw => (nth i (fst rw) 0, snd rw)) (combine (q_x (c_q c)) (t_counts (c_t c))).
(* weighted number of ways to draw one target column per listed query column with similarities summing to s *)
Fixpoint count_eq (cols : list (list (Z * Z))) (s : Z) : Z :=
  match cols with
  | [] => if s =? 0 then 1 else 0
  | col :: rest => sumZ (map (fun vw => snd vw * count_eq rest (s - fst vw)) col)
  end.

Lemma sum_f_sumZ_swap {T} (n : nat) (g : nat -> T -> Z) (col : list T) :
  sum_f n (fun a => sumZ (map (g a) col)) = sumZ (map (fun x => sum_f n (fun a => g a x)) col).
Proof.
  induction col as [|x col IH]; cbn [map].
  - rewrite sumZ_nil. apply sum_f_zero. intros; apply sumZ_nil.
  - rewrite sumZ_cons, <- IH, <- sum_f_add. apply sum_f_ext. intros a _. apply sumZ_cons.
Qed.
Lemma sumZ_map_zero {T} (g : T -> Z) l : (forall x, In x l -> g x = 0) -> sumZ (map g l) = 0.
Proof.
  induction l as [|x l IH]; intros H; cbn [map]; rewrite ?sumZ_nil, ?sumZ_cons; [reflexivity|].
  rewrite (H x) by (left; reflexivity). rewrite IH by (intros; apply H; right; assumption). ring.
Qed.
Lemma sumZ_map_ext_in {T} (f g : T -> Z) l : (forall x, In x l -> f x = g x) -> sumZ (map f l) = sumZ (map g l).
Proof. intros H. f_equal. apply map_ext_in. exact H. Qed.

Lemma count_eq_neg cols : (forall col vw, In col cols -> In vw col -> 0 <= fst vw) ->
  forall s, s < 0 -> count_eq cols s = 0.
Proof.
  induction cols as [|col rest IH]; intros H s Hs; cbn [count_eq].
  - replace (s =? 0) with false by lia. reflexivity.
  - apply sumZ_map_zero. intros vw Hvw.
    rewrite IH; [ring| |].
    + intros col' vw' Hc Hv. apply (H col' vw'); [right; exact Hc|exact Hv].
    + pose proof (H col vw (or_introl eq_refl) Hvw). lia.
Qed.

Section Enumerate.
Variable c : call.
Hypothesis W : WF c.
Let nq := q_nq (c_q c).
Let nb := t_nbins (c_t c).

Lemma wcol_range i vw : In vw (wcol c i) -> 0 <= fst vw <= Z.of_nat nb.
Proof.
  unfold wcol. intros H. apply in_map_iff in H as [[r w] [<- Hin]]. cbn [fst snd].
  apply in_combine_l in Hin.
  destruct (Nat.lt_ge_cases i (length r)) as [Hi|Hi].
  - apply (wf_xrow c W r Hin). apply nth_In. exact Hi.
  - rewrite nth_overflow by exact Hi. lia.
Qed.
(* the histogram coefficient is the total multiplicity of the columns with that value *)
Lemma colpoly_wcol i b : coef (colpoly c i) b = sumZ (map (fun vw => if fst vw =? Z.of_nat b then snd vw else 0) (wcol c i)).
Proof.
  destruct (Nat.lt_ge_cases b (S nb)) as [Hb|Hb].
  - unfold colpoly. fold nb. rewrite nth_map_seq by exact Hb. cbn [Nat.add].
    unfold weight, wcol. rewrite map_map. reflexivity.
  - rewrite nth_beyond by (rewrite (colpoly_length c); fold nb; lia).
    symmetry. apply sumZ_map_zero. intros vw Hvw. pose proof (wcol_range i vw Hvw).
    replace (fst vw =? Z.of_nat b) with false by lia. reflexivity.
Qed.

(* coefficient k of the span polynomial = weighted number of column tuples whose similarities sum to k *)
Lemma SP_enumerates i len : forall k,
  coef (SP c i len) k = count_eq (rev (map (wcol c) (seq i len))) (Z.of_nat k).
Proof.
  induction len; intros k.
  - unfold SP. cbn [seq map rev fold_left count_eq]. destruct k as [|[|k]]; cbn; reflexivity.
  - rewrite SP_S, seq_S, map_app, rev_app_distr. cbn [map rev app count_eq].
    rewrite nth_pmul.
    rewrite (sum_f_ext _ _ (fun a => sumZ (map (fun vw => if (a <=? k)%nat && (fst vw =? Z.of_nat (k - a))
                                                   then coef (SP c i len) a * snd vw else 0) (wcol c (i + len))))).
    2:{ intros a _. destruct (a <=? k)%nat eqn:E; cbn [andb].
        - rewrite colpoly_wcol, <- sumZ_map_mul, map_map. apply sumZ_map_ext_in. intros vw _.
          destruct (fst vw =? Z.of_nat (k - a)); ring.
        - symmetry. apply sumZ_map_zero. intros; reflexivity. }
    rewrite sum_f_sumZ_swap. apply sumZ_map_ext_in. intros vw Hvw.
    pose proof (wcol_range (i + len) vw Hvw) as Hr.
    destruct (Z.leb_spec (fst vw) (Z.of_nat k)) as [Hle|Hgt].
    + (* the single index a = k - v contributes *)
      replace (Z.of_nat k - fst vw) with (Z.of_nat (k - Z.to_nat (fst vw))) by lia.
      rewrite <- IHlen.
      destruct (Nat.lt_ge_cases (k - Z.to_nat (fst vw)) (length (SP c i len))) as [Hin|Hout].
      * rewrite (sum_f_single _ _ (k - Z.to_nat (fst vw))%nat Hin).
        -- replace ((k - Z.to_nat (fst vw) <=? k)%nat && (fst vw =? Z.of_nat (k - (k - Z.to_nat (fst vw))))) with true by lia.
           ring.
        -- intros a Ha Hne. replace ((a <=? k)%nat && (fst vw =? Z.of_nat (k - a))) with false by lia. reflexivity.
      * rewrite (nth_beyond (SP c i len)) by exact Hout. rewrite Z.mul_0_r.
        apply sum_f_zero. intros a Ha. replace ((a <=? k)%nat && (fst vw =? Z.of_nat (k - a))) with false by lia. reflexivity.
    + rewrite count_eq_neg; [| |lia].
      * rewrite Z.mul_0_r. apply sum_f_zero. intros a Ha.
        replace ((a <=? k)%nat && (fst vw =? Z.of_nat (k - a))) with false by lia. reflexivity.
      * intros col vw' Hc Hv. apply in_rev in Hc. apply in_map_iff in Hc as [j [<- _]].
        apply (wcol_range j vw' Hv).
Qed.

(* the reference's per-offset cdf counts the tuples of pooled target columns, one per aligned query
   column, whose complete score (aligned similarities + offset per unaligned column) is at most s *)
Lemma null_poly_enumerates nt k j : (1 <= nt)%nat -> (k < nt + nq - 1)%nat ->
  coef (null_poly c nt (o_of c k)) j
  = count_eq (rev (map (wcol c) (seq (fst (span_of c nt k)) (slen (span_of c nt k))))) (Z.of_nat j).
Proof.
  intros Hnt Hk. rewrite (null_poly_SP c W nt k Hnt Hk). apply SP_enumerates.
Qed.
End Enumerate.
