(* C14 - list / finite-sum lemmas used by the proofs about the model's kernels. *)
From TM Require Import Base.Prelude Base.PyList C14.Model.
Open Scope Z_scope.

Notation coef l k := (nth k l 0).

(* ------------------------------------------------------------------ sumZ *)
Lemma sumZ_cons x l : sumZ (x :: l) = x + sumZ l.
Proof. reflexivity. Qed.
Lemma sumZ_nil : sumZ [] = 0.
Proof. reflexivity. Qed.
Lemma sumZ_app a b : sumZ (a ++ b) = sumZ a + sumZ b.
Proof. induction a; cbn [app]; rewrite ?sumZ_cons, ?sumZ_nil; lia. Qed.
Lemma sumZ_map_mul a l : sumZ (map (Z.mul a) l) = a * sumZ l.
Proof. induction l; cbn [map]; rewrite ?sumZ_cons, ?sumZ_nil; lia. Qed.
Lemma sumZ_repeat0 n : sumZ (repeat 0 n) = 0.
Proof. induction n; cbn [repeat]; rewrite ?sumZ_cons, ?sumZ_nil; lia. Qed.
Lemma sumZ_nonneg l : (forall k, 0 <= coef l k) -> 0 <= sumZ l.
Proof.
  induction l as [|x l IH]; intros H; rewrite ?sumZ_cons, ?sumZ_nil; [lia|].
  pose proof (H 0%nat) as H0. cbn in H0. assert (0 <= sumZ l) by (apply IH; intros k; apply (H (S k))). lia.
Qed.

Lemma nth_repeat0 n k : coef (repeat 0 n) k = 0.
Proof. revert k; induction n; intros [|k]; cbn; auto. Qed.
Lemma nth_repeat_lt {T} (v d : T) n k : (k < n)%nat -> nth k (repeat v n) d = v.
Proof. revert k; induction n; intros [|k] H; cbn; try lia; auto. apply IHn; lia. Qed.
Lemma nth_beyond (l : list Z) k : (length l <= k)%nat -> coef l k = 0.
Proof. intros; apply nth_overflow; auto. Qed.

(* prefix sums *)
Definition presum (l : list Z) (k : nat) : Z := sumZ (firstn (S k) l).
Lemma firstn_S_sum l k : sumZ (firstn (S k) l) = sumZ (firstn k l) + coef l k.
Proof.
  revert k; induction l as [|x l IH]; intros k.
  - rewrite !firstn_nil. destruct k; cbn; lia.
  - destruct k; [cbn; lia|]. rewrite !firstn_cons. cbn [nth]. rewrite !sumZ_cons, IH. lia.
Qed.
Lemma presum_0 l : presum l 0 = coef l 0.
Proof. unfold presum. rewrite firstn_S_sum. cbn. lia. Qed.
Lemma presum_S l k : presum l (S k) = presum l k + coef l (S k).
Proof. unfold presum. rewrite firstn_S_sum. reflexivity. Qed.
Lemma sumZ_firstn_all l k : (length l <= k)%nat -> sumZ (firstn k l) = sumZ l.
Proof. intros. rewrite firstn_all2; auto. Qed.
Lemma presum_firstn l n k : (k < n)%nat -> presum (firstn n l) k = presum l k.
Proof.
  intros. unfold presum. rewrite firstn_firstn. f_equal. f_equal. lia.
Qed.
Lemma presum_app_l a b k : (k < length a)%nat -> presum (a ++ b) k = presum a k.
Proof.
  intros. unfold presum. rewrite firstn_app. replace (S k - length a)%nat with 0%nat by lia.
  cbn. rewrite app_nil_r. reflexivity.
Qed.
Lemma presum_ext a b k : (forall t, (t <= k)%nat -> coef a t = coef b t) -> presum a k = presum b k.
Proof.
  induction k; intros H.
  - rewrite !presum_0. apply H; lia.
  - rewrite !presum_S. rewrite IHk, H; auto.
Qed.
Lemma presum_nonneg l k : (forall t, 0 <= coef l t) -> 0 <= presum l k.
Proof.
  intros H. induction k; [rewrite presum_0; auto|]. rewrite presum_S. specialize (H (S k)). lia.
Qed.
Lemma presum_mono l k : (forall t, 0 <= coef l t) -> presum l k <= presum l (S k).
Proof. intros H. rewrite presum_S. specialize (H (S k)). lia. Qed.

(* ------------------------------------------------------------------ zip_add / add_at *)
Lemma zip_add_length r v : length (zip_add r v) = length r.
Proof. revert v; induction r as [|x r IH]; intros [|y v]; cbn; auto. Qed.
Lemma nth_nil_Z k : coef (@nil Z) k = 0.
Proof. destruct k; reflexivity. Qed.
Lemma nth_zip_add r v s :
  coef (zip_add r v) s = coef r s + (if (s <? length r)%nat then coef v s else 0).
Proof.
  revert v s; induction r as [|x r IH]; intros v s.
  - destruct v; cbn [zip_add length]; rewrite nth_nil_Z; destruct (s <? 0)%nat eqn:E; lia.
  - destruct v as [|y v]; cbn [zip_add].
    + rewrite nth_nil_Z. destruct (s <? _)%nat; lia.
    + destruct s; cbn [nth length]; [reflexivity|]. rewrite IH.
      destruct (s <? length r)%nat eqn:E; destruct (S s <? S (length r))%nat eqn:E2; try lia.
Qed.
Lemma add_at_length r p v : length (add_at r p v) = length r.
Proof.
  revert r; induction p; intros r; cbn.
  - apply zip_add_length.
  - destruct r; cbn; auto.
Qed.
Lemma nth_add_at r p v s :
  coef (add_at r p v) s
  = coef r s + (if (p <=? s)%nat && (s <? length r)%nat then coef v (s - p) else 0).
Proof.
  revert r s; induction p; intros r s.
  - cbn [add_at]. rewrite nth_zip_add. cbn. rewrite Nat.sub_0_r. reflexivity.
  - destruct r as [|x r]; cbn [add_at].
    + destruct s; cbn; rewrite ?andb_false_r; lia.
    + destruct s; cbn [nth]; [cbn; lia|]. rewrite IHp. cbn [length].
      replace (S s - S p)%nat with (s - p)%nat by lia.
      destruct (p <=? s)%nat eqn:E1; destruct (S p <=? S s)%nat eqn:E2; try lia;
      destruct (s <? length r)%nat eqn:E3; destruct (S s <? S (length r))%nat eqn:E4; try lia; reflexivity.
Qed.

(* ------------------------------------------------------------------ cumsum *)
Lemma cumsum_length a l : length (cumsum a l) = length l.
Proof. revert a; induction l; intros; cbn; auto. Qed.
Lemma nth_cumsum a l k : (k < length l)%nat -> coef (cumsum a l) k = a + presum l k.
Proof.
  revert a k; induction l as [|x l IH]; intros a k H; cbn [length] in H; [lia|].
  destruct k.
  - cbn [cumsum nth]. rewrite presum_0. cbn [nth]. lia.
  - cbn [cumsum nth]. rewrite IH by lia. unfold presum. rewrite !firstn_cons, !sumZ_cons. lia.
Qed.

(* ------------------------------------------------------------------ finite sums over 0..n-1 *)
Fixpoint sum_f (n : nat) (g : nat -> Z) : Z :=
  match n with O => 0 | S n' => sum_f n' g + g n' end.
Lemma sum_f_ext n g h : (forall k, (k < n)%nat -> g k = h k) -> sum_f n g = sum_f n h.
Proof. induction n; intros H; cbn; auto. rewrite IHn, H; auto. Qed.
Lemma sum_f_zero n g : (forall k, (k < n)%nat -> g k = 0) -> sum_f n g = 0.
Proof. induction n; intros H; cbn; auto. rewrite IHn, H; auto. Qed.
Lemma sum_f_S n g : sum_f (S n) g = sum_f n g + g n.
Proof. reflexivity. Qed.
Lemma sum_f_front n g : sum_f (S n) g = g 0%nat + sum_f n (fun k => g (S k)).
Proof. induction n; [cbn; ring|]. rewrite sum_f_S, IHn, (sum_f_S n). ring. Qed.
Lemma sum_f_extend n m g : (n <= m)%nat -> (forall k, (n <= k < m)%nat -> g k = 0) ->
  sum_f m g = sum_f n g.
Proof.
  intros Hle H. induction m; [replace n with 0%nat by lia; reflexivity|].
  destruct (Nat.eq_dec n (S m)) as [->|]; [reflexivity|].
  rewrite sum_f_S, IHm; [rewrite H; lia | lia | intros; apply H; lia].
Qed.
Lemma sum_f_add n g h : sum_f n (fun k => g k + h k) = sum_f n g + sum_f n h.
Proof. induction n; [reflexivity|]. rewrite !sum_f_S, IHn. ring. Qed.
Lemma sum_f_scale n a g : sum_f n (fun k => a * g k) = a * sum_f n g.
Proof. induction n; [cbn; ring|]. rewrite !sum_f_S, IHn. ring. Qed.
Lemma sum_f_single n g j : (j < n)%nat -> (forall k, (k < n)%nat -> k <> j -> g k = 0) -> sum_f n g = g j.
Proof.
  induction n; intros Hj H; [lia|]. rewrite sum_f_S.
  destruct (Nat.eq_dec j n) as [->|].
  - rewrite sum_f_zero; [ring|]. intros; apply H; lia.
  - rewrite IHn; [rewrite (H n); [ring|lia|lia] | lia | intros; apply H; lia].
Qed.
Lemma sum_f_nonneg n g : (forall k, (k < n)%nat -> 0 <= g k) -> 0 <= sum_f n g.
Proof.
  induction n; intros H; [cbn; lia|]. rewrite sum_f_S.
  assert (0 <= sum_f n g) by (apply IHn; intros; apply H; lia).
  assert (0 <= g n) by (apply H; lia). lia.
Qed.
Lemma sumZ_as_sum_f l : sumZ l = sum_f (length l) (fun k => coef l k).
Proof.
  induction l as [|x l IH]; [reflexivity|].
  cbn [length]. rewrite sum_f_front. cbn [nth]. rewrite sumZ_cons, IH. reflexivity.
Qed.
Lemma sumZ_firstn_sum_f l k : sumZ (firstn k l) = sum_f k (fun t => coef l t).
Proof.
  induction k; [reflexivity|]. rewrite firstn_S_sum, IHk. reflexivity.
Qed.

(* fold_left over seq with an invariant *)
Lemma fold_seq_inv {S} (f : S -> nat -> S) (P : nat -> S -> Prop) n : forall a s,
  P a s -> (forall k s, (a <= k < a + n)%nat -> P k s -> P (Datatypes.S k) (f s k)) ->
  P (a + n)%nat (fold_left f (seq a n) s).
Proof.
  induction n; intros a s H0 Hs; cbn.
  - rewrite Nat.add_0_r. exact H0.
  - replace (a + Datatypes.S n)%nat with (Datatypes.S a + n)%nat by lia.
    apply IHn.
    + apply Hs; [lia|exact H0].
    + intros k s' Hk. apply Hs. lia.
Qed.
