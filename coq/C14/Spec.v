(* C14 spec: the complete-score reference, written independently of the model's dynamic programme.
   For every query/target pair and every relative offset o the alignment score and the null
   distribution of that offset's score are computed directly from the integerised similarity
   matrix x and the column multiplicities:
     score(o)  = sum over query columns i of  x[col(i+o)][i] if 0 <= i+o < nt, else offset
     null(o)   = distribution of  sum_{aligned i} X_i + offset * #unaligned,  X_i independent,
                 P(X_i = v) = (sum of counts[j] over unique target columns j with x[j][i] = v) / D
                 (one polynomial product per offset, no sharing between offsets or targets)
     best      = max_o score(o)
     p         = 1 - prod_o P(null(o) <= best - 1)
   The reported (offset, overlap) must attain best; strands merge as 1-(1-min p)^2 with the
   higher-scoring strand reported (either one on a tie).  Where the text is silent - which of
   several attaining offsets, inputs outside the preconditions [wf] - the spec accepts. *)
From TM Require Import Base.Prelude C14.Model.
From Coq Require Export QArith Qabs Qround.
Open Scope Z_scope.

Record call := mkcall { c_t : tdata; c_d : dims; c_q : qdata }.
Record orow := mkorow { o_p : Q; o_score : Z; o_off : Z; o_ovl : Z; o_strand : Z }.
(* observed: the histogram f (rows = query columns) and one result row per input target *)
Record outcome := mkout { o_f : list (list Q); o_rows : list orow }.

(* ------------------------------------------------------------------ preconditions *)
Definition D (c : call) : Z := sumZ (t_counts (c_t c)).
Definition ncols (c : call) : nat := length (t_counts (c_t c)).
Definition sum_nat (l : list nat) : nat := fold_right Nat.add 0%nat l.

Definition wf (c : call) : bool :=
  let t := c_t c in let q := c_q c in let nq := q_nq q in
  (1 <=? nq)%nat && (1 <=? t_nbins t)%nat &&
  (nq <=? d_qmax (c_d c))%nat && (q_off q <=? d_ncache (c_d c))%nat &&
  (t_nbins t * nq + nq * q_off q <? nlen_of t (c_d c))%nat &&       (* n < n_len: implied when n_cache >= 1 *)
  (1 <=? ncols c)%nat && forallb (fun w => 1 <=? w) (t_counts t) &&
  (length (q_x q) =? ncols c)%nat &&
  forallb (fun r => (length r =? nq)%nat &&
                    forallb (fun x => (0 <=? x) && (x <=? Z.of_nat (t_nbins t))) r) (q_x q) &&
  (1 <=? length (t_lens t))%nat && forallb (fun nt => (1 <=? nt)%nat) (t_lens t) &&
  (length (t_rrinv t) =? sum_nat (t_lens t))%nat &&
  forallb (fun j => (j <? ncols c)%nat) (t_rrinv t) &&
  (if t_rc t then let n := Nat.div (length (t_lens t)) 2 in
                  (length (t_lens t) =? 2 * n)%nat &&
                  list_eqb Nat.eqb (firstn n (t_lens t)) (skipn n (t_lens t))
   else true).

(* ------------------------------------------------------------------ polynomials (dense, low degree first) *)
Fixpoint padd (p q : list Z) : list Z :=
  match p, q with
  | [], _ => q
  | _, [] => p
  | a :: p', b :: q' => (a + b) :: padd p' q'
  end.
Fixpoint pmul (p q : list Z) : list Z :=
  match p with
  | [] => []
  | a :: p' => if a =? 0 then 0 :: pmul p' q            (* sparse histograms: skip empty bins *)
               else padd (map (Z.mul a) q) (0 :: pmul p' q)
  end.

(* ------------------------------------------------------------------ the reference *)
Definition xval (c : call) (j i : nat) : Z := nth i (nth j (q_x (c_q c)) []) 0.
(* weight of similarity value v in the pooled target-column distribution, for query column i:
   the multiplicities of the unique target columns whose similarity to column i is v *)
Definition weight (c : call) (i : nat) (v : Z) : Z :=
  sumZ (map (fun rw => if nth i (fst rw) 0 =? v then snd rw else 0)
            (combine (q_x (c_q c)) (t_counts (c_t c)))).
Definition colpoly (c : call) (i : nat) : list Z :=
  map (fun v => weight c i (Z.of_nat v)) (seq 0 (S (t_nbins (c_t c)))).

Definition aligned (nt : nat) (o : Z) (i : nat) : bool :=
  (0 <=? Z.of_nat i + o) && (Z.of_nat i + o <? Z.of_nat nt).
(* unique-column index of the target position aligned with query column i *)
Definition tcol (c : call) (start : nat) (o : Z) (i : nat) : nat :=
  nth (start + Z.to_nat (Z.of_nat i + o)) (t_rrinv (c_t c)) 0%nat.
Definition qcols (c : call) : list nat := seq 0 (q_nq (c_q c)).
Definition off_z (c : call) : Z := Z.of_nat (q_off (c_q c)).

Definition score_at (c : call) (start nt : nat) (o : Z) : Z :=
  sumZ (map (fun i => if aligned nt o i then xval c (tcol c start o i) i else off_z c) (qcols c)).
Definition overlap_at (c : call) (nt : nat) (o : Z) : Z :=
  Z.of_nat (length (filter (aligned nt o) (qcols c))).
Definition null_poly (c : call) (nt : nat) (o : Z) : list Z :=
  fold_left (fun acc i => if aligned nt o i then pmul acc (colpoly c i) else acc) (qcols c) [1].
(* D^overlap * P(null(o) <= s) *)
Definition cdf_num (c : call) (nt : nat) (o : Z) (s : Z) : Z :=
  let un := Z.of_nat (q_nq (c_q c)) - overlap_at c nt o in
  sumZ (firstn (Z.to_nat (s - off_z c * un + 1)) (null_poly c nt o)).
Definition cdf_den (c : call) (nt : nat) (o : Z) : Z := D c ^ overlap_at c nt o.

Definition offsets (c : call) (nt : nat) : list Z :=
  map (fun k => Z.of_nat k - Z.of_nat (q_nq (c_q c)) + 1) (seq 0 (nt + q_nq (c_q c) - 1)).
Definition maxZ (l : list Z) : Z := fold_right Z.max 0 l.
Definition prodZ (l : list Z) : Z := fold_right Z.mul 1 l.

Definition best_ref (c : call) (start nt : nat) : Z :=
  maxZ (map (score_at c start nt) (offsets c nt)).
(* numerator and denominator of 1 - prod_o cdf_o(best-1) *)
Definition p_ref (c : call) (nt : nat) (best : Z) : Z * Z :=
  let den := prodZ (map (cdf_den c nt) (offsets c nt)) in
  (den - prodZ (map (fun o => cdf_num c nt o (best - 1)) (offsets c nt)), den).

Definition attains (c : call) (start nt : nat) (best off ovl : Z) : bool :=
  (1 - Z.of_nat (q_nq (c_q c)) <=? off) && (off <? Z.of_nat nt) &&
  (score_at c start nt off =? best) && (overlap_at c nt off =? ovl).

(* ------------------------------------------------------------------ comparison of p-values *)
Definition toQ (p : Z * Z) : Q := Qmake (fst p) (Z.to_pos (snd p)).
Definition tol_rel : Q := 1 # 1000000000.
Definition tol_abs : Q := 1 # 100000000000.
Definition close (p pref : Q) : bool :=
  Qle_bool (Qabs (p - pref)) (tol_rel * Qabs pref + tol_abs).

Fixpoint starts (l : list nat) (acc : nat) : list nat :=
  match l with [] => [] | x :: t => acc :: starts t (acc + x)%nat end.

(* one target on one strand: (start, nt) *)
Definition strand_ok (c : call) (sn : nat * nat) (r : orow) : bool :=
  let best := best_ref c (fst sn) (snd sn) in
  (o_score r =? best) && attains c (fst sn) (snd sn) best (o_off r) (o_ovl r) &&
  close (o_p r) (toQ (p_ref c (snd sn) best)) && (o_strand r =? 0).

Definition pair_ok (c : call) (f b : nat * nat) (r : orow) : bool :=
  let bf := best_ref c (fst f) (snd f) in
  let bb := best_ref c (fst b) (snd b) in
  let pf := p_ref c (snd f) bf in let pb := p_ref c (snd b) bb in
  (o_score r =? Z.max bf bb) &&
  close (o_p r) (toQ (psq (pmin pf pb))) &&
  (((bb <=? bf) && (o_strand r =? 0) && attains c (fst f) (snd f) bf (o_off r) (o_ovl r)) ||
   ((bf <=? bb) && (o_strand r =? 1) && attains c (fst b) (snd b) bb (o_off r) (o_ovl r))).

Definition all2 {A B} (f : A -> B -> bool) (l1 : list A) (l2 : list B) : bool :=
  (length l1 =? length l2)%nat && forallb (fun p => f (fst p) (snd p)) (combine l1 l2).

Definition f_tol : Q := 1 # 1000000000000.
Definition hist_ok (c : call) (f : list (list Q)) : bool :=
  all2 (fun i fr => all2 (fun v fv => Qle_bool (Qabs (fv - Qmake (weight c i (Z.of_nat v)) (Z.to_pos (D c)))) f_tol)
                         (seq 0 (S (t_nbins (c_t c)))) fr)
       (qcols c) f.

Definition spec_ok (c : call) (o : outcome) : bool :=
  if wf c then
    let t := c_t c in
    let ts := combine (starts (t_lens t) 0) (t_lens t) in
    hist_ok c (o_f o) &&
    (if t_rc t then
       let n := Nat.div (length ts) 2 in
       all2 (fun fb r => pair_ok c (fst fb) (snd fb) r) (combine (firstn n ts) (skipn n ts)) (o_rows o)
     else all2 (strand_ok c) ts (o_rows o))
  else true.

(* ------------------------------------------------------------------ the model as an outcome *)
Definition scratch0 : scratch := poison_scratch 0 0.
Definition to_orow (r : rrow) : orow := mkorow (toQ (r_p r)) (r_score r) (r_off r) (r_ovl r) (r_strand r).
Definition model_f (c : call) : list (list Q) :=
  map (fun i => let r := stage_f (c_t c) (c_q c) i in map (fun v => Qmake v (Z.to_pos (rden r))) (rnum r))
      (qcols c).
Definition model_ver (v : ver) (s : scratch) (c : call) : outcome :=
  mkout (model_f c) (map to_orow (snd (run_query_ver v (c_t c) (c_d c) (c_q c) s))).
Definition model (c : call) : outcome := model_ver fixed scratch0 c.

Definition orow_agree (a b : orow) : bool :=
  close (o_p a) (o_p b) && (o_score a =? o_score b) && (o_off a =? o_off b) &&
  (o_ovl a =? o_ovl b) && (o_strand a =? o_strand b).
Definition outcome_agree (o m : outcome) : bool :=
  all2 (all2 (fun a b => Qle_bool (Qabs (a - b)) f_tol)) (o_f o) (o_f m) &&
  all2 orow_agree (o_rows o) (o_rows m).

(* ------------------------------------------------------------------ monotonicity of the integerisation
   observed on _integer_distances_and_histogram: for one query column, exact squared Euclidean
   distances d2 to the unique target columns (rationals computed from the PWM entries) and the
   integerised similarities x the kernel produced; a strictly larger distance (beyond the
   float ambiguity band 1e-12 of the squared distance) must not give a larger x *)
(* d2 are the numerators of the exact squared distances over the common denominator den;
   band = floor(den * 1e-12) *)
Definition mono_ok (band : Z) (d2 xs : list Z) : bool :=
  (length d2 =? length xs)%nat &&
  forallb (fun a => forallb (fun b =>
     if fst a + band <=? fst b then snd b <=? snd a else true) (combine d2 xs))
    (combine d2 xs).

(* ------------------------------------------------------------------ the integerisation itself
   (DESIGN section 7: x = floor((gamma - median) * scale + 1/2)).  For one query the harness recomputes
   v = (gamma - median) * scale from the PWM entries: gamma = -sqrt(d2) exactly where d2 is a rational
   square (coarse-grid PWMs: then every float operation of the kernel is exact and lo = hi = v), otherwise
   as a rigorous bracket [lo, hi] that also covers the kernel's rounding.  Where the bracket decides the
   floor, the kernel's integer x must be floor(v + 1/2); undecided cells demand nothing. *)
Definition int_cell_ok (c : Q * Q * Z) : bool :=
  let a := Qfloor (fst (fst c) + (1 # 2)) in
  if a =? Qfloor (snd (fst c) + (1 # 2)) then snd c =? a else true.
Definition int_ok (cells : list (Q * Q * Z)) : bool := forallb int_cell_ok cells.

(* ------------------------------------------------------------------ the shift and scale of the integerisation
   (tomtom.py: z_min / z_max = extreme median-centred similarities over all query columns;
    i_min = floor(z_min); bin_scale = floor(n_bins / (z_max - i_min)); offset = -i_min * bin_scale).
   The harness recomputes z_min and z_max from the PWM entries (exactly on coarse-grid inputs, then
   lo = hi; as rigorous brackets otherwise) with the median taken from the kernel; where the brackets decide
   both floors, the offset the kernel returned must be the one the definition gives. *)
Definition shift_ok (nb : Z) (zl zh Zl Zh : Q) (off : Z) : bool :=
  let a := Qfloor zl in
  if a =? Qfloor zh then
    if Qle_bool (Zl - inject_Z a) 0 then true
    else
      let s1 := Qfloor (inject_Z nb / (Zh - inject_Z a)) in
      let s2 := Qfloor (inject_Z nb / (Zl - inject_Z a)) in
      if s1 =? s2 then off =? - a * s1 else true
  else true.

(* "a motif compared with a set containing itself attains its best score at offset 0 with full overlap":
   for a target whose columns are the query's own columns, the integerised similarities the kernel
   produced must make relative offset 0 a maximiser of the complete score, with overlap nq
   (which offset is REPORTED among several maximisers stays open, see [attains]) *)
Definition self_ok (c : call) (start : nat) : bool :=
  if wf c then
    let nq := q_nq (c_q c) in
    (best_ref c start nq =? score_at c start nq 0) && (overlap_at c nq 0 =? Z.of_nat nq)
  else true.

Inductive case :=
| KQuery (with_model : bool) (c : call) (o : outcome)   (* with_model = false: reference only (large inputs) *)
| KMono (band : Z) (d2 xs : list Z)
| KInt (cells : list (Q * Q * Z))                       (* (lo, hi, x) per recomputed cell *)
| KShift (nb : Z) (zl zh Zl Zh : Q) (off : Z)            (* brackets of z_min, z_max; offset returned *)
| KSelf (c : call) (start : nat)                         (* the target starting at [start] equals the query *)
| KRaised                                               (* an in-scope tomtom(...) call raised *)
| KMany (l : list case).                                (* the queries of one tomtom(...) call *)

Fixpoint check_case (k : case) : nat :=
  match k with
  | KQuery true c o => verdict (outcome_agree o (model c)) (spec_ok c o)
  | KQuery false c o => verdict true (spec_ok c o)
  | KMono band d2 xs => verdict true (mono_ok band d2 xs)
  | KInt cells => verdict true (int_ok cells)
  | KShift nb zl zh Zl Zh off => verdict true (shift_ok nb zl zh Zl Zh off)
  | KSelf c start => verdict true (self_ok c start)
  | KRaised => 2%nat
  | KMany l => (fix go (l : list case) : nat :=
                  match l with [] => 0%nat | x :: t => Nat.max (check_case x) (go t) end) l
  end.
