(* C14 - property theorems only.  Each is closed by [exact] of a lemma from Proofs.v. *)
From TM Require Import Base.Prelude C14.Model C14.Spec C14.Proofs.
Open Scope Z_scope.

(* For every input (integerised similarity matrix, column multiplicities, target lengths, offset,
   score bins, array dimensions) - all sizes, all nq, nt >= 1, both strand modes - the executable
   model of the integer stage of tomtom.py satisfies the independent complete-score reference:
   score = max over relative offsets, (offset, overlap) attain it, p = 1 - prod_o cdf_o(best-1)
   (exactly, as rationals), strands merged as 1-(1-min p)^2 with the higher-scoring strand.
   Inputs outside the preconditions [wf] are accepted by the spec (the text is silent there). *)
Theorem c14_reference : forall c, spec_ok c (model c) = true.
Proof. exact model_spec_ok. Qed.
Print Assumptions c14_reference.

(* the same for EVERY initial content of the scratch arrays (numpy.empty / left-overs of earlier queries) *)
Theorem c14_reference_any_scratch : forall c, WF c -> forall s, spec_ok c (model_ver fixed s c) = true.
Proof. exact model_spec_ok_scratch. Qed.
Print Assumptions c14_reference_any_scratch.

(* what the reference's per-offset null IS: coefficient j of the polynomial of relative offset k-nq+1
   counts (weighted by the column multiplicities) the tuples of pooled target columns, one per aligned
   query column, whose integerised similarities sum to j - i.e. independent draws from the pooled
   target-column distribution *)
Theorem c14_reference_enumerates : forall c, WF c -> forall nt k j,
  (1 <= nt)%nat -> (k < nt + q_nq (c_q c) - 1)%nat ->
  nth j (null_poly c nt (o_of c k)) 0
  = count_eq (rev (map (wcol c) (seq (fst (span_of c nt k)) (slen (span_of c nt k))))) (Z.of_nat j).
Proof. exact null_poly_enumerates. Qed.
Print Assumptions c14_reference_enumerates.

(* reverse-complementing the targets changes only the reported strand (strands scoring differently) *)
Theorem c14_strand_swap : forall a b, r_score a <> r_score b -> 0 < snd (r_p a) -> 0 < snd (r_p b) ->
  let m1 := merged a b in let m2 := merged b a in
  peq (r_p m1) (r_p m2) /\ r_score m1 = r_score m2 /\ r_off m1 = r_off m2 /\ r_ovl m1 = r_ovl m2 /\
  r_strand m1 = 1 - r_strand m2.
Proof. exact strand_swap. Qed.
Print Assumptions c14_strand_swap.

(* a motif against a set containing itself: best score at offset 0 with full overlap *)
Theorem c14_self_match : forall c total, WF c ->
  let nq := q_nq (c_q c) in
  (forall i j, (i < nq)%nat -> xval c j i <= xval c (tcol c total 0 i) i) ->
  (forall i, (i < nq)%nat -> off_z c <= xval c (tcol c total 0 i) i) ->
  best_ref c total nq = score_at c total nq 0 /\ overlap_at c nq 0 = Z.of_nat nq.
Proof. exact self_match. Qed.
Print Assumptions c14_self_match.

(* column similarity is monotone (non-increasing) in Euclidean distance *)
Theorem c14_integerise_monotone : forall med scale d1 d2, (0 <= scale)%Q -> (d1 <= d2)%Q ->
  integerise med scale d2 <= integerise med scale d1.
Proof. exact integerise_monotone. Qed.
Print Assumptions c14_integerise_monotone.

(* on exactly recomputed cells the spec demands precisely x = floor((gamma - median)*scale + 1/2) *)
Theorem c14_integerise_exact : forall med scale dist x,
  int_cell_ok ((- dist - med) * scale, (- dist - med) * scale, x)%Q = (x =? integerise med scale dist).
Proof. exact int_cell_exact. Qed.
Print Assumptions c14_integerise_exact.

(* on exactly recomputed z_min / z_max the spec demands offset = -floor(z_min) * floor(n_bins / (z_max - floor(z_min))) *)
Theorem c14_shift_exact : forall nb zmin zmax off, Qle_bool (zmax - inject_Z (Qfloor zmin)) 0 = false ->
  shift_ok nb zmin zmin zmax zmax off = (off =? offset_def nb zmin zmax).
Proof. exact shift_exact. Qed.
Print Assumptions c14_shift_exact.

(* the preconditions are satisfiable and the theorem is not vacuous: a 2-column query against
   targets of lengths 1, 3, 2 (one shorter, one longer, one equal), with a zero similarity *)
Definition ex_call : call :=
  mkcall (mktd 6 [2; 1; 1; 3] [1; 3; 2]%nat [0; 1; 2; 3; 0; 2]%nat false) (mkdims 3 8)
         (mkqd 2 3 [[6; 1]; [0; 4]; [3; 3]; [5; 6]]).
Example ex_call_wf : wf ex_call = true /\ length (o_rows (model ex_call)) = 3%nat /\
                     forallb (fun r => negb (Qeq_bool (o_p r) 1)) (o_rows (model ex_call)) = true.
Proof. vm_compute. auto. Qed.

(* ------------------------------------------------------------------ repaired defects: the pre-fix behaviour
   violates the property (witnesses also in corpus/C14, replayed on the implementation every run) *)
(* #17 (fixed by 2381d4d): span pmfs built from f[j, 1..n_bins] only - the mass of score bin 0 is lost.
   x = [0,4,3]: one query column, three single-column targets *)
Definition v0_null : ver := mkver false true false.
Definition w17 : call :=
  mkcall (mktd 5 [1; 1; 1] [1; 1; 1]%nat [0; 1; 2]%nat false) (mkdims 1 20) (mkqd 1 3 [[0]; [4]; [3]]).
Lemma null_mass_v0_refuted : exists c, wf c = true /\ spec_ok c (model_ver v0_null scratch0 c) = false.
Proof. exists w17. vm_compute. auto. Qed.

(* #16 (fixed by a3f2523), seen from C14: a best score of 0 reads B[nt, 2^64-1]; with one target
   column the sentinel row B[0] is hit and the p-value is -1 *)
Definition v0_p0 : ver := mkver true false false.
Lemma zero_score_v0_refuted : exists c, wf c = true /\ spec_ok c (model_ver v0_p0 scratch0 c) = false.
Proof. exists w17. vm_compute. auto. Qed.

(* #18 (fixed by 704dadb): gamma_int stored as int8 although x - offset ranges over n_score_bins values *)
Definition v0_int8 : ver := mkver true true true.
Definition w18 : call :=
  mkcall (mktd 200 [1; 1; 1] [1; 1; 1]%nat [0; 1; 2]%nat false) (mkdims 1 410) (mkqd 1 181 [[35]; [200]; [100]]).
Lemma gamma_int8_v0_refuted : exists c, wf c = true /\ spec_ok c (model_ver v0_int8 scratch0 c) = false.
Proof. exists w18. vm_compute. auto. Qed.
