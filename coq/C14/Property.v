From TM Require Import Base.Prelude C14.Model C14.Spec C14.Proofs.
