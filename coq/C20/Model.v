(* C20 model: design.greedy_substitution (after the two fix: commits), as an executable,
   total Gallina function.  No proofs here.

   The user's network, the target, the mask and the loss function only enter through
       loss : dna -> Z        "mean over the masked outputs of loss(y, model(x))"
   which is an opaque, deterministic, exact function of ONE sequence (Section variable;
   predict acts example-wise, so the loss of candidate i of a tiled batch is the loss of
   that candidate alone - this is the assumption the correspondence run exercises with
   batch sizes 1..64).  Motifs are passed one-hot encoded (list of columns), i.e. after
   utils.one_hot_encode; X is the single sequence X[0].

   The loop mirrors the code statement by statement:

     loss_prev = loss(y, predict(X))
     while True:
         if iteration == max_iter: break
         best_improvement, best_motif_idx, best_pos = 0, -1, -1
         for idx, motif in enumerate(motifs):
             X_ = X.repeat(L - len(motif) + 1)   ; _fast_tile_substitute(X_, motif)
             loss_curr = loss(y, predict(X_))    ; pos = loss_curr.argmin()
             improvement = loss_prev - loss_curr[pos]
             if improvement > best_improvement: best_* = improvement, idx, pos, loss_curr[pos]
         if best_improvement <= tol: break
         if best_motif_idx != -1:
             X = substitute(X, motifs[best_motif_idx], start=best_pos); loss_prev = best_loss
         iteration += 1
     return X                                                                              *)
From TM Require Import Base.Prelude Base.OneHot Base.PyList C01.Model.
Open Scope Z_scope.

(* one accepted round: motif index, position, loss of the sequence after the substitution *)
Definition step := (nat * nat * Z)%type.

(* torch.argmin on exact values: index and value of the FIRST minimal entry; Err on an empty
   tensor (predict already fails on an empty batch) *)
Fixpoint argmin (l : list Z) : res (nat * Z) :=
  match l with
  | [] => Err
  | v :: l' => match argmin l' with
               | Ok (p, w) => if w <? v then Ok (S p, w) else Ok (0%nat, v)
               | Err => Ok (0%nat, v)
               end
  end.

Section Greedy.
  Variable loss : dna -> Z.
  Variable A : nat.                 (* alphabet size *)

  (* X.repeat(n) followed by _fast_tile_substitute: row i is X with the motif written at
     columns i .. i+m-1 *)
  Definition tile_n (n : nat) (x mo : dna) : list dna :=
    map (fun p => splice p (length mo) x mo) (seq 0 n).

  (* L - len(motif) + 1 rows; a negative count makes torch's repeat raise, a count of zero
     makes predict fail on the empty batch *)
  Definition tile (x mo : dna) : res (list dna) :=
    ensure (length mo <=? length x)%nat ;;
    Ok (tile_n (length x + 1 - length mo) x mo).

  (* state of the scan over motifs: best_improvement and (best_motif_idx, best_pos, best_loss);
     None is best_motif_idx = -1 *)
  Definition scan_state := (Z * option step)%type.

  Fixpoint scan (lp : Z) (x : dna) (idx : nat) (ms : list dna) (st : scan_state)
    : res scan_state :=
    match ms with
    | [] => Ok st
    | mo :: ms' =>
        do cs <- tile x mo ;;
        do pv <- argmin (map loss cs) ;;
        let '(pos, lc) := pv in
        let imp := lp - lc in
        scan lp x (S idx) ms' (if imp >? fst st then (imp, Some (idx, pos, lc)) else st)
    end.

  Definition motif_tensor (mo : dna) : tensor := T A (length mo) [mo].

  Fixpoint loop (fuel : nat) (motifs : list dna) (tol max_iter it lp : Z) (x : dna)
    : res (dna * list step) :=
    match fuel with
    | O => Err                                   (* out of fuel; see Proofs.greedy_terminates *)
    | S f =>
        if it =? max_iter then Ok (x, []) else
        do st <- scan lp x 0 motifs (0, None) ;;
        if fst st <=? tol then Ok (x, []) else
        match snd st with
        | Some (idx, pos, bl) =>
            do Y <- substitute (T A (length x) [x]) (motif_tensor (nth idx motifs []))
                               (Some (Z.of_nat pos)) ;;
            match Y with
            | [x'] => do r <- loop f motifs tol max_iter (it + 1) bl x' ;;
                      Ok (fst r, (idx, pos, bl) :: snd r)
            | _ => Err
            end
        | None => loop f motifs tol max_iter (it + 1) lp x
        end
    end.

  (* returns the final sequence and the accepted rounds in order *)
  Definition greedy (motifs : list dna) (tol max_iter : Z) (fuel : nat) (x : dna)
    : res (dna * list step) :=
    loop fuel motifs tol max_iter 0 (loss x) x.

  (* ------------------------------------------------------------------------------------
     Pre-fix behaviours, kept for the _v0_refuted lemmas.

     v0a (before dfb2489): X.repeat(L - len(motif)) - positions 0 .. L-m-1 only; a
     full-length motif gives an empty batch on which predict raises.                       *)
  Definition tile_v0a (x mo : dna) : res (list dna) :=
    ensure (length mo <=? length x)%nat ;;
    Ok (tile_n (length x - length mo) x mo).

  Fixpoint scan_v0a (lp : Z) (x : dna) (idx : nat) (ms : list dna) (st : scan_state)
    : res scan_state :=
    match ms with
    | [] => Ok st
    | mo :: ms' =>
        do cs <- tile_v0a x mo ;;
        do pv <- argmin (map loss cs) ;;
        let '(pos, lc) := pv in
        let imp := lp - lc in
        scan_v0a lp x (S idx) ms' (if imp >? fst st then (imp, Some (idx, pos, lc)) else st)
    end.

  (* v0b (before 58fcec2): the tolerance test came AFTER the substitution, so the round whose
     best improvement is in (0, tol] was still applied.  [scanf] selects the scan. *)
  Fixpoint loop_v0 (scanf : Z -> dna -> nat -> list dna -> scan_state -> res scan_state)
           (fuel : nat) (motifs : list dna) (tol max_iter it lp : Z) (x : dna)
    : res (dna * list step) :=
    match fuel with
    | O => Err
    | S f =>
        if it =? max_iter then Ok (x, []) else
        do st <- scanf lp x 0%nat motifs (0, None) ;;
        match snd st with
        | Some (idx, pos, bl) =>
            do Y <- substitute (T A (length x) [x]) (motif_tensor (nth idx motifs []))
                               (Some (Z.of_nat pos)) ;;
            match Y with
            | [x'] =>
                if fst st <=? tol then Ok (x', [(idx, pos, bl)]) else
                do r <- loop_v0 scanf f motifs tol max_iter (it + 1) bl x' ;;
                Ok (fst r, (idx, pos, bl) :: snd r)
            | _ => Err
            end
        | None => if fst st <=? tol then Ok (x, [])
                  else loop_v0 scanf f motifs tol max_iter (it + 1) lp x
        end
    end.

  (* the tree as it was before both fixes, and with only the first one applied *)
  Definition greedy_v0 motifs tol max_iter fuel x :=
    loop_v0 scan_v0a fuel motifs tol max_iter 0 (loss x) x.
  Definition greedy_v0b motifs tol max_iter fuel x :=
    loop_v0 scan fuel motifs tol max_iter 0 (loss x) x.
End Greedy.
