(* C20 spec: the property text as a decidable relation between a call of greedy_substitution
   and its outcome, written by brute-force enumeration of every single substitution and
   independently of the model's loops (pointwise overwrite instead of list surgery, minimum
   over the flat list of all (motif, position) pairs instead of argmin-per-motif + running
   best).

   Text: "returns a valid one-hot sequence of the original length whose loss against the
   target is never higher than that of the starting sequence and which differs from it only
   inside windows where motifs were substituted.  Each accepted iteration applies the
   (motif, position) substitution with the smallest loss among all motifs and all positions
   at which the motif fits, and the procedure stops after max_iter substitutions or as soon
   as the best available improvement is not above tol."

   Reading: from a state x after k substitutions, let g be the smallest loss over every
   (motif, p) with 0 <= p <= L - m.  The procedure must stop (return x) when k = max_iter or
   loss x - g <= tol (or nothing can be substituted at all); otherwise it must substitute a
   pair whose loss is g - WHICH one among equal-loss pairs is left open by the text, so the
   relation searches over them - and continue from there with k + 1.                        *)
From TM Require Import Base.Prelude Base.OneHot Base.PyList C01.Model C20.Model.
Open Scope Z_scope.

Definition dcol : col := [].

(* result of the search: reachable (with the windows substituted on the way) / not
   reachable / the exploration budget ran out before the question was settled *)
Inductive tri := Yes (ws : list (nat * nat)) | No | Unknown.

(* first Yes wins; otherwise Unknown if some branch was undecided *)
Fixpoint search {C} (f : C -> tri) (l : list C) (unk : bool) : tri :=
  match l with
  | [] => if unk then Unknown else No
  | c :: l' => match f c with
               | Yes ws => Yes ws
               | Unknown => search f l' true
               | No => search f l' unk
               end
  end.

(* a candidate: position, motif length, resulting sequence *)
Definition cand := (nat * nat * dna)%type.
Definition c_seq (c : cand) : dna := snd c.
Definition c_win (c : cand) : nat * nat := fst c.

(* x with columns p .. p+|mo|-1 overwritten by mo, position by position *)
Definition overwrite (x : dna) (p : nat) (mo : dna) : dna :=
  map (fun q => if (p <=? q)%nat && (q <? p + length mo)%nat then nth (q - p) mo dcol
                else nth q x dcol)
      (seq 0 (length x)).

Definition in_window (q : nat) (w : nat * nat) : bool :=
  (fst w <=? q)%nat && (q <? fst w + snd w)%nat.

(* Y equals x0 at every position outside the windows *)
Definition frame (x0 Y : dna) (ws : list (nat * nat)) : bool :=
  forallb (fun q => col_eqb (nth q Y dcol) (nth q x0 dcol) || existsb (in_window q) ws)
          (seq 0 (length x0)).

Section Spec.
  Variable loss : dna -> Z.
  Variable A : nat.
  Variable motifs : list dna.
  Variable tol max_iter : Z.

  (* every (motif, position) at which the motif fits: 0 <= p <= L - m *)
  Definition cands (x : dna) : list cand :=
    flat_map (fun mo => map (fun p => (p, length mo, overwrite x p mo))
                            (seq 0 (length x + 1 - length mo)))
             motifs.

  Definition at_stop (x : dna) (target : option dna) : tri :=
    match target with
    | Some Y => if dna_eqb Y x then Yes [] else No
    | None => No
    end.

  Fixpoint reach (fuel : nat) (x : dna) (k : Z) (target : option dna) : tri :=
    match fuel with
    | O => Unknown
    | S f =>
        if k =? max_iter then at_stop x target else
        match map (fun c => (c, loss (c_seq c))) (cands x) with
        | [] => at_stop x target
        | c :: cs =>
            let g := fold_right (fun c' m => Z.min (snd c') m) (snd c) cs in
            if loss x - g <=? tol then at_stop x target
            else search (fun c' : cand * Z =>
                           match reach f (c_seq (fst c')) (k + 1) target with
                           | Yes ws => Yes (c_win (fst c') :: ws)
                           | r => r
                           end)
                        (filter (fun c' => snd c' =? g) (c :: cs)) false
        end
    end.

  (* inputs the property speaks about: a valid one-hot sequence, valid one-hot motifs that
     fit into it, tol >= 0, max_iter >= -1 *)
  Definition scope (x0 : dna) : bool :=
    valid_t (T A (length x0) [x0]) &&
    forallb (fun mo => valid_t (T A (length mo) [mo]) && (length mo <=? length x0)%nat) motifs &&
    (0 <=? tol) && (-1 <=? max_iter).

  (* [fuel] bounds the exploration; when it runs out the relation does not complain
     (Proofs.greedy_terminates says which fuel always suffices) *)
  Definition gspec (fuel : nat) (x0 : dna) (o : res dna) : bool :=
    if scope x0 then
      match o with
      | Ok Y =>
          dna_valid A Y && (length Y =? length x0)%nat && (loss Y <=? loss x0) &&
          match reach fuel x0 0 (Some Y) with
          | Yes ws => frame x0 Y ws
          | No => false
          | Unknown => true
          end
      | Err => match reach fuel x0 0 None with Unknown => true | _ => false end
      end
    else true.
End Spec.

(* ------------------------------------------------------------------------------------------
   The same property as a Prop-level relation (what the theorems of Property.v are stated
   with).  [run x k tr Y]: started in state x after k substitutions, the procedure accepts
   exactly the rounds tr = [(motif index, position, loss after)] and returns Y.            *)
Section PropSpec.
  Variable loss : dna -> Z.
  Variable motifs : list dna.
  Variable tol max_iter : Z.

  Definition mot (i : nat) : dna := nth i motifs [].
  (* motif i fits at position p of x: 0 <= p <= L - m *)
  Definition fits (x : dna) (i p : nat) : Prop :=
    (i < length motifs)%nat /\ (p + length (mot i) <= length x)%nat.
  Definition sub (x : dna) (i p : nat) : dna := overwrite x p (mot i).
  (* enumeration order of the (motif, position) pairs: motif by motif, left to right *)
  Definition lex_before (i p i0 p0 : nat) : Prop := (i < i0)%nat \/ (i = i0 /\ (p < p0)%nat).

  Inductive run : dna -> Z -> list step -> dna -> Prop :=
  | run_max x k : k = max_iter -> run x k [] x
  | run_tol x k : k <> max_iter ->
      (forall i p, fits x i p -> loss x - loss (sub x i p) <= tol) ->
      run x k [] x
  | run_step x k i p tr Y : k <> max_iter -> fits x i p ->
      tol < loss x - loss (sub x i p) ->
      (forall i' p', fits x i' p' -> loss (sub x i p) <= loss (sub x i' p')) ->
      (forall i' p', fits x i' p' -> lex_before i' p' i p -> loss (sub x i p) < loss (sub x i' p')) ->
      run (sub x i p) (k + 1) tr Y ->
      run x k ((i, p, loss (sub x i p)) :: tr) Y.

  (* the losses after the accepted rounds go down by more than tol each time *)
  Fixpoint descending (v : Z) (tr : list step) : Prop :=
    match tr with
    | [] => True
    | s :: tr' => snd s < v - tol /\ descending (snd s) tr'
    end.

  (* the loss after the last accepted round *)
  Fixpoint final_loss (v : Z) (tr : list step) : Z :=
    match tr with [] => v | s :: tr' => final_loss (snd s) tr' end.

  (* the state reached after the accepted rounds tr *)
  Definition replay (x : dna) (tr : list step) : dna :=
    fold_left (fun x' (s : step) => sub x' (fst (fst s)) (snd (fst s))) tr x.

  (* position q lies in no substituted window *)
  Definition untouched (tr : list step) (q : nat) : Prop :=
    forall i p l, In (i, p, l) tr -> ~ (p <= q < p + length (mot i))%nat.
End PropSpec.

(* ------------------------------------------------------------------------------------------
   The concrete exact losses the correspondence run uses: a two-layer integer network
       h_i   = act(sum_p <W1[i][p], x[p]> + b1[i])         act = relu or identity
       out_j = scale * (<W2[j], h> + b2[j])
   a target vector, a mask over the outputs and an element-wise loss (squared or absolute
   error) averaged over the masked outputs.  With n = number of masked outputs and
   tol = tn/td the mean is S/n; everything is compared after multiplying by n*td:
       loss x = td * S x         tol = tn * n                                               *)
Record net := Net { nW1 : list (list (list Z)); nb1 : list Z; nrelu : bool;
                    nW2 : list (list Z); nb2 : list Z; nscale : Z }.

Definition sumZ (l : list Z) : Z := fold_right Z.add 0 l.
Definition dot (a b : list Z) : Z := sumZ (map2 Z.mul a b).

Definition hidden (n : net) (x : dna) : list Z :=
  map2 (fun w b => let z := sumZ (map2 dot w x) + b in if nrelu n then Z.max 0 z else z)
       (nW1 n) (nb1 n).

Definition forward (n : net) (x : dna) : list Z :=
  let h := hidden n x in
  map2 (fun w b => nscale n * (dot w h + b)) (nW2 n) (nb2 n).

Record call := Call {
  cA : nat; cX : dna; cmotifs : list dna;
  cnet : net; ctarget : list Z; cmask : list bool;
  ckind : nat;   (* element-wise loss(y, y_hat): 0 (y-y_hat)^2, 1 |y-y_hat|, 2 the asymmetric
                    2*relu(y-y_hat) + relu(y_hat-y), which tells the two arguments apart *)
  ctn : Z; ctd : Z; cmax : Z; cfuel : nat }.

Definition nmask (c : call) : Z := Z.of_nat (length (filter (fun b : bool => b) (cmask c))).

Definition net_S (c : call) (x : dna) : Z :=
  sumZ (map2 (fun (td : Z * Z) (mk : bool) =>
                let d := fst td - snd td in      (* y - y_hat *)
                if mk then match ckind c with
                           | O => d * d
                           | S O => Z.abs d
                           | _ => 2 * Z.max 0 d + Z.max 0 (- d)
                           end
                else 0)
             (combine (ctarget c) (forward (cnet c) x)) (cmask c)).

Definition closs (c : call) (x : dna) : Z := ctd c * net_S c x.
Definition ctol (c : call) : Z := ctn c * nmask c.

Definition outcome := res dna.

Definition spec_ok (c : call) (o : outcome) : bool :=
  if (0 <? ctd c) && (0 <? nmask c) then
    gspec (closs c) (cA c) (cmotifs c) (ctol c) (cmax c) (cfuel c) (cX c) o
  else true.

Definition model_of (g : (dna -> Z) -> nat -> list dna -> Z -> Z -> nat -> dna -> res (dna * list step))
           (c : call) : outcome :=
  do r <- g (closs c) (cA c) (cmotifs c) (ctol c) (cmax c) (cfuel c) (cX c) ;; Ok (fst r).

Definition model : call -> outcome := model_of greedy.
Definition model_v0 : call -> outcome := model_of greedy_v0.      (* before both fixes *)
Definition model_v0b : call -> outcome := model_of greedy_v0b.    (* last position tried, tol test late *)

(* the accepted (motif, position) rounds, derived from the model run *)
Definition model_trace (c : call) : res (list (nat * nat)) :=
  do r <- greedy (closs c) (cA c) (cmotifs c) (ctol c) (cmax c) (cfuel c) (cX c) ;;
  Ok (map (fun s : step => fst s) (snd r)).

Definition outcome_eqb : outcome -> outcome -> bool := res_eqb dna_eqb.

(* one correspondence case is a SEQUENCE of calls made one after the other in one process,
   re-using the caller's objects (X, y, mask, motif list, network) wherever two calls of the
   sequence have equal contents; with each call: the implementation's outcome and whether all
   the caller's objects were bit-identical to their contents afterwards.  The model is a pure
   function, so every call is judged on its nominal input: state leaking from one call into
   the next (stale caches, caller data modified in place) shows as a disagreement. *)
Definition case := list (call * outcome * bool).

Definition check_call (c : call * outcome * bool) : nat :=
  let '(cl, o, unchanged) := c in
  verdict (unchanged && outcome_eqb o (model cl)) (spec_ok cl o).

Definition check_case (cs : case) : nat := fold_right (fun c m => Nat.max (check_call c) m) 0%nat cs.
