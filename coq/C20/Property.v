(* C20 - property theorems only.  Each is closed by [exact] of a lemma from Proofs.v.

   greedy_substitution (design.py) is modelled by [greedy loss A motifs tol max_iter fuel x]
   (Model.v) for an arbitrary exact loss : dna -> Z.  [scope] = the inputs the property talks
   about: valid one-hot x, valid one-hot motifs that fit, tol >= 0, max_iter >= -1.        *)
From TM Require Import Base.Prelude Base.OneHot C01.Model C20.Model C20.Spec C20.Proofs.
Open Scope Z_scope.

(* The decidable relation evaluated on every implementation outcome holds of the model, for
   every call (any network, target, mask, loss kind, tol, max_iter, fuel). *)
Theorem c20_spec : forall c, spec_ok c (model c) = true.
Proof. exact spec_model. Qed.
Print Assumptions c20_spec.

(* The model computes exactly a greedy run: every accepted round substitutes the FIRST (motif
   by motif, left to right) pair of smallest loss among all motifs and all positions
   0 <= p <= L - m, improves by more than tol, and the run ends at max_iter substitutions or
   at the first state whose best available improvement is <= tol. *)
Theorem c20_greedy_run : forall loss A motifs tol max_iter fuel x Y tr,
  scope A motifs tol max_iter x = true ->
  greedy loss A motifs tol max_iter fuel x = Ok (Y, tr) ->
  run loss motifs tol max_iter x 0 tr Y.
Proof. exact greedy_run. Qed.
Print Assumptions c20_greedy_run.

(* valid one-hot, original length, equal to the start outside the substituted windows *)
Theorem c20_greedy_valid : forall loss A motifs tol max_iter fuel x Y tr,
  scope A motifs tol max_iter x = true ->
  greedy loss A motifs tol max_iter fuel x = Ok (Y, tr) ->
  dna_valid A Y = true /\ length Y = length x /\
  forall q, untouched motifs tr q -> nth q Y dcol = nth q x dcol.
Proof. exact greedy_valid. Qed.
Print Assumptions c20_greedy_valid.

(* never worse than the start; strictly smaller (by more than tol) after every accepted round *)
Theorem c20_greedy_monotone : forall loss A motifs tol max_iter fuel x Y tr,
  scope A motifs tol max_iter x = true ->
  greedy loss A motifs tol max_iter fuel x = Ok (Y, tr) ->
  loss Y <= loss x /\ descending tol (loss x) tr /\ loss Y = final_loss (loss x) tr.
Proof. exact greedy_monotone. Qed.
Print Assumptions c20_greedy_monotone.

(* every accepted (motif i, position p), taken in the state xs reached by the rounds before
   it, minimises the loss over all motifs and all fitting positions (incl. p = L - m), and is
   the first such pair in enumeration order *)
Theorem c20_greedy_step_optimal : forall loss A motifs tol max_iter fuel x Y tr,
  scope A motifs tol max_iter x = true ->
  greedy loss A motifs tol max_iter fuel x = Ok (Y, tr) ->
  forall pre i p l post, tr = pre ++ (i, p, l) :: post ->
  let xs := replay motifs x pre in
  fits motifs xs i p /\ l = loss (sub motifs xs i p) /\ tol < loss xs - l /\
  (forall i' p', fits motifs xs i' p' -> l <= loss (sub motifs xs i' p')) /\
  (forall i' p', fits motifs xs i' p' -> lex_before i' p' i p -> l < loss (sub motifs xs i' p')).
Proof. exact greedy_step_optimal. Qed.
Print Assumptions c20_greedy_step_optimal.

(* at most max_iter substitutions; and it stopped because max_iter was reached or because no
   substitution of the returned sequence improves by more than tol *)
Theorem c20_greedy_stops : forall loss A motifs tol max_iter fuel x Y tr,
  scope A motifs tol max_iter x = true ->
  greedy loss A motifs tol max_iter fuel x = Ok (Y, tr) ->
  (0 <= max_iter -> Z.of_nat (length tr) <= max_iter) /\
  (Z.of_nat (length tr) = max_iter \/
   forall i p, fits motifs Y i p -> loss Y - loss (sub motifs Y i p) <= tol).
Proof. exact greedy_stops. Qed.
Print Assumptions c20_greedy_stops.

(* termination, also for max_iter = -1: max_iter + 1 rounds of fuel, or loss x - lo + 1 for
   any lower bound lo of the loss (0 for squared / absolute error) *)
Theorem c20_greedy_terminates : forall loss A motifs tol max_iter fuel x lo,
  scope A motifs tol max_iter x = true ->
  (forall y, lo <= loss y) ->
  (0 <= max_iter < Z.of_nat fuel \/ loss x - lo < Z.of_nat fuel) ->
  exists Y tr, greedy loss A motifs tol max_iter fuel x = Ok (Y, tr).
Proof. exact greedy_terminates. Qed.
Print Assumptions c20_greedy_terminates.

(* ---------- witnesses (the same inputs are in corpus/C20) ---------- *)
Definition bA : col := [1; 0; 0; 0].
Definition bG : col := [0; 0; 1; 0].
Definition z4 : col := [0; 0; 0; 0].
Definition xA8 : dna := repeat bA 8.

(* output = [x[7] = G], target 1: the only improving placement of "G" is the last position *)
Definition w_last : call :=
  Call 4 xA8 [[bG]] (Net [repeat z4 7 ++ [bG]] [0] false [[1]] [0] 1) [1] [true] 0 0 1 1 2.
(* output = number of G, target 8, one full-length motif GGGGGGGG *)
Definition w_full : call :=
  Call 4 xA8 [repeat bG 8] (Net [repeat bG 8] [0] false [[1]] [0] 1) [8] [true] 0 0 1 1 2.
(* outputs ([x[3] = G], 0), target (1, 0): the only improvement is 1/2, tol = 1 *)
Definition w_tol : call :=
  Call 4 xA8 [[bG]] (Net [repeat z4 3 ++ [bG] ++ repeat z4 4] [0] false [[1]; [0]] [0; 0] 1)
       [1; 0] [true; true] 0 1 1 (-1) 5.

(* the hypotheses are satisfiable, with an accepted round at the last fitting position *)
Example c20_scope_satisfiable :
  scope 4 (cmotifs w_last) (ctol w_last) (cmax w_last) (cX w_last) = true /\
  model_trace w_last = Ok [(0%nat, 7%nat)] /\ model_trace w_full = Ok [(0%nat, 0%nat)] /\
  model_trace w_tol = Ok [].
Proof. vm_compute. auto. Qed.

(* before dfb2489: position L - m never tried -> the sequence comes back unchanged although a
   substitution improves the loss by 1 > tol = 0 *)
Lemma step_v0_refuted : exists c, spec_ok c (model_v0 c) = false.
Proof. exists w_last. vm_compute. reflexivity. Qed.

(* before dfb2489: a full-length motif makes predict raise on an empty batch *)
Lemma full_length_v0_refuted : exists c, model_v0 c = Err /\ spec_ok c (model_v0 c) = false.
Proof. exists w_full. vm_compute. auto. Qed.

(* before 58fcec2: the substitution of the round whose best improvement is <= tol was applied *)
Lemma tol_v0_refuted : exists c, spec_ok c (model_v0b c) = false /\ spec_ok c (model_v0 c) = false.
Proof. exists w_tol. vm_compute. auto. Qed.
