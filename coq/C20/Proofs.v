(* C20 proofs.  Part 1: argmin / tile / scan (one round of the greedy search). *)
From TM Require Import Base.Prelude Base.OneHot Base.PyList C01.Model C01.Spec C01.Proofs
                       C20.Model C20.Spec.
Open Scope Z_scope.

(* ---------- argmin: first minimiser ---------- *)

Lemma argmin_spec l p v : argmin l = Ok (p, v) ->
  (p < length l)%nat /\ nth p l 0 = v /\
  (forall q, (q < length l)%nat -> v <= nth q l 0) /\
  (forall q, (q < p)%nat -> v < nth q l 0).
Proof.
  revert p v. induction l as [|a l IH]; intros p v H; cbn in H; [discriminate|].
  destruct (argmin l) as [[p' w]|] eqn:E.
  - destruct (IH p' w eq_refl) as (Hp & Hn & Hall & Hfirst).
    destruct (Z.ltb_spec w a) as [Hw|Hw]; inversion H; subst; clear H; cbn [length nth].
    + repeat split; [lia | | ].
      * intros [|q] Hq; [lia | apply Hall; lia].
      * intros [|q] Hq; [lia | apply Hfirst; lia].
    + repeat split; [lia | | intros; lia].
      intros [|q] Hq; [lia|]. specialize (Hall q ltac:(lia)). lia.
  - inversion H; subst; clear H. destruct l; [|cbn in E; destruct (argmin l) as [[? ?]|]; try destruct (_ <? _); discriminate].
    cbn. repeat split; [lia | | intros; lia]. intros [|q] Hq; cbn in *; lia.
Qed.

Lemma argmin_ok l : l <> [] -> exists p v, argmin l = Ok (p, v).
Proof.
  destruct l as [|a l]; [congruence|]. intros _. cbn.
  destruct (argmin l) as [[p w]|]; [destruct (w <? a)|]; eauto.
Qed.

Lemma nth_map_seq {T} (f : nat -> T) n p d : (p < n)%nat -> nth p (map f (seq 0 n)) d = f p.
Proof.
  intros Hp. rewrite nth_indep with (d' := f 0%nat) by (rewrite map_length, seq_length; exact Hp).
  rewrite map_nth, seq_nth by exact Hp. reflexivity.
Qed.

Section Round.
  Variable loss : dna -> Z.
  Variable A : nat.
  Variable motifs : list dna.

  (* the candidate (motif i, position p) of state x, as the model builds it *)
  Local Notation mot := (mot motifs).
  Local Notation fitsP := (fits motifs).
  Definition cnd (x : dna) (i p : nat) : dna := splice p (length (mot i)) x (mot i).

  Lemma tile_n_length n x mo : length (tile_n n x mo) = n.
  Proof. unfold tile_n. rewrite map_length, seq_length. reflexivity. Qed.

  Lemma nth_map_loss_tile n x mo p : (p < n)%nat ->
    nth p (map loss (tile_n n x mo)) 0 = loss (splice p (length mo) x mo).
  Proof.
    intros Hp. unfold tile_n. rewrite map_map.
    apply (nth_map_seq (fun q => loss (splice q (length mo) x mo))). exact Hp.
  Qed.

  (* what the scan knows after the motifs with index < j *)
  Definition scan_inv (lp : Z) (x : dna) (j : nat) (st : scan_state) : Prop :=
    match snd st with
    | None => fst st = 0 /\ forall i p, (i < j)%nat -> fitsP x i p -> lp <= loss (cnd x i p)
    | Some (i0, p0, bl) =>
        (i0 < j)%nat /\ fitsP x i0 p0 /\ bl = loss (cnd x i0 p0) /\ fst st = lp - bl /\ bl < lp /\
        (forall i p, (i < j)%nat -> fitsP x i p -> bl <= loss (cnd x i p)) /\
        (forall i p, fitsP x i p -> lex_before i p i0 p0 -> bl < loss (cnd x i p))
    end.

  Lemma scan_step lp x pre ms st :
    motifs = pre ++ ms ->
    Forall (fun mo => (length mo <= length x)%nat) ms ->
    scan_inv lp x (length pre) st ->
    exists st', scan loss lp x (length pre) ms st = Ok st' /\ scan_inv lp x (length motifs) st'.
  Proof.
    revert pre st. induction ms as [|mo ms IH]; intros pre st Hm Hfit Hinv.
    - cbn. exists st. split; [reflexivity|]. rewrite Hm, app_nil_r. exact Hinv.
    - inversion Hfit as [|? ? Hmo Hfit']; subst.
      cbn [scan]. unfold tile. apply Nat.leb_le in Hmo as Hmo'. rewrite Hmo'. cbn [guard bind].
      set (n := (length x + 1 - length mo)%nat).
      assert (Hn : (0 < n)%nat) by (unfold n; lia).
      destruct (argmin_ok (map loss (tile_n n x mo))) as (pos & lc & Ea).
      { intro E. apply (f_equal (@length Z)) in E. rewrite map_length, tile_n_length in E. cbn in E. lia. }
      rewrite Ea. cbn [bind].
      destruct (argmin_spec _ _ _ Ea) as (Hpos & Hval & Hall & Hfirst).
      rewrite map_length, tile_n_length in Hpos, Hall.
      rewrite nth_map_loss_tile in Hval by exact Hpos.
      assert (Hmot : mot (length pre) = mo).
      { unfold mot. rewrite Hm, app_nth2 by lia. rewrite Nat.sub_diag. reflexivity. }
      assert (Hj : (length pre < length motifs)%nat) by (rewrite Hm, app_length; cbn; lia).
      assert (Hcand : forall p, (p < n)%nat -> loss (cnd x (length pre) p) = nth p (map loss (tile_n n x mo)) 0).
      { intros p Hp. rewrite nth_map_loss_tile by exact Hp. unfold cnd. rewrite Hmot. reflexivity. }
      assert (Hfitn : forall p, fitsP x (length pre) p -> (p < n)%nat).
      { intros p [_ Hp]. rewrite Hmot in Hp. unfold n. lia. }
      assert (Hpre : motifs = (pre ++ [mo]) ++ ms) by (rewrite Hm, <- app_assoc; reflexivity).
      assert (Hlen : length (pre ++ [mo]) = S (length pre)) by (rewrite app_length; cbn; lia).
      specialize (IH (pre ++ [mo])). rewrite Hlen in IH.
      apply IH; [exact Hpre | exact Hfit' |]. clear IH.
      unfold scan_inv in *.
      destruct (Z.gtb_spec (lp - lc) (fst st)) as [Hgt|Hle].
      + (* this motif's best candidate becomes the running best *)
        cbn [fst snd].
        assert (Hst0 : 0 <= fst st).
        { destruct (snd st) as [[[i0 p0] bl]|]; [destruct Hinv as (_ & _ & _ & E & Hlt & _)| destruct Hinv as [E _]]; lia. }
        split; [lia|]. split; [split; [exact Hj | rewrite Hmot; unfold n in Hpos; lia]|].
        split; [rewrite <- Hval; unfold cnd; rewrite Hmot; reflexivity|].
        split; [reflexivity|]. split; [lia|]. split.
        * intros i p Hi Hf. destruct (Nat.eq_dec i (length pre)) as [->|Hne].
          -- rewrite Hcand by auto. apply Hall. auto.
          -- destruct (snd st) as [[[i0 p0] bl]|].
             ++ destruct Hinv as (_ & _ & _ & E & _ & Hall' & _). specialize (Hall' i p ltac:(lia) Hf). lia.
             ++ destruct Hinv as [E Hall']. specialize (Hall' i p ltac:(lia) Hf). lia.
        * intros i p Hf [Hlt|[-> Hlt]].
          -- destruct (snd st) as [[[i0 p0] bl]|].
             ++ destruct Hinv as (_ & _ & _ & E & _ & Hall' & _). specialize (Hall' i p Hlt Hf). lia.
             ++ destruct Hinv as [E Hall']. specialize (Hall' i p Hlt Hf). lia.
          -- rewrite Hcand by lia. apply Hfirst. exact Hlt.
      + (* the running best stays *)
        destruct (snd st) as [[[i0 p0] bl]|] eqn:Est.
        * destruct Hinv as (Hi0 & Hf0 & Hbl & E & Hlt & Hall' & Hlex).
          split; [lia|]. split; [exact Hf0|]. split; [exact Hbl|]. split; [exact E|]. split; [exact Hlt|].
          split; [|exact Hlex].
          intros i p Hi Hf. destruct (Nat.eq_dec i (length pre)) as [->|Hne].
          -- rewrite Hcand by auto. specialize (Hall p (Hfitn p Hf)). lia.
          -- apply Hall'; [lia | exact Hf].
        * destruct Hinv as [E Hall']. split; [exact E|].
          intros i p Hi Hf. destruct (Nat.eq_dec i (length pre)) as [->|Hne].
          -- rewrite Hcand by auto. specialize (Hall p (Hfitn p Hf)). lia.
          -- apply Hall'; [lia | exact Hf].
  Qed.

  (* one whole round: the scan succeeds and its state describes the global first minimiser *)
  Lemma scan_round lp x :
    Forall (fun mo => (length mo <= length x)%nat) motifs ->
    exists st, scan loss lp x 0 motifs (0, None) = Ok st /\ scan_inv lp x (length motifs) st.
  Proof.
    intros Hfit. apply (scan_step lp x [] motifs (0, None)); [reflexivity | exact Hfit |].
    cbn. split; [reflexivity|]. intros; lia.
  Qed.
End Round.

(* ------------------------------------------------------------------------------------------
   Part 2: the brute-force side (overwrite, cands, minimum, search).                        *)

Lemma overwrite_length x p mo : length (overwrite x p mo) = length x.
Proof. unfold overwrite. rewrite map_length, seq_length. reflexivity. Qed.

Lemma nth_overwrite x p mo q : (q < length x)%nat ->
  nth q (overwrite x p mo) dcol =
  if (p <=? q)%nat && (q <? p + length mo)%nat then nth (q - p) mo dcol else nth q x dcol.
Proof. intros Hq. unfold overwrite. rewrite nth_map_seq by exact Hq. reflexivity. Qed.

Lemma overwrite_splice x p mo : (p + length mo <= length x)%nat ->
  overwrite x p mo = splice p (length mo) x mo.
Proof.
  intros H. apply nth_ext with (d := dcol) (d' := dcol).
  - rewrite overwrite_length, splice_length; auto.
  - intros q Hq. rewrite overwrite_length in Hq. rewrite nth_overwrite by exact Hq.
    rewrite nth_splice by auto. reflexivity.
Qed.

Lemma in_cands motifs x c :
  In c (cands motifs x) <->
  exists mo p, In mo motifs /\ (p < length x + 1 - length mo)%nat /\ c = (p, length mo, overwrite x p mo).
Proof.
  unfold cands. rewrite in_flat_map. split.
  - intros (mo & Hmo & Hc). apply in_map_iff in Hc as (p & <- & Hp). apply in_seq in Hp.
    exists mo, p. repeat split; auto; lia.
  - intros (mo & p & Hmo & Hp & ->). exists mo. split; [exact Hmo|].
    apply in_map_iff. exists p. split; [reflexivity|]. apply in_seq. lia.
Qed.

Lemma fold_min_spec (c : cand * Z) (l : list (cand * Z)) :
  let g := fold_right (fun c' m => Z.min (snd c') m) (snd c) l in
  (forall c', In c' (c :: l) -> g <= snd c') /\ (exists c', In c' (c :: l) /\ snd c' = g).
Proof.
  induction l as [|a l IH]; cbn.
  - split; [intros c' [<-|[]]; lia | exists c; auto].
  - destruct IH as [Hall (c0 & Hin & Hc0)]. cbn in Hall, Hin. split.
    + intros c' [<-|[<-|Hc']]; [specialize (Hall c (or_introl eq_refl)) | | specialize (Hall c' (or_intror Hc'))]; lia.
    + destruct (Z.min_spec (snd a) (fold_right (fun c' m => Z.min (snd c') m) (snd c) l)) as [[_ E]|[_ E]];
        rewrite E.
      * exists a. auto.
      * exists c0. split; [|exact Hc0]. destruct Hin as [<-|Hin]; auto.
Qed.

Lemma search_yes_in {C} (f : C -> tri) l u ws :
  search f l u = Yes ws -> exists c, In c l /\ f c = Yes ws.
Proof.
  revert u. induction l as [|a l IH]; intros u H; cbn in H.
  - destruct u; discriminate.
  - destruct (f a) eqn:E.
    + inversion H; subst. exists a. split; [left; reflexivity | exact E].
    + destruct (IH _ H) as (c & Hc & Ec). exists c. split; [right; exact Hc | exact Ec].
    + destruct (IH _ H) as (c & Hc & Ec). exists c. split; [right; exact Hc | exact Ec].
Qed.

Lemma search_find {C} (f : C -> tri) l u c ws :
  In c l -> f c = Yes ws -> exists ws', search f l u = Yes ws'.
Proof.
  revert u. induction l as [|a l IH]; intros u Hin E; [destruct Hin|].
  cbn. destruct Hin as [->|Hin].
  - rewrite E. eauto.
  - destruct (f a); eauto.
Qed.

Lemma search_unknown {C} (f : C -> tri) l :
  (forall c ws, f c <> Yes ws) ->
  forall u, (u = true \/ exists c, In c l /\ f c = Unknown) -> search f l u = Unknown.
Proof.
  intros Hny. induction l as [|a l IH]; intros u H; cbn.
  - destruct H as [->|(c & [] & _)]. reflexivity.
  - destruct (f a) eqn:E.
    + exfalso. eapply Hny; eauto.
    + apply IH. destruct H as [H|(c & [<-|Hc] & Ec)]; [left; exact H | congruence | right; eauto].
    + apply IH. left. reflexivity.
Qed.

Lemma dna_eqb_refl x : dna_eqb x x = true.
Proof. apply dna_eqb_spec. reflexivity. Qed.

(* ------------------------------------------------------------------------------------------
   Part 3: applying the accepted substitution through ersatz.substitute (C01's model).      *)

Lemma has_single v (s : dna) : has v [s] = existsb (fun c => existsb (Z.eqb v) c) s.
Proof. unfold has. cbn. apply orb_false_r. Qed.

Lemma valid_single A (x : dna) :
  valid_t (T A (length x) [x]) = true <->
  dna_valid A x = true /\ has 0 [x] = true /\ has 1 [x] = true.
Proof.
  unfold valid_t, valid_ohe. cbn [tA tL tX]. unfold rect, cols_valid. cbn [forallb].
  rewrite Nat.eqb_refl. cbn [andb]. rewrite !andb_true_r.
  rewrite !andb_true_iff. tauto.
Qed.

Lemma has_splice v p m x mo : has v [mo] = true -> has v [splice p m x mo] = true.
Proof.
  rewrite !has_single. unfold splice. intros H. rewrite !existsb_app, H.
  rewrite orb_true_r. reflexivity.
Qed.

Lemma valid_splice A x mo p :
  valid_t (T A (length x) [x]) = true -> valid_t (T A (length mo) [mo]) = true ->
  (p + length mo <= length x)%nat ->
  valid_t (T A (length (splice p (length mo) x mo)) [splice p (length mo) x mo]) = true.
Proof.
  intros Hx Hm Hp. apply valid_single in Hx as (Hx & _ & _). apply valid_single in Hm as (Hm & H0 & H1).
  apply valid_single. repeat split.
  - apply dna_valid_splice; auto.
  - apply has_splice; auto.
  - apply has_splice; auto.
Qed.

Lemma substitute_ok A x mo p :
  valid_t (T A (length x) [x]) = true -> valid_t (T A (length mo) [mo]) = true ->
  (p + length mo <= length x)%nat ->
  substitute (T A (length x) [x]) (motif_tensor A mo) (Some (Z.of_nat p)) =
  Ok [splice p (length mo) x mo].
Proof.
  intros Hx Hm Hp. rewrite substitute_char; [| exact Hx |].
  - unfold motif_tensor. cbn [start_of tL tX tA]. unfold span_in.
    replace ((0 <=? Z.of_nat p) && (Z.of_nat p + Z.of_nat (length mo) <=? Z.of_nat (length x))) with true
      by (symmetry; apply andb_true_iff; split; apply Z.leb_le; lia).
    cbn. rewrite Nat2Z.id. reflexivity.
  - unfold motif_ok, motif_tensor. cbn [tA tX tL]. rewrite Nat.eqb_refl, Hm. reflexivity.
Qed.

(* ------------------------------------------------------------------------------------------
   Part 4: the loop computes a greedy run, and the brute-force search finds it.             *)
Section Sound.
  Variable loss : dna -> Z.
  Variable A : nat.
  Variable motifs : list dna.
  Variable tol max_iter : Z.
  Hypothesis Htol : 0 <= tol.

  Local Notation mot := (mot motifs).
  Local Notation fits := (fits motifs).
  Local Notation sub := (sub motifs).
  Local Notation run := (run loss motifs tol max_iter).
  Local Notation reach := (reach loss motifs tol max_iter).
  Local Notation loop := (loop loss A).
  Local Notation cnd := (cnd motifs).

  (* invariant of the state: a valid one-hot sequence into which every (valid) motif fits *)
  Definition sc (x : dna) : Prop :=
    valid_t (T A (length x) [x]) = true /\
    Forall (fun mo => valid_t (T A (length mo) [mo]) = true /\ (length mo <= length x)%nat) motifs.

  Lemma sub_cnd x i p : fits x i p -> sub x i p = cnd x i p.
  Proof. intros [_ H]. apply overwrite_splice. exact H. Qed.

  Lemma cand_of_fit x i p : fits x i p -> In (p, length (mot i), sub x i p) (cands motifs x).
  Proof.
    intros [Hi Hp]. apply in_cands. exists (mot i), p.
    repeat split; [apply nth_In; exact Hi | lia].
  Qed.

  Lemma fit_of_cand x c : In c (cands motifs x) ->
    exists i p, fits x i p /\ c = (p, length (mot i), sub x i p).
  Proof.
    intros H. apply in_cands in H as (mo & p & Hmo & Hp & ->).
    destruct (In_nth _ _ [] Hmo) as (i & Hi & E). exists i, p.
    unfold Spec.fits, Spec.sub, Spec.mot. rewrite E. repeat split; auto; lia.
  Qed.

  Lemma sc_step x i p : sc x -> fits x i p -> sc (cnd x i p).
  Proof.
    intros [Hx Hms] [Hi Hp]. unfold Proofs.cnd.
    assert (Hmo : In (mot i) motifs) by (apply nth_In; exact Hi).
    rewrite Forall_forall in Hms. destruct (Hms _ Hmo) as [Hvm _].
    split.
    - apply valid_splice; auto.
    - apply Forall_forall. intros mo' Hmo'. destruct (Hms _ Hmo') as [Hv Hl]. split; [exact Hv|].
      rewrite splice_length; auto.
  Qed.

  Lemma reach_none fuel : forall x k ws, reach fuel x k None <> Yes ws.
  Proof.
    induction fuel as [|f IH]; intros x k ws; [discriminate|].
    cbn [Spec.reach]. destruct (k =? max_iter); [discriminate|].
    destruct (map _ (cands motifs x)) as [|c cs]; [discriminate|]. cbv zeta.
    destruct (_ <=? tol); [discriminate|].
    intro H. apply search_yes_in in H as (c' & _ & H).
    destruct (reach f (c_seq (fst c')) (k + 1) None) eqn:E; try discriminate.
    eapply IH; eauto.
  Qed.

  Lemma at_stop_self x : at_stop x (Some x) = Yes [].
  Proof. unfold at_stop. rewrite dna_eqb_refl. reflexivity. Qed.

  Lemma loop_sound fuel : forall it x, sc x ->
    match loop fuel motifs tol max_iter it (loss x) x with
    | Ok (Y, tr) => run x it tr Y /\ exists ws, reach fuel x it (Some Y) = Yes ws
    | Err => reach fuel x it None = Unknown
    end.
  Proof.
    induction fuel as [|f IH]; intros it x Hsc; [reflexivity|].
    cbn [Model.loop Spec.reach].
    destruct (Z.eqb_spec it max_iter) as [Hit|Hit].
    { split; [apply run_max; exact Hit|]. exists []. apply at_stop_self. }
    pose proof Hsc as [Hvx Hms].
    assert (Hfit : Forall (fun mo => (length mo <= length x)%nat) motifs)
      by (eapply Forall_impl; [|exact Hms]; cbn; tauto).
    destruct (scan_round loss motifs (loss x) x Hfit) as (st & Escan & Hinv).
    rewrite Escan. cbn [bind]. unfold scan_inv in Hinv.
    set (F := fun c : cand => (c, loss (c_seq c))).
    destruct (snd st) as [[[i0 p0] bl]|] eqn:Est.
    - (* some improving candidate exists; (i0, p0) is the first global minimiser *)
      destruct Hinv as (Hi0 & Hf0 & Hbl & Efst & Hlt & Hall & Hlex).
      rewrite <- sub_cnd in Hbl by exact Hf0.
      assert (Hall' : forall i p, fits x i p -> bl <= loss (sub x i p)).
      { intros i p Hf. rewrite sub_cnd by exact Hf. apply Hall; [apply Hf | exact Hf]. }
      assert (Hlex' : forall i p, fits x i p -> lex_before i p i0 p0 -> bl < loss (sub x i p)).
      { intros i p Hf Hb. rewrite sub_cnd by exact Hf. apply Hlex; auto. }
      pose proof (cand_of_fit x i0 p0 Hf0) as Hin0.
      apply (in_map F) in Hin0.
      destruct (map F (cands motifs x)) as [|c cs] eqn:Elc; [destruct Hin0|]. cbv zeta.
      destruct (fold_min_spec c cs) as [Hmin (cm & Hcm & Ecm)].
      set (g := fold_right (fun c' m => Z.min (snd c') m) (snd c) cs) in *.
      assert (Eg : g = bl).
      { specialize (Hmin _ Hin0). unfold F in Hmin. cbn [snd c_seq] in Hmin.
        rewrite <- Elc in Hcm. apply in_map_iff in Hcm as (c0 & <- & Hc0).
        apply fit_of_cand in Hc0 as (i & p & Hf & ->). unfold F in Ecm. cbn [snd c_seq] in Ecm.
        specialize (Hall' i p Hf). lia. }
      rewrite Eg, Efst.
      destruct (Z.leb_spec (loss x - bl) tol) as [Hstop|Hgo].
      + split; [|exists []; apply at_stop_self].
        apply run_tol; [exact Hit|]. intros i p Hf. specialize (Hall' i p Hf). lia.
      + change (nth i0 motifs []) with (mot i0). rewrite (substitute_ok A x (mot i0) p0); [| exact Hvx | | apply Hf0].
        2:{ rewrite Forall_forall in Hms. apply Hms. apply nth_In. apply Hf0. }
        fold (cnd x i0 p0). rewrite <- sub_cnd by exact Hf0.
        assert (Hsc' : sc (sub x i0 p0)) by (rewrite sub_cnd by exact Hf0; apply sc_step; auto).
        specialize (IH (it + 1) (sub x i0 p0) Hsc'). rewrite <- Hbl in IH.
        assert (Htie : In (F (p0, length (mot i0), sub x i0 p0))
                          (filter (fun c' : cand * Z => snd c' =? bl) (c :: cs))).
        { apply filter_In. split; [exact Hin0|]. unfold F. cbn [snd c_seq]. apply Z.eqb_eq. auto. }
        cbn [bind]. revert IH.
        destruct (loop f motifs tol max_iter (it + 1) bl (sub x i0 p0)) as [[Y tr]|]; intros IH.
        * cbn [bind fst snd]. destruct IH as [Hrun (ws & Hreach)]. split.
          -- rewrite Hbl. apply run_step; [exact Hit | exact Hf0 | lia | | | exact Hrun].
             ++ intros i' p' Hf'. rewrite <- Hbl. auto.
             ++ intros i' p' Hf' Hb. rewrite <- Hbl. auto.
          -- eapply search_find; [exact Htie|]. unfold F. cbn [fst c_seq snd]. rewrite Hreach. reflexivity.
        * cbn [bind]. apply search_unknown.
          -- intros c' ws. destruct (reach f (c_seq (fst c')) (it + 1) None) eqn:E; try discriminate.
             exfalso. eapply reach_none; eauto.
          -- right. eexists. split; [exact Htie|]. unfold F. cbn [fst c_seq snd]. rewrite IH. reflexivity.
    - (* nothing improves: best_improvement = 0 <= tol *)
      destruct Hinv as [Efst Hall]. rewrite Efst.
      destruct (Z.leb_spec 0 tol) as [_|]; [|lia].
      assert (Hall' : forall i p, fits x i p -> loss x <= loss (sub x i p)).
      { intros i p Hf. rewrite sub_cnd by exact Hf. apply Hall; [apply Hf | exact Hf]. }
      split.
      + apply run_tol; [exact Hit|]. intros i p Hf. specialize (Hall' i p Hf). lia.
      + exists []. destruct (map F (cands motifs x)) as [|c cs] eqn:Elc; [apply at_stop_self|]. cbv zeta.
        destruct (fold_min_spec c cs) as [_ (cm & Hcm & Ecm)].
        rewrite <- Elc in Hcm. apply in_map_iff in Hcm as (c0 & <- & Hc0).
        apply fit_of_cand in Hc0 as (i & p & Hf & ->). unfold F in Ecm. cbn [snd c_seq] in Ecm.
        specialize (Hall' i p Hf). rewrite <- Ecm.
        destruct (Z.leb_spec (loss x - loss (sub x i p)) tol); [apply at_stop_self | lia].
  Qed.

  (* ---------- consequences of a greedy run ---------- *)

  Lemma run_sc x k tr Y : run x k tr Y -> sc x -> sc Y /\ length Y = length x.
  Proof.
    induction 1 as [x k Hk | x k Hk Hall | x k i p tr Y Hk Hf Hgt Hmin Hlex Hrun IH]; intros Hsc;
      [split; auto | split; auto |].
    assert (Hsc' : sc (sub x i p)) by (rewrite sub_cnd by exact Hf; apply sc_step; auto).
    destruct (IH Hsc') as [HY HL]. split; [exact HY|].
    rewrite HL. apply overwrite_length.
  Qed.

  Lemma run_monotone x k tr Y : run x k tr Y ->
    loss Y <= loss x /\ descending tol (loss x) tr /\ loss Y = final_loss (loss x) tr.
  Proof.
    induction 1 as [x k Hk | x k Hk Hall | x k i p tr Y Hk Hf Hgt Hmin Hlex Hrun IH];
      [cbn; repeat split; lia | cbn; repeat split; lia |].
    destruct IH as (H1 & H2 & H3). cbn [descending final_loss snd]. repeat split; auto; lia.
  Qed.

  Lemma run_frame x k tr Y : run x k tr Y ->
    forall q, untouched motifs tr q -> nth q Y dcol = nth q x dcol.
  Proof.
    induction 1 as [x k Hk | x k Hk Hall | x k i p tr Y Hk Hf Hgt Hmin Hlex Hrun IH]; intros q Hu;
      [reflexivity | reflexivity |].
    rewrite IH.
    - destruct (Nat.lt_ge_cases q (length x)) as [Hq|Hq].
      + unfold Spec.sub. rewrite nth_overwrite by exact Hq.
        specialize (Hu i p _ (or_introl eq_refl)).
        destruct (Nat.leb_spec p q), (Nat.ltb_spec q (p + length (mot i))); cbn [andb]; try reflexivity.
        exfalso. apply Hu. unfold Spec.mot in *. lia.
      + rewrite !nth_overflow; auto. unfold Spec.sub. rewrite overwrite_length. exact Hq.
    - intros i' p' l' Hin. apply (Hu i' p' l'). right. exact Hin.
  Qed.

  Lemma run_stops x k tr Y : run x k tr Y ->
    (0 <= k <= max_iter -> k + Z.of_nat (length tr) <= max_iter) /\
    (k + Z.of_nat (length tr) = max_iter \/
     forall i p, fits Y i p -> loss Y - loss (sub Y i p) <= tol).
  Proof.
    induction 1 as [x k Hk | x k Hk Hall | x k i p tr Y Hk Hf Hgt Hmin Hlex Hrun IH]; cbn [length].
    - split; [lia | left; lia].
    - split; [lia | right; exact Hall].
    - destruct IH as [IH1 IH2]. split; [lia|]. destruct IH2 as [IH2|IH2]; [left; lia | right; exact IH2].
  Qed.

  (* every accepted round is the first global minimiser of the state it was taken in *)
  Lemma run_step_optimal x k tr Y : run x k tr Y ->
    forall pre i p l post, tr = pre ++ (i, p, l) :: post ->
    let xs := replay motifs x pre in
    fits xs i p /\ l = loss (sub xs i p) /\ tol < loss xs - l /\
    (forall i' p', fits xs i' p' -> l <= loss (sub xs i' p')) /\
    (forall i' p', fits xs i' p' -> lex_before i' p' i p -> l < loss (sub xs i' p')).
  Proof.
    induction 1 as [x k Hk | x k Hk Hall | x k i0 p0 tr Y Hk Hf Hgt Hmin Hlex Hrun IH];
      intros pre i p l post E; [destruct pre; discriminate | destruct pre; discriminate |].
    destruct pre as [|s pre]; cbn [app] in E; inversion E; subst.
    - cbn. repeat split; auto; try apply Hf.
    - cbn [replay fold_left fst snd]. apply (IH pre i p l post eq_refl).
  Qed.

  (* ---------- the windows reported by the brute-force search frame the result ---------- *)

  Lemma frame_refl x : frame x x [] = true.
  Proof.
    unfold frame. apply forallb_forall. intros q _. rewrite col_eqb_refl. reflexivity.
  Qed.

  Lemma reach_frame fuel : forall x k Y ws, reach fuel x k (Some Y) = Yes ws -> frame x Y ws = true.
  Proof.
    induction fuel as [|f IH]; intros x k Y ws H; [discriminate|].
    cbn [Spec.reach] in H.
    assert (Hstop : at_stop x (Some Y) = Yes ws -> frame x Y ws = true).
    { unfold at_stop. destruct (dna_eqb Y x) eqn:E; [|discriminate]. intros H'. inversion H'; subst.
      apply dna_eqb_spec in E. subst. apply frame_refl. }
    destruct (k =? max_iter); [auto|].
    destruct (map _ (cands motifs x)) as [|c cs] eqn:Elc; [auto|]. cbv zeta in H.
    destruct (_ <=? tol); [auto|].
    apply search_yes_in in H as (c' & Hc' & H).
    apply filter_In in Hc' as [Hc' _]. rewrite <- Elc in Hc'.
    apply in_map_iff in Hc' as (c0 & <- & Hc0). cbn [fst] in H.
    destruct (reach f (c_seq c0) (k + 1) (Some Y)) as [ws'| |] eqn:Er; try discriminate.
    inversion H; subst. apply IH in Er.
    apply in_cands in Hc0 as (mo & p & Hmo & Hp & ->). cbn [c_seq c_win snd fst] in *.
    unfold frame in *. rewrite overwrite_length in Er.
    rewrite forallb_forall in *. intros q Hq. specialize (Er q Hq). apply in_seq in Hq.
    cbn [existsb]. apply orb_true_iff in Er as [Er|Er]; [|rewrite Er, !orb_true_r; reflexivity].
    rewrite nth_overwrite in Er by lia. unfold in_window. cbn [fst snd].
    destruct ((p <=? q)%nat && (q <? p + length mo)%nat); [rewrite orb_true_r; reflexivity|].
    rewrite Er. reflexivity.
  Qed.

  (* ---------- termination ---------- *)

  Lemma loop_terminates lo : (forall y, lo <= loss y) ->
    forall fuel it x, sc x ->
    ((Z.to_nat (loss x - lo) < fuel)%nat \/ (it <= max_iter /\ (Z.to_nat (max_iter - it) < fuel)%nat)) ->
    exists r, loop fuel motifs tol max_iter it (loss x) x = Ok r.
  Proof.
    intros Hlo. induction fuel as [|f IH]; intros it x Hsc Hfuel; [lia|].
    cbn [Model.loop].
    destruct (Z.eqb_spec it max_iter) as [Hit|Hit]; [eauto|].
    pose proof Hsc as [Hvx Hms].
    assert (Hfit : Forall (fun mo => (length mo <= length x)%nat) motifs)
      by (eapply Forall_impl; [|exact Hms]; cbn; tauto).
    destruct (scan_round loss motifs (loss x) x Hfit) as (st & Escan & Hinv).
    rewrite Escan. cbn [bind]. unfold scan_inv in Hinv.
    destruct (Z.leb_spec (fst st) tol) as [Hstop|Hgo]; [eauto|].
    destruct (snd st) as [[[i0 p0] bl]|] eqn:Est.
    - destruct Hinv as (Hi0 & Hf0 & Hbl & Efst & Hlt & _).
      change (nth i0 motifs []) with (mot i0).
      rewrite (substitute_ok A x (mot i0) p0); [| exact Hvx | | apply Hf0].
      2:{ rewrite Forall_forall in Hms. apply Hms. apply nth_In. apply Hf0. }
      fold (cnd x i0 p0). cbn [bind].
      assert (Hsc' : sc (cnd x i0 p0)) by (apply sc_step; auto).
      destruct (IH (it + 1) (cnd x i0 p0) Hsc') as [r Er].
      { rewrite <- Hbl. pose proof (Hlo (cnd x i0 p0)). rewrite <- Hbl in H. lia. }
      rewrite <- Hbl in Er. rewrite Er. cbn [bind]. eauto.
    - destruct Hinv as [Efst _]. lia.
  Qed.
End Sound.

(* ------------------------------------------------------------------------------------------
   Part 5: the statements exported to Property.v.                                           *)

Lemma scope_sc A motifs tol max_iter x :
  scope A motifs tol max_iter x = true -> sc A motifs x /\ 0 <= tol /\ -1 <= max_iter.
Proof.
  unfold scope. rewrite !andb_true_iff. intros [[[Hx Hm] Ht] Hk]. repeat split; try lia; auto.
  apply Forall_forall. intros mo Hmo. rewrite forallb_forall in Hm. specialize (Hm mo Hmo).
  apply andb_true_iff in Hm as [Hv Hl]. split; [exact Hv | apply Nat.leb_le; exact Hl].
Qed.

Lemma greedy_run loss A motifs tol max_iter fuel x Y tr :
  scope A motifs tol max_iter x = true ->
  greedy loss A motifs tol max_iter fuel x = Ok (Y, tr) ->
  run loss motifs tol max_iter x 0 tr Y.
Proof.
  intros Hs E. apply scope_sc in Hs as (Hsc & Htol & _). unfold greedy in E.
  pose proof (loop_sound loss A motifs tol max_iter Htol fuel 0 x Hsc) as H.
  rewrite E in H. apply H.
Qed.

Lemma greedy_valid loss A motifs tol max_iter fuel x Y tr :
  scope A motifs tol max_iter x = true ->
  greedy loss A motifs tol max_iter fuel x = Ok (Y, tr) ->
  dna_valid A Y = true /\ length Y = length x /\
  forall q, untouched motifs tr q -> nth q Y dcol = nth q x dcol.
Proof.
  intros Hs E. pose proof (greedy_run _ _ _ _ _ _ _ _ _ Hs E) as Hrun.
  apply scope_sc in Hs as (Hsc & Htol & _).
  destruct (run_sc loss A motifs tol max_iter _ _ _ _ Hrun Hsc) as [[HvY _] HL].
  apply valid_single in HvY as (Hd & _). repeat split; auto.
  apply (run_frame loss motifs tol max_iter _ _ _ _ Hrun).
Qed.

Lemma greedy_monotone loss A motifs tol max_iter fuel x Y tr :
  scope A motifs tol max_iter x = true ->
  greedy loss A motifs tol max_iter fuel x = Ok (Y, tr) ->
  loss Y <= loss x /\ descending tol (loss x) tr /\ loss Y = final_loss (loss x) tr.
Proof.
  intros Hs E. pose proof (greedy_run _ _ _ _ _ _ _ _ _ Hs E) as Hrun.
  apply scope_sc in Hs as (_ & Htol & _).
  apply (run_monotone loss A motifs tol max_iter Htol _ _ _ _ Hrun).
Qed.

Lemma greedy_step_optimal loss A motifs tol max_iter fuel x Y tr :
  scope A motifs tol max_iter x = true ->
  greedy loss A motifs tol max_iter fuel x = Ok (Y, tr) ->
  forall pre i p l post, tr = pre ++ (i, p, l) :: post ->
  let xs := replay motifs x pre in
  fits motifs xs i p /\ l = loss (sub motifs xs i p) /\ tol < loss xs - l /\
  (forall i' p', fits motifs xs i' p' -> l <= loss (sub motifs xs i' p')) /\
  (forall i' p', fits motifs xs i' p' -> lex_before i' p' i p -> l < loss (sub motifs xs i' p')).
Proof.
  intros Hs E. pose proof (greedy_run _ _ _ _ _ _ _ _ _ Hs E) as Hrun.
  apply (run_step_optimal loss motifs tol max_iter _ _ _ _ Hrun).
Qed.

Lemma greedy_stops loss A motifs tol max_iter fuel x Y tr :
  scope A motifs tol max_iter x = true ->
  greedy loss A motifs tol max_iter fuel x = Ok (Y, tr) ->
  (0 <= max_iter -> Z.of_nat (length tr) <= max_iter) /\
  (Z.of_nat (length tr) = max_iter \/
   forall i p, fits motifs Y i p -> loss Y - loss (sub motifs Y i p) <= tol).
Proof.
  intros Hs E. pose proof (greedy_run _ _ _ _ _ _ _ _ _ Hs E) as Hrun.
  destruct (run_stops loss A motifs tol max_iter _ _ _ _ Hrun) as [H1 H2]. split; [lia|].
  destruct H2 as [H2|H2]; [left; lia | right; exact H2].
Qed.

(* fuel: max_iter + 1 rounds when max_iter >= 0; for any max_iter (in particular -1), a lower
   bound lo of the loss gives loss x - lo + 1, because every accepted round lowers the
   integer-valued loss by more than tol >= 0, i.e. by at least 1 *)
Lemma greedy_terminates loss A motifs tol max_iter fuel x lo :
  scope A motifs tol max_iter x = true ->
  (forall y, lo <= loss y) ->
  (0 <= max_iter < Z.of_nat fuel \/ loss x - lo < Z.of_nat fuel) ->
  exists Y tr, greedy loss A motifs tol max_iter fuel x = Ok (Y, tr).
Proof.
  intros Hs Hlo Hfuel. apply scope_sc in Hs as (Hsc & Htol & _). unfold greedy.
  destruct (loop_terminates loss A motifs tol max_iter Htol lo Hlo fuel 0 x Hsc) as [[Y tr] E].
  - pose proof (Hlo x). destruct Hfuel as [H1|H1]; [right | left]; lia.
  - eauto.
Qed.

Lemma spec_model c : spec_ok c (model c) = true.
Proof.
  unfold spec_ok. destruct ((0 <? ctd c) && (0 <? nmask c)); [|reflexivity].
  unfold gspec. destruct (scope (cA c) (cmotifs c) (ctol c) (cmax c) (cX c)) eqn:Hs; [|reflexivity].
  apply scope_sc in Hs as (Hsc & Htol & _).
  unfold model, model_of, greedy.
  pose proof (loop_sound (closs c) (cA c) (cmotifs c) (ctol c) (cmax c) Htol (cfuel c) 0 (cX c) Hsc) as H.
  destruct (loop (closs c) (cA c) (cfuel c) (cmotifs c) (ctol c) (cmax c) 0 (closs c (cX c)) (cX c))
    as [[Y tr]|]; cbn [bind fst].
  - destruct H as [Hrun (ws & Hr)]. rewrite Hr.
    destruct (run_sc _ _ _ _ _ _ _ _ _ Hrun Hsc) as [[HvY _] HL].
    apply valid_single in HvY as (Hd & _).
    destruct (run_monotone _ (cA c) _ _ _ Htol _ _ _ _ Hrun) as (Hle & _).
    rewrite Hd, HL, Nat.eqb_refl. apply Z.leb_le in Hle. rewrite Hle. cbn [andb].
    eapply reach_frame; eauto.
  - rewrite H. reflexivity.
Qed.
