(* C17 spec: the property text as a decidable relation between a call of
   extract_matching_loci and the returned set of loci.  Written pointwise on the returned
   rows and by enumeration of the tiles; it does not use the model's histograms, spill
   loops, mask sets or selection.  Shared with the model are only the data types, the
   attribute accessors (tile_of, chrom_of, bin_of), the resize arithmetic (mid/region are
   restated here) and the definition of the 1% quantile (robust_min100), which the
   property names but does not define.                                                  *)
From TM Require Import Base.Prelude Base.PyList C17.Model.
Open Scope Z_scope.

(* ------------------------------------------------------------------------------------ *)
(* scope of the property and consistency of the measured attributes                      *)

Definition EPS_INV : Z := 1000000000.

(* the GC bin of a G+C count g in a window of width w, bins of width p/q:
   floor(g/w / (p/q) + 1/2) = floor(x), x = (2 g q + w p) / (2 w p); the harness obtains
   the bin with the code's float expression, accepted when it is floor(x) up to 1e-9
   (either side of an exact edge) *)
Definition bin_consistent (k : call) (g : Z) (b : nat) : bool :=
  let '(p, q) := k_bw k in
  let N := 2 * g * q + k_in k * p in
  let D := 2 * k_in k * p in
  (Z.of_nat b * D * EPS_INV <=? N * EPS_INV + D) &&
  (N * EPS_INV - D <? (Z.of_nat b + 1) * D * EPS_INV).

(* number of GC bins: the bin of GC fraction 1, plus one *)
Definition nbins_spec (k : call) : nat :=
  let '(p, q) := k_bw k in S (Z.to_nat ((2 * q + p) / (2 * p))).

Fixpoint nodupb {A} (eqb : A -> A -> bool) (l : list A) : bool :=
  match l with
  | [] => true
  | x :: xs => negb (existsb (eqb x) xs) && nodupb eqb xs
  end.

Definition scope (k : call) : bool :=
  (0 <? k_in k) && (0 <? k_out k) &&
  (0 <=? fst (k_maxn k)) && (0 <? snd (k_maxn k)) &&
  (0 <? fst (k_bw k)) && (0 <? snd (k_bw k)) &&
  match k_bigwig k with
  | Some (bp, bq) => (0 <=? bp) && (0 <? bq) && (k_out k <=? k_in k) &&
                     forallb c_bw (k_genome k)     (* signal known on every chromosome *)
  | None => true
  end &&
  (1 <=? k_jobs k)%nat &&
  nodupb Nat.eqb (chroms_of k) &&
  forallb (fun c => (c <? length (k_genome k))%nat) (chroms_of k) &&
  forallb (fun l => (l_chrom l <? length (k_genome k))%nat) (k_loci k).

(* an input locus is usable when, resized around its midpoint to max(in, out) it lies
   inside its chromosome, and its in_window region has an N fraction not above max_n_perc *)
Definition valid_spec (k : call) (l : locus) : bool :=
  let m := l_start l + (l_end l - l_start l) / 2 in
  let W := Z.max (k_in k) (k_out k) in
  (0 <=? m - W / 2) && (m + (W + 1) / 2 <=? c_len (chrom_of k (l_chrom l))).

Definition n_ok (k : call) (n : Z) : bool := n * snd (k_maxn k) <=? fst (k_maxn k) * k_in k.

Definition usable_spec (k : call) (l : locus) : bool := valid_spec k l && n_ok k (l_n l).

Definition tile_attrs (k : call) (t : tile) : bool :=
  (0 <=? t_gc t) && (0 <=? t_n t) && (t_gc t + t_n t <=? k_in k) &&
  bin_consistent k (t_gc t) (t_bin t) && (t_bin t <? nbins_spec k)%nat.

Definition chrom_attrs (k : call) (c : chrom) : bool :=
  (0 <=? c_len c) && (length (c_tiles c) =? Z.to_nat (c_len c / k_in k))%nat &&
  forallb (tile_attrs k) (c_tiles c).

Definition locus_attrs (k : call) (l : locus) : bool :=
  if valid_spec k l then
    let m := l_start l + (l_end l - l_start l) / 2 in
    (l_rs l =? m - k_in k / 2) && (l_re l =? m + (k_in k + 1) / 2) &&
    (l_ss l =? m - k_out k / 2) && (l_se l =? m + (k_out k + 1) / 2) &&
    (0 <=? l_gc l) && (0 <=? l_n l) && (l_gc l + l_n l <=? k_in k) &&
    bin_consistent k (l_gc l) (l_bin l) && (l_bin l <? nbins_spec k)%nat
  else true.

(* ------------------------------------------------------------------------------------ *)
(* eligibility of a background tile, pointwise                                           *)

(* 100 * the robust minimum (1% quantile, linear interpolation) of the signal of the valid
   input loci; None when there is none.  (Inside the scope every chromosome is in the bigwig;
   outside it, loci and tiles of a chromosome without signal are left out, so that the
   consistency check of the replayed permutations stays meaningful there.) *)
Definition robust_spec (k : call) : option Z :=
  robust_min100 (map l_sig (filter (fun l => valid_spec k l && c_bw (chrom_of k (l_chrom l)))
                                   (k_loci k))).

(* summed signal not above signal_beta times the robust minimum; [thr] is [robust_spec k] *)
Definition signal_ok (k : call) (thr : option Z) (t : tile) : bool :=
  match k_bigwig k with
  | None => true
  | Some (bp, bq) =>
      match thr with
      | Some r => t_sig t * 100 * bq <=? r * bp
      | None => false
      end
  end.

(* tile t of chromosome c, i.e. [t w, (t+1) w), is touched by an input row: it meets the
   closed range [start, end]  (equivalently start//w <= t <= end//w) *)
Definition touched (k : call) (ct : nat * nat) : bool :=
  existsb (fun l => (l_chrom l =? fst ct)%nat &&
                    (l_start l <? (Z.of_nat (snd ct) + 1) * k_in k) &&
                    (Z.of_nat (snd ct) * k_in k <=? l_end l)) (k_loci k).

Definition eligible (k : call) (thr : option Z) (ct : nat * nat) : bool :=
  has_signal k (fst ct) &&
  n_ok k (t_n (tile_of k ct)) && signal_ok k thr (tile_of k ct) && negb (touched k ct).

(* every tile of every chromosome in chroms, len // w tiles each *)
Definition all_tiles (k : call) : list (nat * nat) :=
  flat_map (fun c => map (pair c) (seq 0 (Z.to_nat (c_len (chrom_of k c) / k_in k))))
           (chroms_of k).

Definition count_nat (b : nat) (l : list nat) : nat := length (filter (Nat.eqb b) l).

(* per GC bin: the number of eligible background tiles *)
Definition elig_hist (k : call) : list nat :=
  let thr := robust_spec k in
  let eb := map (bin_of k) (filter (eligible k thr) (all_tiles k)) in
  map (fun b => count_nat b eb) (seq 0 (nbins_spec k)).

(* per GC bin: the number of usable input loci *)
Definition loci_hist_spec (k : call) : list nat :=
  let ub := map l_bin (filter (usable_spec k) (k_loci k)) in
  map (fun b => count_nat b ub) (seq 0 (nbins_spec k)).

Definition usable_count (k : call) : nat := length (filter (usable_spec k) (k_loci k)).

Definition is_perm (p : list nat) (n : nat) : bool :=
  (length p =? n)%nat && forallb (fun j => (j <? n)%nat) p && nodupb Nat.eqb p.

(* what the harness measured / replayed is consistent with the call *)
Definition attrs (k : call) : bool :=
  forallb (chrom_attrs k) (k_genome k) &&
  forallb (locus_attrs k) (k_loci k) &&
  (length (k_perms k) =? nbins_spec k)%nat &&
  let eh := elig_hist k in
  forallb (fun b => is_perm (nth b (k_perms k) []) (get eh b)) (seq 0 (nbins_spec k)).

Definition wf (k : call) : bool := scope k && attrs k.

(* ------------------------------------------------------------------------------------ *)
(* the property                                                                          *)

Definition row := (nat * Z * Z)%type.
Definition row_eqb (a b : row) : bool :=
  let '(c1, s1, e1) := a in let '(c2, s2, e2) := b in
  (c1 =? c2)%nat && (s1 =? s2) && (e1 =? e2).

Definition row_tile (k : call) (r : row) : nat * nat :=
  let '(c, s, _) := r in (c, Z.to_nat (s / k_in k)).

(* aligned tile inside its chromosome, not a tile touched by an input row, N fraction and
   signal within the limits *)
Definition row_ok (k : call) (thr : option Z) (r : row) : bool :=
  let '(c, s, e) := r in
  existsb (Nat.eqb c) (chroms_of k) &&
  (0 <=? s) && (s mod k_in k =? 0) && (e =? s + k_in k) && (e <=? c_len (chrom_of k c)) &&
  negb (touched k (row_tile k r)) &&
  n_ok k (t_n (tile_of k (row_tile k r))) &&
  signal_ok k thr (tile_of k (row_tile k r)).

Definition spec_rows (k : call) (R : list row) : bool :=
  let thr := robust_spec k in
  let eh := elig_hist k in
  let lh := loci_hist_spec k in
  let rb := map (fun r => bin_of k (row_tile k r)) R in
  let u := usable_count k in
  (* every returned row is a valid, disjoint, filtered tile, returned once *)
  forallb (row_ok k thr) R &&
  nodupb row_eqb R &&
  (* never more rows than usable input loci *)
  (length R <=? u)%nat &&
  (* every GC bin receives at least min(input, eligible) and at most its eligible count *)
  forallb (fun b => (Nat.min (get lh b) (get eh b) <=? count_nat b rb)%nat &&
                    (count_nat b rb <=? get eh b)%nat) (seq 0 (nbins_spec k)) &&
  (* some usable input locus unmatched -> the eligible background is exhausted *)
  ((u <=? length R)%nat ||
   forallb (fun b => (count_nat b rb =? get eh b)%nat) (seq 0 (nbins_spec k))).

Definition spec_ok (k : call) (o : outcome) : bool :=
  if wf k then match o with Ok R => spec_rows k R | Err => false end
  else true.

Definition model (k : call) : outcome := run fixed k.

(* ------------------------------------------------------------------------------------ *)
(* correspondence case                                                                   *)

(* the returned frame is compared as a set of rows (its sort order is not part of the
   property) *)
Definition count_row (r : row) (l : list row) : nat := length (filter (row_eqb r) l).
Definition rows_eqb (a b : list row) : bool :=
  (length a =? length b)%nat &&
  forallb (fun r => (count_row r a =? count_row r b)%nat) a.

Definition outcome_eqb : outcome -> outcome -> bool := res_eqb rows_eqb.

(* the call, what the implementation returned, whether the same call with n_jobs=1 returned
   the identical frame, and whether the caller's objects (loci frame, chroms) were left
   unmodified (not part of the property: looked at by the tie only) *)
Definition case := (call * outcome * bool * bool)%type.

(* the frame is documented as sorted by chromosome and position; not part of the property,
   so only the tie (agreement with the model) looks at it *)
Fixpoint sortedb (l : list row) : bool :=
  match l with
  | [] => true
  | a :: t => match t with
              | [] => true
              | b :: _ => let '(c1, s1, _) := a in let '(c2, s2, _) := b in
                          ((c1 <? c2)%nat || ((c1 =? c2)%nat && (s1 <=? s2))) && sortedb t
              end
  end.
Definition sorted_outcome (o : outcome) : bool :=
  match o with Ok R => sortedb R | Err => true end.

Definition check_case (c : case) : nat :=
  let '(k, o, same, unchanged) := c in
  verdict (attrs k && outcome_eqb o (model k) && sorted_outcome o && unchanged) (same && spec_ok k o).

(* a sequence of calls made one after the other in one process on the same files (one thing
   changed between consecutive calls): the worst verdict *)
Definition check_cases (l : list case) : nat := fold_right Nat.max 0%nat (map check_case l).
