(* C17 - from the histogram invariants (Lib.v) to the property on the returned rows. *)
From TM Require Import Base.Prelude Base.PyList C17.Model C17.Spec C17.Lib.
Open Scope nat_scope.
Arguments get : simpl never.

(* ------------------------------------------------------------------------------------ *)
(* list lemmas                                                                            *)

Lemma filter_map_comm {A B} (p : B -> bool) (f : A -> B) l :
  filter p (map f l) = map f (filter (fun x => p (f x)) l).
Proof. induction l as [|x xs IH]; cbn; [reflexivity|]. destruct (p (f x)); cbn; congruence. Qed.

Lemma filter_flat_map {A B} (p : B -> bool) (f : A -> list B) l :
  filter p (flat_map f l) = flat_map (fun x => filter p (f x)) l.
Proof. induction l as [|x xs IH]; cbn; [reflexivity|]. rewrite filter_app, IH. reflexivity. Qed.

Lemma filter_filter {A} (p q : A -> bool) l :
  filter p (filter q l) = filter (fun x => q x && p x) l.
Proof.
  induction l as [|x xs IH]; cbn; [reflexivity|].
  destruct (q x); cbn; [destruct (p x)|]; congruence.
Qed.

Lemma filter_ext_in' {A} (p q : A -> bool) l :
  (forall x, In x l -> p x = q x) -> filter p l = filter q l.
Proof.
  induction l as [|x xs IH]; intros H; cbn; [reflexivity|].
  rewrite (H x (or_introl eq_refl)), IH; [reflexivity|]. intros y Hy. apply H. right; exact Hy.
Qed.

Lemma flat_map_ext_in {A B} (f g : A -> list B) l :
  (forall x, In x l -> f x = g x) -> flat_map f l = flat_map g l.
Proof.
  induction l as [|x xs IH]; intros H; cbn; [reflexivity|].
  rewrite (H x (or_introl eq_refl)), IH; [reflexivity|]. intros y Hy. apply H. right; exact Hy.
Qed.

Lemma flat_map_map {A B C} (g : B -> list C) (h : A -> B) l :
  flat_map g (map h l) = flat_map (fun x => g (h x)) l.
Proof. induction l as [|x xs IH]; cbn; congruence. Qed.

Lemma combine_map_r {A B} (f : A -> B) l : combine l (map f l) = map (fun x => (x, f x)) l.
Proof. induction l as [|x xs IH]; cbn; congruence. Qed.

Lemma existsb_flat_map {A B} (p : B -> bool) (f : A -> list B) l :
  existsb p (flat_map f l) = existsb (fun x => existsb p (f x)) l.
Proof. induction l as [|x xs IH]; cbn; [reflexivity|]. rewrite existsb_app, IH. reflexivity. Qed.

Lemma existsb_ext_in {A} (p q : A -> bool) l :
  (forall x, In x l -> p x = q x) -> existsb p l = existsb q l.
Proof.
  induction l as [|x xs IH]; intros H; cbn; [reflexivity|].
  rewrite (H x (or_introl eq_refl)), IH; [reflexivity|]. intros y Hy. apply H. right; exact Hy.
Qed.

Lemma length_flat_map {A B} (f : A -> list B) l :
  length (flat_map f l) = sum (map (fun x => length (f x)) l).
Proof. induction l as [|x xs IH]; cbn; [reflexivity|]. rewrite app_length, IH. reflexivity. Qed.

Lemma map_get_seq l : map (get l) (seq 0 (length l)) = l.
Proof.
  induction l as [|x xs IH]; [reflexivity|].
  cbn [length seq map]. rewrite <- seq_shift, map_map. f_equal. exact IH.
Qed.

Lemma get_map_seq (f : nat -> nat) n b : b < n -> get (map f (seq 0 n)) b = f b.
Proof.
  intros H. unfold get. rewrite nth_indep with (d' := f 0) by (rewrite map_length, seq_length; exact H).
  rewrite map_nth, seq_nth by exact H. reflexivity.
Qed.

Lemma count_nat_map {A} (f : A -> nat) b l :
  count_nat b (map f l) = length (filter (fun x => f x =? b) l).
Proof.
  unfold count_nat. rewrite filter_map_comm, map_length.
  f_equal. apply filter_ext_in'. intros x _. apply Nat.eqb_sym.
Qed.

(* the cells of a histogram over bins below n add up to the sample size *)
Lemma count_lt_step {A} (f : A -> nat) n l :
  length (filter (fun x => f x <? S n) l) =
  length (filter (fun x => f x <? n) l) + length (filter (fun x => f x =? n) l).
Proof.
  induction l as [|x xs IH]; [reflexivity|]. cbn [filter].
  destruct (Nat.ltb_spec (f x) (S n)), (Nat.ltb_spec (f x) n), (Nat.eqb_spec (f x) n); cbn [length]; lia.
Qed.

Lemma hist_total {A} (f : A -> nat) n l :
  sum (map (fun b => length (filter (fun x => f x =? b) l)) (seq 0 n)) =
  length (filter (fun x => f x <? n) l).
Proof.
  induction n as [|n IH].
  - cbn. induction l; cbn; auto.
  - rewrite seq_S, map_app, sum_app, IH. cbn [map sum plus]. rewrite count_lt_step. lia.
Qed.

Lemma filter_all {A} (p : A -> bool) l : (forall x, In x l -> p x = true) -> filter p l = l.
Proof.
  induction l as [|x xs IH]; intros H; cbn; [reflexivity|].
  rewrite (H x (or_introl eq_refl)), IH; [reflexivity|]. intros y Hy. apply H. right; exact Hy.
Qed.

Lemma filter_none {A} (p : A -> bool) l : (forall x, In x l -> p x = false) -> filter p l = [].
Proof.
  induction l as [|x xs IH]; intros H; cbn; [reflexivity|].
  rewrite (H x (or_introl eq_refl)), IH; [reflexivity|]. intros y Hy. apply H. right; exact Hy.
Qed.

(* ---- NoDup ---- *)

Lemma NoDup_app_intro {A} (a b : list A) :
  NoDup a -> NoDup b -> (forall z, In z a -> In z b -> False) -> NoDup (a ++ b).
Proof.
  induction 1 as [|x xs Hx Hxs IH]; intros Hb Hd; cbn; [exact Hb|].
  constructor.
  - rewrite in_app_iff. intros [H|H]; [contradiction|]. apply (Hd x); [left; reflexivity|exact H].
  - apply IH; [exact Hb|]. intros z Hz. apply Hd. right; exact Hz.
Qed.

Lemma NoDup_flat_map {A B} (f : A -> list B) l :
  NoDup l -> (forall x, In x l -> NoDup (f x)) ->
  (forall x y z, In x l -> In y l -> x <> y -> In z (f x) -> In z (f y) -> False) ->
  NoDup (flat_map f l).
Proof.
  induction 1 as [|x xs Hx Hxs IH]; intros Hf Hd; cbn; [constructor|].
  apply NoDup_app_intro.
  - apply Hf; left; reflexivity.
  - apply IH; [intros; apply Hf; right; assumption|].
    intros a b z Ha Hb. apply Hd; right; assumption.
  - intros z Hz Hz'. apply in_flat_map in Hz' as [y [Hy Hzy]].
    apply (Hd x y z); auto; [left; reflexivity|right; exact Hy|].
    intros ->. contradiction.
Qed.

Lemma NoDup_map_in {A B} (f : A -> B) l :
  (forall x y, In x l -> In y l -> f x = f y -> x = y) -> NoDup l -> NoDup (map f l).
Proof.
  intros Hinj. induction 1 as [|x xs Hx Hxs IH]; cbn; [constructor|].
  constructor.
  - intros H. apply in_map_iff in H as [y [E Hy]].
    assert (y = x) by (apply Hinj; [right; exact Hy|left; reflexivity|exact E]). subst. contradiction.
  - apply IH. intros a b Ha Hb. apply Hinj; right; assumption.
Qed.

Lemma NoDup_filter' {A} (p : A -> bool) l : NoDup l -> NoDup (filter p l).
Proof.
  induction 1 as [|x xs Hx Hxs IH]; cbn; [constructor|].
  destruct (p x); [constructor|]; auto. intros H. apply filter_In in H as [H _]. contradiction.
Qed.

Lemma In_firstn {A} n (l : list A) x : In x (firstn n l) -> In x l.
Proof. intros H. rewrite <- (firstn_skipn n l). apply in_or_app. left; exact H. Qed.

Lemma NoDup_firstn' {A} n (l : list A) : NoDup l -> NoDup (firstn n l).
Proof.
  revert l; induction n as [|n IH]; intros l H; [constructor|].
  destruct l as [|x xs]; [constructor|]. inversion H as [|? ? Hx Hxs]; subst.
  cbn. constructor; [|apply IH; exact Hxs].
  intros Hin. apply In_firstn in Hin. contradiction.
Qed.

(* positions drawn without repetition from a duplicate-free list *)
Lemma NoDup_map_nth {A} (l : list A) d p :
  NoDup l -> NoDup p -> (forall j, In j p -> j < length l) ->
  NoDup (map (fun j => nth j l d) p).
Proof.
  intros Hl Hp Hlt. apply NoDup_map_in; [|exact Hp].
  intros i j Hi Hj E. apply (proj1 (NoDup_nth l d) Hl); auto.
Qed.

Lemma nodupb_NoDup {A} (eqb : A -> A -> bool) :
  (forall x y, eqb x y = true <-> x = y) ->
  forall l, nodupb eqb l = true <-> NoDup l.
Proof.
  intros Heq. induction l as [|x xs IH]; cbn; split; intros H; try constructor; auto.
  - apply andb_true_iff in H as [H1 H2]. apply negb_true_iff in H1.
    intros Hin. assert (existsb (eqb x) xs = true); [|congruence].
    apply existsb_exists. exists x. split; [exact Hin|]. apply Heq. reflexivity.
  - apply andb_true_iff in H as [_ H2]. apply IH. exact H2.
  - inversion H as [|? ? Hx Hxs]; subst. apply andb_true_iff. split; [|apply IH; exact Hxs].
    apply negb_true_iff. destruct (existsb (eqb x) xs) eqn:E; [|reflexivity].
    apply existsb_exists in E as [y [Hy E]]. apply Heq in E. subst. contradiction.
Qed.

(* a histogram cell of a concatenation of per-bin selections *)
Lemma count_flat_map_bins {A} (f : A -> nat) (sel : nat -> list A) b l :
  NoDup l -> (forall b' z, In b' l -> In z (sel b') -> f z = b') ->
  length (filter (fun z => f z =? b) (flat_map sel l)) =
  if existsb (Nat.eqb b) l then length (sel b) else 0.
Proof.
  intros Hnd. induction Hnd as [|x xs Hx Hxs IH]; intros Hsel; cbn; [reflexivity|].
  rewrite filter_app, app_length, IH by (intros b' z Hb; apply Hsel; right; exact Hb).
  destruct (Nat.eqb_spec b x) as [->|Hne]; cbn.
  - rewrite filter_all by (intros z Hz; apply Nat.eqb_eq; apply (Hsel x); [left; reflexivity|exact Hz]).
    destruct (existsb (Nat.eqb x) xs) eqn:E; [|lia].
    apply existsb_exists in E as [y [Hy E]]. apply Nat.eqb_eq in E. subst. contradiction.
  - rewrite filter_none; [reflexivity|].
    intros z Hz. apply Nat.eqb_neq. rewrite (Hsel x z (or_introl eq_refl) Hz). auto.
Qed.

Lemma existsb_eqb_seq b n : existsb (Nat.eqb b) (seq 0 n) = (b <? n).
Proof.
  apply eq_iff_eq_true. rewrite existsb_exists, Nat.ltb_lt. split.
  - intros [x [Hx E]]. apply Nat.eqb_eq in E. subst. apply in_seq in Hx. lia.
  - intros H. exists b. split; [apply in_seq; lia|apply Nat.eqb_refl].
Qed.

(* ---- Parallel is map ---- *)

Lemma parallel_map {A B} (jobs : nat) (f : A -> B) xs : 1 <= jobs -> parallel jobs f xs = map f xs.
Proof.
  intros H. unfold parallel. rewrite <- concat_map, concat_chunks by exact H. reflexivity.
Qed.

(* ------------------------------------------------------------------------------------ *)
(* the model's intermediate values are the spec's pointwise notions                      *)

Lemma valid_agree k l : locus_valid k l = valid_spec k l.
Proof. reflexivity. Qed.

Lemma n_ok_agree k n : n_frac_ok false k n = n_ok k n.
Proof. unfold n_frac_ok, n_ok. destruct (k_maxn k); reflexivity. Qed.

Lemma usable_agree k l : usable fixed k l = usable_spec k l.
Proof. unfold usable, usable_spec. cbn [q_strict fixed]. rewrite n_ok_agree. reflexivity. Qed.

Lemma sig_ok_agree k thr t : sig_ok fixed k thr t = signal_ok k thr t.
Proof.
  unfold sig_ok, signal_ok. destruct (k_bigwig k) as [[bp bq]|]; [|reflexivity].
  destruct thr; reflexivity.
Qed.

Lemma nbins_agree k : nbins fixed k = nbins_spec k.
Proof. unfold nbins, nbins_spec. destruct (k_bw k); reflexivity. Qed.

Lemma in_zrange a b t : In t (zrange a b) <-> (a <= t < b)%Z.
Proof.
  unfold zrange. rewrite in_map_iff. split.
  - intros [i [E Hi]]. apply in_seq in Hi. lia.
  - intros H. exists (Z.to_nat (t - a)). split; [lia|]. apply in_seq. lia.
Qed.

Lemma existsb_zrange a b t : existsb (Z.eqb t) (zrange a b) = ((a <=? t)%Z && (t <? b)%Z).
Proof.
  apply eq_iff_eq_true. rewrite existsb_exists, andb_true_iff, Z.leb_le, Z.ltb_lt. split.
  - intros [x [Hx E]]. apply Z.eqb_eq in E. subst x. apply in_zrange in Hx. lia.
  - intros H. exists t. split; [apply in_zrange; lia|apply Z.eqb_refl].
Qed.

Lemma div_le_iff s w t : (0 < w)%Z -> (s / w <= t)%Z <-> (s < (t + 1) * w)%Z.
Proof.
  intros Hw. pose proof (Z.div_mod s w ltac:(lia)) as D. pose proof (Z.mod_pos_bound s w Hw) as B.
  split; intros G; nia.
Qed.

Lemma le_div_iff e w t : (0 < w)%Z -> (t <= e / w)%Z <-> (t * w <= e)%Z.
Proof.
  intros Hw. pose proof (Z.div_mod e w ltac:(lia)) as D. pose proof (Z.mod_pos_bound e w Hw) as B.
  split; intros G; nia.
Qed.

(* mask membership = the spec's "touched" *)
Lemma masked_agree k c t : (0 < k_in k)%Z ->
  existsb (Z.eqb (Z.of_nat t)) (mask k c) = touched k (c, t).
Proof.
  intros Hw. unfold mask, touched. rewrite existsb_flat_map. cbn [fst snd].
  apply existsb_ext_in. intros l _.
  destruct (Nat.eqb_spec (l_chrom l) c) as [E|E]; cbn [andb existsb]; [|reflexivity].
  rewrite existsb_zrange. apply eq_iff_eq_true.
  rewrite !andb_true_iff, !Z.leb_le, !Z.ltb_lt.
  rewrite (div_le_iff (l_start l) (k_in k) (Z.of_nat t) Hw).
  assert (Z.of_nat t < l_end l / k_in k + 1 <-> Z.of_nat t <= l_end l / k_in k)%Z as -> by lia.
  rewrite (le_div_iff (l_end l) (k_in k) (Z.of_nat t) Hw). tauto.
Qed.

Lemma scope_elim k : scope k = true ->
  (0 < k_in k)%Z /\ 1 <= k_jobs k /\ NoDup (chroms_of k) /\
  (forall c, In c (chroms_of k) -> c < length (k_genome k)) /\
  match k_bigwig k with Some _ => (k_out k <=? k_in k)%Z = true | None => True end /\
  (forall l, In l (k_loci k) -> l_chrom l < length (k_genome k)) /\
  (forall c, c < length (k_genome k) -> has_signal k c = true).
Proof.
  unfold scope. rewrite !andb_true_iff.
  intros [[[[[[[[[[H1 _] _] _] _] _] Hb] Hj] Hnd] Hc] Hl].
  repeat split.
  - apply Z.ltb_lt. exact H1.
  - apply Nat.leb_le. exact Hj.
  - apply (nodupb_NoDup Nat.eqb Nat.eqb_eq). exact Hnd.
  - intros c Hin. rewrite forallb_forall in Hc. apply Nat.ltb_lt. apply Hc. exact Hin.
  - destruct (k_bigwig k) as [[bp bq]|]; [|exact I].
    rewrite !andb_true_iff in Hb. tauto.
  - intros l Hin. rewrite forallb_forall in Hl. apply Nat.ltb_lt. apply Hl. exact Hin.
  - intros c Hc'. unfold has_signal. destruct (k_bigwig k) as [[bp bq]|]; [|reflexivity].
    rewrite !andb_true_iff in Hb. destruct Hb as [_ Hb]. rewrite forallb_forall in Hb.
    apply Hb. unfold chrom_of. apply nth_In. exact Hc'.
Qed.

Lemma robust_agree k : robust k = robust_spec k.
Proof. reflexivity. Qed.

Lemma cands_all_agree k : scope k = true ->
  cands_all fixed k = filter (eligible k (robust_spec k)) (all_tiles k).
Proof.
  intros Hsc. destruct (scope_elim k Hsc) as (Hw & Hj & _ & _ & _ & _ & _).
  unfold cands_all, all_tiles. cbv zeta.
  rewrite parallel_map by exact Hj. rewrite combine_map_r, flat_map_map, filter_flat_map.
  apply flat_map_ext_in. intros c Hc. cbn [fst snd].
  unfold extract_chrom. destruct (has_signal k c) eqn:Hs.
  - rewrite !filter_map_comm, filter_filter. f_equal.
    apply filter_ext_in'. intros t _. cbn [fst snd].
    unfold eligible. cbn [fst snd]. rewrite Hs, masked_agree by exact Hw.
    rewrite n_ok_agree, sig_ok_agree, robust_agree. reflexivity.
  - cbn [filter]. symmetry. apply filter_none. intros ct Hct.
    apply in_map_iff in Hct as [t [<- _]]. unfold eligible. cbn [fst snd]. rewrite Hs. reflexivity.
Qed.

Lemma in_all_tiles k c t :
  In (c, t) (all_tiles k) <-> In c (chroms_of k) /\ t < ntiles k c.
Proof.
  unfold all_tiles. rewrite in_flat_map. split.
  - intros [x [Hx H]]. apply in_map_iff in H as [t' [E Ht]]. injection E as -> ->.
    apply in_seq in Ht. split; [exact Hx|]. unfold ntiles. lia.
  - intros [Hc Ht]. exists c. split; [exact Hc|]. apply in_map. apply in_seq. unfold ntiles in Ht. lia.
Qed.

Lemma NoDup_all_tiles k : NoDup (chroms_of k) -> NoDup (all_tiles k).
Proof.
  intros H. unfold all_tiles. apply NoDup_flat_map; [exact H| |].
  - intros c _. apply NoDup_map_in; [|apply seq_NoDup]. intros x y _ _ E. congruence.
  - intros x y z _ _ Hne Hx Hy.
    apply in_map_iff in Hx as [a [<- _]]. apply in_map_iff in Hy as [b [E _]]. congruence.
Qed.

Lemma elig_hist_agree k :
  elig_hist k = bg_hist k (nbins_spec k) (filter (eligible k (robust_spec k)) (all_tiles k)).
Proof.
  unfold elig_hist, bg_hist, cands_in. cbv zeta. apply map_ext. intros b. apply count_nat_map.
Qed.

Lemma loci_hist_agree k :
  loci_hist_spec k = loci_hist (nbins_spec k) (filter (usable_spec k) (k_loci k)).
Proof.
  unfold loci_hist_spec, loci_hist, count_bin. cbv zeta. apply map_ext. intros b. apply count_nat_map.
Qed.

(* ------------------------------------------------------------------------------------ *)
(* the selection: first matched[b] entries of the shuffled candidates of each bin        *)

Lemma is_perm_elim p n :
  is_perm p n = true -> length p = n /\ (forall j, In j p -> j < n) /\ NoDup p.
Proof.
  unfold is_perm. rewrite !andb_true_iff. intros [[H1 H2] H3].
  apply Nat.eqb_eq in H1. split; [exact H1|]. split.
  - intros j Hj. rewrite forallb_forall in H2. apply Nat.ltb_lt. apply H2. exact Hj.
  - apply (nodupb_NoDup Nat.eqb Nat.eqb_eq). exact H3.
Qed.

Section Selection.
  Variable k : call.
  Variable ca : list (nat * nat).
  Variable nb : nat.
  Variable M : list nat.
  Hypothesis ca_nodup : NoDup ca.
  Hypothesis perms_ok : forall b, b < nb ->
    is_perm (nth b (k_perms k) []) (length (cands_in k ca b)) = true.
  Hypothesis M_le : forall b, b < nb -> get M b <= length (cands_in k ca b).

  Let sel (b : nat) := firstn (get M b) (shuffled_in k ca b).

  Lemma shuffled_in_cands b z : b < nb -> In z (shuffled_in k ca b) -> In z (cands_in k ca b).
  Proof.
    intros Hb Hz. destruct (is_perm_elim _ _ (perms_ok b Hb)) as [_ [Hlt _]].
    unfold shuffled_in in Hz. apply in_map_iff in Hz as [j [<- Hj]].
    apply nth_In. apply Hlt. exact Hj.
  Qed.

  Lemma sel_bin b z : b < nb -> In z (sel b) -> bin_of k z = b /\ In z ca.
  Proof.
    intros Hb Hz. apply In_firstn in Hz. apply shuffled_in_cands in Hz; [|exact Hb].
    unfold cands_in in Hz. apply filter_In in Hz as [Hin E]. apply Nat.eqb_eq in E. auto.
  Qed.

  Lemma shuffled_length b : b < nb -> length (shuffled_in k ca b) = length (cands_in k ca b).
  Proof.
    intros Hb. destruct (is_perm_elim _ _ (perms_ok b Hb)) as [Hl _].
    unfold shuffled_in. rewrite map_length. exact Hl.
  Qed.

  Lemma sel_length b : b < nb -> length (sel b) = get M b.
  Proof.
    intros Hb. unfold sel. apply firstn_length_le. rewrite shuffled_length by exact Hb.
    apply M_le. exact Hb.
  Qed.

  Lemma sel_nodup b : b < nb -> NoDup (sel b).
  Proof.
    intros Hb. apply NoDup_firstn'. destruct (is_perm_elim _ _ (perms_ok b Hb)) as [_ [Hlt Hnd]].
    unfold shuffled_in. apply NoDup_map_nth; [|exact Hnd|exact Hlt].
    unfold cands_in. apply NoDup_filter'. exact ca_nodup.
  Qed.

  Lemma select_nodup : NoDup (select k nb ca M).
  Proof.
    unfold select. apply NoDup_flat_map; [apply seq_NoDup| |].
    - intros b Hb. apply in_seq in Hb. apply sel_nodup. lia.
    - intros x y z Hx Hy Hne Hzx Hzy. apply in_seq in Hx, Hy.
      destruct (sel_bin x z ltac:(lia) Hzx) as [E1 _].
      destruct (sel_bin y z ltac:(lia) Hzy) as [E2 _]. congruence.
  Qed.

  Lemma select_in z : In z (select k nb ca M) -> In z ca.
  Proof.
    unfold select. intros H. apply in_flat_map in H as [b [Hb Hz]]. apply in_seq in Hb.
    apply (sel_bin b z); [lia|exact Hz].
  Qed.

  Lemma select_count b : b < nb ->
    length (filter (fun z => bin_of k z =? b) (select k nb ca M)) = get M b.
  Proof.
    intros Hb. change (select k nb ca M) with (flat_map sel (seq 0 nb)).
    rewrite (count_flat_map_bins (bin_of k) sel b (seq 0 nb)).
    - rewrite existsb_eqb_seq. destruct (Nat.ltb_spec b nb); [|lia]. apply sel_length. exact Hb.
    - apply seq_NoDup.
    - intros b' z Hb' Hz. apply in_seq in Hb'. apply (sel_bin b' z); [lia|exact Hz].
  Qed.

  Lemma select_length : length M = nb -> length (select k nb ca M) = sum M.
  Proof.
    intros HM. change (select k nb ca M) with (flat_map sel (seq 0 nb)). rewrite length_flat_map.
    transitivity (sum (map (get M) (seq 0 nb))).
    - f_equal. apply map_ext_in. intros b Hb. apply in_seq in Hb. apply sel_length. lia.
    - rewrite <- HM, map_get_seq. reflexivity.
  Qed.
End Selection.

(* ------------------------------------------------------------------------------------ *)
(* rows                                                                                   *)

Lemma row_eqb_eq a b : row_eqb a b = true <-> a = b.
Proof.
  destruct a as [[c1 s1] e1], b as [[c2 s2] e2]. unfold row_eqb.
  rewrite !andb_true_iff, Nat.eqb_eq, !Z.eqb_eq. split.
  - intros [[-> ->] ->]. reflexivity.
  - intros E. injection E as -> -> ->. auto.
Qed.

Lemma row_tile_coords k ct : (0 < k_in k)%Z -> row_tile k (coords k ct) = ct.
Proof.
  intros Hw. destruct ct as [c t]. unfold row_tile, coords. cbn [fst snd].
  rewrite Z.div_mul by lia. rewrite Nat2Z.id. reflexivity.
Qed.

Lemma coords_inj k x y : (0 < k_in k)%Z -> coords k x = coords k y -> x = y.
Proof.
  intros Hw E. rewrite <- (row_tile_coords k x Hw), <- (row_tile_coords k y Hw). congruence.
Qed.

Lemma chrom_attrs_of k c : forallb (chrom_attrs k) (k_genome k) = true ->
  c < length (k_genome k) -> chrom_attrs k (chrom_of k c) = true.
Proof.
  intros H Hc. rewrite forallb_forall in H. apply H. unfold chrom_of. apply nth_In. exact Hc.
Qed.

Lemma tile_attrs_of k c t : forallb (chrom_attrs k) (k_genome k) = true ->
  c < length (k_genome k) -> t < ntiles k c -> tile_attrs k (tile_of k (c, t)) = true.
Proof.
  intros H Hc Ht. pose proof (chrom_attrs_of k c H Hc) as Hca.
  unfold chrom_attrs in Hca. rewrite !andb_true_iff in Hca. destruct Hca as [[_ Hlen] Hall].
  apply Nat.eqb_eq in Hlen. rewrite forallb_forall in Hall. apply Hall.
  unfold tile_of. cbn [fst snd]. apply nth_In. unfold ntiles in Ht. lia.
Qed.

Lemma row_ok_coords k c t :
  (0 < k_in k)%Z -> In (c, t) (all_tiles k) -> eligible k (robust_spec k) (c, t) = true ->
  row_ok k (robust_spec k) (coords k (c, t)) = true.
Proof.
  intros Hw Hin He. apply in_all_tiles in Hin as [Hc Ht].
  unfold eligible in He. rewrite !andb_true_iff in He. destruct He as [[[_ Hn] Hs] Ht'].
  apply negb_true_iff in Ht'.
  pose proof (row_tile_coords k (c, t) Hw) as RT.
  unfold row_ok. unfold coords in *. cbn [fst snd] in *.
  rewrite RT, Hn, Hs, Ht', !andb_true_r.
  rewrite !andb_true_iff. repeat split.
  - apply existsb_exists. exists c. split; [exact Hc|apply Nat.eqb_refl].
  - apply Z.leb_le. nia.
  - apply Z.eqb_eq. apply Z.mod_mul. lia.
  - apply Z.eqb_eq. lia.
  - apply Z.leb_le. unfold ntiles in Ht.
    apply (le_div_iff (c_len (chrom_of k c)) (k_in k) (Z.of_nat t + 1) Hw). lia.
Qed.

(* ------------------------------------------------------------------------------------ *)
(* the model's outcome satisfies the property, for every call                            *)

Lemma run_ok_form qk k :
  match k_bigwig k with
  | Some _ => (k_out k <=? k_in k)%Z || (length (chroms_of k) =? 0)
  | None => true end = true ->
  forallb (fun l => l_bin l <? nbins qk k) (filter (usable qk k) (k_loci k)) = true ->
  forallb (fun ct => bin_of k ct <? nbins qk k) (cands_all qk k) = true ->
  run qk k =
  Ok (map (coords k)
        (select k (nbins qk k) (cands_all qk k)
           (m_matched (match_core (q_spill0 qk) (bg_hist k (nbins qk k) (cands_all qk k))
                         (loci_hist (nbins qk k) (filter (usable qk k) (k_loci k))))))).
Proof. intros H1 H2 H3. unfold run. cbv zeta. rewrite H1, H2, H3. reflexivity. Qed.

Theorem model_meets_spec k : spec_ok k (model k) = true.
Proof.
  unfold spec_ok. destruct (wf k) eqn:Hwf; [|reflexivity].
  unfold wf in Hwf. apply andb_true_iff in Hwf as [Hsc Hat].
  destruct (scope_elim k Hsc) as (Hw & Hj & Hnd & Hclt & Hbw & _ & _).
  unfold attrs in Hat. cbv zeta in Hat. rewrite !andb_true_iff in Hat.
  destruct Hat as [[[Hch Hlo] Hpl] Hpm].
  rewrite elig_hist_agree in Hpm.
  pose proof (filter_ext _ _ (usable_agree k) (k_loci k)) as EU.
  pose proof (cands_all_agree k Hsc) as EC.
  pose proof (nbins_agree k) as EN.
  set (nb := nbins_spec k) in *.
  set (ET := filter (eligible k (robust_spec k)) (all_tiles k)) in *.
  set (UL := filter (usable_spec k) (k_loci k)) in *.
  set (bgh := bg_hist k nb ET) in *. set (lh := loci_hist nb UL).
  set (M := m_matched (match_core false bgh lh)).
  assert (Lbg : length bgh = nb) by (unfold bgh, bg_hist; rewrite map_length, seq_length; reflexivity).
  assert (Llh : length lh = nb) by (unfold lh, loci_hist; rewrite map_length, seq_length; reflexivity).
  assert (Lb : length bgh = length lh) by congruence.
  assert (LM : length M = nb) by (unfold M; rewrite core_length; assumption).
  (* bins of the usable loci and of the candidates are inside the histogram *)
  assert (E2 : forallb (fun l => l_bin l <? nb) UL = true).
  { apply forallb_forall. intros l Hl. unfold UL in Hl. apply filter_In in Hl as [Hl Hu].
    unfold usable_spec in Hu. apply andb_true_iff in Hu as [Hv _].
    rewrite forallb_forall in Hlo. specialize (Hlo l Hl). unfold locus_attrs in Hlo.
    rewrite Hv in Hlo. rewrite !andb_true_iff in Hlo. tauto. }
  assert (E3 : forallb (fun ct => bin_of k ct <? nb) ET = true).
  { apply forallb_forall. intros [c t] Hct. unfold ET in Hct. apply filter_In in Hct as [Hct _].
    apply in_all_tiles in Hct as [Hc Ht].
    pose proof (tile_attrs_of k c t Hch (Hclt c Hc) Ht) as Ha.
    unfold tile_attrs in Ha. rewrite !andb_true_iff in Ha. unfold bin_of. tauto. }
  assert (Hrun : model k = Ok (map (coords k) (select k nb ET M))).
  { unfold model. rewrite run_ok_form; rewrite ?EN, ?EU, ?EC; fold nb; auto.
    destruct (k_bigwig k); [|reflexivity]. rewrite Hbw. reflexivity. }
  rewrite Hrun. unfold spec_rows. cbv zeta. rewrite elig_hist_agree, loci_hist_agree.
  fold nb ET UL bgh lh.
  (* facts about the histograms *)
  assert (Hgb : forall b, b < nb -> get bgh b = length (cands_in k ET b)).
  { intros b Hb. unfold bgh, bg_hist. rewrite get_map_seq by exact Hb. reflexivity. }
  assert (Hperm : forall b, b < nb ->
            is_perm (nth b (k_perms k) []) (length (cands_in k ET b)) = true).
  { intros b Hb. rewrite forallb_forall in Hpm. rewrite <- Hgb by exact Hb.
    apply Hpm. apply in_seq. lia. }
  assert (HMle : forall b, b < nb -> get M b <= length (cands_in k ET b)).
  { intros b Hb. rewrite <- Hgb by exact Hb. apply core_upper. exact Lb. }
  assert (HETnd : NoDup ET) by (apply NoDup_filter'; apply NoDup_all_tiles; exact Hnd).
  set (S := select k nb ET M).
  assert (Hcnt : forall b, b < nb ->
            count_nat b (map (fun r => bin_of k (row_tile k r)) (map (coords k) S)) = get M b).
  { intros b Hb. rewrite map_map, count_nat_map.
    rewrite (filter_ext_in' _ (fun z => bin_of k z =? b)).
    - apply (select_count k ET nb M Hperm HMle b Hb).
    - intros z _. rewrite row_tile_coords by exact Hw. reflexivity. }
  assert (Hlen : @length row (map (coords k) S) = sum M).
  { rewrite map_length. apply (select_length k ET nb M Hperm HMle LM). }
  assert (Hsumlh : sum lh = usable_count k).
  { unfold lh, loci_hist, count_bin. rewrite hist_total.
    rewrite filter_all; [reflexivity|].
    intros l Hl. rewrite forallb_forall in E2. apply E2. exact Hl. }
  rewrite !andb_true_iff. repeat split.
  - (* rows are valid tiles *)
    apply forallb_forall. intros r Hr. apply in_map_iff in Hr as [[c t] [<- Hz]].
    apply (select_in k ET nb M Hperm HMle) in Hz. unfold ET in Hz. apply filter_In in Hz as [H1 H2].
    apply row_ok_coords; assumption.
  - (* returned once *)
    apply (nodupb_NoDup row_eqb row_eqb_eq). apply NoDup_map_in.
    + intros x y _ _ E. apply (coords_inj k x y Hw E).
    + apply (select_nodup k ET nb M HETnd Hperm HMle).
  - (* never more than the usable loci *)
    apply Nat.leb_le. rewrite Hlen, <- Hsumlh. apply core_total. exact Lb.
  - (* per-bin bounds *)
    apply forallb_forall. intros b Hb. apply in_seq in Hb.
    rewrite Hcnt by lia. apply andb_true_iff. split; apply Nat.leb_le.
    + apply core_lower. exact Lb.
    + apply core_upper. exact Lb.
  - (* unmatched only when exhausted *)
    destruct (Nat.leb_spec (usable_count k) (@length row (map (coords k) S))) as [Hle|Hlt]; [reflexivity|].
    cbn [orb]. apply forallb_forall. intros b Hb. apply in_seq in Hb.
    rewrite Hcnt by lia. apply Nat.eqb_eq.
    apply short_means_all_bg; [exact Lb|]. fold M. rewrite <- Hlen, Hsumlh. exact Hlt.
Qed.

(* ------------------------------------------------------------------------------------ *)
(* n_jobs                                                                                 *)

Theorem jobs_independent qk k j : 1 <= j -> run qk (with_jobs k j) = run qk (with_jobs k 1).
Proof.
  intros Hj.
  assert (EC : cands_all qk (with_jobs k j) = cands_all qk (with_jobs k 1)).
  { unfold cands_all, with_jobs. cbn [k_jobs]. rewrite !parallel_map by lia. reflexivity. }
  unfold run. cbv zeta. rewrite EC. reflexivity.
Qed.

Lemma model_jobs_independent k j : 1 <= j -> model (with_jobs k j) = model (with_jobs k 1).
Proof. intros H. apply jobs_independent. exact H. Qed.

(* the histogram-level guarantees in one statement (both variants of the spill guard for
   the conservation laws and bounds; the repaired guard for exhaustion) *)
Lemma core_all v0 bg lc : length bg = length lc ->
  let s := match_core v0 bg lc in
  (forall i, get (m_matched s) i + get (m_bg s) i = get bg i) /\
  sum (m_matched s) + sum (m_loci s) = sum lc /\
  (forall i, Nat.min (get lc i) (get bg i) <= get (m_matched s) i) /\
  (forall i, get (m_matched s) i <= get bg i) /\
  sum (m_matched s) <= sum lc /\
  (v0 = false -> forall i, 0 < get (m_loci s) i -> forall j, get (m_bg s) j = 0).
Proof.
  intros Hl s. subst s. repeat split.
  - apply core_conserve_bg; exact Hl.
  - apply core_conserve_loci; exact Hl.
  - apply core_lower; exact Hl.
  - apply core_upper; exact Hl.
  - apply core_total; exact Hl.
  - intros ->. apply unmatched_only_if_exhausted; exact Hl.
Qed.
