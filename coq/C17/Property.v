(* C17 - property theorems only.  Each is closed by [exact] of a lemma from Proofs.v/Lib.v;
   the _v0_refuted lemmas exhibit, by vm_compute, an in-scope call on which the faithful
   model of the pre-fix code violates the spec (the same inputs are in corpus/C17).      *)
From TM Require Import Base.Prelude C17.Model C17.Spec C17.Lib C17.Proofs.
Open Scope Z_scope.

(* For every call (any genome attributes, loci, windows, bin width, N limit, bigwig or
   not, chroms, n_jobs, shuffle permutations): if the call is in the property's scope and
   the measured attributes are consistent, the model returns rows, each an in_window-aligned
   tile inside its chromosome, overlapping no input row, within the N (and signal) limit,
   returned once; not more rows than usable input loci; every GC bin receives at least
   min(input, eligible) and at most its eligible count; and if some usable input locus is
   left unmatched then every eligible tile has been returned. *)
Theorem c17_extract_matching_loci : forall k, spec_ok k (model k) = true.
Proof. exact model_meets_spec. Qed.
Print Assumptions c17_extract_matching_loci.

(* the result is the same whatever n_jobs is (order-preserving Parallel) *)
Theorem c17_n_jobs : forall k j, (1 <= j)%nat -> model (with_jobs k j) = model (with_jobs k 1).
Proof. exact model_jobs_independent. Qed.
Print Assumptions c17_n_jobs.

(* the matching core, for all GC histograms of equal length *)
Theorem c17_matching_core : forall v0 bg lc, length bg = length lc ->
  let s := match_core v0 bg lc in
  (forall i, get (m_matched s) i + get (m_bg s) i = get bg i)%nat /\
  (sum (m_matched s) + sum (m_loci s) = sum lc)%nat /\
  (forall i, Nat.min (get lc i) (get bg i) <= get (m_matched s) i)%nat /\
  (forall i, get (m_matched s) i <= get bg i)%nat /\
  (sum (m_matched s) <= sum lc)%nat /\
  (v0 = false -> forall i, (0 < get (m_loci s) i)%nat -> forall j, get (m_bg s) j = 0%nat).
Proof. exact core_all. Qed.
Print Assumptions c17_matching_core.

(* ---- witnesses ---- *)

Definition t00 := Tile 0 0 0 0.      (* pure A/T tile: GC bin 0 *)
Definition t51 := Tile 5 0 0 1.      (* 5 of 10 G+C: bin 1 at bin width 1/2 *)
Definition lc1 := Locus 0 20 30 20 30 5 0 1 20 30 0.

(* one locus of GC bin 1, two eligible background tiles, both in GC bin 0 *)
Definition w_spill : call :=
  Call [Chrom 40 true [t00; t00; t51; t51]] [lc1] 10 10 (1, 10) (1, 2) None None 1
       [[1; 0]%nat; []; []].

(* the hypotheses are satisfiable and the outcome is not vacuous *)
Example c17_satisfiable : wf w_spill = true /\ model w_spill = Ok [(0%nat, 10, 20)].
Proof. vm_compute. split; reflexivity. Qed.

(* idx > 0: GC bin 0 is never used by the downward spill *)
Lemma spill_v0_refuted :
  exists k, spec_ok k (run (Quirks true false false false) k) = false.
Proof. exists w_spill. vm_compute. reflexivity. Qed.

(* in_window = out_window with a bigwig: the empty slice sums to 0 and the high-signal
   tile 0 is returned *)
Definition w_slice : call :=
  Call [Chrom 40 true [Tile 5 0 100 1; Tile 5 0 0 1; Tile 5 0 10 1; Tile 5 0 10 1]]
       [Locus 0 20 30 20 30 5 0 1 20 30 10] 10 10 (1, 10) (1, 2) (Some (1, 2)) None 1
       [[]; [0%nat]; []].
Lemma slice_v0_refuted :
  exists k, spec_ok k (run (Quirks false true false false) k) = false.
Proof. exists w_slice. vm_compute. reflexivity. Qed.

(* gc_bin_width = 0.08: a pure G/C tile falls in bin 13 of a 13-cell histogram *)
Definition w_nbins : call :=
  Call [Chrom 30 true [Tile 10 0 0 13; Tile 5 0 0 6; Tile 5 0 0 6]]
       [Locus 0 10 20 10 20 5 0 6 10 20 0] 10 10 (1, 10) (2, 25) None None 1
       [[]; []; []; []; []; []; []; []; []; []; []; []; []; [0%nat]].
Lemma nbins_v0_refuted :
  exists k, spec_ok k (run (Quirks false false true false) k) = false.
Proof. exists w_nbins. vm_compute. reflexivity. Qed.

(* max_n_perc = 0: an N-free input locus is discarded by the strict comparison *)
Definition w_strict : call :=
  Call [Chrom 40 true [t00; t00; t51; t51]] [lc1] 10 10 (0, 1) (1, 2) None None 1
       [[1; 0]%nat; []; []].
Lemma strict_v0_refuted :
  exists k, spec_ok k (run (Quirks false false false true) k) = false.
Proof. exists w_strict. vm_compute. reflexivity. Qed.

(* the same four calls satisfy the spec on the current code's model *)
Example witnesses_ok_now :
  map (fun k => wf k && spec_ok k (model k)) [w_spill; w_slice; w_nbins; w_strict]
  = [true; true; true; true].
Proof. vm_compute. reflexivity. Qed.
