(* C17 model: match.extract_matching_loci and _extract_and_filter_chrom (tree after the
   fix: commits; the pre-fix behaviours are kept as the [v0] switches).
   Executable mirror of the code, no proofs here.

   What is abstract: the genome and the bigwig are seen through per-tile / per-locus
   attributes (G+C count, N count, signal summed over the central out_window, GC bin) that
   the harness measures independently on the genome string / signal vector it generated;
   Spec.wf states what these attributes must satisfy (exact rational arithmetic with a
   1e-9 band at bin edges).  RandomState.shuffle is an input permutation per GC bin.     *)
From TM Require Import Base.Prelude Base.PyList.
Open Scope Z_scope.

(* ------------------------------------------------------------------------------------ *)
(* data                                                                                  *)

Record tile := Tile { t_gc : Z; t_n : Z; t_sig : Z; t_bin : nat }.
(* c_bw: the chromosome is present in the bigwig (irrelevant without a bigwig) *)
Record chrom := Chrom { c_len : Z; c_bw : bool; c_tiles : list tile }.

(* an input locus (BED row) + what the harness measured for it:
   [l_rs, l_re) is the in_window region the G+C / N counts were taken on,
   [l_ss, l_se) the out_window region the signal was summed on *)
Record locus := Locus { l_chrom : nat; l_start : Z; l_end : Z;
                        l_rs : Z; l_re : Z; l_gc : Z; l_n : Z; l_bin : nat;
                        l_ss : Z; l_se : Z; l_sig : Z }.

Record call := Call {
  k_genome : list chrom;
  k_loci   : list locus;
  k_in     : Z;                      (* in_window *)
  k_out    : Z;                      (* out_window *)
  k_maxn   : Z * Z;                  (* max_n_perc = p/q *)
  k_bw     : Z * Z;                  (* gc_bin_width = p/q *)
  k_bigwig : option (Z * Z);         (* Some (signal_beta = p/q) when a bigwig is given *)
  k_chroms : option (list nat);      (* chroms=None -> the loci's chromosomes, sorted *)
  k_jobs   : nat;                    (* n_jobs *)
  k_perms  : list (list nat)         (* per GC bin: the permutation RandomState.shuffle applies *)
}.

(* the pre-fix behaviours (all false = the code as it is now) *)
Record quirks := Quirks {
  q_spill0 : bool;   (* downward spill guarded by idx > 0 instead of idx >= 0 *)
  q_slice0 : bool;   (* values[:, left:-right] is empty when in_window = out_window *)
  q_nbins0 : bool;   (* histograms sized int(1/width)+1 *)
  q_strict : bool    (* input loci kept only when N fraction < max_n_perc (strict) *)
}.
Definition fixed : quirks := Quirks false false false false.

Definition outcome := res (list (nat * Z * Z)).     (* (chromosome index, start, end) *)

Definition dtile : tile := Tile 0 0 0 0.
Definition dchrom : chrom := Chrom 0 true [].

(* ------------------------------------------------------------------------------------ *)
(* the matching core on GC histograms (match.py "Match the sizes")                       *)

Definition get (l : list nat) (i : nat) : nat := nth i l 0%nat.

Fixpoint upd (l : list nat) (i v : nat) : list nat :=
  match l, i with
  | [], _ => []
  | _ :: xs, O => v :: xs
  | x :: xs, S i' => x :: upd xs i' v
  end.

Fixpoint sum (l : list nat) : nat := match l with [] => 0%nat | x :: xs => (x + sum xs)%nat end.

Record mstate := MS { m_bg : list nat; m_loci : list nat; m_matched : list nat }.

(*  count = min(bg_bin_count[idx], loci_bin_count[i]); bg[idx] -= count;
    loci[i] -= count; matched[idx] += count                                             *)
Definition take (s : mstate) (idx i : nat) : mstate :=
  let c := Nat.min (get (m_bg s) idx) (get (m_loci s) i) in
  MS (upd (m_bg s) idx (get (m_bg s) idx - c))
     (upd (m_loci s) i (get (m_loci s) i - c))
     (upd (m_matched s) idx (get (m_matched s) idx + c)).

(* idx = i - offset is a Python int: the guard is idx >= 0 (pre-fix: idx > 0) *)
Definition low_ok (v0 : bool) (i off : nat) : bool :=
  if v0 then (off <? i)%nat else (off <=? i)%nat.

(* for offset in range(n): ... with its two breaks; the range is the list [offs] *)
Fixpoint inner (v0 : bool) (n i : nat) (offs : list nat) (s : mstate) : mstate :=
  match offs with
  | [] => s
  | off :: rest =>
      let s1 := if (i + off <? n)%nat then take s (i + off) i else s in
      if (get (m_loci s1) i =? 0)%nat then s1 else
      let s2 := if low_ok v0 i off then take s1 (i - off) i else s1 in
      if (get (m_loci s2) i =? 0)%nat then s2 else
      inner v0 n i rest s2
  end.

(* for i in range(n-1, -1, -1): if loci[i] == 0: continue; <inner loop> *)
Fixpoint outer (v0 : bool) (n : nat) (is : list nat) (s : mstate) : mstate :=
  match is with
  | [] => s
  | i :: rest =>
      let s' := if (get (m_loci s) i =? 0)%nat then s else inner v0 n i (seq 0 n) s in
      outer v0 n rest s'
  end.

(* numpy.minimum(bg, loci); bg -= matched; loci -= matched; then the spill loops.
   n = len(loci_bin_count); both histograms have that length *)
Definition match_core (v0 : bool) (bg loci : list nat) : mstate :=
  let n := length loci in
  let m := map2 Nat.min bg loci in
  let s0 := MS (map2 Nat.sub bg m) (map2 Nat.sub loci m) m in
  outer v0 n (rev (seq 0 n)) s0.

(* ------------------------------------------------------------------------------------ *)
(* input loci                                                                            *)

(* _resize_coords_generator: same midpoint, width W  (// is floor division = Z.div) *)
Definition mid (l : locus) : Z := l_start l + (l_end l - l_start l) / 2.
Definition region (m W : Z) : Z * Z := (m - W / 2, m + (W + 1) / 2).

Definition chrom_of (k : call) (c : nat) : chrom := nth c (k_genome k) dchrom.

(* _valid_locus on the locus resized to max(in_window, out_window) *)
Definition locus_valid (k : call) (l : locus) : bool :=
  let '(s, e) := region (mid l) (Z.max (k_in k) (k_out k)) in
  (0 <=? s) && (e <=? c_len (chrom_of k (l_chrom l))).

(* loci_gc[loci_n <= max_n_perc]  (pre-fix: <) *)
Definition n_frac_ok (strict : bool) (k : call) (n : Z) : bool :=
  let '(p, q) := k_maxn k in
  if strict then (n * q <? p * k_in k) else (n * q <=? p * k_in k).

Definition usable (qk : quirks) (k : call) (l : locus) : bool :=
  locus_valid k l && n_frac_ok (q_strict qk) k (l_n l).

(* number of histogram cells: bin of GC = 1.0, plus one   (pre-fix: int(1/width) + 1) *)
Definition nbins (qk : quirks) (k : call) : nat :=
  let '(p, q) := k_bw k in
  if q_nbins0 qk then S (Z.to_nat (q / p)) else S (Z.to_nat ((2 * q + p) / (2 * p))).

Definition count_bin {A} (f : A -> nat) (b : nat) (l : list A) : nat :=
  length (filter (fun x => (f x =? b)%nat) l).

(* ------------------------------------------------------------------------------------ *)
(* signal threshold: numpy.nanquantile(counts of the valid loci, 0.01) * signal_beta     *)

Fixpoint zinsert (x : Z) (l : list Z) : list Z :=
  match l with
  | [] => [x]
  | y :: ys => if x <=? y then x :: l else y :: zinsert x ys
  end.
Definition zsort (l : list Z) : list Z := fold_right zinsert [] l.

(* 100 * (linear-interpolated 1% quantile); None for an empty sample (nan) *)
Definition robust_min100 (sig : list Z) : option Z :=
  match sig with
  | [] => None
  | _ =>
      let a := zsort sig in
      let m := (length sig - 1)%nat in
      let lo := (m / 100)%nat in
      let g := Z.of_nat (m mod 100) in
      let alo := nth lo a 0 in
      let ahi := nth (Nat.min (S lo) m) a 0 in
      Some (100 * alo + (ahi - alo) * g)
  end.

(* the 1% quantile of the signal of the valid loci (times 100); computed once per call.
   _extract_counts returns nan for a locus whose chromosome is not in the bigwig, and
   nanquantile ignores it *)
Definition robust (k : call) : option Z :=
  robust_min100 (map l_sig (filter (fun l => locus_valid k l && c_bw (chrom_of k (l_chrom l)))
                                   (k_loci k))).

(* values <= threshold, threshold = robust_min * beta, everything scaled by 100 * q_beta;
   a nan threshold (no valid locus) passes nothing.  [thr] is [robust k]. *)
Definition sig_ok (qk : quirks) (k : call) (thr : option Z) (t : tile) : bool :=
  match k_bigwig k with
  | None => true
  | Some (bp, bq) =>
      match thr with
      | None => false
      | Some r => let s := if q_slice0 qk && (k_in k =? k_out k) then 0 else t_sig t in
                  s * 100 * bq <=? r * bp
      end
  end.

(* ------------------------------------------------------------------------------------ *)
(* background: tiling, N filter, signal filter, mask                                     *)

Definition ntiles (k : call) (c : nat) : nat := Z.to_nat (c_len (chrom_of k c) / k_in k).
Definition tile_of (k : call) (ct : nat * nat) : tile :=
  nth (snd ct) (c_tiles (chrom_of k (fst ct))) dtile.

(* _extract_and_filter_chrom: indices of the tiles passing n_perc <= max_n_perc and the
   signal filter (the GC bin travels with the tile) *)
Definition has_signal (k : call) (c : nat) : bool :=
  match k_bigwig k with Some _ => c_bw (chrom_of k c) | None => true end.

(* (bw.values raising RuntimeError for a chromosome absent from the bigwig -> return {}) *)
Definition extract_chrom (qk : quirks) (k : call) (thr : option Z) (c : nat) : list (nat * nat) :=
  if has_signal k c then
    map (pair c)
      (filter (fun t => n_frac_ok false k (t_n (tile_of k (c, t))) && sig_ok qk k thr (tile_of k (c, t)))
              (seq 0 (ntiles k c)))
  else [].

(* Parallel(n_jobs)(f(x) for x in xs): order-preserving; [jobs] consecutive tasks at a time *)
Definition parallel {A B} (jobs : nat) (f : A -> B) (xs : list A) : list B :=
  concat (map (map f) (chunks jobs xs)).

Definition zrange (a b : Z) : list Z := map (fun i => a + Z.of_nat i) (seq 0 (Z.to_nat (b - a))).

(* mask[chrom] = set(range(start // in_window, end // in_window + 1) for every input row) *)
Definition mask (k : call) (c : nat) : list Z :=
  flat_map (fun l => if (l_chrom l =? c)%nat
                     then zrange (l_start l / k_in k) (l_end l / k_in k + 1) else [])
           (k_loci k).

(* chroms=None: numpy.unique(loci['chrom']) - chromosome indices are in name order *)
Definition chroms_of (k : call) : list nat :=
  match k_chroms k with
  | Some cs => cs
  | None => filter (fun c => existsb (fun l => (l_chrom l =? c)%nat) (k_loci k))
                   (seq 0 (length (k_genome k)))
  end.

(* for chrom, percs in zip(chroms, chrom_percs): keep the values not in mask[chrom].
   All unmasked passing tiles, in (chroms order, position) order; gc_percs[b] is the
   sub-list with GC bin b in the same order *)
Definition cands_all (qk : quirks) (k : call) : list (nat * nat) :=
  let thr := robust k in
  flat_map (fun cp => let m := mask k (fst cp) in
                      filter (fun ct => negb (existsb (Z.eqb (Z.of_nat (snd ct))) m)) (snd cp))
           (combine (chroms_of k) (parallel (k_jobs k) (extract_chrom qk k thr) (chroms_of k))).

Definition bin_of (k : call) (ct : nat * nat) : nat := t_bin (tile_of k ct).
Definition cands_in (k : call) (ca : list (nat * nat)) (b : nat) : list (nat * nat) :=
  filter (fun ct => (bin_of k ct =? b)%nat) ca.

(* random_state.shuffle(gc_percs[b]) seen as its permutation: new[j] = old[perm[j]] *)
Definition shuffled_in (k : call) (ca : list (nat * nat)) (b : nat) : list (nat * nat) :=
  map (fun j => nth j (cands_in k ca b) (0, 0)%nat) (nth b (k_perms k) []).

Definition coords (k : call) (ct : nat * nat) : nat * Z * Z :=
  (fst ct, Z.of_nat (snd ct) * k_in k, (Z.of_nat (snd ct) + 1) * k_in k).

Definition bg_hist (k : call) (nb : nat) (ca : list (nat * nat)) : list nat :=
  map (fun b => length (cands_in k ca b)) (seq 0 nb).
Definition loci_hist (nb : nat) (ul : list locus) : list nat :=
  map (fun b => count_bin l_bin b ul) (seq 0 nb).

(* for i in range(n): for j in range(matched[i]): gc_percs[i][j] *)
Definition select (k : call) (nb : nat) (ca : list (nat * nat)) (M : list nat) : list (nat * nat) :=
  flat_map (fun b => firstn (get M b) (shuffled_in k ca b)) (seq 0 nb).

Definition run (qk : quirks) (k : call) : outcome :=
  let nb := nbins qk k in
  let ul := filter (usable qk k) (k_loci k) in
  let ca := cands_all qk k in
  (* assert in_window >= out_window inside _extract_and_filter_chrom (bigwig only; raised
     only if some chromosome is processed) *)
  ensure (match k_bigwig k with
          | Some _ => (k_out k <=? k_in k) || (length (chroms_of k) =? 0)%nat
          | None => true end) ;;
  (* loci_bin_count[gc_bin] += 1  -> IndexError beyond the histogram *)
  ensure forallb (fun l => (l_bin l <? nb)%nat) ul ;;
  (* gc_percs[key] / bg_bin_count[key] -> KeyError beyond the histogram *)
  ensure forallb (fun ct => (bin_of k ct <? nb)%nat) ca ;;
  let M := m_matched (match_core (q_spill0 qk) (bg_hist k nb ca) (loci_hist nb ul)) in
  Ok (map (coords k) (select k nb ca M)).

(* the same call with another n_jobs *)
Definition with_jobs (k : call) (j : nat) : call :=
  Call (k_genome k) (k_loci k) (k_in k) (k_out k) (k_maxn k) (k_bw k) (k_bigwig k)
       (k_chroms k) j (k_perms k).
