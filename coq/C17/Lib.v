(* C17 - the matching core: invariants of the exact-bin phase and of the two spill loops,
   by induction over both loops, for all histograms. *)
From TM Require Import Base.Prelude Base.PyList C17.Model.
Open Scope nat_scope.
Arguments get : simpl never.
Arguments upd : simpl nomatch.

(* ------------------------------------------------------------------------------------ *)
(* get / upd / sum                                                                        *)

Lemma upd_length l i v : length (upd l i v) = length l.
Proof. revert i; induction l as [|x xs IH]; intros [|i]; cbn; auto. Qed.

Lemma get_upd l i v j :
  get (upd l i v) j = if (j =? i) && (i <? length l) then v else get l j.
Proof.
  unfold get. revert i j; induction l as [|x xs IH]; intros i j.
  - cbn. destruct i, j; cbn; rewrite ?andb_false_r; reflexivity.
  - destruct i as [|i], j as [|j]; cbn [upd nth length]; try reflexivity.
    rewrite IH. cbn. reflexivity.
Qed.

Lemma get_upd_same l i v : i < length l -> get (upd l i v) i = v.
Proof. intros H. rewrite get_upd, Nat.eqb_refl, andb_true_l. destruct (Nat.ltb_spec i (length l)); [reflexivity|lia]. Qed.

Lemma get_upd_other l i v j : j <> i -> get (upd l i v) j = get l j.
Proof. intros H. rewrite get_upd. destruct (Nat.eqb_spec j i); [contradiction|reflexivity]. Qed.

Lemma get_overflow l j : length l <= j -> get l j = 0.
Proof. intros H. unfold get. apply nth_overflow; exact H. Qed.

Lemma sum_upd l i v : i < length l -> sum (upd l i v) + get l i = sum l + v.
Proof.
  unfold get. revert i; induction l as [|x xs IH]; intros [|i] H; cbn in *; try lia.
  specialize (IH i ltac:(lia)). lia.
Qed.

Lemma sum_app a b : sum (a ++ b) = sum a + sum b.
Proof. induction a; cbn; lia. Qed.

Lemma sum_pos_ex l : 0 < sum l -> exists i, 0 < get l i.
Proof.
  induction l as [|x xs IH]; cbn; [lia|]. intros H.
  destruct x as [|x].
  - destruct IH as [i Hi]; [lia|]. exists (S i). exact Hi.
  - exists 0. unfold get. cbn. lia.
Qed.

Lemma sum_pointwise_eq a b :
  length a = length b -> (forall j, get a j = get b j) -> a = b.
Proof.
  revert b; induction a as [|x xs IH]; intros [|y ys] Hl H; cbn in *; try lia; auto.
  f_equal.
  - exact (H 0).
  - apply IH; [lia|]. intros j. exact (H (S j)).
Qed.

Lemma get_map2 (f : nat -> nat -> nat) a b j :
  f 0 0 = 0 -> length a = length b -> get (map2 f a b) j = f (get a j) (get b j).
Proof.
  intros H0 Hl. unfold get.
  destruct (Nat.lt_ge_cases j (length a)) as [Hj|Hj].
  - apply nth_map2; auto.
  - rewrite !nth_overflow; auto; try lia.
    rewrite map2_length; auto.
Qed.

Lemma sum_exact_phase bg lc :
  length bg = length lc ->
  sum (map2 Nat.min bg lc) + sum (map2 Nat.sub lc (map2 Nat.min bg lc)) = sum lc.
Proof.
  revert lc; induction bg as [|x xs IH]; intros [|y ys] H; cbn in *; try lia.
  specialize (IH ys ltac:(lia)). unfold map2 in *. cbn. lia.
Qed.

(* ------------------------------------------------------------------------------------ *)
(* invariants                                                                             *)

Definition wfs (n : nat) (s : mstate) : Prop :=
  length (m_bg s) = n /\ length (m_loci s) = n /\ length (m_matched s) = n.

Definition Inv (bg0 lc0 : list nat) (n : nat) (s : mstate) : Prop :=
  wfs n s /\
  (forall j, get (m_matched s) j + get (m_bg s) j = get bg0 j) /\
  sum (m_matched s) + sum (m_loci s) = sum lc0 /\
  (forall j, Nat.min (get lc0 j) (get bg0 j) <= get (m_matched s) j).

Definition le_state (s' s : mstate) : Prop :=
  (forall j, get (m_bg s') j <= get (m_bg s) j) /\
  (forall j, get (m_loci s') j <= get (m_loci s) j).

Lemma le_state_refl s : le_state s s.
Proof. split; intros; lia. Qed.

Lemma le_state_trans a b c : le_state a b -> le_state b c -> le_state a c.
Proof. intros [H1 H2] [H3 H4]; split; intros j; specialize (H1 j); specialize (H2 j);
  specialize (H3 j); specialize (H4 j); lia. Qed.

Lemma take_le s idx i : le_state (take s idx i) s.
Proof.
  split; intros j; cbn; rewrite get_upd.
  - destruct (Nat.eqb_spec j idx) as [->|]; cbn [andb]; [destruct (Nat.ltb _ _)|]; lia.
  - destruct (Nat.eqb_spec j i) as [->|]; cbn [andb]; [destruct (Nat.ltb _ _)|]; lia.
Qed.

Lemma take_Inv bg0 lc0 n s idx i :
  idx < n -> i < n -> Inv bg0 lc0 n s -> Inv bg0 lc0 n (take s idx i).
Proof.
  intros Hidx Hi [[Lb [Ll Lm]] [Hmb [Hsum Hmin]]].
  set (c := Nat.min (get (m_bg s) idx) (get (m_loci s) i)).
  repeat split; cbn; fold c; rewrite ?upd_length; auto.
  - intros j. rewrite !get_upd, Lb, Lm.
    destruct (Nat.eqb_spec j idx) as [->|]; cbn [andb].
    + destruct (Nat.ltb_spec idx n); [|lia]. specialize (Hmb idx). lia.
    + apply Hmb.
  - pose proof (sum_upd (m_matched s) idx (get (m_matched s) idx + c) ltac:(lia)).
    pose proof (sum_upd (m_loci s) i (get (m_loci s) i - c) ltac:(lia)).
    lia.
  - intros j. rewrite get_upd. specialize (Hmin j).
    destruct (Nat.eqb_spec j idx) as [->|]; cbn [andb]; [destruct (Nat.ltb _ _)|]; lia.
Qed.

(* one take empties the source cell or the background cell *)
Lemma take_exh s idx i :
  idx < length (m_bg s) -> i < length (m_loci s) ->
  get (m_loci (take s idx i)) i = 0 \/ get (m_bg (take s idx i)) idx = 0.
Proof.
  intros H1 H2. cbn. rewrite !get_upd_same by assumption. lia.
Qed.

Lemma take_wfs n s idx i : wfs n s -> wfs n (take s idx i).
Proof. intros [A [B C]]. repeat split; cbn; rewrite upd_length; assumption. Qed.

(* ---- inner loop ---- *)

Lemma inner_le v0 n i offs : forall s, le_state (inner v0 n i offs s) s.
Proof.
  induction offs as [|off rest IH]; intros s; cbn [inner]; [apply le_state_refl|].
  set (s1 := if i + off <? n then take s (i + off) i else s).
  assert (L1 : le_state s1 s) by (subst s1; destruct (_ <? _); [apply take_le|apply le_state_refl]).
  destruct (get (m_loci s1) i =? 0); [exact L1|].
  set (s2 := if low_ok v0 i off then take s1 (i - off) i else s1).
  assert (L2 : le_state s2 s).
  { eapply le_state_trans; [|exact L1]. subst s2. destruct (low_ok _ _ _); [apply take_le|apply le_state_refl]. }
  destruct (get (m_loci s2) i =? 0); [exact L2|].
  eapply le_state_trans; [apply IH|exact L2].
Qed.

Lemma inner_Inv bg0 lc0 v0 n i offs : i < n ->
  forall s, Inv bg0 lc0 n s -> Inv bg0 lc0 n (inner v0 n i offs s).
Proof.
  intros Hi. induction offs as [|off rest IH]; intros s HI; cbn [inner]; [exact HI|].
  set (s1 := if i + off <? n then take s (i + off) i else s).
  assert (I1 : Inv bg0 lc0 n s1).
  { subst s1. destruct (Nat.ltb_spec (i + off) n); [apply take_Inv; auto|exact HI]. }
  destruct (get (m_loci s1) i =? 0); [exact I1|].
  set (s2 := if low_ok v0 i off then take s1 (i - off) i else s1).
  assert (I2 : Inv bg0 lc0 n s2).
  { subst s2. destruct (low_ok _ _ _); [apply take_Inv; auto; lia|exact I1]. }
  destruct (get (m_loci s2) i =? 0); [exact I2|].
  apply IH; exact I2.
Qed.

(* the repaired inner loop visits every cell: it ends with the source cell empty or the
   whole background empty.  Invariant before offset a: cells at distance < a are empty *)
Lemma inner_exh n i : i < n ->
  forall m a s, a + m = n -> wfs n s ->
    (forall j, j < n -> j < i + a -> i < j + a -> get (m_bg s) j = 0) ->
    let s' := inner false n i (seq a m) s in
    get (m_loci s') i = 0 \/ (forall j, j < n -> get (m_bg s') j = 0).
Proof.
  intros Hi. induction m as [|m IH]; intros a s Ham W H; cbn [seq inner].
  - right. intros j Hj. apply H; lia.
  - set (s1 := if i + a <? n then take s (i + a) i else s).
    assert (W1 : wfs n s1) by (subst s1; destruct (_ <? _); [apply take_wfs|]; exact W).
    assert (L1 : le_state s1 s) by (subst s1; destruct (_ <? _); [apply take_le|apply le_state_refl]).
    assert (Z1 : get (m_loci s1) i = 0 \/ (i + a < n -> get (m_bg s1) (i + a) = 0)).
    { subst s1. destruct (Nat.ltb_spec (i + a) n) as [Hlt|Hge]; [|right; lia].
      destruct W as [Wb [Wl _]].
      destruct (take_exh s (i + a) i ltac:(lia) ltac:(lia)) as [E|E]; [left|right]; auto. }
    destruct (Nat.eqb_spec (get (m_loci s1) i) 0) as [E1|E1]; [left; exact E1|].
    destruct Z1 as [Z1|Z1]; [contradiction|].
    set (s2 := if low_ok false i a then take s1 (i - a) i else s1).
    assert (W2 : wfs n s2) by (subst s2; destruct (low_ok _ _ _); [apply take_wfs|]; exact W1).
    assert (L2 : le_state s2 s1) by (subst s2; destruct (low_ok _ _ _); [apply take_le|apply le_state_refl]).
    assert (Z2 : get (m_loci s2) i = 0 \/ (a <= i -> get (m_bg s2) (i - a) = 0)).
    { subst s2. unfold low_ok. destruct (Nat.leb_spec a i) as [Hle|Hgt]; [|right; lia].
      destruct W1 as [Wb [Wl _]].
      destruct (take_exh s1 (i - a) i ltac:(lia) ltac:(lia)) as [E|E]; [left|right]; auto. }
    destruct (Nat.eqb_spec (get (m_loci s2) i) 0) as [E2|E2]; [left; exact E2|].
    destruct Z2 as [Z2|Z2]; [contradiction|].
    apply (IH (S a) s2); [lia|exact W2|].
    intros j Hj Hlo Hhi.
    destruct L1 as [L1 _], L2 as [L2 _].
    destruct (Nat.eq_dec j (i + a)) as [->|N1].
    { specialize (Z1 Hj). specialize (L2 (i + a)). lia. }
    destruct (Nat.eq_dec (j + a) i) as [E|N2].
    { assert (j = i - a) by lia. subst j. apply Z2. lia. }
    specialize (H j Hj ltac:(lia) ltac:(lia)). specialize (L1 j). specialize (L2 j). lia.
Qed.

(* ---- outer loop ---- *)

Lemma outer_le v0 n is : forall s, le_state (outer v0 n is s) s.
Proof.
  induction is as [|i rest IH]; intros s; cbn [outer]; [apply le_state_refl|].
  eapply le_state_trans; [apply IH|].
  destruct (_ =? 0); [apply le_state_refl|apply inner_le].
Qed.

Lemma outer_Inv bg0 lc0 v0 n is : Forall (fun i => i < n) is ->
  forall s, Inv bg0 lc0 n s -> Inv bg0 lc0 n (outer v0 n is s).
Proof.
  induction 1 as [|i rest Hi _ IH]; intros s HI; cbn [outer]; [exact HI|].
  apply IH. destruct (_ =? 0); [exact HI|apply inner_Inv; assumption].
Qed.

Lemma outer_wfs v0 n is : Forall (fun i => i < n) is ->
  forall bg0 lc0 s, Inv bg0 lc0 n s -> wfs n (outer v0 n is s).
Proof. intros F bg0 lc0 s HI. exact (proj1 (outer_Inv bg0 lc0 v0 n is F s HI)). Qed.

Definition exhausted_at (n i : nat) (s : mstate) : Prop :=
  get (m_loci s) i = 0 \/ (forall j, j < n -> get (m_bg s) j = 0).

Lemma exhausted_mono n i s' s : le_state s' s -> exhausted_at n i s -> exhausted_at n i s'.
Proof.
  intros [Lb Ll] [E|E]; [left|right].
  - specialize (Ll i). lia.
  - intros j Hj. specialize (E j Hj). specialize (Lb j). lia.
Qed.

Lemma outer_exh bg0 lc0 n is : Forall (fun i => i < n) is ->
  forall s, Inv bg0 lc0 n s ->
    forall i, In i is -> exhausted_at n i (outer false n is s).
Proof.
  induction 1 as [|i0 rest Hi0 Hrest IH]; intros s HI i Hin; [destruct Hin|].
  cbn [outer].
  set (s1 := if get (m_loci s) i0 =? 0 then s else inner false n i0 (seq 0 n) s).
  assert (I1 : Inv bg0 lc0 n s1).
  { subst s1. destruct (_ =? 0); [exact HI|apply inner_Inv; assumption]. }
  destruct Hin as [<-|Hin]; [|apply IH; assumption].
  apply exhausted_mono with (s := s1); [apply outer_le|].
  subst s1. destruct (Nat.eqb_spec (get (m_loci s) i0) 0) as [E|E]; [left; exact E|].
  apply (inner_exh n i0 Hi0 n 0 s); [lia|exact (proj1 HI)|].
  intros j _ H1 H2. lia.
Qed.

(* ------------------------------------------------------------------------------------ *)
(* the core, for all histograms of equal length                                          *)

Lemma rev_seq_lt n : Forall (fun i => i < n) (rev (seq 0 n)).
Proof. apply Forall_forall. intros i Hi. apply in_rev in Hi. apply in_seq in Hi. lia. Qed.

Lemma init_Inv bg lc : length bg = length lc ->
  let m := map2 Nat.min bg lc in
  Inv bg lc (length lc) (MS (map2 Nat.sub bg m) (map2 Nat.sub lc m) m).
Proof.
  intros Hl m.
  assert (Lm : length m = length lc) by (subst m; rewrite map2_length; auto).
  repeat split; cbn.
  - rewrite map2_length; lia.
  - rewrite map2_length; lia.
  - exact Lm.
  - intros j. subst m.
    rewrite (get_map2 Nat.sub bg (map2 Nat.min bg lc)) by (auto; rewrite map2_length; auto).
    rewrite get_map2 by auto. lia.
  - subst m. apply sum_exact_phase; exact Hl.
  - intros j. subst m. rewrite get_map2 by auto. lia.
Qed.

Theorem core_Inv v0 bg lc : length bg = length lc ->
  Inv bg lc (length lc) (match_core v0 bg lc).
Proof.
  intros Hl. unfold match_core. apply outer_Inv; [apply rev_seq_lt|apply init_Inv; exact Hl].
Qed.

(* matched[i] + bg_left[i] = bg[i] *)
Theorem core_conserve_bg v0 bg lc : length bg = length lc ->
  forall i, get (m_matched (match_core v0 bg lc)) i + get (m_bg (match_core v0 bg lc)) i = get bg i.
Proof. intros Hl. exact (proj1 (proj2 (core_Inv v0 bg lc Hl))). Qed.

(* sum matched + sum loci_left = sum loci *)
Theorem core_conserve_loci v0 bg lc : length bg = length lc ->
  sum (m_matched (match_core v0 bg lc)) + sum (m_loci (match_core v0 bg lc)) = sum lc.
Proof. intros Hl. exact (proj1 (proj2 (proj2 (core_Inv v0 bg lc Hl)))). Qed.

(* matched[i] >= min(loci[i], bg[i]) *)
Theorem core_lower v0 bg lc : length bg = length lc ->
  forall i, Nat.min (get lc i) (get bg i) <= get (m_matched (match_core v0 bg lc)) i.
Proof. intros Hl. exact (proj2 (proj2 (proj2 (core_Inv v0 bg lc Hl)))). Qed.

(* matched[i] <= bg[i] *)
Theorem core_upper v0 bg lc : length bg = length lc ->
  forall i, get (m_matched (match_core v0 bg lc)) i <= get bg i.
Proof. intros Hl i. pose proof (core_conserve_bg v0 bg lc Hl i). lia. Qed.

(* sum matched <= sum loci *)
Theorem core_total v0 bg lc : length bg = length lc ->
  sum (m_matched (match_core v0 bg lc)) <= sum lc.
Proof. intros Hl. pose proof (core_conserve_loci v0 bg lc Hl). lia. Qed.

Theorem core_length v0 bg lc : length bg = length lc ->
  length (m_matched (match_core v0 bg lc)) = length lc.
Proof. intros Hl. exact (proj2 (proj2 (proj1 (core_Inv v0 bg lc Hl)))). Qed.

(* loci_left[i] > 0 -> forall j, bg_left[j] = 0   (the repaired loop) *)
Theorem unmatched_only_if_exhausted bg lc : length bg = length lc ->
  forall i, 0 < get (m_loci (match_core false bg lc)) i ->
  forall j, get (m_bg (match_core false bg lc)) j = 0.
Proof.
  intros Hl i Hpos j.
  pose proof (core_Inv false bg lc Hl) as HI.
  destruct (Nat.lt_ge_cases i (length lc)) as [Hi|Hi].
  2:{ rewrite get_overflow in Hpos; [lia|]. destruct HI as [[_ [L _]] _]. lia. }
  destruct (Nat.lt_ge_cases j (length lc)) as [Hj|Hj].
  2:{ apply get_overflow. destruct HI as [[L _] _]. lia. }
  unfold match_core in *.
  pose proof (outer_exh bg lc (length lc) (rev (seq 0 (length lc))) (rev_seq_lt _) _
                (init_Inv bg lc Hl) i) as E.
  destruct E as [E|E].
  - apply in_rev. rewrite rev_involutive. apply in_seq. lia.
  - cbn zeta in *. lia.
  - apply E. exact Hj.
Qed.

(* consequence used by the selection: some input locus unmatched -> matched = bg *)
Corollary short_means_all_bg bg lc : length bg = length lc ->
  sum (m_matched (match_core false bg lc)) < sum lc ->
  forall j, get (m_matched (match_core false bg lc)) j = get bg j.
Proof.
  intros Hl Hlt j.
  pose proof (core_conserve_loci false bg lc Hl).
  destruct (sum_pos_ex (m_loci (match_core false bg lc))) as [i Hi]; [lia|].
  pose proof (unmatched_only_if_exhausted bg lc Hl i Hi j).
  pose proof (core_conserve_bg false bg lc Hl j). lia.
Qed.
