(* C01 proofs: the model's list surgery satisfies the pointwise spec; guards = span test. *)
From TM Require Import Base.Prelude Base.OneHot Base.PyList C01.Model C01.Spec.
Open Scope Z_scope.

Lemma forallb_seq (f : nat -> bool) n :
  forallb f (seq 0 n) = true <-> (forall q, (q < n)%nat -> f q = true).
Proof.
  rewrite forallb_forall. split; intros H q Hq.
  - apply H. apply in_seq. lia.
  - apply in_seq in Hq. apply H. lia.
Qed.

Lemma col_eqb_refl c : col_eqb c c = true.
Proof. apply col_eqb_spec. reflexivity. Qed.

(* ---------- list surgery, position by position ---------- *)

Lemma splice_length p m x mo : (p + m <= length x)%nat -> length mo = m ->
  length (splice p m x mo) = length x.
Proof.
  intros H Hm. unfold splice. rewrite !app_length, firstn_length, skipn_length. lia.
Qed.

Lemma nth_splice p m x mo q (d : col) : (p + m <= length x)%nat -> length mo = m ->
  nth q (splice p m x mo) d =
  if (p <=? q)%nat && (q <? p + m)%nat then nth (q - p) mo d else nth q x d.
Proof.
  intros H Hm. unfold splice.
  assert (Hf : length (firstn p x) = p) by (rewrite firstn_length; lia).
  destruct (Nat.leb_spec p q) as [Hpq|Hpq]; cbn [andb].
  - rewrite app_nth2 by lia. rewrite Hf.
    destruct (Nat.ltb_spec q (p + m)) as [Hq|Hq].
    + rewrite app_nth1 by lia. reflexivity.
    + rewrite app_nth2 by lia. rewrite nth_skipn. f_equal. lia.
  - rewrite app_nth1 by lia. apply nth_firstn. lia.
Qed.

Lemma sub_point_splice p m x mo : (p + m <= length x)%nat -> length mo = m ->
  sub_point p m x mo (splice p m x mo) = true.
Proof.
  intros H Hm. unfold sub_point. rewrite splice_length by auto.
  rewrite Nat.eqb_refl. cbn [andb]. apply forallb_seq. intros q Hq.
  rewrite nth_splice by auto. apply col_eqb_refl.
Qed.

Lemma insert_at_length p x mo : length (insert_at p x mo) = (length x + length mo)%nat.
Proof.
  unfold insert_at. rewrite !app_length, firstn_length, skipn_length. lia.
Qed.

Lemma nth_insert_at p x mo q (d : col) : (p <= length x)%nat ->
  nth q (insert_at p x mo) d =
  if (q <? p)%nat then nth q x d
  else if (q <? p + length mo)%nat then nth (q - p) mo d else nth (q - length mo) x d.
Proof.
  intros H. unfold insert_at.
  assert (Hf : length (firstn p x) = p) by (rewrite firstn_length; lia).
  destruct (Nat.ltb_spec q p) as [Hq|Hq].
  - rewrite app_nth1 by lia. apply nth_firstn. lia.
  - rewrite app_nth2 by lia. rewrite Hf.
    destruct (Nat.ltb_spec q (p + length mo)) as [Hq2|Hq2].
    + rewrite app_nth1 by lia. reflexivity.
    + rewrite app_nth2 by lia. rewrite nth_skipn. f_equal. lia.
Qed.

Lemma ins_point_insert_at p m x mo : (p <= length x)%nat -> length mo = m ->
  ins_point p m x mo (insert_at p x mo) = true.
Proof.
  intros H Hm. subst m. unfold ins_point. rewrite insert_at_length, Nat.eqb_refl. cbn [andb].
  apply forallb_seq. intros q Hq. rewrite nth_insert_at by auto. apply col_eqb_refl.
Qed.

Lemma cut_length s e x : (s <= e)%nat -> (e <= length x)%nat ->
  length (cut s e x) = (length x - (e - s))%nat.
Proof. intros. unfold cut. rewrite app_length, firstn_length, skipn_length. lia. Qed.

Lemma nth_cut s e x q (d : col) : (s <= e)%nat -> (e <= length x)%nat ->
  nth q (cut s e x) d = if (q <? s)%nat then nth q x d else nth (q + (e - s)) x d.
Proof.
  intros H1 H2. unfold cut.
  assert (Hf : length (firstn s x) = s) by (rewrite firstn_length; lia).
  destruct (Nat.ltb_spec q s) as [Hq|Hq].
  - rewrite app_nth1 by lia. apply nth_firstn. lia.
  - rewrite app_nth2 by lia. rewrite nth_skipn, Hf. f_equal. lia.
Qed.

Lemma del_point_cut s e x : (s <= e)%nat -> (e <= length x)%nat ->
  del_point s e x (cut s e x) = true.
Proof.
  intros H1 H2. unfold del_point. rewrite cut_length, Nat.eqb_refl by auto. cbn [andb].
  apply forallb_seq. intros q Hq. rewrite nth_cut by auto. apply col_eqb_refl.
Qed.

(* ---------- validity is preserved by the surgery ---------- *)

Lemma dna_valid_splice A p m x mo :
  dna_valid A x = true -> dna_valid A mo = true -> dna_valid A (splice p m x mo) = true.
Proof.
  intros Hx Hm. unfold splice. rewrite !dna_valid_app.
  rewrite dna_valid_firstn, Hm, dna_valid_skipn; auto.
Qed.

Lemma dna_valid_insert_at A p x mo :
  dna_valid A x = true -> dna_valid A mo = true -> dna_valid A (insert_at p x mo) = true.
Proof.
  intros Hx Hm. unfold insert_at. rewrite !dna_valid_app.
  rewrite dna_valid_firstn, Hm, dna_valid_skipn; auto.
Qed.

Lemma dna_valid_cut A s e x : dna_valid A x = true -> dna_valid A (cut s e x) = true.
Proof.
  intros Hx. unfold cut. rewrite dna_valid_app, dna_valid_firstn, dna_valid_skipn; auto.
Qed.

(* ---------- what validation gives ---------- *)

Lemma valid_t_facts X : valid_t X = true ->
  cols_valid (tA X) (tX X) = true /\ rect (tL X) (tX X) = true.
Proof.
  unfold valid_t, valid_ohe. intros H.
  repeat (apply andb_true_iff in H as [H ?]). auto.
Qed.

Lemma rect_nth L X i : rect L X = true -> (i < length X)%nat -> length (nth i X []) = L.
Proof.
  unfold rect. rewrite forallb_forall. intros H Hi.
  specialize (H (nth i X []) (nth_In _ _ Hi)). apply Nat.eqb_eq in H. exact H.
Qed.

Lemma cols_valid_nth A X i : cols_valid A X = true -> (i < length X)%nat ->
  dna_valid A (nth i X []) = true.
Proof.
  unfold cols_valid. rewrite forallb_forall. intros H Hi. apply H. apply nth_In. exact Hi.
Qed.

Lemma cols_valid_of_nth A Y :
  (forall i, (i < length Y)%nat -> dna_valid A (nth i Y []) = true) -> cols_valid A Y = true.
Proof.
  intros H. unfold cols_valid. apply forallb_forall. intros y Hy.
  destruct (In_nth _ _ [] Hy) as [i [Hi E]]. rewrite <- E. apply H. exact Hi.
Qed.

(* broadcast agrees with the spec's motif_for, example by example *)
Lemma broadcast_ok (X M : tensor) :
  ((length (tX M) =? 1)%nat || (length (tX M) =? length (tX X))%nat) = true ->
  exists Ms, broadcast (length (tX X)) (tX M) = Ok Ms /\ length Ms = length (tX X) /\
             forall i, (i < length (tX X))%nat -> nth i Ms [] = motif_for X M i.
Proof.
  intros H. unfold broadcast, motif_for.
  destruct (Nat.eqb_spec (length (tX M)) 1) as [E1|E1].
  - eexists; split; [reflexivity|]. split; [apply repeat_length|].
    intros i Hi. rewrite nth_indep with (d' := hd [] (tX M)) by (rewrite repeat_length; lia).
    apply nth_repeat.
  - cbn [orb] in H. rewrite H. eexists; split; [reflexivity|]. apply Nat.eqb_eq in H.
    split; [exact H|]. intros; reflexivity.
Qed.

Lemma motif_for_facts (X M : tensor) i :
  motif_ok X M = true -> (i < length (tX X))%nat ->
  dna_valid (tA X) (motif_for X M i) = true /\ length (motif_for X M i) = tL M.
Proof.
  unfold motif_ok. intros H Hi.
  apply andb_true_iff in H as [H Hb]. apply andb_true_iff in H as [HA Hv].
  apply Nat.eqb_eq in HA. destruct (valid_t_facts _ Hv) as [Hc Hr]. rewrite HA in Hc.
  unfold motif_for.
  destruct (Nat.eqb_spec (length (tX M)) 1) as [E1|E1].
  - assert (E : hd [] (tX M) = nth 0 (tX M) []) by (destruct (tX M); reflexivity).
    rewrite E. split; [apply cols_valid_nth | apply rect_nth]; auto; lia.
  - cbn [orb] in Hb. apply Nat.eqb_eq in Hb.
    split; [apply cols_valid_nth | apply rect_nth]; auto; lia.
Qed.

(* generic: a per-example map2 satisfies an each_example relation *)
Lemma each_example_map2 (X : tensor) (Ms : batch) (f : dna -> dna -> dna)
      (R : nat -> dna -> dna -> bool) :
  length Ms = length (tX X) ->
  (forall i, (i < length (tX X))%nat -> R i (nth i (tX X) []) (f (nth i (tX X) []) (nth i Ms [])) = true) ->
  each_example X (map2 f (tX X) Ms) R = true.
Proof.
  intros Hl H. unfold each_example. rewrite map2_length by auto. rewrite Nat.eqb_refl. cbn [andb].
  apply forallb_seq. intros i Hi.
  rewrite (nth_map2 f (tX X) Ms i [] [] []) by auto. apply H. exact Hi.
Qed.

Lemma cols_valid_map2 A (Xs Ms : batch) (f : dna -> dna -> dna) :
  length Ms = length Xs ->
  (forall i, (i < length Xs)%nat -> dna_valid A (f (nth i Xs []) (nth i Ms [])) = true) ->
  cols_valid A (map2 f Xs Ms) = true.
Proof.
  intros Hl H. apply cols_valid_of_nth. intros i Hi. rewrite map2_length in Hi by auto.
  rewrite (nth_map2 f Xs Ms i [] [] []) by auto. apply H. exact Hi.
Qed.

(* ---------- the guards are exactly the span test ---------- *)

Lemma motif_ok_split X M : motif_ok X M = true ->
  (tA M =? tA X)%nat = true /\ valid_t M = true /\
  ((length (tX M) =? 1)%nat || (length (tX M) =? length (tX X))%nat) = true.
Proof.
  unfold motif_ok. intros H. apply andb_true_iff in H as [H Hb].
  apply andb_true_iff in H as [HA Hv]. auto.
Qed.

Lemma substitute_char X M start : valid_t X = true -> motif_ok X M = true ->
  substitute X M start =
  let p := start_of (Z.of_nat (tL X) / 2 - Z.of_nat (tL M) / 2) start in
  if span_in (tL X) p (tL M)
  then do Ms <- broadcast (length (tX X)) (tX M) ;;
       Ok (map2 (splice (Z.to_nat p) (tL M)) (tX X) Ms)
  else Err.
Proof.
  intros HX HM. destruct (motif_ok_split _ _ HM) as (HA & Hv & _).
  unfold substitute. rewrite HX, HA, Hv. cbn [andb guard bind]. unfold span_in.
  destruct (Z.leb_spec (Z.of_nat (tL M)) (Z.of_nat (tL X))) as [Hm|Hm]; cbn [guard bind].
  - destruct start as [s|]; cbn [start_of].
    + destruct (Z.leb_spec 0 s), (Z.leb_spec s (Z.of_nat (tL X) - Z.of_nat (tL M))),
        (Z.leb_spec (s + Z.of_nat (tL M)) (Z.of_nat (tL X))); cbn; try reflexivity; lia.
    + cbn [bind].
      destruct (Z.leb_spec 0 (Z.of_nat (tL X) / 2 - Z.of_nat (tL M) / 2)),
        (Z.leb_spec (Z.of_nat (tL X) / 2 - Z.of_nat (tL M) / 2 + Z.of_nat (tL M)) (Z.of_nat (tL X)));
        cbn; try reflexivity; lia.
  - destruct (Z.leb_spec 0 (start_of (Z.of_nat (tL X) / 2 - Z.of_nat (tL M) / 2) start)),
      (Z.leb_spec (start_of (Z.of_nat (tL X) / 2 - Z.of_nat (tL M) / 2) start + Z.of_nat (tL M))
                  (Z.of_nat (tL X))); cbn; try reflexivity.
    destruct start; cbn [start_of] in *; lia.
Qed.

Lemma insert_char X M start : valid_t X = true -> motif_ok X M = true ->
  insert X M start =
  let p := start_of (Z.of_nat (tL X) / 2) start in
  if (0 <=? p) && (p <=? Z.of_nat (tL X))
  then do Ms <- broadcast (length (tX X)) (tX M) ;;
       Ok (map2 (insert_at (Z.to_nat p)) (tX X) Ms)
  else Err.
Proof.
  intros HX HM. destruct (motif_ok_split _ _ HM) as (HA & Hv & Hb).
  destruct (broadcast_ok X M Hb) as (Ms & E & _).
  unfold insert. rewrite E, HX, HA, Hv. cbn [andb guard bind].
  destruct start as [s|]; cbn [start_of].
  - destruct ((0 <=? s) && (s <=? Z.of_nat (tL X))); reflexivity.
  - cbn [bind].
    destruct (Z.leb_spec 0 (Z.of_nat (tL X) / 2)), (Z.leb_spec (Z.of_nat (tL X) / 2) (Z.of_nat (tL X)));
      cbn; try reflexivity; lia.
Qed.

(* ---------- per-call theorems ---------- *)

Lemma sub_spec X M start : spec_ok (CSub X M start) (model (CSub X M start)) = true.
Proof.
  cbn [spec_ok model].
  destruct (valid_t X && motif_ok X M) eqn:Hin; [|reflexivity].
  apply andb_true_iff in Hin as [HX HM].
  rewrite (substitute_char X M start HX HM). cbv zeta.
  set (p := start_of _ start).
  destruct (span_in (tL X) p (tL M)) eqn:Hs; [|reflexivity].
  destruct (motif_ok_split _ _ HM) as (HA & Hv & Hb).
  destruct (broadcast_ok X M Hb) as (Ms & E & Hl & Hn). rewrite E. cbn [bind].
  destruct (valid_t_facts _ HX) as [Hc Hr].
  unfold span_in in Hs. apply andb_true_iff in Hs as [Hs1 Hs2].
  apply andb_true_iff. split.
  - apply cols_valid_map2; [exact Hl|]. intros i Hi. rewrite Hn by exact Hi.
    apply dna_valid_splice; [apply cols_valid_nth; auto|].
    apply (motif_for_facts X M i HM Hi).
  - apply each_example_map2; [exact Hl|]. intros i Hi. rewrite Hn by exact Hi.
    apply sub_point_splice.
    + rewrite (rect_nth _ _ _ Hr Hi). lia.
    + apply (motif_for_facts X M i HM Hi).
Qed.

Lemma ins_spec X M start : spec_ok (CIns X M start) (model (CIns X M start)) = true.
Proof.
  cbn [spec_ok model].
  destruct (valid_t X && motif_ok X M) eqn:Hin; [|reflexivity].
  apply andb_true_iff in Hin as [HX HM].
  rewrite (insert_char X M start HX HM). cbv zeta.
  set (p := start_of _ start).
  destruct ((0 <=? p) && (p <=? Z.of_nat (tL X))) eqn:Hs; [|reflexivity].
  destruct (motif_ok_split _ _ HM) as (HA & Hv & Hb).
  destruct (broadcast_ok X M Hb) as (Ms & E & Hl & Hn). rewrite E. cbn [bind].
  destruct (valid_t_facts _ HX) as [Hc Hr].
  apply andb_true_iff in Hs as [Hs1 Hs2].
  apply andb_true_iff. split.
  - apply cols_valid_map2; [exact Hl|]. intros i Hi. rewrite Hn by exact Hi.
    apply dna_valid_insert_at; [apply cols_valid_nth; auto|].
    apply (motif_for_facts X M i HM Hi).
  - apply each_example_map2; [exact Hl|]. intros i Hi. rewrite Hn by exact Hi.
    apply ins_point_insert_at.
    + rewrite (rect_nth _ _ _ Hr Hi). lia.
    + apply (motif_for_facts X M i HM Hi).
Qed.

Lemma each_example_map (X : tensor) (f : dna -> dna) (R : nat -> dna -> dna -> bool) :
  (forall i, (i < length (tX X))%nat -> R i (nth i (tX X) []) (f (nth i (tX X) [])) = true) ->
  each_example X (map f (tX X)) R = true.
Proof.
  intros H. unfold each_example. rewrite map_length, Nat.eqb_refl. cbn [andb].
  apply forallb_seq. intros i Hi.
  rewrite (nth_indep (map f (tX X)) [] (f [])) by (rewrite map_length; exact Hi).
  rewrite map_nth. apply H. exact Hi.
Qed.

Lemma del_spec X s e : spec_ok (CDel X s e) (model (CDel X s e)) = true.
Proof.
  cbn [spec_ok model]. unfold delete.
  destruct (valid_t X) eqn:HX; [|reflexivity].
  destruct (valid_t_facts _ HX) as [Hc Hr].
  destruct (Z.leb_spec 0 s), (Z.leb_spec s (Z.of_nat (tL X))), (Z.leb_spec 0 e),
    (Z.leb_spec e (Z.of_nat (tL X))), (Z.ltb_spec s e); cbn [andb guard bind is_ok negb];
    try reflexivity; try lia.
  apply andb_true_iff. split.
  - apply cols_valid_of_nth. intros i Hi. rewrite map_length in Hi.
    rewrite (nth_indep (map (cut (Z.to_nat s) (Z.to_nat e)) (tX X)) [] (cut (Z.to_nat s) (Z.to_nat e) []))
      by (rewrite map_length; exact Hi).
    rewrite map_nth. apply dna_valid_cut. apply cols_valid_nth; auto.
  - apply each_example_map. intros i Hi. apply del_point_cut; [lia|].
    rewrite (rect_nth _ _ _ Hr Hi). lia.
Qed.
