(* C01: pre-fix behaviour of the two repaired defects of /repo (kept for the record), and the
   scope predicate used by the non-vacuity examples.
     4265dc5  insert rejected every start in (L - m, L]   (guard copied from substitute)
     965a69d  randomize rejected a region ending at the last position (end >= L)          *)
From TM Require Import Base.Prelude Base.OneHot Base.PyList C01.Model C01.Spec.
Open Scope Z_scope.

Definition insert_v0 (X M : tensor) (start : option Z) : res batch :=
  let L := Z.of_nat (tL X) in let m := Z.of_nat (tL M) in
  do Ms <- broadcast (length (tX X)) (tX M) ;;
  ensure valid_t X ;;
  ensure (tA M =? tA X)%nat && valid_t M ;;
  do p <- match start with
          | Some s => ensure (0 <=? s) && (s <=? L - m) ;; Ok s      (* v0: start > L - m raises *)
          | None => Ok (L / 2)
          end ;;
  Ok (map2 (insert_at (Z.to_nat p)) (tX X) Ms).

Definition randomize_v0 (X : tensor) (s e : Z) (Rs : list tensor) : res (list batch) :=
  let L := Z.of_nat (tL X) in
  ensure valid_t X ;;
  ensure (s <? e) ;;
  ensure (e <? L) && (0 <=? s) ;;                                    (* v0: end >= L raises *)
  mapM (fun R => substitute X R (Some s)) Rs.

Definition model_v0_insert (c : call) : outcome :=
  match c with
  | CIns X M start => do Y <- insert_v0 X M start ;; Ok [Y]
  | _ => model c
  end.

Definition model_v0_randomize (c : call) : outcome :=
  match c with
  | CRand X s e Rs => randomize_v0 X s e Rs
  | _ => model c
  end.

(* the witnesses (also in corpus/C01/): X = "C" over {A,C}; insert "A" at start = L = 1;
   randomize [0, 1) *)
Definition x_C : tensor := T 2 1 [[[0; 1]]].
Definition m_A : tensor := T 2 1 [[[1; 0]]].
Definition insert_v0_witness : call := CIns x_C m_A (Some 1).
Definition randomize_v0_witness : call := CRand x_C 0 1 [m_A].

(* the inputs on which the spec demands an accepted call with the stated result (everywhere
   else it demands a rejection, or is silent) *)
Definition in_scope (c : call) : bool :=
  match c with
  | CSub X M start =>
      valid_t X && motif_ok X M &&
      span_in (tL X) (start_of (Z.of_nat (tL X) / 2 - Z.of_nat (tL M) / 2) start) (tL M)
  | CIns X M start =>
      valid_t X && motif_ok X M &&
      (let p := start_of (Z.of_nat (tL X) / 2) start in (0 <=? p) && (p <=? Z.of_nat (tL X)))
  | CDel X s e => valid_t X && ((0 <=? s) && (s <? e) && (e <=? Z.of_nat (tL X)))
  | CMulti X ms sp start =>
      valid_t X && forallb (motif_ok X) ms && (0 <? length ms)%nat
      && (length sp =? length ms - 1)%nat
      && forallb (fun l => 0 <=? l) sp &&
      (let n := sumZ sp + sumZ (map (fun m => Z.of_nat (tL m)) ms) in
       let p := start_of (Z.of_nat (tL X) / 2 - n / 2) start in
       forallb (fun mp => span_in (tL X) (snd mp) (tL (fst mp))) (combine ms (positions ms sp p)))
  | CRand X s e Rs =>
      valid_t X && ((0 <=? s) && (s <? e) && (e <=? Z.of_nat (tL X))) &&
      (forallb (motif_ok X) Rs && forallb (fun R => (tL R =? Z.to_nat (e - s))%nat) Rs)
  end.

(* in scope, a spec-conforming outcome is an accepted call *)
Lemma in_scope_ok c o : in_scope c = true -> spec_ok c o = true -> is_ok o = true.
Proof.
  destruct c; cbn [in_scope spec_ok]; cbv zeta; intros H S.
  - apply andb_true_iff in H as [H1 H2]. rewrite H1, H2 in S. destruct o as [[|? [|? ?]]|]; auto; discriminate.
  - apply andb_true_iff in H as [H1 H2]. rewrite H1, H2 in S. destruct o as [[|? [|? ?]]|]; auto; discriminate.
  - apply andb_true_iff in H as [H1 H2]. rewrite H1, H2 in S. destruct o as [[|? [|? ?]]|]; auto; discriminate.
  - apply andb_true_iff in H as [H1 H2]. rewrite H1, H2 in S. destruct o as [[|? [|? ?]]|]; auto; discriminate.
  - apply andb_true_iff in H as [H H3]. apply andb_true_iff in H as [H1 H2].
    rewrite H1, H2, H3 in S. destruct o; auto; discriminate.
Qed.
