(* C01 model: ersatz.substitute / insert / delete / multisubstitute / randomize.
   Executable mirror of the code (guards, validation, broadcast rule, list surgery);
   no proofs here.  Tensors (B,A,L) are [batch]es with their shape passed explicitly. *)
From TM Require Import Base.Prelude Base.OneHot Base.PyList.
Open Scope Z_scope.

(* a tensor argument: alphabet size, length, data *)
Record tensor := T { tA : nat; tL : nat; tX : batch }.

(* motif batch of 1 is shared, a batch equal to X's is per-example, anything else makes
   torch raise (slice assignment / cat with mismatched sizes) *)
Definition broadcast (B : nat) (M : batch) : res batch :=
  if (length M =? 1)%nat then Ok (repeat (hd [] M) B)
  else if (length M =? B)%nat then Ok M else Err.

Definition splice (p m : nat) (x mo : dna) : dna := firstn p x ++ mo ++ skipn (p + m) x.
Definition insert_at (p : nat) (x mo : dna) : dna := firstn p x ++ mo ++ skipn p x.
Definition cut (s e : nat) (x : dna) : dna := firstn s x ++ skipn e x.

Definition valid_t (t : tensor) : bool := valid_ohe (tA t) (tL t) (tX t).

Definition substitute (X M : tensor) (start : option Z) : res batch :=
  let L := Z.of_nat (tL X) in let m := Z.of_nat (tL M) in
  ensure valid_t X ;;
  ensure (tA M =? tA X)%nat && valid_t M ;;
  ensure (m <=? L) ;;
  do p <- match start with
          | Some s => ensure (0 <=? s) && (s <=? L - m) ;; Ok s
          | None => Ok (L / 2 - m / 2)
          end ;;
  do Ms <- broadcast (length (tX X)) (tX M) ;;
  Ok (map2 (splice (Z.to_nat p) (tL M)) (tX X) Ms).

Definition insert (X M : tensor) (start : option Z) : res batch :=
  let L := Z.of_nat (tL X) in let m := Z.of_nat (tL M) in
  do Ms <- broadcast (length (tX X)) (tX M) ;;
  ensure valid_t X ;;
  ensure (tA M =? tA X)%nat && valid_t M ;;
  do p <- match start with
          | Some s => ensure (0 <=? s) && (s <=? L) ;; Ok s
          | None => Ok (L / 2)
          end ;;
  Ok (map2 (insert_at (Z.to_nat p)) (tX X) Ms).

Definition delete (X : tensor) (s e : Z) : res batch :=
  let L := Z.of_nat (tL X) in
  ensure (0 <=? s) && (s <=? L) ;;
  ensure (0 <=? e) && (e <=? L) && (s <? e) ;;
  ensure valid_t X ;;
  Ok (map (cut (Z.to_nat s) (Z.to_nat e)) (tX X)).

Definition sumZ (l : list Z) : Z := fold_right Z.add 0 l.

(* the loop of multisubstitute: each placement goes through [substitute] (so is validated
   and guarded again), the cursor advances by motif length + spacing *)
Fixpoint multi_loop (A L : nat) (X : batch) (ms : list tensor) (sp : list Z) (p : Z)
  : res batch :=
  match ms with
  | [] => Err
  | [m] => substitute (T A L X) m (Some p)
  | m :: ms' =>
      match sp with
      | [] => Err
      | s :: sp' =>
          do X' <- substitute (T A L X) m (Some p) ;;
          multi_loop A L X' ms' sp' (p + Z.of_nat (tL m) + s)
      end
  end.

Definition multisubstitute (X : tensor) (ms : list tensor) (sp : list Z) (start : option Z)
  : res batch :=
  let L := Z.of_nat (tL X) in
  ensure (Z.of_nat (length sp) =? Z.of_nat (length ms) - 1) ;;
  ensure forallb (fun l => (0 <=? l) && (l <? L)) sp ;;
  do p <- match start with
          | Some s => Ok s
          | None =>
              let n := sumZ sp + sumZ (map (fun m => Z.of_nat (tL m)) ms) in
              let s := L / 2 - n / 2 in
              ensure (0 <=? s) ;; Ok s
          end ;;
  multi_loop (tA X) (tL X) (tX X) ms sp p.

(* randomize: the drawn replacements Rs (one per requested sample, each of shape
   (B, A', end-start)) are an input of the model; the harness obtains them by replaying the
   same numpy RandomState through utils.random_one_hot *)
Definition randomize (X : tensor) (s e : Z) (Rs : list tensor) : res (list batch) :=
  let L := Z.of_nat (tL X) in
  ensure valid_t X ;;
  ensure (s <? e) ;;
  ensure (e <=? L) && (0 <=? s) ;;
  mapM (fun R => substitute X R (Some s)) Rs.
