(* C01 spec: the property as a decidable relation between a call and its outcome, stated
   pointwise (position by position) and independently of the model's list surgery.       *)
From TM Require Import Base.Prelude Base.OneHot Base.PyList C01.Model.
Open Scope Z_scope.

Inductive call :=
| CSub (X M : tensor) (start : option Z)
| CIns (X M : tensor) (start : option Z)
| CDel (X : tensor) (s e : Z)
| CMulti (X : tensor) (ms : list tensor) (sp : list Z) (start : option Z)
| CRand (X : tensor) (s e : Z) (Rs : list tensor).

(* outcome observed by the harness: the returned tensor(s), or "raised" *)
Definition outcome := res (list batch).

Definition dcol : col := [].

(* o is x with [p, p+m) overwritten by mo *)
Definition sub_point (p m : nat) (x mo o : dna) : bool :=
  (length o =? length x)%nat &&
  forallb (fun q => col_eqb (nth q o dcol)
                      (if (p <=? q)%nat && (q <? p + m)%nat then nth (q - p) mo dcol
                       else nth q x dcol))
          (seq 0 (length x)).

(* o is prefix + mo + suffix *)
Definition ins_point (p m : nat) (x mo o : dna) : bool :=
  (length o =? length x + m)%nat &&
  forallb (fun q => col_eqb (nth q o dcol)
                      (if (q <? p)%nat then nth q x dcol
                       else if (q <? p + m)%nat then nth (q - p) mo dcol
                       else nth (q - m) x dcol))
          (seq 0 (length x + m)).

(* o is x without [s, e) *)
Definition del_point (s e : nat) (x o : dna) : bool :=
  (length o =? length x - (e - s))%nat &&
  forallb (fun q => col_eqb (nth q o dcol)
                      (if (q <? s)%nat then nth q x dcol else nth (q + (e - s)) x dcol))
          (seq 0 (length x - (e - s))).

(* o equals x outside [s, e) *)
Definition frame_point (s e : nat) (x o : dna) : bool :=
  (length o =? length x)%nat &&
  forallb (fun q => if (s <=? q)%nat && (q <? e)%nat then true
                    else col_eqb (nth q o dcol) (nth q x dcol))
          (seq 0 (length x)).

Definition all2 {A B} (f : A -> B -> bool) (l1 : list A) (l2 : list B) : bool :=
  (length l1 =? length l2)%nat && forallb (fun p => f (fst p) (snd p)) (combine l1 l2).

(* inputs inside the property's scope: valid one-hot X, valid one-hot motif over the same
   alphabet, motif shared (batch 1) or one per example *)
Definition motif_ok (X M : tensor) : bool :=
  (tA M =? tA X)%nat && valid_t M &&
  ((length (tX M) =? 1)%nat || (length (tX M) =? length (tX X))%nat).

Definition motif_for (X M : tensor) (i : nat) : dna :=
  if (length (tX M) =? 1)%nat then hd [] (tX M) else nth i (tX M) [].

Definition each_example (X : tensor) (Y : batch) (f : nat -> dna -> dna -> bool) : bool :=
  (length Y =? length (tX X))%nat &&
  forallb (fun i => f i (nth i (tX X) []) (nth i Y [])) (seq 0 (length (tX X))).

Definition start_of (d : Z) (start : option Z) : Z :=
  match start with Some s => s | None => d end.

(* expected result of the sequential substitution, as an executable reference that goes
   through the pointwise single-substitution relation at every step *)
Fixpoint positions (ms : list tensor) (sp : list Z) (p : Z) : list Z :=
  match ms with
  | [] => []
  | m :: ms' => p :: positions ms' (tl sp) (p + Z.of_nat (tL m) + hd 0 sp)
  end.

Definition span_in (L : nat) (p : Z) (m : nat) : bool :=
  (0 <=? p) && (p + Z.of_nat m <=? Z.of_nat L).

(* chain: Y is reachable from X by substituting motif k at position p_k, in order; the
   intermediate tensors are existentially determined, so we recompute them pointwise:
   final column q of example i is the column of the LAST motif covering q, else X's *)
Definition multi_col (X : tensor) (ms : list tensor) (ps : list Z) (i q : nat) : col :=
  fold_left (fun acc mp =>
               let m := fst mp in let p := Z.to_nat (snd mp) in
               if (p <=? q)%nat && (q <? p + tL m)%nat
               then nth (q - p) (motif_for X m i) dcol else acc)
            (combine ms ps) (nth q (nth i (tX X) []) dcol).

Definition multi_point (X : tensor) (ms : list tensor) (ps : list Z) (Y : batch) : bool :=
  each_example X Y (fun i x o =>
    (length o =? length x)%nat &&
    forallb (fun q => col_eqb (nth q o dcol) (multi_col X ms ps i q)) (seq 0 (length x))).

Definition spec_ok (c : call) (o : outcome) : bool :=
  match c with
  | CSub X M start =>
      if valid_t X && motif_ok X M then
        let p := start_of (Z.of_nat (tL X) / 2 - Z.of_nat (tL M) / 2) start in
        if span_in (tL X) p (tL M) then
          match o with
          | Ok [Y] => cols_valid (tA X) Y &&
                      each_example X Y (fun i x y =>
                        sub_point (Z.to_nat p) (tL M) x (motif_for X M i) y)
          | _ => false
          end
        else negb (is_ok o)
      else true
  | CIns X M start =>
      if valid_t X && motif_ok X M then
        let p := start_of (Z.of_nat (tL X) / 2) start in
        if (0 <=? p) && (p <=? Z.of_nat (tL X)) then
          match o with
          | Ok [Y] => cols_valid (tA X) Y &&
                      each_example X Y (fun i x y =>
                        ins_point (Z.to_nat p) (tL M) x (motif_for X M i) y)
          | _ => false
          end
        else negb (is_ok o)
      else true
  | CDel X s e =>
      if valid_t X then
        if (0 <=? s) && (s <? e) && (e <=? Z.of_nat (tL X)) then
          match o with
          | Ok [Y] => cols_valid (tA X) Y &&
                      each_example X Y (fun _ x y => del_point (Z.to_nat s) (Z.to_nat e) x y)
          | _ => false
          end
        else negb (is_ok o)
      else true
  | CMulti X ms sp start =>
      if valid_t X && forallb (motif_ok X) ms && (0 <? length ms)%nat
         && (length sp =? length ms - 1)%nat
         && forallb (fun l => 0 <=? l) sp then
        (* a spacing >= L needs no clause of its own: it pushes the next placement past the
           end, so the span test below already demands the rejection.  Negative spacings
           ("before the previous one ends") are outside the text: silent. *)
        let n := sumZ sp + sumZ (map (fun m => Z.of_nat (tL m)) ms) in
        let p := start_of (Z.of_nat (tL X) / 2 - n / 2) start in
        let ps := positions ms sp p in
        if forallb (fun mp => span_in (tL X) (snd mp) (tL (fst mp))) (combine ms ps) then
          match o with
          | Ok [Y] => cols_valid (tA X) Y && multi_point X ms ps Y
          | _ => false
          end
        else negb (is_ok o)
      else true
  | CRand X s e Rs =>
      if valid_t X then
        if (0 <=? s) && (s <? e) && (e <=? Z.of_nat (tL X)) then
          (* the replacements are an input of the model (the harness replays the RNG); the
             demand is conditional on their being what randomize can draw: one-hot over X's
             alphabet, one per example (or shared), of length end-start.  Outside that the
             text is silent. *)
          if forallb (motif_ok X) Rs && forallb (fun R => (tL R =? Z.to_nat (e - s))%nat) Rs then
            match o with
            | Ok Ys => (length Ys =? length Rs)%nat &&
                       forallb (fun Y => cols_valid (tA X) Y &&
                          each_example X Y (fun _ x y => frame_point (Z.to_nat s) (Z.to_nat e) x y)) Ys
            | Err => false
            end
          else true
        else negb (is_ok o)
      else true
  end.

Definition model (c : call) : outcome :=
  match c with
  | CSub X M start => do Y <- substitute X M start ;; Ok [Y]
  | CIns X M start => do Y <- insert X M start ;; Ok [Y]
  | CDel X s e => do Y <- delete X s e ;; Ok [Y]
  | CMulti X ms sp start => do Y <- multisubstitute X ms sp start ;; Ok [Y]
  | CRand X s e Rs => randomize X s e Rs
  end.

Definition outcome_eqb : outcome -> outcome -> bool := res_eqb (list_eqb batch_eqb).

(* one correspondence case: the call, what the implementation did, and whether the caller's
   tensors were bit-identical afterwards (aliasing is not expressible in the model) *)
Definition case := (call * outcome * bool)%type.

Definition check_case (c : case) : nat :=
  let '(cl, o, unchanged) := c in
  verdict (outcome_eqb o (model cl)) (unchanged && spec_ok cl o).
