(* C01 proofs, randomize: every sample is X with a drawn replacement substituted at [s, e), so
   it has valid columns and equals X outside [s, e); spans not inside the sequence are rejected. *)
From TM Require Import Base.Prelude Base.OneHot Base.PyList C01.Model C01.Spec C01.Proofs
  C01.ProofsMulti.
Open Scope Z_scope.

Definition sample_ok (X : tensor) (s e : Z) (Y : batch) : bool :=
  cols_valid (tA X) Y &&
  each_example X Y (fun _ x y => frame_point (Z.to_nat s) (Z.to_nat e) x y).

(* one sample: a replacement in scope, of length e - s, placed at s *)
Lemma rand_step A L X s e R :
  valid_t (T A L X) = true -> 0 <= s -> s < e -> e <= Z.of_nat L ->
  motif_ok (T A L X) R = true -> tL R = Z.to_nat (e - s) ->
  exists Y, substitute (T A L X) R (Some s) = Ok Y /\ sample_ok (T A L X) s e Y = true.
Proof.
  intros HX H0 Hse HeL HR Hlen.
  pose proof (sub_step A L X R s HX HR) as Hstep.
  assert (Hspan : span_in L s (tL R) = true).
  { unfold span_in. rewrite Hlen. apply andb_true_iff. split; [apply Z.leb_le | apply Z.leb_le]; lia. }
  rewrite Hspan in Hstep. destruct Hstep as (Y & E & HY & Hl & Hp).
  exists Y. split; [exact E|].
  destruct (valid_t_facts _ HY) as [Hc Hr]. destruct (valid_t_facts _ HX) as [_ HrX].
  cbn [tA tL tX] in Hc, Hr, HrX.
  unfold sample_ok. cbn [tA tX]. rewrite Hc. cbn [andb].
  unfold each_example. cbn [tX]. rewrite Hl, Nat.eqb_refl. cbn [andb].
  apply forallb_seq. intros i Hi.
  assert (Hi' : (i < length Y)%nat) by lia.
  unfold frame_point. rewrite (rect_nth _ _ _ Hr Hi'), (rect_nth _ _ _ HrX Hi), Nat.eqb_refl.
  cbn [andb]. apply forallb_seq. intros q Hq.
  rewrite (Hp i q Hi Hq). unfold placed. rewrite Hlen.
  replace (Z.to_nat s + Z.to_nat (e - s))%nat with (Z.to_nat e) by lia.
  destruct ((Z.to_nat s <=? q)%nat && (q <? Z.to_nat e)%nat); [reflexivity | apply col_eqb_refl].
Qed.

Lemma rand_loop A L X s e :
  valid_t (T A L X) = true -> 0 <= s -> s < e -> e <= Z.of_nat L ->
  forall Rs, forallb (motif_ok (T A L X)) Rs = true ->
             forallb (fun R => (tL R =? Z.to_nat (e - s))%nat) Rs = true ->
  exists Ys, mapM (fun R => substitute (T A L X) R (Some s)) Rs = Ok Ys /\
             length Ys = length Rs /\ forallb (sample_ok (T A L X) s e) Ys = true.
Proof.
  intros HX H0 Hse HeL. induction Rs as [|R Rs IH]; intros HM Hl.
  - exists []. repeat split.
  - cbn [forallb] in HM, Hl.
    apply andb_true_iff in HM as [HR HM]. apply andb_true_iff in Hl as [HlR Hl].
    apply Nat.eqb_eq in HlR.
    destruct (rand_step A L X s e R HX H0 Hse HeL HR HlR) as (Y & E & HY).
    destruct (IH HM Hl) as (Ys & EYs & HlYs & HYs).
    exists (Y :: Ys). cbn [mapM]. rewrite E. cbn [bind]. rewrite EYs. cbn [bind].
    split; [reflexivity|]. split; [cbn [length]; congruence|].
    cbn [forallb]. rewrite HY, HYs. reflexivity.
Qed.

Lemma rand_spec X s e Rs : spec_ok (CRand X s e Rs) (model (CRand X s e Rs)) = true.
Proof.
  destruct X as [A L X]. cbn [spec_ok model]. unfold randomize.
  destruct (valid_t (T A L X)) eqn:HX; [|reflexivity]. cbn [guard bind tL tA].
  destruct (Z.leb_spec 0 s) as [H0|H0], (Z.ltb_spec s e) as [Hse|Hse],
    (Z.leb_spec e (Z.of_nat L)) as [HeL|HeL]; cbn [andb guard bind is_ok negb]; try reflexivity.
  destruct (forallb (motif_ok (T A L X)) Rs) eqn:HM; [|reflexivity].
  destruct (forallb (fun R => (tL R =? Z.to_nat (e - s))%nat) Rs) eqn:Hl; [|reflexivity].
  cbn [andb].
  destruct (rand_loop A L X s e HX H0 Hse HeL Rs HM Hl) as (Ys & E & HlYs & HYs).
  rewrite E, HlYs, Nat.eqb_refl. cbn [andb]. exact HYs.
Qed.

(* ---------- every call ---------- *)

Lemma all_spec : forall c, spec_ok c (model c) = true.
Proof.
  intros [X M start|X M start|X s e|X ms sp start|X s e Rs];
    [apply sub_spec | apply ins_spec | apply del_spec | apply multi_spec | apply rand_spec].
Qed.
