(* C01 proofs, multisubstitute: the loop that threads the tensor through [substitute] equals the
   pointwise "last covering motif wins" fold of the spec; it is rejected exactly when one of
   the placements does not lie wholly inside the sequence. *)
From TM Require Import Base.Prelude Base.OneHot Base.PyList C01.Model C01.Spec C01.Proofs.
Open Scope Z_scope.

(* ---------- a valid column over an alphabet of size >= 2 contains a 0 and a 1 ---------- *)

Lemma sum_no_one (c : col) :
  forallb (fun v => (v =? 0) || (v =? 1)) c = true -> existsb (Z.eqb 1) c = false -> col_sum c = 0.
Proof.
  induction c as [|v c IH]; intros H E; [reflexivity|].
  cbn [forallb existsb] in H, E.
  apply andb_true_iff in H as [Hv H]. apply orb_false_iff in E as [Ev E].
  change (col_sum (v :: c)) with (v + col_sum c). rewrite (IH H E). lia.
Qed.

Lemma sum_no_zero (c : col) :
  forallb (fun v => (v =? 0) || (v =? 1)) c = true -> existsb (Z.eqb 0) c = false ->
  col_sum c = Z.of_nat (length c).
Proof.
  induction c as [|v c IH]; intros H E; [reflexivity|].
  cbn [forallb existsb] in H, E.
  apply andb_true_iff in H as [Hv H]. apply orb_false_iff in E as [Ev E].
  change (col_sum (v :: c)) with (v + col_sum c). rewrite (IH H E).
  cbn [length]. lia.
Qed.

Lemma col_valid_has A c : col_valid A c = true -> (2 <= A)%nat ->
  existsb (Z.eqb 0) c = true /\ existsb (Z.eqb 1) c = true.
Proof.
  unfold col_valid. intros H HA.
  apply andb_true_iff in H as [H Hs]. apply andb_true_iff in H as [Hl Hf].
  apply Nat.eqb_eq in Hl. apply Z.eqb_eq in Hs. split.
  - destruct (existsb (Z.eqb 0) c) eqn:E; [reflexivity|].
    pose proof (sum_no_zero c Hf E). lia.
  - destruct (existsb (Z.eqb 1) c) eqn:E; [reflexivity|].
    pose proof (sum_no_one c Hf E). lia.
Qed.

Lemma col_valid_zero_size A c : col_valid A c = true -> existsb (Z.eqb 0) c = true -> (2 <= A)%nat.
Proof.
  unfold col_valid. intros H E.
  apply andb_true_iff in H as [H Hs]. apply andb_true_iff in H as [Hl Hf].
  apply Nat.eqb_eq in Hl. apply Z.eqb_eq in Hs. subst A.
  destruct c as [|a [|b c]]; cbn [length]; try lia.
  - discriminate.
  - cbn [existsb] in E. apply orb_true_iff in E as [E|E]; [|discriminate].
    apply Z.eqb_eq in E. subst a. discriminate Hs.
Qed.

Lemma has_of_nth v (Y : batch) i q : (i < length Y)%nat -> (q < length (nth i Y []))%nat ->
  existsb (Z.eqb v) (nth q (nth i Y []) []) = true -> has v Y = true.
Proof.
  intros Hi Hq H. unfold has. apply existsb_exists. exists (nth i Y []). split; [apply nth_In; exact Hi|].
  apply existsb_exists. exists (nth q (nth i Y []) []). split; [apply nth_In; exact Hq | exact H].
Qed.

Lemma has_inv v (X : batch) : has v X = true ->
  exists i q, (i < length X)%nat /\ (q < length (nth i X []))%nat /\
              existsb (Z.eqb v) (nth q (nth i X []) []) = true.
Proof.
  unfold has. intros H. apply existsb_exists in H as (s & Hs & H).
  apply existsb_exists in H as (c & Hc & H).
  destruct (In_nth _ _ [] Hs) as (i & Hi & Ei). destruct (In_nth _ _ [] Hc) as (q & Hq & Eq).
  exists i, q. subst s. split; [exact Hi|]. split; [exact Hq|]. rewrite Eq. exact H.
Qed.

Lemma dna_valid_nth A (s : dna) q : dna_valid A s = true -> (q < length s)%nat ->
  col_valid A (nth q s []) = true.
Proof.
  unfold dna_valid. rewrite forallb_forall. intros H Hq. apply H. apply nth_In. exact Hq.
Qed.

(* what validation says about the shape: at least one example, one position, two symbols *)
Lemma valid_t_shape A L X : valid_t (T A L X) = true ->
  (1 <= length X)%nat /\ (1 <= L)%nat /\ (2 <= A)%nat.
Proof.
  intros HX. destruct (valid_t_facts _ HX) as [Hc Hr]. cbn [tA tL tX] in *.
  unfold valid_t, valid_ohe in HX. cbn [tA tL tX] in HX.
  apply andb_true_iff in HX as [HX H1]. apply andb_true_iff in HX as [_ H0].
  destruct (has_inv _ _ H0) as (i & q & Hi & Hq & E).
  pose proof (rect_nth _ _ _ Hr Hi) as Hl.
  pose proof (dna_valid_nth _ _ q (cols_valid_nth _ _ _ Hc Hi) Hq) as Hcv.
  pose proof (col_valid_zero_size _ _ Hcv E). lia.
Qed.

(* a tensor of a non-degenerate shape whose columns are all valid passes validation *)
Lemma valid_t_of_cols A L Y : (1 <= length Y)%nat -> (1 <= L)%nat -> (2 <= A)%nat ->
  rect L Y = true -> cols_valid A Y = true -> valid_t (T A L Y) = true.
Proof.
  intros HB HL HA Hr Hc. unfold valid_t, valid_ohe. cbn [tA tL tX]. rewrite Hr, Hc. cbn [andb].
  assert (Hi : (0 < length Y)%nat) by lia.
  pose proof (rect_nth _ _ _ Hr Hi) as Hl.
  assert (Hq : (0 < length (nth 0%nat Y []))%nat) by lia.
  pose proof (dna_valid_nth _ _ 0%nat (cols_valid_nth _ _ _ Hc Hi) Hq) as Hcv.
  destruct (col_valid_has _ _ Hcv HA) as [E0 E1].
  rewrite (has_of_nth 0 Y 0%nat 0%nat Hi Hq E0), (has_of_nth 1 Y 0%nat 0%nat Hi Hq E1). reflexivity.
Qed.

Lemma rect_of_nth L (Y : batch) :
  (forall i, (i < length Y)%nat -> length (nth i Y []) = L) -> rect L Y = true.
Proof.
  intros H. unfold rect. apply forallb_forall. intros y Hy.
  destruct (In_nth _ _ [] Hy) as [i [Hi E]]. rewrite <- E. apply Nat.eqb_eq. apply H. exact Hi.
Qed.

(* ---------- one placement: accepted iff the span is inside; result is valid again ---------- *)

Definition placed (p : Z) (m : tensor) (i q : nat) (X : batch) : col :=
  if (Z.to_nat p <=? q)%nat && (q <? Z.to_nat p + tL m)%nat
  then nth (q - Z.to_nat p) (motif_for (T 0 0 []) m i) dcol
  else nth q (nth i X []) dcol.

Lemma sub_step A L X m p : valid_t (T A L X) = true -> motif_ok (T A L X) m = true ->
  if span_in L p (tL m)
  then exists Y, substitute (T A L X) m (Some p) = Ok Y /\ valid_t (T A L Y) = true /\
                 length Y = length X /\
                 forall i q, (i < length X)%nat -> (q < L)%nat ->
                             nth q (nth i Y []) dcol = placed p m i q X
  else substitute (T A L X) m (Some p) = Err.
Proof.
  intros HX HM. rewrite (substitute_char _ _ (Some p) HX HM). cbv zeta. cbn [start_of tL tX].
  destruct (span_in L p (tL m)) eqn:Hs; [|reflexivity].
  destruct (motif_ok_split _ _ HM) as (HA & Hv & Hb).
  destruct (broadcast_ok _ m Hb) as (Ms & E & Hl & Hn). cbn [tX] in E, Hl, Hn. rewrite E. cbn [bind].
  destruct (valid_t_facts _ HX) as [Hc Hr]. cbn [tA tL tX] in Hc, Hr.
  destruct (valid_t_shape _ _ _ HX) as (HB & HL & HA2).
  unfold span_in in Hs. apply andb_true_iff in Hs as [Hs1 Hs2].
  assert (Hfit : forall i, (i < length X)%nat ->
            (Z.to_nat p + tL m <= length (nth i X []))%nat /\ length (nth i Ms []) = tL m).
  { intros i Hi. rewrite (rect_nth _ _ _ Hr Hi). split; [lia|].
    rewrite Hn by exact Hi. apply (motif_for_facts _ m i HM Hi). }
  eexists. split; [reflexivity|].
  assert (Hlen : length (map2 (splice (Z.to_nat p) (tL m)) X Ms) = length X)
    by (apply map2_length; auto).
  split; [|split; [exact Hlen|]].
  - apply valid_t_of_cols; try assumption; [lia| |].
    + apply rect_of_nth. intros i Hi. rewrite Hlen in Hi.
      rewrite (nth_map2 _ X Ms i [] [] []) by auto.
      destruct (Hfit i Hi) as [F1 F2]. rewrite splice_length by auto. apply (rect_nth _ _ _ Hr Hi).
    + apply cols_valid_map2; [exact Hl|]. intros i Hi. rewrite Hn by exact Hi.
      apply dna_valid_splice; [apply cols_valid_nth; auto|].
      apply (motif_for_facts _ m i HM Hi).
  - intros i q Hi Hq. rewrite (nth_map2 _ X Ms i [] [] []) by auto.
    destruct (Hfit i Hi) as [F1 F2]. rewrite nth_splice by auto.
    unfold placed. rewrite Hn by exact Hi. reflexivity.
Qed.

(* ---------- the loop ---------- *)

Lemma motif_ok_ext A L X X' m : length X' = length X ->
  motif_ok (T A L X') m = motif_ok (T A L X) m.
Proof. intros H. unfold motif_ok. cbn [tA tX]. rewrite H. reflexivity. Qed.

Lemma forallb_motif_ok_ext A L X X' ms : length X' = length X ->
  forallb (motif_ok (T A L X')) ms = forallb (motif_ok (T A L X)) ms.
Proof.
  intros H. induction ms as [|m ms IH]; cbn; [reflexivity|].
  rewrite IH, (motif_ok_ext A L X X' m H). reflexivity.
Qed.

Lemma multi_col_cons X X' m ms p ps i q :
  nth q (nth i (tX X') []) dcol = placed p m i q (tX X) ->
  multi_col X (m :: ms) (p :: ps) i q = multi_col X' ms ps i q.
Proof.
  intros H. unfold multi_col. cbn [combine fold_left fst snd]. rewrite H. reflexivity.
Qed.

Definition spans_in (L : nat) (ms : list tensor) (ps : list Z) : bool :=
  forallb (fun mp => span_in L (snd mp) (tL (fst mp))) (combine ms ps).

Lemma multi_loop_spec A L : forall ms sp p X,
  valid_t (T A L X) = true -> forallb (motif_ok (T A L X)) ms = true ->
  (0 < length ms)%nat -> length sp = (length ms - 1)%nat ->
  if spans_in L ms (positions ms sp p)
  then exists Y, multi_loop A L X ms sp p = Ok Y /\ valid_t (T A L Y) = true /\
                 length Y = length X /\
                 forall i q, (i < length X)%nat -> (q < L)%nat ->
                   nth q (nth i Y []) dcol = multi_col (T A L X) ms (positions ms sp p) i q
  else multi_loop A L X ms sp p = Err.
Proof.
  induction ms as [|m ms IH]; intros sp p X HX HMs Hn Hsp; [cbn in Hn; lia|].
  cbn [forallb] in HMs. apply andb_true_iff in HMs as [HM HMs].
  pose proof (sub_step A L X m p HX HM) as Hstep.
  destruct ms as [|m' ms].
  - (* last motif *)
    destruct sp as [|? ?]; [|cbn in Hsp; lia].
    cbn [multi_loop positions spans_in combine forallb fst snd tl hd].
    destruct (span_in L p (tL m)); cbn [andb]; [|exact Hstep].
    destruct Hstep as (Y & E & HY & Hl & Hp). exists Y.
    split; [exact E|]. split; [exact HY|]. split; [exact Hl|].
    intros i q Hi Hq. rewrite (Hp i q Hi Hq). unfold multi_col.
    cbn [combine fold_left fst snd tX]. reflexivity.
  - destruct sp as [|s sp]; [cbn in Hsp; lia|].
    change (multi_loop A L X (m :: m' :: ms) (s :: sp) p)
      with (do X' <- substitute (T A L X) m (Some p) ;;
            multi_loop A L X' (m' :: ms) sp (p + Z.of_nat (tL m) + s)).
    change (positions (m :: m' :: ms) (s :: sp) p)
      with (p :: positions (m' :: ms) sp (p + Z.of_nat (tL m) + s)).
    set (p' := p + Z.of_nat (tL m) + s).
    change (spans_in L (m :: m' :: ms) (p :: positions (m' :: ms) sp p'))
      with (span_in L p (tL m) && spans_in L (m' :: ms) (positions (m' :: ms) sp p')).
    destruct (span_in L p (tL m)); cbn [andb]; [|rewrite Hstep; reflexivity].
    destruct Hstep as (X' & E & HX' & Hl & Hp). rewrite E. cbn [bind].
    assert (HMs' : forallb (motif_ok (T A L X')) (m' :: ms) = true)
      by (rewrite (forallb_motif_ok_ext A L X X' _ Hl); exact HMs).
    assert (Hn' : (0 < length (m' :: ms))%nat) by (cbn; lia).
    assert (Hsp' : length sp = (length (m' :: ms) - 1)%nat) by (cbn in *; lia).
    specialize (IH sp p' X' HX' HMs' Hn' Hsp').
    destruct (spans_in L (m' :: ms) (positions (m' :: ms) sp p')); [|exact IH].
    destruct IH as (Y & EY & HY & HlY & HpY). exists Y.
    split; [exact EY|]. split; [exact HY|]. split; [congruence|].
    intros i q Hi Hq. rewrite HpY by (try rewrite Hl; assumption).
    symmetry. apply multi_col_cons. cbn [tX]. apply Hp; assumption.
Qed.

(* every placement inside the sequence forces every spacing below L: the code's separate
   rejection of a spacing >= L is a consequence of the span test *)
Lemma motif_len_pos X m : motif_ok X m = true -> (1 <= tL m)%nat.
Proof.
  intros H. destruct (motif_ok_split _ _ H) as (_ & Hv & _). destruct m as [a l d].
  destruct (valid_t_shape _ _ _ Hv) as (_ & H1 & _). exact H1.
Qed.

Lemma spans_in_spacing X L : forall ms sp p,
  forallb (motif_ok X) ms = true -> length sp = (length ms - 1)%nat ->
  spans_in L ms (positions ms sp p) = true ->
  forallb (fun l => l <? Z.of_nat L) sp = true.
Proof.
  induction ms as [|m ms IH]; intros sp p HMs Hsp H.
  - destruct sp; [reflexivity | cbn in Hsp; lia].
  - destruct ms as [|m' ms].
    + destruct sp; [reflexivity | cbn in Hsp; lia].
    + destruct sp as [|s sp]; [cbn in Hsp; lia|].
      cbn [forallb] in HMs. apply andb_true_iff in HMs as [HM HMs].
      pose proof (motif_len_pos _ _ HM) as Hlen.
      change (positions (m :: m' :: ms) (s :: sp) p)
        with (p :: positions (m' :: ms) sp (p + Z.of_nat (tL m) + s)) in H.
      set (p' := p + Z.of_nat (tL m) + s) in *.
      change (spans_in L (m :: m' :: ms) (p :: positions (m' :: ms) sp p'))
        with (span_in L p (tL m) && spans_in L (m' :: ms) (positions (m' :: ms) sp p')) in H.
      apply andb_true_iff in H as [H1 H2].
      assert (Hsp' : length sp = (length (m' :: ms) - 1)%nat) by (cbn in *; lia).
      cbn [forallb]. rewrite (IH sp p' HMs Hsp' H2), andb_true_r.
      destruct ms as [|m'' ms]; [destruct sp as [|? ?]; [|cbn in Hsp'; lia]|
                                 destruct sp as [|s' sp]; [cbn in Hsp'; lia|]];
        cbn [positions spans_in combine forallb fst snd hd tl] in H2;
        apply andb_true_iff in H2 as [H2 _];
        unfold span_in in H1, H2;
        apply andb_true_iff in H1 as [H1 _]; apply andb_true_iff in H2 as [_ H2];
        apply Z.ltb_lt; apply Z.leb_le in H1, H2; subst p'; lia.
Qed.

(* ---------- the call ---------- *)

Lemma multi_spec X ms sp start :
  spec_ok (CMulti X ms sp start) (model (CMulti X ms sp start)) = true.
Proof.
  destruct X as [A L X]. cbn [spec_ok model tA tL tX].
  match goal with |- (if ?c then _ else _) = true => destruct c eqn:Hin end; [|reflexivity].
  apply andb_true_iff in Hin as [Hin Hspc]. apply andb_true_iff in Hin as [Hin Hsp].
  apply andb_true_iff in Hin as [Hin Hn]. apply andb_true_iff in Hin as [HX HMs].
  apply Nat.ltb_lt in Hn. apply Nat.eqb_eq in Hsp.
  unfold multisubstitute. cbn [tA tL tX].
  assert (E1 : (Z.of_nat (length sp) =? Z.of_nat (length ms) - 1) = true) by (apply Z.eqb_eq; lia).
  rewrite E1. cbn [guard bind].
  destruct (forallb (fun l => (0 <=? l) && (l <? Z.of_nat L)) sp) eqn:G; cbn [guard bind].
  2:{ (* some spacing >= L: the model rejects; so must the spec, through the span test *)
      match goal with |- (if ?c then _ else _) = true => destruct c eqn:Hall end; [|reflexivity].
      exfalso. pose proof (spans_in_spacing _ L ms sp _ HMs Hsp Hall) as Hlt.
      assert (G' : forallb (fun l => (0 <=? l) && (l <? Z.of_nat L)) sp = true).
      { apply forallb_forall. intros l Hl.
        rewrite forallb_forall in Hspc, Hlt. rewrite (Hspc l Hl), (Hlt l Hl). reflexivity. }
      congruence. }
  set (n := sumZ sp + sumZ (map (fun m => Z.of_nat (tL m)) ms)).
  set (d := Z.of_nat L / 2 - n / 2).
  assert (Main : forall p,
    (if forallb (fun mp => span_in L (snd mp) (tL (fst mp))) (combine ms (positions ms sp p))
     then match (do Y <- multi_loop A L X ms sp p ;; Ok [Y]) with
          | Ok [Y] => cols_valid A Y && multi_point (T A L X) ms (positions ms sp p) Y
          | _ => false
          end
     else negb (is_ok (do Y <- multi_loop A L X ms sp p ;; Ok [Y]))) = true).
  { intros p. pose proof (multi_loop_spec A L ms sp p X HX HMs Hn Hsp) as H.
    unfold spans_in in H.
    destruct (forallb _ (combine ms (positions ms sp p))); [|rewrite H; reflexivity].
    destruct H as (Y & E & HY & Hl & Hp). rewrite E. cbn [bind].
    destruct (valid_t_facts _ HY) as [Hc Hr]. cbn [tA tL tX] in Hc, Hr. rewrite Hc. cbn [andb].
    destruct (valid_t_facts _ HX) as [_ HrX]. cbn [tA tL tX] in HrX.
    unfold multi_point, each_example. cbn [tX]. rewrite Hl, Nat.eqb_refl. cbn [andb].
    apply forallb_seq. intros i Hi.
    assert (Hi' : (i < length Y)%nat) by lia.
    rewrite (rect_nth _ _ _ Hr Hi'), (rect_nth _ _ _ HrX Hi), Nat.eqb_refl. cbn [andb].
    apply forallb_seq. intros q Hq. rewrite (Hp i q Hi Hq). apply col_eqb_refl. }
  destruct start as [s|]; cbn [start_of bind].
  - apply Main.
  - fold n. fold d. destruct (Z.leb_spec 0 d) as [Hd|Hd]; cbn [guard bind]; [apply Main|].
    (* default start negative: the first placement is already outside *)
    destruct ms as [|m ms]; [cbn in Hn; lia|].
    cbn [positions combine forallb fst snd]. unfold span_in at 1.
    destruct (Z.leb_spec 0 d); [lia|]. reflexivity.
Qed.
