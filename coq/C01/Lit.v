(* C01: the shape of a correspondence case, and compact literals.  No proof depends on this file.

   A case is a FAMILY of calls made one after the other, in one process, on the same caller-owned
   tensor object X (and re-using motif / list / RandomState objects): [mcase] = X and the list of
   (operation, what the implementation did, were all caller objects still bit-identical
   afterwards).  Its verdict is the worst verdict of its calls, each judged by [Spec.check_case]
   on the call rebuilt with X.  A single call is a family of one.

   Literals: elaborating numerals costs Coq about 50 microseconds per digit, far more than
   evaluating model and spec, so a batch whose columns are all one-hot is written as ONE
   hexadecimal numeral: column q of example b is digit number b*L+q (least significant first)
   in base 2^w, w = 1, 2 or 3 bits per column.  [decb] expands it inside vm_compute.  Batches
   with any other column (malformed inputs, unexpected outputs) are written out in full. *)
From TM Require Import Base.Prelude Base.OneHot C01.Model C01.Spec.
Open Scope Z_scope.

Inductive op :=
| OSub (M : tensor) (start : option Z)
| OIns (M : tensor) (start : option Z)
| ODel (s e : Z)
| OMulti (ms : list tensor) (sp : list Z) (start : option Z)
| ORand (s e : Z) (Rs : list tensor).

Definition to_call (X : tensor) (o : op) : call :=
  match o with
  | OSub M start => CSub X M start
  | OIns M start => CIns X M start
  | ODel s e => CDel X s e
  | OMulti ms sp start => CMulti X ms sp start
  | ORand s e Rs => CRand X s e Rs
  end.

Definition step := (op * outcome * bool)%type.
Definition mcase := (tensor * list step)%type.

Definition check_mcase (c : mcase) : nat :=
  let '(X, l) := c in
  fold_right (fun (s : step) acc => let '(o, out, u) := s in
                Nat.max (check_case (to_call X o, out, u)) acc) 0%nat l.

Definition ohcol (A : nat) (k : Z) : col :=
  map (fun j => if Z.of_nat j =? k then 1 else 0) (seq 0 A).

Fixpoint digits (w : Z) (L : nat) (n : Z) : list Z :=
  match L with
  | O => []
  | S l => (n mod 2 ^ w) :: digits w l (n / 2 ^ w)
  end.

Fixpoint rows (w : Z) (B L : nat) (n : Z) : list (list Z) :=
  match B with
  | O => []
  | S b => digits w L n :: rows w b L (n / 2 ^ (w * Z.of_nat L))
  end.

Definition decb (w : Z) (A B L : nat) (n : Z) : batch := map (map (ohcol A)) (rows w B L n).

Definition tb (w : Z) (A B L : nat) (n : Z) : tensor := T A L (decb w A B L n).

(* "AT" / "GC" over {A,C,G,T}, 2 bits per column: A=0 T=3 | G=2 C=1 -> 0 + 3*4 + 2*16 + 1*64 = 0x6c *)
Example decb_example :
  decb 2 4 2 2 0x6c = [[[1;0;0;0]; [0;0;0;1]]; [[0;0;1;0]; [0;1;0;0]]].
Proof. reflexivity. Qed.
