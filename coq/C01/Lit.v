(* C01: compact literals for the correspondence cases.  The harness writes a batch whose columns
   are all one-hot over at most 8 symbols as one number per sequence: the base-8 numeral whose
   q-th digit (least significant first) is the index of the 1 in column q.  [decn] expands it
   (inside vm_compute) to the nested 0/1 lists the model and the spec work on.  Batches with any
   other column (malformed inputs, unexpected outputs) are written out in full.  Elaborating the
   nested list literals, not evaluating model and spec, dominated the cost of a case.  No proof
   depends on this file. *)
From TM Require Import Base.Prelude Base.OneHot.
Open Scope Z_scope.

Definition ohcol (A : nat) (k : Z) : col :=
  map (fun j => if Z.of_nat j =? k then 1 else 0) (seq 0 A).

Fixpoint digits (L : nat) (n : Z) : list Z :=
  match L with
  | O => []
  | S l => (n mod 8) :: digits l (n / 8)
  end.

Definition decn (A L : nat) (ns : list Z) : batch :=
  map (fun n => map (ohcol A) (digits L n)) ns.

(* "AT" / "GC" over {A,C,G,T}: 0 + 3*8 = 24, 2 + 1*8 = 10 *)
Example decn_example :
  decn 4 2 [24; 10] = [[[1;0;0;0]; [0;0;0;1]]; [[0;0;1;0]; [0;1;0;0]]].
Proof. reflexivity. Qed.
