(* C01: compact literals for the correspondence cases.  The harness writes a batch whose columns
   are all one-hot as the matrix of the indices of the 1s; [dec] expands it (inside vm_compute)
   to the nested 0/1 lists the model and the spec work on.  Batches with any other column
   (malformed inputs, unexpected outputs) are written out in full.  No proofs depend on this. *)
From TM Require Import Base.Prelude Base.OneHot.
Open Scope Z_scope.

Definition ohcol (A : nat) (k : Z) : col :=
  map (fun j => if Z.of_nat j =? k then 1 else 0) (seq 0 A).

Definition dec (A : nat) (X : list (list Z)) : batch := map (map (ohcol A)) X.

Example dec_example : dec 4 [[0; 3]; [2; 1]] = [[[1;0;0;0]; [0;0;0;1]]; [[0;0;1;0]; [0;1;0;0]]].
Proof. reflexivity. Qed.
