(* C01 - property theorems only.  Each is closed by [exact] of a lemma from Proofs.v. *)
From TM Require Import Base.Prelude Base.OneHot C01.Model C01.Spec C01.Proofs.

(* for every tensor, motif and integer start: the model's outcome satisfies the pointwise
   spec (exact overwrite inside [p,p+m), identity outside, valid one-hot columns, same
   length; rejected iff the span is not wholly inside) *)
Theorem c01_substitute : forall X M start, spec_ok (CSub X M start) (model (CSub X M start)) = true.
Proof. exact sub_spec. Qed.
Print Assumptions c01_substitute.

Theorem c01_insert : forall X M start, spec_ok (CIns X M start) (model (CIns X M start)) = true.
Proof. exact ins_spec. Qed.
Print Assumptions c01_insert.

Theorem c01_delete : forall X s e, spec_ok (CDel X s e) (model (CDel X s e)) = true.
Proof. exact del_spec. Qed.
Print Assumptions c01_delete.
