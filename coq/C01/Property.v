(* C01 - property theorems only.  Each is closed by [exact] of a lemma from Proofs*.v. *)
From TM Require Import Base.Prelude Base.OneHot C01.Model C01.Spec C01.Proofs
  C01.ProofsMulti C01.ProofsRand C01.V0.
Open Scope Z_scope.

(* for every tensor, motif and integer start: the model's outcome satisfies the pointwise
   spec (exact overwrite inside [p,p+m), identity outside, valid one-hot columns, same
   length; rejected iff the span is not wholly inside) *)
Theorem c01_substitute : forall X M start, spec_ok (CSub X M start) (model (CSub X M start)) = true.
Proof. exact sub_spec. Qed.
Print Assumptions c01_substitute.

Theorem c01_insert : forall X M start, spec_ok (CIns X M start) (model (CIns X M start)) = true.
Proof. exact ins_spec. Qed.
Print Assumptions c01_insert.

Theorem c01_delete : forall X s e, spec_ok (CDel X s e) (model (CDel X s e)) = true.
Proof. exact del_spec. Qed.
Print Assumptions c01_delete.

(* for every tensor, every list of motifs, every spacing list and every start (or the centred
   default): accepted iff every placement p_k = p + sum_{j<k} (m_j + spacing_j) lies wholly
   inside; then column q of example i is the column of the last motif covering q, else X's *)
Theorem c01_multisubstitute : forall X ms sp start,
  spec_ok (CMulti X ms sp start) (model (CMulti X ms sp start)) = true.
Proof. exact multi_spec. Qed.
Print Assumptions c01_multisubstitute.

(* for every tensor, span and list of drawn replacements: a span not inside the sequence is
   rejected; otherwise, for replacements randomize can draw (one-hot over X's alphabet, length
   end-start) there is one sample per replacement, each with valid columns and equal to X
   outside [start, end) *)
Theorem c01_randomize : forall X s e Rs,
  spec_ok (CRand X s e Rs) (model (CRand X s e Rs)) = true.
Proof. exact rand_spec. Qed.
Print Assumptions c01_randomize.

Theorem c01_all : forall c, spec_ok c (model c) = true.
Proof. exact all_spec. Qed.
Print Assumptions c01_all.

(* consequence: every call in scope is accepted by the model (nothing inside the sequence is
   rejected) *)
Theorem c01_in_scope_accepted : forall c, in_scope c = true -> is_ok (model c) = true.
Proof. exact (fun c H => in_scope_ok c (model c) H (all_spec c)). Qed.
Print Assumptions c01_in_scope_accepted.

(* ---------- non-vacuity: one concrete, non-trivial call of each kind is in scope ---------- *)

(* X = ["ACGTA"; "TTGCA"] over {A,C,G,T} *)
Definition ex_X : tensor := T 4 5
  [ [[1;0;0;0]; [0;1;0;0]; [0;0;1;0]; [0;0;0;1]; [1;0;0;0]];
    [[0;0;0;1]; [0;0;0;1]; [0;0;1;0]; [0;1;0;0]; [1;0;0;0]] ].
Definition ex_GG : tensor := T 4 2 [ [[0;0;1;0]; [0;0;1;0]] ].                 (* shared "GG" *)
Definition ex_CT : tensor := T 4 1 [ [[0;1;0;0]]; [[0;0;0;1]] ].               (* per-example "C" / "T" *)
Definition ex_R  : tensor := T 4 2 [ [[0;0;0;1]; [0;0;0;1]]; [[1;0;0;0]; [0;1;0;0]] ].

Example c01_nonvacuous :
  in_scope (CSub ex_X ex_GG (Some 3)) = true /\
  in_scope (CIns ex_X ex_CT (Some 5)) = true /\
  in_scope (CDel ex_X 1 3) = true /\
  in_scope (CMulti ex_X [ex_GG; ex_CT; ex_GG] [0; 0] (Some 0)) = true /\
  in_scope (CMulti ex_X [ex_GG; ex_CT] [1] None) = true /\
  in_scope (CRand ex_X 3 5 [ex_R; ex_R]) = true /\
  (* and an accepted result is what one expects: "GGCGG" / "GGTGG" *)
  model (CMulti ex_X [ex_GG; ex_CT; ex_GG] [0; 0] (Some 0)) =
    Ok [[ [[0;0;1;0]; [0;0;1;0]; [0;1;0;0]; [0;0;1;0]; [0;0;1;0]];
          [[0;0;1;0]; [0;0;1;0]; [0;0;0;1]; [0;0;1;0]; [0;0;1;0]] ]] /\
  (* ... and calls just outside are rejected *)
  model (CSub ex_X ex_GG (Some 4)) = Err /\ model (CIns ex_X ex_CT (Some 6)) = Err /\
  model (CDel ex_X 3 6) = Err /\ model (CMulti ex_X [ex_GG; ex_CT; ex_GG] [0; 0] (Some 1)) = Err /\
  model (CRand ex_X 4 6 [ex_R]) = Err.
Proof. vm_compute. repeat split. Qed.

(* ---------- the two repaired defects: the pre-fix behaviour violates the spec ---------- *)

Lemma c01_insert_v0_refuted : exists c, spec_ok c (model_v0_insert c) = false.
Proof. exists insert_v0_witness. vm_compute. reflexivity. Qed.

Lemma c01_randomize_v0_refuted : exists c, spec_ok c (model_v0_randomize c) = false.
Proof. exists randomize_v0_witness. vm_compute. reflexivity. Qed.

(* the current model accepts both witnesses with the expected result: "CA", and "A" *)
Example c01_v0_witnesses_now_ok :
  model insert_v0_witness = Ok [[ [[0;1]; [1;0]] ]] /\ model randomize_v0_witness = Ok [[ [[1;0]] ]].
Proof. vm_compute. split; reflexivity. Qed.
