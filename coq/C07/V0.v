(* C07 - the skeleton of deep_lift_shap as it was before the fix: commit (translated by
   harness/skeleton.py from tangermeme@93dd78b): the statements between hook registration
   and the inner try, and those after it, are not covered by any handler.               *)
From Coq Require Import List Bool. Import ListNotations.
From TM Require Import C07.Lang C07.Sound.

Definition dls_v0 : stmt :=
(Seq (MayRaise 343) (Seq (Seq (MayRaise 366) (If (Seq (MayRaise 367) (Seq (Loop (Seq (MayRaise 367) (MayRaise 368))) (MayRaise 367))) Skip)) (Seq (EvalMode 370) (Seq (Seq (MayRaise 371) (Seq (Loop (Seq (MayRaise 371) (MayRaise 372))) (MayRaise 371))) (Seq (Seq (MayRaise 375) (If (MayRaise 376) Skip)) (Seq (MayRaise 377) (Seq (Try (Register 380) (Seq Clear Raise)) (Seq (Seq (MayRaise 385) (Seq (Loop (Seq (MayRaise 385) (Seq (MayRaise 386) (Seq (MayRaise 387) (Seq (MayRaise 389) (If (Seq (MayRaise 390) (Seq (MayRaise 391) (Seq (Seq (MayRaise 397) (If (MayRaise 398) (Seq (MayRaise 400) (If (MayRaise 401) (MayRaise 403))))) (Seq (MayRaise 407) (Seq (MayRaise 408) (Seq (Try (Seq (MayRaise 416) (Seq (Seq (MayRaise 419) (Seq (Seq (MayRaise 420) (If (Seq (MayRaise 421) (Forward 422)) (Forward 424))) (MayRaise 426))) (Seq (MayRaise 430) (Seq (MayRaise 431) (Seq (MayRaise 433) (Seq (Seq (MayRaise 435) (If (MayRaise 436) Skip)) (If (MayRaise 440) Skip))))))) (Seq Clear Raise)) (Seq (Seq (MayRaise 448) (If (MayRaise 449) Skip)) (Seq (MayRaise 455) (Seq (Seq (Loop (Seq (MayRaise 461) (Seq (MayRaise 462) (Seq (Seq (MayRaise 464) (If (Seq (MayRaise 465) (Seq (MayRaise 466) (If (MayRaise 467) Skip))) Skip)) (Seq (MayRaise 469) (Seq (MayRaise 470) (MayRaise 471))))))) (MayRaise 461)) (If (MayRaise 474) Skip)))))))))) Skip)))))) (MayRaise 385))) (Seq Clear (Seq (Seq (MayRaise 480) (Seq (Loop (Seq (MayRaise 480) (MayRaise 481))) (MayRaise 480))) (Seq (MayRaise 483) (Seq (If (Seq (MayRaise 486) Return) Skip) Return)))))))))))).

Lemma dls_v0_refuted : clean dls_v0 = false.
Proof. vm_compute. reflexivity. Qed.

(* a minimal skeleton with the same defect and an explicit leaking execution: registration
   succeeds, the next statement (building the batch / calling the reference generator)
   raises, nothing clears the hooks *)
Definition leak_shape : stmt :=
  Seq (Try (Register 1) (Seq Clear Raise)) (Seq (MayRaise 2) (Seq (Try (Forward 3) (Seq Clear Raise)) Clear)).

Lemma leak_shape_execution :
  run leak_shape (St false true false) OExc (St true true false).
Proof.
  unfold leak_shape. eapply RSeqN.
  - apply RTryP; [apply RRegN | discriminate].
  - apply RSeqA; [apply RMayE | discriminate].
Qed.

Lemma leak_shape_not_clean : clean leak_shape = false.
Proof. vm_compute. reflexivity. Qed.

(* the repaired shape (try/finally around everything after registration) passes *)
Definition fixed_shape : stmt :=
  Seq (EvalMode 0) (Seq (Try (Register 1) (Seq Clear Raise))
      (Finally (Seq (MayRaise 2) (Loop (Seq (MayRaise 2) (Seq (Try (Forward 3) (Seq Clear Raise)) (MayRaise 4)))))
               Clear)).
Lemma fixed_shape_clean : clean fixed_shape = true.
Proof. vm_compute. reflexivity. Qed.

(* forgetting .eval() before a forward pass is caught as well *)
Lemma forward_without_eval_not_clean : clean (Forward 1) = false.
Proof. vm_compute. reflexivity. Qed.
Lemma forward_after_eval_clean : clean (Seq (EvalMode 1) (Forward 2)) = true.
Proof. vm_compute. reflexivity. Qed.
