(* C07 - soundness of the abstract interpreter: every execution of a skeleton, whatever
   raises where, however often loops iterate and whichever branches are taken, ends in a
   state the abstract interpreter accounts for.                                          *)
From Coq Require Import List Bool Arith Lia.
Import ListNotations.
From TM Require Import C07.Lang.

Lemma norm_idem X : norm (norm X) = norm X.
Proof. apply norm_ext. intros s. apply In_norm. Qed.

Definition normal (Y : sset) : Prop := norm Y = Y.

Lemma normal_norm X : normal (norm X).
Proof. apply norm_idem. Qed.

Lemma normal_union X Y : normal (union X Y).
Proof. apply norm_idem. Qed.

Lemma union_absorb Y Z : normal Y -> (forall s, In s Z -> In s Y) -> union Y Z = Y.
Proof.
  intros HY HZ. unfold normal in HY. unfold union. rewrite <- HY at 2. apply norm_ext.
  intros s. rewrite in_app_iff. split; [intros [H|H]; auto | auto].
Qed.

Lemma sel_ounion s o p q : In s (sel o (ounion p q)) <-> In s (sel o p) \/ In s (sel o q).
Proof. destruct o; cbn; apply In_union. Qed.

Lemma in_top s o : In s (sel o top).
Proof. destruct o; cbn -[all_states]; apply in_all. Qed.

Section LoopFacts.
  Variable pb : sset -> outs.

  Lemma lstep_incr Y s : In s Y -> In s (lstep pb Y).
  Proof. intros H. unfold lstep. apply In_union. left. exact H. Qed.

  Lemma iter_incr n : forall Y s, In s Y -> In s (iter n (lstep pb) Y).
  Proof. induction n as [|n IH]; intros Y s H; cbn [iter]; [exact H | apply IH, lstep_incr, H]. Qed.

  Lemma lfix_incr X s : In s X -> In s (lfix pb X).
  Proof. intros H. unfold lfix. apply iter_incr. apply In_norm. exact H. Qed.

  Lemma iter_normal n : forall Y, normal Y -> normal (iter n (lstep pb) Y).
  Proof.
    induction n as [|n IH]; intros Y H; cbn [iter]; [exact H|]. apply IH. apply normal_union.
  Qed.

  Lemma lstep_fix Y : normal Y -> subset (lstep pb Y) Y = true -> lstep pb Y = Y.
  Proof.
    intros HN HS. unfold lstep. apply union_absorb; [exact HN|].
    intros s Hs. rewrite subset_In in HS. apply HS. unfold lstep. apply In_union. right. exact Hs.
  Qed.

  Lemma iter_fix n Y : lstep pb Y = Y -> iter n (lstep pb) Y = Y.
  Proof. intros H. induction n as [|n IH]; cbn [iter]; [reflexivity|]. rewrite H. exact IH. Qed.

  (* the invariant set, recomputed from itself, is itself *)
  Lemma lfix_restart X : subset (lstep pb (lfix pb X)) (lfix pb X) = true ->
    lfix pb (lfix pb X) = lfix pb X.
  Proof.
    intros HS.
    assert (HN : normal (lfix pb X)) by (apply iter_normal, normal_norm).
    unfold lfix at 1. rewrite HN. apply iter_fix. apply lstep_fix; assumption.
  Qed.
End LoopFacts.

Lemma post_loop_eq b X :
  post (Loop b) X =
  if subset (lstep (post b) (lfix (post b) X)) (lfix (post b) X)
  then Outs (union (lfix (post b) X) (ob (post b (lfix (post b) X))))
            (oe (post b (lfix (post b) X))) (or_ (post b (lfix (post b) X))) [] []
  else top.
Proof. reflexivity. Qed.

Theorem post_sound p s o s' : run p s o s' -> forall X, In s X -> In s' (sel o (post p X)).
Proof.
  induction 1; intros X HX;
    match goal with
    | |- context [post (Loop _) _] => rewrite post_loop_eq
    | _ => cbn [post sel on oe or_ ob oc only_n]
    end.
  - exact HX.
  - exact HX.
  - exact HX.
  - apply In_image, HX.
  - apply In_union. right. apply In_image, HX.
  - apply In_union. left. exact HX.
  - apply In_image, HX.
  - apply In_image, HX.
  - exact HX.
  - apply In_image, HX.
  - apply In_union. right. apply In_image, HX.
  - apply In_union. left. exact HX.
  - apply In_image, HX.
  - apply In_union. right. apply In_image, HX.
  - apply In_union. left. apply In_image, HX.
  - (* Seq, first completes *)
    specialize (IHrun1 X HX). cbn [sel] in IHrun1. specialize (IHrun2 _ IHrun1).
    destruct o; cbn [sel on oe or_ ob oc] in *; try (apply In_union; right); exact IHrun2.
  - (* Seq, first leaves abnormally *)
    specialize (IHrun X HX).
    destruct o; cbn [sel on oe or_ ob oc] in *; try congruence; apply In_union; left; exact IHrun.
  - (* Try, body does not raise *)
    specialize (IHrun X HX).
    destruct o; cbn [sel on oe or_ ob oc] in *; try congruence; apply In_union; left; exact IHrun.
  - (* Try, handler runs *)
    specialize (IHrun1 X HX). cbn [sel] in IHrun1. specialize (IHrun2 _ IHrun1).
    destruct o; cbn [sel on oe or_ ob oc] in *; try (apply In_union; right); exact IHrun2.
  - (* Finally, finaliser completes: outcome of the body is kept *)
    specialize (IHrun1 X HX). specialize (IHrun2 _ IHrun1). cbn [sel] in IHrun2.
    destruct o; cbn [sel on oe or_ ob oc] in *; try (apply In_union; left); exact IHrun2.
  - (* Finally, finaliser leaves abnormally *)
    specialize (IHrun1 X HX). specialize (IHrun2 _ IHrun1).
    assert (HA : In s2 (sel o'
              (ounion (post f (on (post b X))) (ounion (post f (oe (post b X)))
              (ounion (post f (or_ (post b X))) (ounion (post f (ob (post b X)))
                      (post f (oc (post b X))))))))).
    { destruct o; cbn [sel] in IHrun2; repeat rewrite sel_ounion; tauto. }
    destruct o'; cbn [sel on oe or_ ob oc] in *; try congruence; apply In_union; right; exact HA.
  - (* Loop, zero iterations *)
    destruct (subset (lstep (post b) (lfix (post b) X)) (lfix (post b) X)) eqn:HS;
      [|apply (in_top s ONormal)].
    cbn [sel on]. apply In_union. left. apply lfix_incr. exact HX.
  - (* Loop, one more iteration *)
    destruct (subset (lstep (post b) (lfix (post b) X)) (lfix (post b) X)) eqn:HS;
      [|apply in_top].
    assert (HsY : In s (lfix (post b) X)) by (apply lfix_incr, HX).
    assert (Hs1 : In s1 (lfix (post b) X)).
    { pose proof HS as HS'. rewrite subset_In in HS'. apply HS'. unfold lstep at 1. apply In_union. right.
      specialize (IHrun1 _ HsY). destruct H0 as [-> | ->]; cbn [sel] in IHrun1;
        apply In_union; [left | right]; exact IHrun1. }
    specialize (IHrun2 _ Hs1). rewrite post_loop_eq in IHrun2.
    rewrite (lfix_restart (post b) X HS) in IHrun2. rewrite HS in IHrun2.
    exact IHrun2.
  - (* Loop, break *)
    destruct (subset (lstep (post b) (lfix (post b) X)) (lfix (post b) X)) eqn:HS;
      [|apply (in_top s1 ONormal)].
    cbn [sel on]. apply In_union. right.
    apply (IHrun _ (lfix_incr (post b) X s HX)).
  - (* Loop, body raises or returns *)
    destruct (subset (lstep (post b) (lfix (post b) X)) (lfix (post b) X)) eqn:HS;
      [|apply in_top].
    specialize (IHrun _ (lfix_incr (post b) X s HX)).
    destruct H0 as [-> | ->]; cbn [sel oe or_] in *; exact IHrun.
  - apply sel_ounion. left. apply IHrun, HX.
  - apply sel_ounion. right. apply IHrun, HX.
  - exact HX.
  - exact HX.
  - exact HX.
  - exact HX.
  - (* Scope, body does not return *)
    specialize (IHrun X HX).
    destruct o; cbn [sel on oe or_ ob oc] in *; try congruence; try exact IHrun.
    apply In_union. left. exact IHrun.
  - (* Scope, body returns: the helper's return is a normal completion of the call *)
    specialize (IHrun X HX). cbn [sel on or_] in *. apply In_union. right. exact IHrun.
Qed.

(* ---------- the property-level consequence ---------- *)

Definition clean_state (s : state) : Prop := hooks s = false /\ dirty s = false.

Lemma good_clean s : good s = true <-> clean_state s.
Proof.
  unfold good, clean_state. destruct (hooks s), (dirty s); cbn; split; intros H;
    try discriminate; try (destruct H; discriminate); auto.
Qed.

Theorem clean_sound p : clean p = true ->
  forall s o s', clean_state s -> run p s o s' ->
                 clean_state s' /\ (o = ONormal \/ o = OExc \/ o = ORet).
Proof.
  unfold clean. intros H s o s' [Hh Hd] Hrun.
  assert (HX : In s init_states).
  { destruct s as [h e d]. cbn in Hh, Hd. subst. destruct e; cbn; auto. }
  pose proof (post_sound _ _ _ _ Hrun _ HX) as HI.
  repeat (apply andb_true_iff in H as [H ?]).
  rewrite !forallb_forall in *.
  destruct (ob (post p init_states)) eqn:Eb; [|discriminate].
  destruct (oc (post p init_states)) eqn:Ec; [|discriminate].
  destruct o; cbn [sel] in HI.
  - split; [apply good_clean; auto | auto].
  - split; [apply good_clean; auto | auto].
  - split; [apply good_clean; auto | auto].
  - rewrite Eb in HI. destruct HI.
  - rewrite Ec in HI. destruct HI.
Qed.

(* a history of API calls on one shared model: each call is some execution of a clean
   skeleton; between calls the user may switch train/eval mode at will *)
Inductive history (ps : list stmt) : state -> state -> Prop :=
| HNil s : history ps s s
| HCall s p o s1 s2 : In p ps -> run p s o s1 -> history ps s1 s2 -> history ps s s2
| HMode s e s2 : history ps (St (hooks s) e (dirty s)) s2 -> history ps s s2.

Theorem history_inv ps : forallb clean ps = true ->
  forall s s', clean_state s -> history ps s s' -> clean_state s'.
Proof.
  intros H s s' Hs Hh. induction Hh as [s | s p o s1 s2 Hin Hrun Hh IH | s e s2 Hh IH].
  - exact Hs.
  - apply IH. rewrite forallb_forall in H.
    apply (clean_sound p (H p Hin) s o s1 Hs Hrun).
  - apply IH. destruct Hs as [H1 H2]. split; cbn; assumption.
Qed.
