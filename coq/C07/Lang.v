(* C07 - exception-flow skeletons of the API functions: a small statement language, its
   nondeterministic big-step semantics over the three facts the property is about
   (hooks registered? model in eval mode? parameters/buffers touched?), and a sound abstract
   interpreter [post] with the decidable check [clean].                                   *)
From Coq Require Import List Bool Arith Lia.
Import ListNotations.

Record state := St { hooks : bool; evalm : bool; dirty : bool }.

Inductive outcome := ONormal | OExc | ORet | OBrk | OCont.

Inductive stmt :=
| Skip                         (* cannot raise, does not touch the model *)
| MayRaise (l : nat)           (* source line l: may raise, does not touch the model *)
| Register (l : nat)           (* model.apply(_register_hooks): may fail half way *)
| Clear                        (* model.apply(_clear_hooks) *)
| EvalMode (l : nat)           (* model.to(device).eval() *)
| Forward (l : nat)            (* model(...) and the backward pass through it *)
| CallApi (l : nat)            (* a call of another API function on the same model *)
| Seq (a b : stmt)
| Try (b h : stmt)             (* try: b  except Exception: h   (h ends in Raise to re-raise) *)
| Finally (b f : stmt)
| Loop (b : stmt)              (* for / while: any number of iterations *)
| If (a b : stmt)
| Raise | Return | Break | Continue
| Scope (b : stmt)             (* the inlined body of a private helper: its `return` ends the helper only *).

Definition set_hooks (s : state) := St true (evalm s) (dirty s).
Definition clr_hooks (s : state) := St false (evalm s) (dirty s).
Definition set_eval (s : state) := St (hooks s) true (dirty s).
(* a forward pass outside eval mode updates buffers (batch-norm statistics) *)
Definition fwd (s : state) := St (hooks s) (evalm s) (dirty s || negb (evalm s)).
(* callee contract: an API function called on a model without foreign hooks leaves it
   clean and in eval mode; called while our hooks are registered it is not covered *)
Definition call_n (s : state) := St (hooks s) true (dirty s || hooks s).
Definition call_e (s : state) := St (hooks s) (evalm s) (dirty s || hooks s).

Inductive run : stmt -> state -> outcome -> state -> Prop :=
| RSkip s : run Skip s ONormal s
| RMayN l s : run (MayRaise l) s ONormal s
| RMayE l s : run (MayRaise l) s OExc s
| RRegN l s : run (Register l) s ONormal (set_hooks s)
| RRegE1 l s : run (Register l) s OExc (set_hooks s)
| RRegE0 l s : run (Register l) s OExc s
| RClear s : run Clear s ONormal (clr_hooks s)
| REvalN l s : run (EvalMode l) s ONormal (set_eval s)
| REvalE l s : run (EvalMode l) s OExc s
| RFwdN l s : run (Forward l) s ONormal (fwd s)
| RFwdE1 l s : run (Forward l) s OExc (fwd s)
| RFwdE0 l s : run (Forward l) s OExc s
| RCallN l s : run (CallApi l) s ONormal (call_n s)
| RCallE1 l s : run (CallApi l) s OExc (call_n s)
| RCallE0 l s : run (CallApi l) s OExc (call_e s)
| RSeqN a b s s1 o s2 : run a s ONormal s1 -> run b s1 o s2 -> run (Seq a b) s o s2
| RSeqA a b s o s1 : run a s o s1 -> o <> ONormal -> run (Seq a b) s o s1
| RTryP b h s o s1 : run b s o s1 -> o <> OExc -> run (Try b h) s o s1
| RTryH b h s s1 o s2 : run b s OExc s1 -> run h s1 o s2 -> run (Try b h) s o s2
| RFinN b f s o s1 s2 : run b s o s1 -> run f s1 ONormal s2 -> run (Finally b f) s o s2
| RFinA b f s o s1 o' s2 : run b s o s1 -> run f s1 o' s2 -> o' <> ONormal ->
                           run (Finally b f) s o' s2
| RLoop0 b s : run (Loop b) s ONormal s
| RLoopS b s o s1 o' s2 : run b s o s1 -> (o = ONormal \/ o = OCont) ->
                          run (Loop b) s1 o' s2 -> run (Loop b) s o' s2
| RLoopB b s s1 : run b s OBrk s1 -> run (Loop b) s ONormal s1
| RLoopX b s o s1 : run b s o s1 -> (o = OExc \/ o = ORet) -> run (Loop b) s o s1
| RIfA a b s o s1 : run a s o s1 -> run (If a b) s o s1
| RIfB a b s o s1 : run b s o s1 -> run (If a b) s o s1
| RRaise s : run Raise s OExc s
| RReturn s : run Return s ORet s
| RBreak s : run Break s OBrk s
| RContinue s : run Continue s OCont s
| RScopeP b s o s1 : run b s o s1 -> o <> ORet -> run (Scope b) s o s1
| RScopeR b s s1 : run b s ORet s1 -> run (Scope b) s ONormal s1.

(* ---------- finite sets of states, canonical (sub-lists of all_states) ---------- *)

Definition state_eqb (a b : state) : bool :=
  eqb (hooks a) (hooks b) && eqb (evalm a) (evalm b) && eqb (dirty a) (dirty b).

Lemma state_eqb_eq a b : state_eqb a b = true <-> a = b.
Proof.
  destruct a as [a1 a2 a3], b as [b1 b2 b3]; unfold state_eqb; cbn.
  destruct a1, a2, a3, b1, b2, b3; cbn; split; intro H; try reflexivity; try discriminate.
Qed.

Definition all_states : list state :=
  [St false false false; St false false true; St false true false; St false true true;
   St true false false; St true false true; St true true false; St true true true].

Lemma in_all s : In s all_states.
Proof. destruct s as [[] [] []]; cbn; tauto. Qed.

Definition sset := list state.
Definition memb (s : state) (X : sset) : bool := existsb (state_eqb s) X.

Lemma memb_In s X : memb s X = true <-> In s X.
Proof.
  unfold memb. rewrite existsb_exists. split.
  - intros [y [Hy E]]. apply state_eqb_eq in E. subst. exact Hy.
  - intros H. exists s. split; [exact H | apply state_eqb_eq; reflexivity].
Qed.

Definition norm (X : sset) : sset := filter (fun s => memb s X) all_states.

Lemma In_norm s X : In s (norm X) <-> In s X.
Proof.
  unfold norm. rewrite filter_In, memb_In. split; [tauto|]. intros H; split; [apply in_all | exact H].
Qed.

Lemma norm_ext X Y : (forall s, In s X <-> In s Y) -> norm X = norm Y.
Proof.
  intros H. unfold norm. apply filter_ext. intros s.
  destruct (memb s X) eqn:E1, (memb s Y) eqn:E2; try reflexivity.
  - apply memb_In, H, memb_In in E1. congruence.
  - apply memb_In, H, memb_In in E2. congruence.
Qed.

Definition union (X Y : sset) : sset := norm (X ++ Y).
Definition image (f : state -> state) (X : sset) : sset := norm (map f X).
Definition subset (X Y : sset) : bool := forallb (fun s => memb s Y) X.

Lemma In_union s X Y : In s (union X Y) <-> In s X \/ In s Y.
Proof. unfold union. rewrite In_norm, in_app_iff. tauto. Qed.

Lemma In_image f s X : In s X -> In (f s) (image f X).
Proof. intros H. unfold image. apply In_norm. apply in_map. exact H. Qed.

Lemma subset_In X Y : subset X Y = true <-> (forall s, In s X -> In s Y).
Proof.
  unfold subset. rewrite forallb_forall. split; intros H s Hs.
  - apply memb_In. apply H. exact Hs.
  - apply memb_In. apply H. exact Hs.
Qed.

(* ---------- the abstract interpreter ---------- *)

Record outs := Outs { on : sset; oe : sset; or_ : sset; ob : sset; oc : sset }.

Definition sel (o : outcome) (r : outs) : sset :=
  match o with ONormal => on r | OExc => oe r | ORet => or_ r | OBrk => ob r | OCont => oc r end.

Definition top : outs := Outs all_states all_states all_states all_states all_states.
Definition only_n (X : sset) := Outs X [] [] [] [].
Definition ounion (p q : outs) : outs :=
  Outs (union (on p) (on q)) (union (oe p) (oe q)) (union (or_ p) (or_ q))
       (union (ob p) (ob q)) (union (oc p) (oc q)).

Fixpoint iter {A} (n : nat) (f : A -> A) (x : A) : A :=
  match n with O => x | S k => iter k f (f x) end.

(* loop invariant computation: grow the entry set by the body's normal/continue exits *)
Definition lstep (pb : sset -> outs) (Y : sset) : sset :=
  union Y (union (on (pb Y)) (oc (pb Y))).
Definition lfix (pb : sset -> outs) (X : sset) : sset := iter 9 (lstep pb) (norm X).

Fixpoint post (p : stmt) (X : sset) : outs :=
  match p with
  | Skip => only_n X
  | MayRaise _ => Outs X X [] [] []
  | Register _ => Outs (image set_hooks X) (union X (image set_hooks X)) [] [] []
  | Clear => only_n (image clr_hooks X)
  | EvalMode _ => Outs (image set_eval X) X [] [] []
  | Forward _ => Outs (image fwd X) (union X (image fwd X)) [] [] []
  | CallApi _ => Outs (image call_n X) (union (image call_e X) (image call_n X)) [] [] []
  | Seq a b =>
      let pa := post a X in let pb := post b (on pa) in
      Outs (on pb) (union (oe pa) (oe pb)) (union (or_ pa) (or_ pb))
           (union (ob pa) (ob pb)) (union (oc pa) (oc pb))
  | Try b h =>
      let pb := post b X in let ph := post h (oe pb) in
      Outs (union (on pb) (on ph)) (oe ph) (union (or_ pb) (or_ ph))
           (union (ob pb) (ob ph)) (union (oc pb) (oc ph))
  | Finally b f =>
      let pb := post b X in
      let fn := post f (on pb) in let fe := post f (oe pb) in let fr := post f (or_ pb) in
      let fb := post f (ob pb) in let fc := post f (oc pb) in
      let ab := ounion fn (ounion fe (ounion fr (ounion fb fc))) in
      Outs (on fn) (union (on fe) (oe ab)) (union (on fr) (or_ ab))
           (union (on fb) (ob ab)) (union (on fc) (oc ab))
  | Loop b =>
      let Y := lfix (post b) X in
      if subset (lstep (post b) Y) Y
      then let pb := post b Y in Outs (union Y (ob pb)) (oe pb) (or_ pb) [] []
      else top
  | If a b => ounion (post a X) (post b X)
  | Raise => Outs [] X [] [] []
  | Return => Outs [] [] X [] []
  | Break => Outs [] [] [] X []
  | Continue => Outs [] [] [] [] X
  | Scope b => let pb := post b X in Outs (union (on pb) (or_ pb)) (oe pb) [] (ob pb) (oc pb)
  end.

(* the decidable check: from any state with no hooks and untouched parameters (eval mode
   either way), every way of leaving the function - returning, falling off the end or
   raising - has no hooks left and parameters/buffers untouched; no stray break/continue *)
Definition init_states : sset := [St false false false; St false true false].
Definition good (s : state) : bool := negb (hooks s) && negb (dirty s).
Definition clean (p : stmt) : bool :=
  let r := post p init_states in
  forallb good (on r) && forallb good (oe r) && forallb good (or_ r) &&
  match ob r, oc r with [], [] => true | _, _ => false end.

(* source lines at which the skeleton says an exception may originate *)
Fixpoint raise_lines (p : stmt) : list nat :=
  match p with
  | MayRaise l | Register l | EvalMode l | Forward l | CallApi l => [l]
  | Seq a b | Try a b | Finally a b | If a b => raise_lines a ++ raise_lines b
  | Loop b | Scope b => raise_lines b
  | _ => []
  end.
