(* C07 - correspondence cases: one injected crash (or history) observed on the real code. *)
From Coq Require Import List Bool Arith. Import ListNotations.
From TM Require Import Base.Prelude C07.Lang C07.Generated.

(* function id, injected source line (0: the exception was raised inside a callee - forward
   pass, reference generator, backward hook, input validation - or the case is a history),
   hooks left on the model?, parameters/buffers/outputs/gradients changed? *)
Definition case := (nat * nat * bool * bool)%type.

Fixpoint skel_of (f : nat) (l : list (nat * stmt)) : option stmt :=
  match l with
  | [] => None
  | (g, p) :: r => if Nat.eqb f g then Some p else skel_of f r
  end.

(* spec: the model is left without hooks and unchanged.
   agreement with the model: the function's skeleton is clean (so the theorem predicts
   "unchanged" for every crash point) and the line that raised is one of the skeleton's
   possible raise points (validates the translator's classification) *)
Definition check_case (c : case) : nat :=
  let '(f, line, hooks_left, changed) := c in
  match skel_of f (skeletons ++ helper_skeletons) with
  | None => 1
  | Some p =>
      (* model prediction: every API skeleton (helpers inlined) is clean, so no crash point leaks;
         the injected line must be a raise point of the function it lies in *)
      verdict (forallb (fun fp => clean (snd fp)) skeletons &&
               (Nat.eqb line 0 || existsb (Nat.eqb line) (raise_lines p)))
              (negb hooks_left && negb changed)
  end.
