(* C07 - property theorems.  C07/Generated.v holds the skeletons of the API functions as
   translated from /repo's CURRENT source by harness/skeleton.py on this very run.        *)
From Coq Require Import List Bool. Import ListNotations.
From TM Require Import C07.Lang C07.Sound C07.Generated.

(* the per-run obligation: every regenerated skeleton passes the abstract check *)
Theorem c07_skeletons_clean : forallb (fun fp => clean (snd fp)) skeletons = true.
Proof. vm_compute. reflexivity. Qed.
Print Assumptions c07_skeletons_clean.

(* hence: whichever statement raises at whichever visit (or none), however often the loops
   run and whichever branches are taken, every API function leaves a model that had no
   hooks and untouched parameters/buffers without hooks and with untouched
   parameters/buffers - on return and on every exceptional exit *)
Theorem c07_no_crash_point_leaks :
  forall f p, In (f, p) skeletons ->
  forall s o s', clean_state s -> run p s o s' ->
                 clean_state s' /\ (o = ONormal \/ o = OExc \/ o = ORet).
Proof.
  intros f p Hin. apply clean_sound.
  pose proof c07_skeletons_clean as H. rewrite forallb_forall in H. exact (H (f, p) Hin).
Qed.
Print Assumptions c07_no_crash_point_leaks.

(* and any finite history of calls and failures on one shared model keeps it clean *)
Theorem c07_histories :
  forall s s', clean_state s -> history (map snd skeletons) s s' -> clean_state s'.
Proof.
  apply history_inv. rewrite forallb_forall. intros p Hp. apply in_map_iff in Hp as [[f q] [E Hin]].
  cbn in E. subst q. pose proof c07_skeletons_clean as H. rewrite forallb_forall in H. exact (H (f, p) Hin).
Qed.
Print Assumptions c07_histories.
