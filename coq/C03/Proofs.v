(* C03 proofs: for example-wise user models the batching loop of predict is invisible. *)
From TM Require Import Base.Prelude Base.PyList C03.Model C03.Spec.
Open Scope Z_scope.

Lemma forallb_seq (f : nat -> bool) n :
  forallb f (seq 0 n) = true <-> (forall q, (q < n)%nat -> f q = true).
Proof.
  rewrite forallb_forall. split; intros H q Hq.
  - apply H. apply in_seq. lia.
  - apply in_seq in Hq. apply H. lia.
Qed.

Lemma nth_map_in {A B} (f : A -> B) l i d d' :
  (i < length l)%nat -> nth i (map f l) d = f (nth i l d').
Proof.
  intros H. rewrite nth_indep with (d' := f d') by (rewrite map_length; exact H).
  apply map_nth.
Qed.

Lemma row_eqb_refl r : row_eqb r r = true.
Proof. apply (list_eqb_spec Z.eqb); [intros; apply Z.eqb_eq | reflexivity]. Qed.

Lemma row_eqb_spec a b : row_eqb a b = true <-> a = b.
Proof. apply list_eqb_spec. intros; apply Z.eqb_eq. Qed.

Lemma rows_eqb_spec a b : rows_eqb a b = true <-> a = b.
Proof. apply list_eqb_spec. apply row_eqb_spec. Qed.

Lemma pair_eqb_spec p q : pair_eqb p q = true <-> p = q.
Proof.
  destruct p as [a b], q as [c d]. unfold pair_eqb. cbn [fst snd].
  rewrite andb_true_iff, row_eqb_spec, rows_eqb_spec. split.
  - intros [-> ->]. reflexivity.
  - intros E. injection E as -> ->. auto.
Qed.

(* ---------- the windows of range(0, n, b) partition the list, in order ---------- *)

Lemma skipn_skipn {T} (a b : nat) (l : list T) : skipn b (skipn a l) = skipn (a + b) l.
Proof.
  revert l; induction a as [|a IH]; intros l; [reflexivity|].
  destruct l as [|x xs]; cbn [skipn Nat.add].
  - apply skipn_nil.
  - apply IH.
Qed.

Lemma range_concat {T} (l : list T) (b : nat) : (1 <= b)%nat ->
  forall fuel start, (length l - start <= fuel)%nat ->
  concat (map (fun s => window s b l) (range_from fuel start (length l) b)) = skipn start l.
Proof.
  intros Hb. induction fuel as [|f IH]; intros start H; cbn [range_from].
  - cbn. symmetry. apply skipn_all2. lia.
  - destruct (Nat.ltb_spec start (length l)) as [Hs|Hs].
    + cbn [map concat]. rewrite IH by lia. unfold window.
      rewrite <- skipn_skipn. apply firstn_skipn.
    + cbn. symmetry. apply skipn_all2. lia.
Qed.

Lemma windows_concat {T} (l : list T) (n b : nat) : (1 <= b)%nat -> length l = n ->
  concat (map (fun s => window s b l) (starts n b)) = l.
Proof.
  intros Hb Hn. subst n. unfold starts. rewrite range_concat by lia. reflexivity.
Qed.

Lemma starts_nonempty n b : (1 <= n)%nat -> starts n b <> [].
Proof.
  intros H. unfold starts. destruct n as [|n]; [lia|]. cbn [range_from].
  destruct (Nat.ltb_spec 0 (S n)); [discriminate | lia].
Qed.

Lemma range_from_lt fuel start n b : Forall (fun s => (s < n)%nat) (range_from fuel start n b).
Proof.
  revert start; induction fuel as [|f IH]; intros start; cbn [range_from]; [constructor|].
  destruct (Nat.ltb_spec start n); constructor; auto.
Qed.

(* ---------- aligned rows commute with slicing: X and every arg get the same window ---------- *)

Lemma rows_length X args : length (rows X args) = length X.
Proof. revert args; induction X as [|x X IH]; intros args; cbn; [reflexivity|]. rewrite IH. reflexivity. Qed.

Lemma rows_firstn b : forall X args,
  rows (firstn b X) (map (firstn b) args) = firstn b (rows X args).
Proof.
  induction b as [|b IH]; intros X args; [reflexivity|].
  destruct X as [|x X]; [reflexivity|]. cbn [firstn rows]. f_equal.
  - f_equal. rewrite map_map. apply map_ext. intros [|y ys]; reflexivity.
  - rewrite <- IH. f_equal. rewrite !map_map. apply map_ext.
    intros [|y ys]; cbn; [destruct b; reflexivity | reflexivity].
Qed.

Lemma rows_skipn s : forall X args,
  rows (skipn s X) (map (skipn s) args) = skipn s (rows X args).
Proof.
  induction s as [|s IH]; intros X args.
  - cbn [skipn]. rewrite map_id. reflexivity.
  - destruct X as [|x X]; [reflexivity|]. cbn [skipn rows]. rewrite <- IH. f_equal.
    rewrite map_map. apply map_ext. intros [|y ys]; cbn; [destruct s; reflexivity | reflexivity].
Qed.

Lemma rows_window s b X args :
  rows (window s b X) (map (window s b) args) = window s b (rows X args).
Proof.
  unfold window. rewrite <- rows_skipn, <- rows_firstn. f_equal. rewrite map_map. reflexivity.
Qed.

Lemma nth_rows : forall X args i, (i < length X)%nat ->
  nth i (rows X args) ([], []) = (nth i X [], map (fun a => nth i a []) args).
Proof.
  induction X as [|x X IH]; intros args i Hi; cbn in Hi; [lia|].
  destruct i as [|i]; cbn [rows nth].
  - f_equal. apply map_ext. intros [|y ys]; reflexivity.
  - rewrite IH by lia. f_equal. rewrite map_map. apply map_ext.
    intros [|y ys]; cbn; [destruct i; reflexivity | reflexivity].
Qed.

(* ---------- concatenating the per-batch outputs ---------- *)

Lemma mapM_tensor {A} (f : A -> list row) l :
  mapM as_tensor (map (fun s => YT (f s)) l) = Ok (map f l).
Proof. induction l as [|x xs IH]; cbn; [reflexivity|]. rewrite IH. reflexivity. Qed.

Lemma mapM_multi {A} (f : A -> list (list row)) l :
  mapM as_multi (map (fun s => YM (f s)) l) = Ok (map f l).
Proof. induction l as [|x xs IH]; cbn; [reflexivity|]. rewrite IH. reflexivity. Qed.

Lemma cat_YT {A} (f : A -> list row) l : l <> [] ->
  cat_outputs (map (fun s => YT (f s)) l) = Ok (YT (concat (map f l))).
Proof.
  intros H. destruct l as [|x xs]; [congruence|].
  change (cat_outputs (map (fun s => YT (f s)) (x :: xs)))
    with (do rs <- mapM as_tensor (map (fun s => YT (f s)) (x :: xs)) ;; Ok (YT (concat rs))).
  rewrite mapM_tensor. reflexivity.
Qed.

Lemma cat_YM {A} (f : A -> list (list row)) l : l <> [] ->
  cat_outputs (map (fun s => YM (f s)) l) = Ok (YM (zipcat (map f l))).
Proof.
  intros H. destruct l as [|x xs]; [congruence|].
  change (cat_outputs (map (fun s => YM (f s)) (x :: xs)))
    with (do hs <- mapM as_multi (map (fun s => YM (f s)) (x :: xs)) ;; Ok (YM (zipcat hs))).
  rewrite mapM_multi. reflexivity.
Qed.

Lemma map2_same {A B C D} (f : B -> C -> D) (a : A -> B) (c : A -> C) l :
  map2 f (map a l) (map c l) = map (fun x => f (a x) (c x)) l.
Proof. unfold map2. induction l as [|x xs IH]; cbn; [reflexivity|]. rewrite IH. reflexivity. Qed.

(* output j of the result is the concatenation over batches of output j *)
Lemma zipcat_heads {H S} (G : H -> S -> list row) (hs : list H) (l : list S) : l <> [] ->
  zipcat (map (fun s => map (fun h => G h s) hs) l) = map (fun h => concat (map (G h) l)) hs.
Proof.
  intros Hl. destruct l as [|s0 rest]; [congruence|]. clear Hl. cbn [map zipcat].
  assert (Gen : forall (A : H -> list row),
             fold_left (map2 (@app row)) (map (fun s => map (fun h => G h s) hs) rest) (map A hs)
             = map (fun h => A h ++ concat (map (G h) rest)) hs).
  { induction rest as [|r rest IH]; intros A; cbn [map fold_left concat].
    - apply map_ext. intros h. rewrite app_nil_r. reflexivity.
    - rewrite map2_same. rewrite IH. apply map_ext. intros h. rewrite app_assoc. reflexivity. }
  apply Gen.
Qed.

(* ---------- predict on an example-wise model (any heads, any number of args) ---------- *)

(* [fl]: the training flags of all sub-modules during the forward calls (all false, see below) *)
Definition expected (k : okind) (hs : list head) (fl : list bool) (X : list row) (args : list arg) : yval :=
  match k with
  | KTensor => YT (apply_head (nth 0 hs dhead) fl false (rows X args))
  | _ => YM (map (fun h => apply_head h fl false (rows X args)) hs)
  end.

Definition batch_of (b : Z) (X : list row) : nat := Z.to_nat (Z.min b (Z.of_nat (length X))).

Definition expected_trace (fl : list bool) (b : Z) (X : list row) (args : list arg) (adt : list nat) : list callrec :=
  map (fun s => CR fl false (window s (batch_of b X) X) (map (window s (batch_of b X)) args) adt)
      (starts (length X) (batch_of b X)).

Lemma aligned_forallb (X : list row) (args : list arg) :
  forallb (fun a => (length a =? length X)%nat) args = true <->
  Forall (fun a => length a = length X) args.
Proof.
  rewrite forallb_forall, Forall_forall. split; intros H a Ha.
  - apply Nat.eqb_eq. auto.
  - apply Nat.eqb_eq. auto.
Qed.

Lemma apply_head_concat h tr gr (ls : list (list (row * list row))) :
  concat (map (apply_head h tr gr) ls) = apply_head h tr gr (concat ls).
Proof. unfold apply_head. symmetry. apply concat_map. Qed.

Theorem predict_examplewise (k : okind) (hs : list head) (s0 : mstate) (b : Z)
        (X : list row) (args : list arg) (adt : list nat) :
  1 <= b -> X <> [] -> Forall (fun a => length a = length X) args ->
  predict_model (g_ex k hs) s0 b X args adt
  = (Ok (expected k hs (all_eval (training s0)) X args), expected_trace (all_eval (training s0)) b X args adt).
Proof.
  intros Hb HX Hal. set (fl := all_eval (training s0)).
  assert (Hn : (1 <= length X)%nat) by (destruct X; [congruence | cbn; lia]).
  unfold predict_model.
  apply aligned_forallb in Hal. rewrite Hal. cbn [negb].
  destruct (Z.leb_spec (Z.min b (Z.of_nat (length X))) 0) as [Hle|Hgt]; [lia|].
  fold (batch_of b X). set (bb := batch_of b X).
  assert (Hbb : (1 <= bb)%nat) by (unfold bb, batch_of; lia).
  unfold forward_all. cbn [set_eval enter_no_grad training grad]. fold fl.
  rewrite !map_map. cbn [fst snd].
  f_equal.
  pose proof (starts_nonempty (length X) bb Hn) as Hne.
  set (R := rows X args).
  assert (HR : length R = length X) by apply rows_length.
  unfold g_ex, expected. destruct k.
  - (* tensor *)
    erewrite map_ext by (intros s; rewrite rows_window; reflexivity).
    rewrite (cat_YT (fun s => apply_head (nth 0 hs dhead) fl false (window s bb R))) by exact Hne.
    rewrite <- (map_map (fun s => window s bb R) (apply_head (nth 0 hs dhead) fl false)).
    rewrite apply_head_concat, windows_concat by auto. reflexivity.
  - erewrite map_ext by (intros s; rewrite rows_window; reflexivity).
    rewrite (cat_YM (fun s => map (fun h => apply_head h fl false (window s bb R)) hs)) by exact Hne.
    rewrite (zipcat_heads (fun h s => apply_head h fl false (window s bb R))) by exact Hne.
    do 2 f_equal. apply map_ext. intros h.
    rewrite <- (map_map (fun s => window s bb R) (apply_head h fl false)).
    rewrite apply_head_concat, windows_concat by auto. reflexivity.
  - erewrite map_ext by (intros s; rewrite rows_window; reflexivity).
    rewrite (cat_YM (fun s => map (fun h => apply_head h fl false (window s bb R)) hs)) by exact Hne.
    rewrite (zipcat_heads (fun h s => apply_head h fl false (window s bb R))) by exact Hne.
    do 2 f_equal. apply map_ext. intros h.
    rewrite <- (map_map (fun s => window s bb R) (apply_head h fl false)).
    rewrite apply_head_concat, windows_concat by auto. reflexivity.
Qed.

(* an args entry whose leading dimension differs from X's is rejected before any forward call *)
Theorem predict_rejects_misaligned g s0 b X args adt :
  forallb (fun a => (length a =? length X)%nat) args = false ->
  predict_model g s0 b X args adt = (Err, []).
Proof. intros H. unfold predict_model. rewrite H. reflexivity. Qed.

(* every call of the trace: evaluation mode, gradients off, the same window of X and of every
   arg; the windows partition 0..n-1 in order *)
Lemma all_eval_false fl : Forall (fun t => t = false) (all_eval fl).
Proof. unfold all_eval. apply Forall_forall. intros t H. apply in_map_iff in H as (? & <- & _). reflexivity. Qed.

Lemma all_eval_no_training fl : existsb (fun t => t) (all_eval fl) = false.
Proof. unfold all_eval. induction fl; cbn; auto. Qed.

Lemma all_eval_forallb fl : forallb negb (all_eval fl) = true.
Proof. unfold all_eval. induction fl; cbn; auto. Qed.

Theorem trace_facts (fl0 : list bool) (b : Z) (X : list row) (args : list arg) (adt : list nat) :
  1 <= b -> X <> [] -> Forall (fun a => length a = length X) args ->
  let t := expected_trace (all_eval fl0) b X args adt in
  Forall (fun r => Forall (fun t => t = false) (cr_training r) /\ cr_grad r = false /\ cr_adt r = adt /\
                   exists s, (s < length X)%nat /\
                             cr_X r = window s (batch_of b X) X /\
                             cr_args r = map (window s (batch_of b X)) args) t /\
  concat (map cr_X t) = X /\
  (forall k, (k < length args)%nat ->
     concat (map (fun r => nth k (cr_args r) []) t) = nth k args []) /\
  concat (map (fun r => rows (cr_X r) (cr_args r)) t) = rows X args.
Proof.
  intros Hb HX Hal t.
  assert (Hn : (1 <= length X)%nat) by (destruct X; [congruence | cbn; lia]).
  assert (Hbb : (1 <= batch_of b X)%nat) by (unfold batch_of; lia).
  unfold t, expected_trace. repeat split.
  - apply Forall_forall. intros r Hr. apply in_map_iff in Hr as (s & <- & Hs).
    cbn. repeat split; [apply all_eval_false|]. exists s. repeat split.
    pose proof (range_from_lt (length X) 0 (length X) (batch_of b X)) as F.
    rewrite Forall_forall in F. apply F. exact Hs.
  - rewrite map_map. cbn [cr_X]. apply windows_concat; auto.
  - intros k Hk. rewrite map_map. cbn [cr_args].
    erewrite map_ext.
    2:{ intros s. rewrite nth_map_in with (d' := []) by exact Hk. reflexivity. }
    apply windows_concat; auto.
    rewrite Forall_forall in Hal. apply Hal. apply nth_In. exact Hk.
  - rewrite map_map. cbn [cr_X cr_args].
    erewrite map_ext by (intros s; rewrite rows_window; reflexivity).
    apply windows_concat; auto. apply rows_length.
Qed.

(* ---------- the recording module of the harness: spec_ok (model c) ---------- *)

Lemma nth_enc_heads sc k j : (j < k)%nat ->
  nth j (enc_heads sc k) dhead = if sc j then enc_head1 (Z.of_nat j + 1) else enc_head (Z.of_nat j + 1).
Proof.
  intros H. unfold enc_heads.
  rewrite nth_map_in with (d' := 0%nat) by (rewrite seq_length; exact H).
  rewrite seq_nth by exact H. reflexivity.
Qed.

Lemma head_ok_enc1 m fl0 X args :
  head_ok true m X args (apply_head (enc_head1 m) (all_eval fl0) false (rows X args)) = true.
Proof.
  unfold head_ok, apply_head. rewrite map_length, rows_length, Nat.eqb_refl. cbn [andb].
  apply forallb_seq. intros i Hi.
  rewrite nth_map_in with (d' := (([] : row), ([] : list row))) by (rewrite rows_length; exact Hi).
  rewrite nth_rows by exact Hi. cbn [fst snd]. unfold enc_head1, expected_row.
  rewrite all_eval_no_training. apply row_eqb_refl.
Qed.

Lemma head_ok_enc m fl0 X args :
  head_ok false m X args (apply_head (enc_head m) (all_eval fl0) false (rows X args)) = true.
Proof.
  unfold head_ok, apply_head. rewrite map_length, rows_length, Nat.eqb_refl. cbn [andb].
  apply forallb_seq. intros i Hi.
  rewrite nth_map_in with (d' := (([] : row), ([] : list row))) by (rewrite rows_length; exact Hi).
  rewrite nth_rows by exact Hi. cbn [fst snd]. unfold enc_head, expected_row. rewrite all_eval_no_training. apply row_eqb_refl.
Qed.

Lemma flags_expected fl0 b X args adt : flags_ok (expected_trace (all_eval fl0) b X args adt) = true.
Proof.
  unfold flags_ok, expected_trace. apply forallb_forall. intros r Hr.
  apply in_map_iff in Hr as (s & <- & _). cbn [cr_training cr_grad]. rewrite all_eval_forallb. reflexivity.
Qed.

Lemma dtypes_expected fl b X args adt : dtypes_ok adt (expected_trace fl b X args adt) = true.
Proof.
  unfold dtypes_ok, expected_trace. apply forallb_forall. intros r Hr.
  apply in_map_iff in Hr as (s & <- & _). cbn [cr_adt].
  apply (list_eqb_spec Nat.eqb); [intros; apply Nat.eqb_eq | reflexivity].
Qed.

Lemma scope_facts c : in_scope c = true -> 1 <= c_b c /\ c_X c <> [].
Proof.
  unfold in_scope. intros H. apply andb_true_iff in H as [H1 H2].
  split; [lia|]. destruct (c_X c); [cbn in H1; discriminate | discriminate].
Qed.

Lemma model_in_scope c : in_scope c = true -> args_aligned c = true ->
  model c = (Ok (expected (c_kind c) (enc_heads (is_scalar c) (nheads c)) (all_eval (training (c_state c))) (c_X c) (c_args c)),
             expected_trace (all_eval (training (c_state c))) (c_b c) (c_X c) (c_args c) (c_adt c)).
Proof.
  intros Hs Ha. apply scope_facts in Hs as [Hb HX]. unfold model.
  apply predict_examplewise; auto. apply aligned_forallb. exact Ha.
Qed.

Theorem predict_spec : forall c, spec_ok c (model c) = true.
Proof.
  intros c. unfold spec_ok.
  destruct (in_scope c) eqn:Hs; [|reflexivity].
  destruct (args_aligned c) eqn:Ha.
  - rewrite model_in_scope by auto. cbn [fst snd]. unfold expected, nheads.
    destruct (c_kind c) eqn:Hk.
    + rewrite (nth_enc_heads (is_scalar c) 1 0) by lia. change (Z.of_nat 0 + 1) with 1.
      destruct (is_scalar c 0); [rewrite head_ok_enc1 | rewrite head_ok_enc];
        rewrite flags_expected, dtypes_expected; reflexivity.
    + rewrite map_length. unfold enc_heads at 1. rewrite map_length, seq_length, Nat.eqb_refl.
      rewrite flags_expected, dtypes_expected. cbn [andb]. rewrite !andb_true_r.
      apply forallb_seq. intros j Hj.
      rewrite nth_map_in with (d' := dhead)
        by (unfold enc_heads; rewrite map_length, seq_length; exact Hj).
      rewrite nth_enc_heads by exact Hj. destruct (is_scalar c j); [apply head_ok_enc1 | apply head_ok_enc].
    + rewrite map_length. unfold enc_heads at 1. rewrite map_length, seq_length, Nat.eqb_refl.
      rewrite flags_expected, dtypes_expected. cbn [andb]. rewrite !andb_true_r.
      apply forallb_seq. intros j Hj.
      rewrite nth_map_in with (d' := dhead)
        by (unfold enc_heads; rewrite map_length, seq_length; exact Hj).
      rewrite nth_enc_heads by exact Hj. destruct (is_scalar c j); [apply head_ok_enc1 | apply head_ok_enc].
  - unfold model. rewrite predict_rejects_misaligned by exact Ha. reflexivity.
Qed.

Lemma window_length {T} s b (l : list T) : (length (window s b l) <= b)%nat.
Proof. unfold window. rewrite firstn_length. lia. Qed.

Theorem predict_trace : forall c, in_scope c = true -> args_aligned c = true ->
  trace_ok c (snd (model c)) = true.
Proof.
  intros c Hs Ha. rewrite model_in_scope by auto. cbn [snd].
  pose proof (scope_facts c Hs) as [Hb HX].
  assert (Hal : Forall (fun a => length a = length (c_X c)) (c_args c))
    by (apply aligned_forallb; exact Ha).
  destruct (trace_facts (training (c_state c)) (c_b c) (c_X c) (c_args c) (c_adt c) Hb HX Hal) as (F1 & _ & _ & F4).
  assert (Hn : (1 <= length (c_X c))%nat) by (destruct (c_X c); [congruence | cbn; lia]).
  unfold trace_ok. apply andb_true_iff. split.
  - apply (list_eqb_spec pair_eqb pair_eqb_spec). exact F4.
  - apply forallb_forall. intros r Hr. rewrite Forall_forall in F1.
    destruct (F1 r Hr) as (_ & _ & _ & s & Hlt & HXw & HAw).
    rewrite HXw, HAw. rewrite map_length, Nat.eqb_refl.
    assert (Hw : length (window s (batch_of (c_b c) (c_X c)) (c_X c))
                 = Nat.min (batch_of (c_b c) (c_X c)) (length (c_X c) - s)).
    { unfold window. rewrite firstn_length, skipn_length. reflexivity. }
    assert (Hbb : (1 <= batch_of (c_b c) (c_X c))%nat) by (unfold batch_of; lia).
    repeat (apply andb_true_iff; split).
    + rewrite Hw. apply Nat.leb_le. lia.
    + rewrite Hw. unfold batch_of. lia.
    + reflexivity.
    + apply forallb_forall. intros a Hin. apply in_map_iff in Hin as (a0 & <- & Hin).
      rewrite Forall_forall in Hal. specialize (Hal a0 Hin).
      unfold window. rewrite !firstn_length, !skipn_length, Hal. apply Nat.eqb_refl.
Qed.
