(* C03 spec: what the property text demands of one predict call, as a decidable relation
   between the call and its observed outcome, stated pointwise (example by example through
   [nth]) and independently of the model's windows / concatenations.                      *)
From TM Require Import Base.Prelude Base.PyList C03.Model.
Open Scope Z_scope.

(* A call of predict on the harness's recording module:
   kind / number of outputs of the module, the module and autograd state before the call,
   batch_size, X, args.                                                                  *)
Record call := Call {
  c_kind : okind; c_heads : nat; c_state : mstate; c_b : Z; c_X : list row; c_args : list arg;
  c_adt : list nat (* dtype code of every arg as given by the caller *);
  c_odt : nat (* dtype code of the tensors the module returns *);
  c_oshapes : list (list Z) (* per output: its trailing dimensions (after the batch dimension);
                               [] = an output of shape (batch,), one scalar per example *) }.

(* observed: the returned value (or "raised") and the trace of forward calls *)
Definition outcome := (res yval * list callrec)%type.

Definition nheads (c : call) : nat :=
  match c_kind c with KTensor => 1%nat | _ => c_heads c end.

Definition row_eqb : row -> row -> bool := list_eqb Z.eqb.
Definition rows_eqb : list row -> list row -> bool := list_eqb row_eqb.

(* model(X[i], args[0][i], args[1][i], ...) for output m of the recording module, in
   evaluation mode: m * (X[i] ++ args[0][i] ++ args[1][i] ++ ...)                         *)
Definition expected_row (scalar : bool) (m : Z) (X : list row) (args : list arg) (i : nat) : row :=
  if scalar then [m * hd 0 (nth i X [])]
  else map (Z.mul m) (nth i X [] ++ concat (map (fun a => nth i a []) args)).

(* output j of the module has no trailing dimension *)
Definition is_scalar (c : call) (j : nat) : bool :=
  match nth j (c_oshapes c) [0] with [] => true | _ => false end.

(* o is the concatenation over examples, in input order *)
Definition head_ok (scalar : bool) (m : Z) (X : list row) (args : list arg) (o : list row) : bool :=
  (length o =? length X)%nat &&
  forallb (fun i => row_eqb (nth i o []) (expected_row scalar m X args i)) (seq 0 (length X)).

(* every forward call ran with EVERY (sub-)module in evaluation mode and gradients disabled *)
Definition flags_ok (t : list callrec) : bool :=
  forallb (fun c => forallb negb (cr_training c) && negb (cr_grad c)) t.

(* the model is given args[k][i] itself: every forward call receives every arg in the dtype the
   caller passed (the values are covered by [head_ok]: the outputs encode them exactly) *)
Definition dtypes_ok (c : list nat) (t : list callrec) : bool :=
  forallb (fun r => list_eqb Nat.eqb (cr_adt r) c) t.

Definition args_aligned (c : call) : bool :=
  forallb (fun a => (length a =? length (c_X c))%nat) (c_args c).

(* inside the property's quantifier: n >= 1, b >= 1 *)
Definition in_scope (c : call) : bool := (1 <=? length (c_X c))%nat && (1 <=? c_b c).

Definition spec_ok (c : call) (o : outcome) : bool :=
  if in_scope c then
    if args_aligned c then
      match fst o with
      | Ok (YT r) =>
          match c_kind c with
          | KTensor => head_ok (is_scalar c 0) 1 (c_X c) (c_args c) r && flags_ok (snd o) && dtypes_ok (c_adt c) (snd o)
          | _ => false
          end
      | Ok (YM hs) =>
          match c_kind c with
          | KTensor => false
          | _ => (length hs =? c_heads c)%nat &&
                 forallb (fun j => head_ok (is_scalar c j) (Z.of_nat j + 1) (c_X c) (c_args c) (nth j hs []))
                         (seq 0 (c_heads c)) &&
                 flags_ok (snd o) && dtypes_ok (c_adt c) (snd o)
          end
      | Err => false
      end
    else negb (is_ok (fst o))     (* an args entry with another leading dimension is rejected *)
  else true.

(* the bookkeeping the title names ("keeps extra arguments aligned"), on the trace: the
   aligned (x_i, args_i) tuples seen by the module, concatenated in call order, are exactly
   the aligned tuples of the input in input order -- every call got the same window of X and
   of each arg, the windows partition 0..n-1 in order -- and no call is empty or larger
   than the batch size.  Proved of the model (c03_trace); part of model equality at run time. *)
Definition pair_eqb (p q : row * list row) : bool :=
  row_eqb (fst p) (fst q) && rows_eqb (snd p) (snd q).

Definition trace_ok (c : call) (t : list callrec) : bool :=
  list_eqb pair_eqb (concat (map (fun r => rows (cr_X r) (cr_args r)) t)) (rows (c_X c) (c_args c)) &&
  forallb (fun r => (1 <=? length (cr_X r))%nat &&
                    (Z.of_nat (length (cr_X r)) <=? c_b c) &&
                    (length (cr_args r) =? length (c_args c))%nat &&
                    forallb (fun a => (length a =? length (cr_X r))%nat) (cr_args r)) t.

Definition model (c : call) : outcome :=
  predict_model (g_ex (c_kind c) (enc_heads (is_scalar c) (nheads c))) (c_state c) (c_b c) (c_X c) (c_args c) (c_adt c).

Definition yval_eqb (a b : yval) : bool :=
  match a, b with
  | YT r, YT s => rows_eqb r s
  | YM h, YM k => list_eqb rows_eqb h k
  | _, _ => false
  end.

Definition callrec_eqb (a b : callrec) : bool :=
  list_eqb Bool.eqb (cr_training a) (cr_training b) && Bool.eqb (cr_grad a) (cr_grad b) &&
  rows_eqb (cr_X a) (cr_X b) && list_eqb rows_eqb (cr_args a) (cr_args b) &&
  list_eqb Nat.eqb (cr_adt a) (cr_adt b).

Definition outcome_eqb (a b : outcome) : bool :=
  res_eqb yval_eqb (fst a) (fst b) && list_eqb callrec_eqb (snd a) (snd b).

(* "returns exactly the concatenation of model(...)": every returned tensor has the dtype the
   module produces and the shape (n, trailing dims the module produces).  torch.cat / .cpu() are
   not modelled, so this clause is evaluated on the observed (dtype code, shape) of every returned
   tensor only (like "inputs not modified").                                                 *)
Definition meta_eqb (a b : nat * list Z) : bool :=
  (fst a =? fst b)%nat && list_eqb Z.eqb (snd a) (snd b).

Definition outmeta_ok (c : call) (o : outcome) (obs : list (nat * list Z)) : bool :=
  if in_scope c && args_aligned c then
    let want j := (c_odt c, Z.of_nat (length (c_X c)) :: nth j (c_oshapes c) [0]) in
    match fst o with
    | Ok (YT _) => list_eqb meta_eqb obs [want 0%nat]
    | Ok (YM hs) => list_eqb meta_eqb obs (map want (seq 0 (length hs)))
    | Err => true
    end
  else true.

(* one correspondence case: the call, what the implementation did (value + full call trace),
   whether X and every arg were bit-identical after the call, whether the module's buffers
   (batch-norm running statistics, batch counter) were bit-identical after the call -- a forward
   in evaluation mode never touches them --, the (dtype, shape) of every returned tensor, and
   whether no returned tensor requires grad or carries a grad_fn ("with gradients disabled":
   observed on the results as well as through the grad flag of every forward call) *)
Definition case := (call * outcome * bool * bool * list (nat * list Z) * bool)%type.

Definition check_case (c : case) : nat :=
  let '(cl, o, unchanged, buffers_unchanged, obs, detached) := c in
  verdict (outcome_eqb o (model cl))
          (unchanged && buffers_unchanged && detached && spec_ok cl o && outmeta_ok cl o obs).
