(* C03 model: tangermeme.predict.predict.
   Executable mirror of the batching loop: eval()/no_grad() on an explicit (training, grad)
   state, the leading-dimension check on args, batch_size = min(batch_size, n), the loop
   `for start in range(0, n, batch_size)` that slices X and EVERY arg with the same
   [start:start+batch_size) window, the per-batch outputs, and the final concatenation
   (torch.cat for tensors, zip-star(y) + torch.cat per output for tuples / lists).
   The user model is a Section variable acting on a whole batch.  No proofs here.

   A tensor with leading dimension n is a list of n rows (each row the flattened remaining
   dimensions, exact integers).                                                          *)
From TM Require Import Base.Prelude Base.PyList.
Open Scope Z_scope.

Definition row := list Z.
Definition arg := list row.          (* one extra argument: one row per example *)

(* what one forward call returns, and what predict returns: a tensor, or several tensors
   (a tuple and a list are both turned into a list of tensors by predict)              *)
Inductive yval :=
| YT (rows : list row)
| YM (heads : list (list row)).

(* module / autograd state observed by the forward call.  `training` is a PER-MODULE flag in
   torch: [training] lists the flag of every module of model.modules() (the root first, then
   its sub-modules); Module.eval() is what sets all of them, the root's flag alone says nothing
   about the children.                                                                      *)
Record mstate := MS { training : list bool; grad : bool }.
Definition all_eval (fl : list bool) : list bool := map (fun _ => false) fl.
Definition set_eval (s : mstate) : mstate := MS (all_eval (training s)) (grad s).  (* model.eval() *)
Definition enter_no_grad (s : mstate) : mstate := MS (training s) false. (* with torch.no_grad() *)

(* one recorded forward call: the training flag of every (sub-)module and the grad mode it ran
   under, and the rows of X and of every arg it got *)
(* [cr_adt]: the dtype (a code) of every arg as the model received it.  Rows hold the exact
   values (integers scaled by a per-argument power of two), so a cast of an arg to a narrower
   dtype shows both as a changed dtype code and, where the value is not representable, as a
   changed row. *)
Record callrec := CR { cr_training : list bool; cr_grad : bool; cr_X : list row; cr_args : list arg;
                       cr_adt : list nat }.

(* l[start:start+b] for 0 <= start, 1 <= b *)
Definition window {T} (start b : nat) (l : list T) : list T := firstn b (skipn start l).

(* range(start, n, b) for b >= 1; at most [fuel] elements *)
Fixpoint range_from (fuel start n b : nat) : list nat :=
  match fuel with
  | O => []
  | S f => if (start <? n)%nat then start :: range_from f (start + b) n b else []
  end.
Definition starts (n b : nat) : list nat := range_from n 0 n b.

(* zip-star(y) followed by torch.cat on every group: output j of the result is the
   concatenation over batches of output j; zip truncates to the shortest tuple
   ([map2] is built on [combine], which truncates in the same way)                      *)
Definition zipcat (ys : list (list (list row))) : list (list row) :=
  match ys with
  | [] => []
  | y0 :: rest => fold_left (map2 (@app row)) rest y0
  end.

Definition as_tensor (y : yval) : res (list row) :=
  match y with YT r => Ok r | YM _ => Err end.
Definition as_multi (y : yval) : res (list (list row)) :=
  match y with YM h => Ok h | YT _ => Err end.

(* the tail of predict: `if isinstance(y[0], torch.Tensor): torch.cat(y) else zip-star(y)...`.
   Mixed kinds across batches make torch.cat raise (modelled as Err in both directions). *)
Definition cat_outputs (ys : list yval) : res yval :=
  match ys with
  | [] => Err                                   (* y[0]: IndexError *)
  | YT _ :: _ => do rs <- mapM as_tensor ys ;; Ok (YT (concat rs))
  | YM _ :: _ => do hs <- mapM as_multi ys ;; Ok (YM (zipcat hs))
  end.

Section Predict.
  (* the user's forward on one batch, under the given (training, grad-enabled) flags *)
  Variable g : list bool -> bool -> list row -> list arg -> yval.

  (* the loop body for every start of range(0, n, b): X[start:end] and a[start:end] for every
     arg with the SAME (start, end).  (`if X_.shape[0] == 0: continue` cannot trigger: start < n.) *)
  (* args are sliced and moved to the device, nothing else: they keep their dtype [adt] (only X
     is cast to the parameters' dtype) *)
  Definition forward_all (s : mstate) (b : nat) (X : list row) (args : list arg) (adt : list nat)
    : list (yval * callrec) :=
    map (fun start =>
           let Xw := window start b X in
           let Aw := map (window start b) args in
           (g (training s) (grad s) Xw Aw, CR (training s) (grad s) Xw Aw adt))
        (starts (length X) b).

  (* returns the value (or "raised") and the trace of forward calls made *)
  Definition predict_model (s0 : mstate) (b : Z) (X : list row) (args : list arg) (adt : list nat)
    : res yval * list callrec :=
    let s1 := set_eval s0 in
    if negb (forallb (fun a => (length a =? length X)%nat) args) then (Err, [])  (* ValueError *)
    else
      let s2 := enter_no_grad s1 in
      let b' := Z.min b (Z.of_nat (length X)) in
      (* range(0, n, 0) raises ValueError; a negative step gives an empty loop and then
         y[0] raises IndexError *)
      if b' <=? 0 then (Err, [])
      else
        let calls := forward_all s2 (Z.to_nat b') X args adt in
        (cat_outputs (map fst calls), map snd calls).
End Predict.

(* ---------- example-wise user models ---------- *)

(* row i of the batch paired with row i of every arg *)
Fixpoint rows (X : list row) (args : list arg) : list (row * list row) :=
  match X with
  | [] => []
  | x :: X' => (x, map (hd []) args) :: rows X' (map (@tl row) args)
  end.

Inductive okind := KTensor | KTuple | KList.

(* one output head of an example-wise model:
   training flags of all sub-modules -> grad mode -> x_i -> [a_0[i]; a_1[i]; ...] -> y_i *)
Definition head := list bool -> bool -> row -> list row -> row.
Definition dhead : head := fun _ _ _ _ => [].

Definition apply_head (h : head) (tr : list bool) (gr : bool) (rs : list (row * list row)) : list row :=
  map (fun p => h tr gr (fst p) (snd p)) rs.

Definition g_ex (k : okind) (hs : list head) : list bool -> bool -> list row -> list arg -> yval :=
  fun tr gr Xw Aw =>
    let rs := rows Xw Aw in
    match k with
    | KTensor => YT (apply_head (nth 0 hs dhead) tr gr rs)
    | _ => YM (map (fun h => apply_head h tr gr rs) hs)
    end.

(* the exact-integer head of the harness's recording module: output j (1-based multiplier m)
   of example i is m * (x_i ++ a_0[i] ++ a_1[i] ++ ...) -- when EVERY sub-module is in evaluation
   mode.  If any of them is in training mode dropout / batch-norm are active and the output is
   not this encoding (modelled as the unusable empty row; the theorems show that no module is
   in training mode during a forward call).                                               *)
Definition enc_head (m : Z) : head :=
  fun tr _ x ar => if existsb (fun t => t) tr then [] else map (Z.mul m) (x ++ concat ar).

(* an output with no trailing dimension (shape (batch,) per call): m * (first entry of x_i) *)
Definition enc_head1 (m : Z) : head :=
  fun tr _ x _ => if existsb (fun t => t) tr then [] else [m * hd 0 x].

(* [sc j]: output j is of the scalar-per-example kind *)
Definition enc_heads (sc : nat -> bool) (k : nat) : list head :=
  map (fun j => if sc j then enc_head1 (Z.of_nat j + 1) else enc_head (Z.of_nat j + 1)) (seq 0 k).
