(* C03 - property theorems only.  Each is closed by [exact] of a lemma from Proofs.v. *)
From TM Require Import Base.Prelude Base.PyList C03.Model C03.Spec C03.Proofs.
Open Scope Z_scope.

(* For EVERY example-wise user model (any list of output heads [hs], each an arbitrary function
   of the flags, x_i and [a_0[i]; a_1[i]; ...]), every initial module / autograd state -- ANY
   combination of training flags of the root module and its sub-modules (root in evaluation
   mode with children in training mode included), gradients on or off --, every
   batch size b >= 1 (smaller than, equal to, larger than, or not dividing n), every n >= 1 and
   any number of extra arguments whose leading dimension is n:
   predict returns exactly [h all-false false x_i args_i | i < n] in input order -- a tensor for
   single-output models, one tensor per output for tuple / list models -- and the trace of
   forward calls is the list of windows of range(0, n, min(b, n)), each with the training flag
   of EVERY sub-module false and grad = false, with X and every arg sliced by the same window and
   every arg handed over in the dtype [adt] the caller gave it (rows are exact values).       *)
Theorem c03_predict_examplewise :
  forall (k : okind) (hs : list head) (s0 : mstate) (b : Z) (X : list row) (args : list arg) (adt : list nat),
    1 <= b -> X <> [] -> Forall (fun a => length a = length X) args ->
    predict_model (g_ex k hs) s0 b X args adt
    = (Ok (expected k hs (all_eval (training s0)) X args), expected_trace (all_eval (training s0)) b X args adt).
Proof. exact predict_examplewise. Qed.
Print Assumptions c03_predict_examplewise.

(* the trace: every call in evaluation mode with gradients off and the SAME window of X and of
   each arg; the windows of X, of each arg, and of the aligned tuples partition the input in
   order *)
Theorem c03_trace_facts :
  forall (fl0 : list bool) (b : Z) (X : list row) (args : list arg) (adt : list nat),
    1 <= b -> X <> [] -> Forall (fun a => length a = length X) args ->
    let t := expected_trace (all_eval fl0) b X args adt in
    Forall (fun r => Forall (fun t => t = false) (cr_training r) /\ cr_grad r = false /\ cr_adt r = adt /\
                     exists s, (s < length X)%nat /\
                               cr_X r = window s (batch_of b X) X /\
                               cr_args r = map (window s (batch_of b X)) args) t /\
    concat (map cr_X t) = X /\
    (forall k, (k < length args)%nat ->
       concat (map (fun r => nth k (cr_args r) []) t) = nth k args []) /\
    concat (map (fun r => rows (cr_X r) (cr_args r)) t) = rows X args.
Proof. exact trace_facts. Qed.
Print Assumptions c03_trace_facts.

(* a mismatched leading dimension is rejected, for every user model, before any forward call *)
Theorem c03_rejects_misaligned :
  forall g s0 b X args adt,
    forallb (fun a => (length a =? length X)%nat) args = false ->
    predict_model g s0 b X args adt = (Err, []).
Proof. exact predict_rejects_misaligned. Qed.
Print Assumptions c03_rejects_misaligned.

(* the decidable spec evaluated at run time on the implementation's outcomes holds of the
   model, for all calls (all n, b, kinds, numbers of heads and args, aligned or not) *)
Theorem c03_predict : forall c, spec_ok c (model c) = true.
Proof. exact predict_spec. Qed.
Print Assumptions c03_predict.

Theorem c03_trace : forall c, in_scope c = true -> args_aligned c = true ->
  trace_ok c (snd (model c)) = true.
Proof. exact predict_trace. Qed.
Print Assumptions c03_trace.

(* the hypotheses are satisfiable: n = 5, b = 2 (n mod b <> 0), two args with per-example
   distinct values, tuple output with two heads; the last batch is the partial one; the module
   is handed over with the root in evaluation mode and two of its children in training mode; the
   args are a float64 and an int64 tensor (dtype codes 1, 3) and reach the model as such *)
Example c03_example :
  model (Call KTuple 2 (MS [false; true; true] true) 2 [[1];[2];[3];[4];[5]]
              [[[10];[20];[30];[40];[50]]; [[7;7];[8;8];[9;9];[6;6];[5;5]]] [1%nat; 3%nat] 1 [[4]; [4]])
  = (Ok (YM [[[1;10;7;7];[2;20;8;8];[3;30;9;9];[4;40;6;6];[5;50;5;5]];
             [[2;20;14;14];[4;40;16;16];[6;60;18;18];[8;80;12;12];[10;100;10;10]]]),
     [CR [false; false; false] false [[1];[2]] [[[10];[20]]; [[7;7];[8;8]]] [1%nat; 3%nat];
      CR [false; false; false] false [[3];[4]] [[[30];[40]]; [[9;9];[6;6]]] [1%nat; 3%nat];
      CR [false; false; false] false [[5]] [[[50]]; [[5;5]]] [1%nat; 3%nat]]).
Proof. vm_compute. reflexivity. Qed.
