(* C19 spec: the property text as a decidable relation between a call of
   recursive_seqlets / tfmodisco_seqlets and the table it returned, written row by row
   against the INPUT tensor only (never against the p-value matrix, the cumulative sums or
   the window scores, which are the model's business).

   Numbers are the scaled integers described in Model.v.  "attribution = the sum of the
   input" is exact in the theorems; on the implementation's float output it is demanded up
   to the rounding of the float cumulative sum / float sum, with a bound computed here:
   [prec] is 53 for float64 inputs and 24 for float32 (unit round-off u = 2^-prec);
     recursive_seqlets : two float prefix sums of at most [end] terms and one subtraction:
                         |attr - sum| <= 3 (end + 2) u  sum_{q < end} |X[q]|
     tfmodisco_seqlets : one float sum of [window] terms (any order):
                         |attr - sum| <= (window + 2) u  sum_{q in window} |X[q]|        *)
From TM Require Import Base.Prelude C19.Model.
Open Scope Z_scope.

Inductive call :=
| CRec (X : list (list Z)) (prec : Z) (P : params) (pms : list pmat) (csums : list (list Z))
| CTf  (X : list (list Z)) (prec : Z) (T : tfparams) (scores : list (list score)).

(* the returned table (rows in order), or "raised" *)
Definition outcome := res (list seqlet).

(* ---- helpers, by enumeration ---- *)
Definition zrange (a : Z) (n : Z) : list Z := map (fun k => a + Z.of_nat k) (seq 0 (Z.to_nat n)).

(* sum over start <= q < end of x[q] *)
Definition sum_span (x : list Z) (s e : Z) : Z :=
  sumZ (map (fun q => nth q x 0) (seq (Z.to_nat s) (Z.to_nat (e - s)))).

Definition close (prec k : Z) (mass a ref : Z) : bool :=
  Z.abs (a - ref) * 2 ^ prec <=? k * mass.

Definition rect (X : list (list Z)) (l : Z) : bool :=
  forallb (fun x => Z.of_nat (length x) =? l) X.
Definition xlen (X : list (list Z)) : Z := Z.of_nat (length (hd [] X)).

Fixpoint sorted_p (t : list seqlet) : bool :=
  match t with
  | a :: (b :: _) as t' => (q_p a <=? q_p b) && sorted_p t'
  | _ => true
  end.

Fixpoint pairwise {A} (r : A -> A -> bool) (t : list A) : bool :=
  match t with
  | [] => true
  | x :: xs => forallb (r x) xs && pairwise r xs
  end.

(* ---- recursive_seqlets ---- *)

(* some span [s0, e0) inside the example with min <= e0 - s0 <= max becomes [s, e) when
   additional_flanks are added and clipped:  s = max(s0 - f, 0), e = min(e0 + f, l) *)
Definition len_ok (P : params) (l s e : Z) : bool :=
  let f := p_flanks P in
  existsb (fun s0 => existsb (fun e0 =>
      (0 <=? s0) && (e0 <=? l) && (Z.max (s0 - f) 0 =? s) && (Z.min (e0 + f) l =? e)
      && (p_min P <=? e0 - s0) && (e0 - s0 <=? p_max P))
    (zrange (e - f) (f + 1))) (zrange s (f + 1)).

Definition rec_row_ok (X : list (list Z)) (prec : Z) (P : params) (l : Z) (r : seqlet) : bool :=
  let x := nth (Z.to_nat (q_idx r)) X [] in
  let s := q_start r in let e := q_end r in
  (0 <=? q_idx r) && (q_idx r <? Z.of_nat (length X))            (* valid example index *)
  && (0 <=? s) && (s <? e) && (e <=? l)                          (* inside the example *)
  && len_ok P l s e                                              (* length before flanks *)
  && (q_p r <=? p_thr P)                                         (* p-value <= threshold *)
  && close prec (3 * (e + 2)) (sum_span (map Z.abs x) 0 e) (q_attr r) (sum_span x s e).

(* inputs inside the property's scope *)
Definition rec_scope (X : list (list Z)) (P : params) : bool :=
  (1 <=? Z.of_nat (length X)) && (1 <=? xlen X) && rect X (xlen X) && (p_l P =? xlen X)
  && (1 <=? p_min P) && (p_min P <=? p_max P) && (0 <=? p_flanks P).

(* ---- tfmodisco_seqlets ---- *)

Definition tf_radius (T : tfparams) : Z := Z.quot (t_window T) 2 + t_flank T.   (* int(0.5*w) + flank *)

Definition tf_row_ok (X : list (list Z)) (prec : Z) (T : tfparams) (l : Z) (r : seqlet) : bool :=
  let x := nth (Z.to_nat (q_idx r)) X [] in
  let s := q_start r in let e := q_end r in
  let cs := s + t_flank T in let ce := e - t_flank T in
  (0 <=? q_idx r) && (q_idx r <? Z.of_nat (length X))
  && (0 <=? s) && (e <=? l) && (e - s =? t_window T + 2 * t_flank T)
  && close prec (t_window T + 2) (sum_span (map Z.abs x) cs ce) (q_attr r) (sum_span x cs ce).

(* starts of two seqlets of one example are not closer than the suppression radius *)
Definition far (radius : Z) (a b : seqlet) : bool :=
  negb (q_idx a =? q_idx b) || (radius <=? Z.abs (q_start a - q_start b)).

Definition tf_scope (X : list (list Z)) (T : tfparams) : bool :=
  (1 <=? Z.of_nat (length X)) && rect X (xlen X)
  && (1 <=? t_window T) && (t_window T <=? xlen X) && (0 <=? t_flank T).

(* ---- the property ---- *)
Definition spec_ok (c : call) (o : outcome) : bool :=
  match c, o with
  | _, Err => true                              (* the text speaks about returned seqlets *)
  | CRec X prec P _ _, Ok t =>
      if rec_scope X P then forallb (rec_row_ok X prec P (xlen X)) t && sorted_p t else true
  | CTf X prec T _, Ok t =>
      if tf_scope X T then forallb (tf_row_ok X prec T (xlen X)) t && pairwise (far (tf_radius T)) t
      else true
  end.

(* ---- the model of a whole call ---- *)

(* DataFrame.sort_values("p-value"): modelled as a stable insertion sort; which sorting
   algorithm pandas uses is not modelled (the tie compares tables as multisets + sortedness) *)
Fixpoint insert_p (a : seqlet) (t : list seqlet) : list seqlet :=
  match t with
  | [] => [a]
  | b :: t' => if q_p a <? q_p b then a :: t else b :: insert_p a t'
  end.
Definition sort_p (t : list seqlet) : list seqlet := fold_right insert_p [] (rev t).

Definition model_raw (c : call) : outcome :=
  match c with
  | CRec X prec P pms csums => extract_all_from extract P 0 pms csums
  | CTf X prec T scores => tf_all_from T 0 X scores
  end.
Definition model (c : call) : outcome :=
  match c with
  | CRec _ _ _ _ _ => do t <- model_raw c ;; Ok (sort_p t)
  | CTf _ _ _ _ => model_raw c
  end.
(* the code before the fix: commit (csum[start-1] with start = 0) *)
Definition model_v0 (c : call) : outcome :=
  match c with
  | CRec X prec P pms csums => do t <- extract_all_from extract_v0 P 0 pms csums ;; Ok (sort_p t)
  | CTf _ _ _ _ => model_raw c
  end.

(* ---- hypotheses of the theorems, as decidable checks (also evaluated on every captured
        matrix in the tie) ---- *)

(* the p-value matrix has max+1 rows of l cells, and the cells the scoring loop never
   writes (k >= l - j) of the rows the extraction reads (min < j <= max) are above threshold *)
Definition shape_ok (P : params) (pm : pmat) : bool :=
  (Z.of_nat (length pm) =? p_max P + 1)
  && forallb (fun row => Z.of_nat (length row) =? p_l P) pm
  && forallb (fun j =>
       if (p_min P <? j)
       then forallb (fun k => (k <? 0) || (p_thr P <? nth (Z.to_nat k) (nth (Z.to_nat j) pm []) 0))
                    (zrange (p_l P - j) j)
       else true) (zrange 0 (p_max P + 1)).

Definition rec_hyps (c : call) : bool :=
  match c with
  | CRec X prec P pms csums =>
      rec_scope X P && (p_thr P <? p_one P)
      && (length pms =? length X)%nat && (length csums =? length X)%nat
      && forallb (shape_ok P) pms
      && forallb (fun cs => Z.of_nat (length cs) =? p_l P) csums
  | _ => false
  end.

(* window scores: l - window + 1 cells per example, the first and last [flank] are -inf
   (the masking done by tfmodisco_seqlets before the extraction), radius as in the code *)
Definition masked (T : tfparams) (l : Z) (row : list score) : bool :=
  let d := l - t_window T + 1 in
  (Z.of_nat (length row) =? d)
  && forallb (fun k => if (k <? t_flank T) || (d - t_flank T <=? k)
                       then match nth (Z.to_nat k) row None with None => true | Some _ => false end
                       else true) (zrange 0 d).

Definition tf_hyps (c : call) : bool :=
  match c with
  | CTf X prec T scores =>
      tf_scope X T && (t_suppress T =? tf_radius T)
      && (length scores =? length X)%nat && forallb (masked T (xlen X)) scores
  | _ => false
  end.

(* the exact cumulative sum (the X_csum loop in exact arithmetic) *)
Fixpoint cumsum_from (acc : Z) (x : list Z) : list Z :=
  match x with
  | [] => []
  | v :: x' => (acc + v) :: cumsum_from (acc + v) x'
  end.
Definition cumsum (x : list Z) : list Z := cumsum_from 0 x.

(* ---- correspondence cases ---- *)
Definition sq_eqb (a b : seqlet) : bool :=
  (q_idx a =? q_idx b) && (q_start a =? q_start b) && (q_end a =? q_end b)
  && (q_attr a =? q_attr b) && (q_p a =? q_p b).

(* same row, attribution equal up to [k] roundings relative to [mass] *)
Definition sq_close (prec : Z) (k : Z) (mass : seqlet -> Z) (impl mdl : seqlet) : bool :=
  (q_idx impl =? q_idx mdl) && (q_start impl =? q_start mdl) && (q_end impl =? q_end mdl)
  && (q_p impl =? q_p mdl) && close prec k (mass mdl) (q_attr impl) (q_attr mdl).

Fixpoint remove_one (a : seqlet) (t : list seqlet) : option (list seqlet) :=
  match t with
  | [] => None
  | b :: t' => if sq_eqb a b then Some t'
               else match remove_one a t' with Some r => Some (b :: r) | None => None end
  end.
Fixpoint perm_b (t1 t2 : list seqlet) : bool :=
  match t1 with
  | [] => match t2 with [] => true | _ => false end
  | a :: t1' => match remove_one a t2 with Some r => perm_b t1' r | None => false end
  end.

Definition tables_close (prec k : Z) (mass : seqlet -> Z) (impl mdl : outcome) : bool :=
  match impl, mdl with
  | Ok a, Ok b => (length a =? length b)%nat
                  && forallb (fun p => sq_close prec k mass (fst p) (snd p)) (combine a b)
  | Err, Err => true
  | _, _ => false
  end.

(* literal compression used by the harness: a p-value row is written as indices into a
   table of the distinct values (table head = the constant 1), trailing cells equal to 1
   are dropped and restored here up to length l *)
Definition unpack (l : Z) (tbl : list Z) (row : list Z) : list Z :=
  map (fun k => nth (Z.to_nat k) tbl 0) row ++ repeat (hd 0 tbl) (Z.to_nat l - length row).

(* one case: the call (with the matrices captured from the running code), the list returned
   by the instrumented pure-Python kernel, the list returned by the compiled kernel, the
   public function's table, and whether the caller's tensor was bit-identical afterwards.
   For tfmodisco the two kernel outcomes are unused (Err).                                *)
Definition case := (call * outcome * outcome * outcome * bool)%type.

Definition agree (c : call) (raw_py raw_jit pub : outcome) : bool :=
  match c with
  | CRec X prec P pms csums =>
      rec_hyps c
      (* the instrumented kernel = the model on the captured matrices; the one float
         subtraction csum[e-1] - csum[s-1] is compared up to its single rounding *)
      && tables_close prec 1 (fun m => Z.abs (q_attr m)) raw_py (model_raw c)
      (* compiled kernel = pure-Python kernel, bit for bit.  Only for float64 input: on
         float32 input numba evaluates 999 * x_ / xmax in float64 where numpy (the plain
         Python run) stays in float32, so the two p-value matrices legitimately differ *)
      && ((prec =? 24) || res_eqb (list_eqb sq_eqb) raw_jit raw_py)
      (* public table = the kernel's rows, reordered *)
      && match pub, raw_jit with
         | Ok a, Ok b => perm_b a b
         | Err, Err => true
         | _, _ => false
         end
  | CTf X prec T scores =>
      tf_hyps c
      && tables_close prec (t_window T + 2)
           (fun m => sum_span (map Z.abs (nth (Z.to_nat (q_idx m)) X []))
                              (q_start m + t_flank T) (q_end m - t_flank T))
           pub (model c)
  end.

Definition check_case (c : case) : nat :=
  let '(cl, raw_py, raw_jit, pub, unchanged) := c in
  verdict (agree cl raw_py raw_jit pub) (unchanged && spec_ok cl pub).
