(* C19 proofs.  Part A: lists, Python indexing, matrix updates.  Part B: recursive_seqlets
   (loop invariant, well-formed rows, exact attribution, termination).  Part C: tfmodisco. *)
From TM Require Import Base.Prelude Base.PyList C19.Model C19.Spec.
Open Scope Z_scope.

(* ==================================================================================== *)
(* Part A *)

Lemma mapi_from_length {A B} (f : nat -> A -> B) l : forall i, length (mapi_from f i l) = length l.
Proof. induction l as [|x xs IH]; intros i; cbn; [reflexivity | now rewrite IH]. Qed.

Lemma nth_mapi_from {A B} (f : nat -> A -> B) l : forall i k d d',
  (k < length l)%nat -> nth k (mapi_from f i l) d' = f (i + k)%nat (nth k l d).
Proof.
  induction l as [|x xs IH]; intros i k d d' H; cbn in *; [lia|].
  destruct k; [now rewrite Nat.add_0_r|].
  rewrite (IH (S i) k d d') by lia. f_equal. lia.
Qed.

Lemma nth_mapi_from_total {A B} (f : nat -> A -> B) l d d' : (forall n, f n d = d') ->
  forall i k, nth k (mapi_from f i l) d' = f (i + k)%nat (nth k l d).
Proof.
  intros Hd. induction l as [|x xs IH]; intros i k; cbn.
  - destruct k; now rewrite Hd.
  - destruct k; [now rewrite Nat.add_0_r|]. rewrite IH. f_equal. lia.
Qed.

Lemma mapi_length {A B} (f : nat -> A -> B) l : length (mapi f l) = length l.
Proof. apply mapi_from_length. Qed.

Lemma nth_mapi {A B} (f : nat -> A -> B) l k d d' :
  (k < length l)%nat -> nth k (mapi f l) d' = f k (nth k l d).
Proof. intros H. unfold mapi. now rewrite (nth_mapi_from f l 0 k d d' H). Qed.

Lemma sumZ_app a b : sumZ (a ++ b) = sumZ a + sumZ b.
Proof.
  unfold sumZ. induction a as [|x xs IH]; cbn [app fold_right]; [reflexivity | rewrite IH; lia].
Qed.

Lemma sumZ_nonneg l : (forall x, In x l -> 0 <= x) -> 0 <= sumZ l.
Proof.
  induction l as [|x xs IH]; intros H; [cbn; lia|].
  assert (0 <= x) by (apply H; now left). assert (0 <= sumZ xs) by (apply IH; intros; apply H; now right).
  unfold sumZ in *. cbn [fold_right]. lia.
Qed.

(* pyget *)
Lemma pyget_ok {A} (d : A) l k : 0 <= k < Z.of_nat (length l) -> pyget d l k = Ok (nth (Z.to_nat k) l d).
Proof.
  intros H. unfold pyget. replace (k <? 0) with false by lia.
  replace ((0 <=? k) && (k <? Z.of_nat (length l))) with true by lia. reflexivity.
Qed.

Lemma pyget_nonneg {A} (d : A) l k v : 0 <= k -> pyget d l k = Ok v ->
  k < Z.of_nat (length l) /\ v = nth (Z.to_nat k) l d.
Proof.
  intros H. unfold pyget. replace (k <? 0) with false by lia.
  destruct ((0 <=? k) && (k <? Z.of_nat (length l))) eqn:E; [|discriminate].
  intros [= <-]. split; [lia | reflexivity].
Qed.

(* rows and cells by Z position *)
Definition rowZ (pm : pmat) (j : Z) : list Z := nth (Z.to_nat j) pm [].
Definition get (pm : pmat) (j k : Z) : Z := nth (Z.to_nat k) (rowZ pm j) 0.

Lemma pm_get_ok pm j k : 0 <= j < Z.of_nat (length pm) -> 0 <= k < Z.of_nat (length (rowZ pm j)) ->
  pm_get pm j k = Ok (get pm j k).
Proof.
  intros Hj Hk. unfold pm_get. rewrite pyget_ok by assumption. cbn [bind].
  fold (rowZ pm j). now rewrite pyget_ok.
Qed.

Definition cell_upd (k v : Z) := fun (kk : nat) (x : Z) => if Z.of_nat kk =? k then v else x.
Definition span_upd (s e one : Z) := fun (kk : nat) (x : Z) =>
  if (s <=? Z.of_nat kk) && (Z.of_nat kk <? e) then one else x.

Lemma set_cell_length pm j k v : length (set_cell pm j k v) = length pm.
Proof. apply mapi_length. Qed.

Lemma set_cell_row pm j k v jj : 0 <= jj ->
  rowZ (set_cell pm j k v) jj = if jj =? j then mapi (cell_upd k v) (rowZ pm jj) else rowZ pm jj.
Proof.
  intros H. unfold rowZ, set_cell, mapi.
  rewrite (nth_mapi_from_total _ pm [] []).
  - cbn [Nat.add]. rewrite Z2Nat.id by assumption. reflexivity.
  - intros n. now destruct (Z.of_nat n =? j).
Qed.

Lemma set_cell_rowlen pm j k v jj : 0 <= jj ->
  length (rowZ (set_cell pm j k v) jj) = length (rowZ pm jj).
Proof. intros H. rewrite set_cell_row by assumption. destruct (jj =? j); [apply mapi_length | reflexivity]. Qed.

Lemma get_set_cell pm j k v jj kk : 0 <= jj -> 0 <= kk < Z.of_nat (length (rowZ pm jj)) ->
  get (set_cell pm j k v) jj kk = if (jj =? j) && (kk =? k) then v else get pm jj kk.
Proof.
  intros Hj Hk. unfold get. rewrite set_cell_row by assumption.
  destruct (jj =? j); cbn [andb]; [|reflexivity].
  rewrite (nth_mapi _ _ _ 0 0) by lia. unfold cell_upd. now rewrite Z2Nat.id by lia.
Qed.

Lemma claim_length pm s e one : length (claim pm s e one) = length pm.
Proof. apply map_length. Qed.

Lemma claim_row pm s e one jj : rowZ (claim pm s e one) jj = mapi (span_upd s e one) (rowZ pm jj).
Proof.
  unfold rowZ, claim.
  change (@nil Z) with (mapi (span_upd s e one) []) at 1. now rewrite map_nth.
Qed.

Lemma claim_rowlen pm s e one jj : length (rowZ (claim pm s e one) jj) = length (rowZ pm jj).
Proof. rewrite claim_row. apply mapi_length. Qed.

Lemma get_claim pm s e one jj kk : 0 <= kk < Z.of_nat (length (rowZ pm jj)) ->
  get (claim pm s e one) jj kk = if (s <=? kk) && (kk <? e) then one else get pm jj kk.
Proof.
  intros Hk. unfold get. rewrite claim_row. rewrite (nth_mapi _ _ _ 0 0) by lia.
  unfold span_upd. now rewrite Z2Nat.id by lia.
Qed.

(* argmin *)
Lemma argmin_from_range l : forall i best bi, 0 <= bi < i ->
  0 <= argmin_from l i best bi < i + Z.of_nat (length l).
Proof.
  induction l as [|x xs IH]; intros i best bi H; cbn [argmin_from length].
  - lia.
  - destruct (x <? best).
    + specialize (IH (i + 1) x i). lia.
    + specialize (IH (i + 1) best bi). lia.
Qed.

Lemma argmin_range row s : argmin row = Ok s -> 0 <= s < Z.of_nat (length row).
Proof.
  destruct row as [|x xs]; cbn [argmin]; [discriminate|]. intros [= <-].
  pose proof (argmin_from_range xs 1 x 0). cbn [length]. lia.
Qed.

Lemma argmin_ok row : row <> [] -> exists s, argmin row = Ok s.
Proof. destruct row; [congruence | eexists; reflexivity]. Qed.

(* triangle *)
Lemma triangle_some pm thr j : forall steps k endp e,
  triangle pm thr j steps k endp = Ok (Some e) -> e = endp + Z.of_nat steps.
Proof.
  induction steps as [|s IH]; intros k endp e; cbn [triangle].
  - intros [= <-]. lia.
  - destruct (pm_get pm (j - k) (endp + 1)) as [v|]; cbn [bind]; [|discriminate].
    destruct (v <? thr); [|discriminate]. intros H. apply IH in H. lia.
Qed.

Lemma triangle_no_err pm thr j : forall steps k endp,
  (forall q, 0 <= q < Z.of_nat steps -> exists v, pm_get pm (j - (k + q)) (endp + q + 1) = Ok v) ->
  exists t, triangle pm thr j steps k endp = Ok t.
Proof.
  induction steps as [|s IH]; intros k endp H; cbn [triangle]; [eexists; reflexivity|].
  destruct (H 0) as [v Hv]; [lia|].
  replace (j - (k + 0)) with (j - k) in Hv by lia. replace (endp + 0 + 1) with (endp + 1) in Hv by lia.
  rewrite Hv. cbn [bind].
  destruct (v <? thr); [|eexists; reflexivity].
  apply IH. intros q Hq. destruct (H (q + 1)) as [w Hw]; [lia|].
  exists w. rewrite <- Hw. f_equal; lia.
Qed.

(* sums over spans *)
Lemma map_nth_seq0 (x : list Z) : forall n, (n <= length x)%nat ->
  map (fun q => nth q x 0) (seq 0 n) = firstn n x.
Proof.
  induction x as [|a x IH]; intros n H; cbn in H.
  - now replace n with 0%nat by lia.
  - destruct n; [reflexivity|]. cbn [seq map firstn nth]. f_equal.
    rewrite <- seq_shift, map_map. apply IH. lia.
Qed.

Lemma map_nth_seq (x : list Z) a n : (a + n <= length x)%nat ->
  map (fun q => nth q x 0) (seq a n) = firstn n (skipn a x).
Proof.
  intros H. rewrite <- (map_nth_seq0 (skipn a x)) by (rewrite skipn_length; lia).
  replace (seq a n) with (map (Nat.add a) (seq 0 n)).
  - rewrite map_map. apply map_ext. intros q. now rewrite nth_skipn.
  - clear. revert a. induction n as [|n IH]; intros a; [reflexivity|].
    cbn [seq map]. rewrite Nat.add_0_r. f_equal. rewrite <- seq_shift, map_map.
    rewrite <- (IH (S a)). apply map_ext. intros; lia.
Qed.

Lemma sum_span_split x s e : 0 <= s <= e -> sum_span x 0 e = sum_span x 0 s + sum_span x s e.
Proof.
  intros H. unfold sum_span. rewrite !Z.sub_0_r. cbn [Z.to_nat].
  replace (Z.to_nat e) with (Z.to_nat s + Z.to_nat (e - s))%nat by lia.
  rewrite seq_app, map_app, sumZ_app. reflexivity.
Qed.

Lemma nth_cumsum_from : forall x acc k, (k < length x)%nat ->
  nth k (cumsum_from acc x) 0 = acc + sumZ (firstn (S k) x).
Proof.
  induction x as [|v x IH]; intros acc k H; cbn in H; [lia|].
  cbn [cumsum_from]. destruct k.
  - cbn. destruct x; cbn; lia.
  - cbn [nth]. rewrite IH by lia. cbn [firstn sumZ fold_right]. fold (sumZ (firstn (S k) x)). lia.
Qed.

Lemma cumsum_length x : length (cumsum x) = length x.
Proof. unfold cumsum. generalize 0. induction x; intros; cbn; [reflexivity | now rewrite IHx]. Qed.

Lemma nth_cumsum x k : 0 <= k < Z.of_nat (length x) ->
  nth (Z.to_nat k) (cumsum x) 0 = sum_span x 0 (k + 1).
Proof.
  intros H. unfold cumsum. rewrite nth_cumsum_from by lia.
  unfold sum_span. rewrite Z.sub_0_r. cbn [Z.to_nat]. rewrite map_nth_seq0 by lia.
  replace (Z.to_nat (k + 1)) with (S (Z.to_nat k)) by lia. lia.
Qed.

Lemma abs_span_nonneg x s e : 0 <= sum_span (map Z.abs x) s e.
Proof.
  unfold sum_span. apply sumZ_nonneg. intros v Hv. apply in_map_iff in Hv as (q & <- & _).
  change 0 with (Z.abs 0) at 2. rewrite map_nth. lia.
Qed.

Lemma in_zrange a n v : a <= v < a + n -> In v (zrange a n).
Proof.
  intros H. unfold zrange. apply in_map_iff. exists (Z.to_nat (v - a)). split; [lia|].
  apply in_seq. lia.
Qed.

Lemma zrange_in a n v : In v (zrange a n) -> a <= v < a + n.
Proof.
  unfold zrange. intros H. apply in_map_iff in H as (k & <- & Hk). apply in_seq in Hk. lia.
Qed.

(* insertion sort *)
Lemma forallb_insert_p f a t : f a = true -> forallb f t = true -> forallb f (insert_p a t) = true.
Proof.
  intros Ha. induction t as [|b t IH]; cbn; intros H; [now rewrite Ha|].
  apply andb_true_iff in H as [Hb Ht].
  destruct (q_p a <? q_p b); cbn; [now rewrite Ha, Hb, Ht | now rewrite Hb, IH].
Qed.

Lemma forallb_sort_p f t : forallb f t = true -> forallb f (sort_p t) = true.
Proof.
  intros H. unfold sort_p. rewrite forallb_forall in H.
  assert (G : forall x, In x (rev t) -> f x = true) by (intros x Hx; apply H; now apply in_rev).
  clear H. induction (rev t) as [|a l IH]; [reflexivity|].
  cbn [fold_right]. apply forallb_insert_p; [apply G; now left | apply IH; intros; apply G; now right].
Qed.

Lemma sorted_insert_p a t : sorted_p t = true -> sorted_p (insert_p a t) = true.
Proof.
  induction t as [|b t IH]; intros H; [reflexivity|].
  cbn [insert_p]. destruct (q_p a <? q_p b) eqn:E.
  - cbn [sorted_p]. apply andb_true_iff. split; [lia | exact H].
  - destruct t as [|c t'].
    + cbn. rewrite andb_true_r. lia.
    + cbn [sorted_p] in H. apply andb_true_iff in H as [Hbc Hs].
      specialize (IH Hs). cbn [insert_p] in *. destruct (q_p a <? q_p c) eqn:E2.
      * cbn [sorted_p] in *. rewrite IH. replace (q_p b <=? q_p a) with true by lia. reflexivity.
      * cbn [sorted_p] in *. rewrite IH. now rewrite Hbc.
Qed.

Lemma sorted_sort_p t : sorted_p (sort_p t) = true.
Proof.
  unfold sort_p. induction (rev t) as [|a l IH]; [reflexivity|]. cbn [fold_right]. now apply sorted_insert_p.
Qed.

(* ==================================================================================== *)
(* Part B: _recursive_seqlets *)

Section Rec.
  Variable P : params.
  Hypothesis Hmin : 1 <= p_min P.
  Hypothesis Hone : p_thr P < p_one P.
  Hypothesis Hfl : 0 <= p_flanks P.

  (* loop invariant on the p-value matrix: shape, and the cells the scoring loop never
     writes stay above the threshold (only the constant 1 is ever written) *)
  Record Inv (pm : pmat) : Prop := {
    inv_rows : Z.of_nat (length pm) = p_max P + 1;
    inv_len : forall j, 0 <= j <= p_max P -> Z.of_nat (length (rowZ pm j)) = p_l P;
    inv_tail : forall j k, p_min P < j <= p_max P -> 0 <= k -> p_l P - j <= k < p_l P ->
                           p_thr P < get pm j k
  }.

  Lemma Inv_set_cell pm j k : Inv pm -> Inv (set_cell pm j k (p_one P)).
  Proof.
    intros [H1 H2 H3]. split.
    - now rewrite set_cell_length.
    - intros jj Hj. rewrite set_cell_rowlen by lia. now apply H2.
    - intros jj kk Hj Hk0 Hk. rewrite get_set_cell by (rewrite ?H2; lia).
      destruct ((jj =? j) && (kk =? k)); [exact Hone | now apply H3].
  Qed.

  Lemma Inv_claim pm s e : Inv pm -> Inv (claim pm s e (p_one P)).
  Proof.
    intros [H1 H2 H3]. split.
    - now rewrite claim_length.
    - intros jj Hj. rewrite claim_rowlen. now apply H2.
    - intros jj kk Hj Hk0 Hk. rewrite get_claim by (rewrite ?H2; lia).
      destruct ((s <=? kk) && (kk <? e)); [exact Hone | now apply H3].
  Qed.

  Variable attrf : list Z -> Z -> Z -> res Z.
  Variable csum : list Z.
  Variable i : Z.

  (* what the loop guarantees about an emitted row: it comes from an unflanked span
     [s0, s0 + len) inside the example with min <= len <= max *)
  Definition good (q : seqlet) : Prop :=
    q_idx q = i /\ q_p q <= p_thr P /\
    exists s0 len, p_min P <= len <= p_max P /\ 0 <= s0 /\ s0 + len <= p_l P /\
      q_start q = Z.max (s0 - p_flanks P) 0 /\
      q_end q = Z.min (s0 + len + p_flanks P) (p_l P) /\
      attrf csum (q_start q) (q_end q) = Ok (q_attr q).

  (* facts about one round, shared by the invariant and the termination proof *)
  Lemma round_facts pm j row start p : Inv pm -> p_min P < j <= p_max P ->
    pyget [] pm j = Ok row -> argmin row = Ok start -> pyget 0 row start = Ok p ->
    row = rowZ pm j /\ 0 <= start < p_l P /\ p = get pm j start /\
    (p <= p_thr P -> start < p_l P - j).
  Proof.
    intros HI Hj Hrow Hst Hp.
    apply pyget_nonneg in Hrow as [_ ->]; [|lia]. fold (rowZ pm j) in *.
    apply argmin_range in Hst. rewrite (inv_len _ HI) in Hst by lia.
    apply pyget_nonneg in Hp as [_ ->]; [|lia]. fold (get pm j start).
    repeat split; try lia.
    intros Hle. destruct (Z_lt_ge_dec start (p_l P - j)) as [|Hge]; [assumption|].
    pose proof (inv_tail _ HI j start Hj). lia.
  Qed.

  Lemma row_loop_inv : forall fuel j pm acc pm' acc',
    p_min P < j <= p_max P -> Inv pm -> Forall good acc ->
    row_loop attrf P csum i fuel j pm acc = Ok (pm', acc') ->
    Inv pm' /\ Forall good acc'.
  Proof.
    induction fuel as [|f IH]; intros j pm acc pm' acc' Hj HI Hacc; cbn [row_loop]; [discriminate|].
    destruct (pyget [] pm j) as [row|] eqn:Erow; cbn [bind]; [|discriminate].
    destruct (argmin row) as [start|] eqn:Est; cbn [bind]; [|discriminate].
    destruct (pyget 0 row start) as [p|] eqn:Ep; cbn [bind]; [|discriminate].
    destruct (round_facts pm j row start p HI Hj Erow Est Ep) as (-> & Hs & -> & Hlt).
    pose proof (Inv_set_cell pm j start HI) as HI1.
    destruct (p_thr P <? get pm j start) eqn:Ethr.
    - intros [= <- <-]. split; assumption.
    - specialize (Hlt ltac:(lia)).
      destruct (triangle _ _ _ _ _ _) as [[e0|]|] eqn:Etri; cbn [bind]; [| |discriminate].
      + apply triangle_some in Etri.
        set (s := Z.max (start - p_flanks P) 0). set (e := Z.min (e0 + p_min P + p_flanks P - 1) (p_l P)).
        destruct (attrf csum s e) as [a|] eqn:Ea; cbn [bind]; [|discriminate].
        apply IH; [assumption | now apply Inv_claim |].
        apply Forall_app. split; [assumption|]. constructor; [|constructor].
        unfold good. cbn [q_idx q_p q_start q_end q_attr]. split; [reflexivity|]. split; [lia|].
        exists start, (j - 1). split; [lia|]. split; [lia|]. split; [lia|].
        split; [reflexivity|]. split; [|exact Ea].
        subst e. f_equal. lia.
      + apply IH; assumption.
  Qed.

  Lemma rows_loop_inv : forall n j pm acc pm' acc',
    p_min P <= j - Z.of_nat n -> j <= p_max P -> Inv pm -> Forall good acc ->
    rows_loop attrf P csum i n j pm acc = Ok (pm', acc') -> Inv pm' /\ Forall good acc'.
  Proof.
    induction n as [|n IH]; intros j pm acc pm' acc' Hlo Hhi HI Hacc; cbn [rows_loop].
    - intros [= <- <-]. split; assumption.
    - destruct (row_loop _ _ _ _ _ _ _ _) as [[pm1 acc1]|] eqn:E; cbn [bind]; [|discriminate].
      apply row_loop_inv in E as [HI1 Hacc1]; [|lia|assumption|assumption].
      cbn [fst snd]. apply IH; try assumption; lia.
  Qed.

  Lemma extract_gen_good pm t : p_min P <= p_max P -> Inv pm ->
    extract_gen attrf P csum i pm = Ok t -> Forall good t.
  Proof.
    intros Hmm HI. unfold extract_gen.
    destruct (rows_loop _ _ _ _ _ _ _ _) as [[pm1 acc1]|] eqn:E; cbn [bind]; [|discriminate].
    intros [= <-]. apply rows_loop_inv in E as [_ H]; try assumption; try lia. constructor.
  Qed.

  (* ---- termination: the number of cells <= threshold in the current row decreases ---- *)
  Definition lowb (x : Z) : bool := x <=? p_thr P.
  Fixpoint count (l : list Z) : nat :=
    match l with [] => O | x :: xs => ((if lowb x then 1 else 0) + count xs)%nat end.

  Lemma count_le_length l : (count l <= length l)%nat.
  Proof. induction l as [|x xs IH]; cbn; [lia | destruct (lowb x); lia]. Qed.

  Lemma count_mapi_from (g : nat -> Z -> Z) : (forall n x, lowb (g n x) = true -> lowb x = true) ->
    forall l n, (count (mapi_from g n l) <= count l)%nat.
  Proof.
    intros Hg. induction l as [|x xs IH]; intros n; cbn [mapi_from count]; [lia|].
    specialize (IH (S n)). destruct (lowb (g n x)) eqn:E; [rewrite (Hg _ _ E); lia | destruct (lowb x); lia].
  Qed.

  Lemma count_mapi_from_strict (g : nat -> Z -> Z) : (forall n x, lowb (g n x) = true -> lowb x = true) ->
    forall l n k, (k < length l)%nat -> lowb (nth k l 0) = true -> lowb (g (n + k)%nat (nth k l 0)) = false ->
    (count (mapi_from g n l) < count l)%nat.
  Proof.
    intros Hg. induction l as [|x xs IH]; intros n k Hk H1 H2; cbn [length] in Hk; [lia|].
    cbn [mapi_from count]. destruct k.
    - cbn [nth] in *. rewrite Nat.add_0_r in H2. rewrite H1, H2.
      pose proof (count_mapi_from g Hg xs (S n)). lia.
    - cbn [nth] in *. specialize (IH (S n) k ltac:(lia) H1).
      replace (S n + k)%nat with (n + S k)%nat in IH by lia. specialize (IH H2).
      destruct (lowb (g n x)) eqn:E; [rewrite (Hg _ _ E); lia | destruct (lowb x); lia].
  Qed.

  Lemma lowb_cell_upd k n x : lowb (cell_upd k (p_one P) n x) = true -> lowb x = true.
  Proof. unfold cell_upd, lowb. destruct (Z.of_nat n =? k); lia. Qed.

  Lemma lowb_span_upd s e n x : lowb (span_upd s e (p_one P) n x) = true -> lowb x = true.
  Proof. unfold span_upd, lowb. destruct ((s <=? Z.of_nat n) && (Z.of_nat n <? e)); lia. Qed.

  Hypothesis Hattr : forall s e, 0 <= s < e -> e <= p_l P -> exists a, attrf csum s e = Ok a.

  Lemma row_loop_terminates : forall fuel j pm acc,
    p_min P < j <= p_max P -> Inv pm -> 1 <= p_l P -> (count (rowZ pm j) < fuel)%nat ->
    exists r, row_loop attrf P csum i fuel j pm acc = Ok r.
  Proof.
    induction fuel as [|f IH]; intros j pm acc Hj HI Hl Hc; [lia|]. cbn [row_loop].
    pose proof (inv_rows _ HI) as Hrows. pose proof (inv_len _ HI j ltac:(lia)) as Hlen.
    rewrite pyget_ok by lia. cbn [bind]. fold (rowZ pm j).
    destruct (argmin_ok (rowZ pm j)) as [start Est]; [destruct (rowZ pm j); cbn in Hlen; [lia|discriminate]|].
    rewrite Est. cbn [bind].
    pose proof (argmin_range _ _ Est) as Hs. rewrite Hlen in Hs.
    rewrite pyget_ok by lia. cbn [bind]. fold (get pm j start).
    destruct (p_thr P <? get pm j start) eqn:Ethr; [eexists; reflexivity|].
    assert (Hlt : start < p_l P - j).
    { destruct (Z_lt_ge_dec start (p_l P - j)) as [|Hge]; [assumption|].
      pose proof (inv_tail _ HI j start Hj). lia. }
    pose proof (Inv_set_cell pm j start HI) as HI1.
    set (pm1 := set_cell pm j start (p_one P)) in *.
    (* the cleared cell makes the count drop *)
    assert (Hc1 : (count (rowZ pm1 j) < count (rowZ pm j))%nat).
    { unfold pm1. rewrite set_cell_row by lia. rewrite Z.eqb_refl. unfold mapi.
      apply (count_mapi_from_strict _ (lowb_cell_upd start) _ 0%nat (Z.to_nat start)).
      - lia.
      - fold (get pm j start). unfold lowb. lia.
      - unfold cell_upd, lowb. cbn [Nat.add]. rewrite Z2Nat.id by lia. rewrite Z.eqb_refl. lia. }
    destruct (triangle_no_err pm1 (p_thr P) j (Z.to_nat (j - p_min P)) 0 start) as [t Et].
    { intros q Hq. eexists. apply pm_get_ok.
      - rewrite (inv_rows _ HI1). lia.
      - rewrite (inv_len _ HI1) by lia. lia. }
    rewrite Et. cbn [bind]. destruct t as [e0|].
    - apply triangle_some in Et.
      set (s := Z.max (start - p_flanks P) 0). set (e := Z.min (e0 + p_min P + p_flanks P - 1) (p_l P)).
      destruct (Hattr s e) as [a Ea]; [lia | lia |]. rewrite Ea. cbn [bind].
      apply IH; [assumption | now apply Inv_claim | assumption |].
      rewrite claim_row. unfold mapi.
      pose proof (count_mapi_from _ (lowb_span_upd s e) (rowZ pm1 j) 0%nat). lia.
    - apply IH; try assumption. lia.
  Qed.

  Lemma rows_loop_terminates : forall n j pm acc,
    p_min P <= j - Z.of_nat n -> j <= p_max P -> Inv pm -> 1 <= p_l P -> Forall good acc ->
    exists r, rows_loop attrf P csum i n j pm acc = Ok r.
  Proof.
    induction n as [|n IH]; intros j pm acc Hlo Hhi HI Hl Hacc; cbn [rows_loop]; [eexists; reflexivity|].
    destruct (row_loop_terminates (row_fuel P) j pm acc) as [[pm1 acc1] E]; try assumption; try lia.
    { pose proof (count_le_length (rowZ pm j)). pose proof (inv_len _ HI j ltac:(lia)).
      unfold row_fuel. lia. }
    rewrite E. cbn [bind fst snd].
    apply row_loop_inv in E as [H1 H2]; [| lia | assumption | assumption].
    apply IH; try assumption; lia.
  Qed.

  Lemma extract_gen_terminates pm : p_min P <= p_max P -> Inv pm -> 1 <= p_l P ->
    exists t, extract_gen attrf P csum i pm = Ok t.
  Proof.
    intros Hmm HI Hl. unfold extract_gen.
    destruct (rows_loop_terminates (Z.to_nat (p_max P - p_min P)) (p_max P) pm []) as [r E];
      try assumption; try lia; [constructor|].
    rewrite E. cbn [bind]. eexists; reflexivity.
  Qed.
End Rec.

(* ---- from the decidable hypotheses to the invariant ---- *)
Lemma shape_ok_Inv P pm : 1 <= p_min P -> shape_ok P pm = true -> Inv P pm.
Proof.
  intros Hmin H. unfold shape_ok in H.
  apply andb_true_iff in H as [H H3]. apply andb_true_iff in H as [H1 H2].
  rewrite forallb_forall in H2, H3. split.
  - lia.
  - intros j Hj. assert (In (rowZ pm j) pm) by (apply nth_In; lia).
    specialize (H2 _ H). lia.
  - intros j k Hj Hk0 Hk. specialize (H3 j (in_zrange 0 (p_max P + 1) j ltac:(lia))).
    replace (p_min P <? j) with true in H3 by lia. rewrite forallb_forall in H3.
    specialize (H3 k (in_zrange (p_l P - j) j k ltac:(lia))). unfold get, rowZ. lia.
Qed.

Lemma attr_fixed_no_err cs s e : 0 <= s < e -> e <= Z.of_nat (length cs) -> exists a, attr_fixed cs s e = Ok a.
Proof.
  intros H1 H2. unfold attr_fixed. rewrite pyget_ok by lia. cbn [bind].
  destruct (0 <? s) eqn:E; [|eexists; reflexivity]. rewrite pyget_ok by lia. eexists; reflexivity.
Qed.

Lemma attr_fixed_exact x s e a : 0 <= s < e -> e <= Z.of_nat (length x) ->
  attr_fixed (cumsum x) s e = Ok a -> a = sum_span x s e.
Proof.
  intros H1 H2. unfold attr_fixed. rewrite pyget_ok by (rewrite cumsum_length; lia). cbn [bind].
  rewrite nth_cumsum by lia. replace (e - 1 + 1) with e by lia.
  destruct (0 <? s) eqn:E.
  - rewrite pyget_ok by (rewrite cumsum_length; lia). cbn [bind]. rewrite nth_cumsum by lia.
    replace (s - 1 + 1) with s by lia. intros [= <-]. rewrite (sum_span_split x s e); lia.
  - intros [= <-]. replace s with 0 by lia. reflexivity.
Qed.

Definition attr_exact_b (X : list (list Z)) (q : seqlet) : bool :=
  q_attr q =? sum_span (nth (Z.to_nat (q_idx q)) X []) (q_start q) (q_end q).

(* one good row satisfies the row-wise spec, with the exact attribution *)
Lemma good_row_ok X prec P q : rec_scope X P = true ->
  0 <= q_idx q < Z.of_nat (length X) ->
  good P attr_fixed (cumsum (nth (Z.to_nat (q_idx q)) X [])) (q_idx q) q ->
  rec_row_ok X prec P (xlen X) q = true /\ attr_exact_b X q = true.
Proof.
  intros Hsc Hidx (_ & Hp & s0 & len & Hlen & Hs0 & Hin & Hs & He & Ha).
  unfold rec_scope in Hsc. repeat (apply andb_true_iff in Hsc as [Hsc ?]).
  assert (Hl : p_l P = xlen X) by lia. rewrite Hl in *.
  set (x := nth (Z.to_nat (q_idx q)) X []) in *.
  assert (Hx : Z.of_nat (length x) = xlen X).
  { unfold rect in *. rewrite forallb_forall in H3. specialize (H3 x ltac:(apply nth_In; lia)). lia. }
  assert (Hse : 0 <= q_start q < q_end q /\ q_end q <= xlen X) by lia.
  apply attr_fixed_exact in Ha; [|lia|lia].
  split; [|unfold attr_exact_b; fold x; lia].
  unfold rec_row_ok. fold x. repeat (apply andb_true_iff; split); try lia.
  - unfold len_ok. apply existsb_exists. exists s0. split; [apply in_zrange; lia|].
    apply existsb_exists. exists (s0 + len). split; [apply in_zrange; lia|]. lia.
  - unfold close. rewrite Ha, Z.sub_diag. change (Z.abs 0) with 0. rewrite Z.mul_0_l.
    pose proof (abs_span_nonneg x 0 (q_end q)). apply Z.leb_le. apply Z.mul_nonneg_nonneg; lia.
Qed.

Lemma extract_all_good P : 1 <= p_min P -> p_thr P < p_one P -> 0 <= p_flanks P -> p_min P <= p_max P ->
  forall X pms i0 t, Forall (Inv P) pms ->
  extract_all_from extract P i0 pms (map cumsum X) = Ok t ->
  Forall (fun q => i0 <= q_idx q < i0 + Z.of_nat (length X) /\
                   good P attr_fixed (cumsum (nth (Z.to_nat (q_idx q - i0)) X [])) (q_idx q) q) t.
Proof.
  intros Hmin Hone Hfl Hmm. induction X as [|x X IH]; intros pms i0 t HI; cbn [map extract_all_from].
  - destruct pms; [|discriminate]. intros [= <-]. constructor.
  - destruct pms as [|pm pms]; [discriminate|]. cbn [extract_all_from].
    destruct (extract pm (cumsum x) P i0) as [a|] eqn:Ea; cbn [bind]; [|discriminate].
    destruct (extract_all_from _ _ _ _ _) as [b|] eqn:Eb; cbn [bind]; [|discriminate].
    intros [= <-]. inversion HI as [|? ? HI1 HI2]; subst.
    apply Forall_app. split.
    + apply (extract_gen_good P Hmin Hone attr_fixed (cumsum x) i0 pm a Hmm HI1) in Ea.
      eapply Forall_impl; [|exact Ea]. intros q Hq. destruct Hq as (Hi & Hrest). cbn [length].
      split; [lia|]. replace (Z.to_nat (q_idx q - i0)) with 0%nat by lia. cbn [nth].
      unfold good. split; [reflexivity | exact Hrest].
    + apply IH in Eb; [|assumption]. eapply Forall_impl; [|exact Eb]. intros q [Hi Hg]. cbn [length].
      split; [lia|]. replace (Z.to_nat (q_idx q - i0)) with (S (Z.to_nat (q_idx q - (i0 + 1)))) by lia.
      exact Hg.
Qed.

Lemma extract_all_terminates P : 1 <= p_min P -> p_thr P < p_one P -> 0 <= p_flanks P ->
  p_min P <= p_max P -> 1 <= p_l P ->
  forall pms csums i0, length pms = length csums -> Forall (Inv P) pms ->
  Forall (fun cs => Z.of_nat (length cs) = p_l P) csums ->
  exists t, extract_all_from extract P i0 pms csums = Ok t.
Proof.
  intros Hmin Hone Hfl Hmm Hl. induction pms as [|pm pms IH]; intros csums i0 Hlen HI Hcs.
  - destruct csums; [|discriminate]. eexists; reflexivity.
  - destruct csums as [|cs csums]; [discriminate|]. cbn [extract_all_from].
    inversion HI; subst. inversion Hcs; subst.
    destruct (extract_gen_terminates P Hmin Hone Hfl attr_fixed cs i0) with (pm := pm) as [a Ea]; try assumption.
    { intros s e Hse1 Hse2. apply attr_fixed_no_err; lia. }
    change (extract_gen attr_fixed P cs i0 pm) with (extract pm cs P i0) in Ea. rewrite Ea. cbn [bind].
    destruct (IH csums (i0 + 1)) as [b Eb]; try assumption; [cbn in Hlen; lia|].
    rewrite Eb. cbn [bind]. eexists; reflexivity.
Qed.

(* the decidable hypotheses, unpacked *)
Lemma rec_hyps_unpack X prec P pms csums : rec_hyps (CRec X prec P pms csums) = true ->
  rec_scope X P = true /\ 1 <= p_min P /\ p_min P <= p_max P /\ 0 <= p_flanks P /\ 1 <= p_l P /\
  p_thr P < p_one P /\ length pms = length X /\ length csums = length X /\
  Forall (Inv P) pms /\ Forall (fun cs => Z.of_nat (length cs) = p_l P) csums.
Proof.
  cbn [rec_hyps]. intros H. repeat (apply andb_true_iff in H as [H ?]).
  assert (Hsc : rec_scope X P = true) by (unfold rec_scope; repeat (apply andb_true_iff; split); assumption).
  repeat split; try lia; try assumption.
  - apply Forall_forall. intros pm Hpm. rewrite forallb_forall in H1. apply shape_ok_Inv; [lia | now apply H1].
  - apply Forall_forall. intros cs Hc. rewrite forallb_forall in H0. specialize (H0 _ Hc). lia.
Qed.

Lemma rec_raw_rows X prec P pms csums t : let c := CRec X prec P pms csums in
  rec_hyps c = true -> csums = map cumsum X -> model_raw c = Ok t ->
  forallb (fun q => rec_row_ok X prec P (xlen X) q && attr_exact_b X q) t = true.
Proof.
  intros c Hh -> Ht. subst c. apply rec_hyps_unpack in Hh as (Hsc & Hmin & Hmm & Hfl & Hl & Hone & Hn & _ & HI & _).
  cbn [model_raw] in Ht. apply extract_all_good in Ht; try assumption.
  apply forallb_forall. intros q Hq. rewrite Forall_forall in Ht. destruct (Ht q Hq) as [Hi Hg].
  rewrite Z.sub_0_r in Hg. destruct (good_row_ok X prec P q Hsc ltac:(lia) Hg) as [-> ->]. reflexivity.
Qed.

Lemma rec_spec X prec P pms csums : let c := CRec X prec P pms csums in
  rec_hyps c = true -> csums = map cumsum X -> spec_ok c (model c) = true.
Proof.
  intros c Hh Hc. subst c. cbn [model]. destruct (model_raw (CRec X prec P pms csums)) as [t|] eqn:E; [|reflexivity].
  cbn [bind spec_ok]. destruct (rec_scope X P); [|reflexivity].
  pose proof (rec_raw_rows X prec P pms csums t Hh Hc E) as H.
  apply andb_true_iff. split; [|apply sorted_sort_p]. apply forallb_sort_p.
  rewrite forallb_forall in *. intros q Hq. specialize (H q Hq). now apply andb_true_iff in H as [-> _].
Qed.

Lemma rec_attr_exact X prec P pms csums t : let c := CRec X prec P pms csums in
  rec_hyps c = true -> csums = map cumsum X -> model c = Ok t ->
  Forall (fun q => q_attr q = sum_span (nth (Z.to_nat (q_idx q)) X []) (q_start q) (q_end q)) t.
Proof.
  intros c Hh Hc. subst c. cbn [model]. destruct (model_raw (CRec X prec P pms csums)) as [t0|] eqn:E; [|discriminate].
  cbn [bind]. intros [= <-].
  pose proof (rec_raw_rows X prec P pms csums t0 Hh Hc E) as H.
  assert (G : forallb (attr_exact_b X) (sort_p t0) = true).
  { apply forallb_sort_p. rewrite forallb_forall in *. intros q Hq. specialize (H q Hq).
    now apply andb_true_iff in H as [_ ->]. }
  apply Forall_forall. intros q Hq. rewrite forallb_forall in G. specialize (G q Hq).
  unfold attr_exact_b in G. lia.
Qed.

Lemma rec_terminates X prec P pms csums : let c := CRec X prec P pms csums in
  rec_hyps c = true -> exists t, model c = Ok t.
Proof.
  intros c Hh. subst c. apply rec_hyps_unpack in Hh as (Hsc & Hmin & Hmm & Hfl & Hl & Hone & Hn & Hn2 & HI & Hcs).
  destruct (extract_all_terminates P Hmin Hone Hfl Hmm Hl pms csums 0) as [t Et]; try assumption; [lia|].
  cbn [model model_raw]. rewrite Et. cbn [bind]. eexists; reflexivity.
Qed.

(* ==================================================================================== *)
(* Part C: tfmodisco_seqlets *)

Section Count.
  Context {A : Type} (low : A -> bool) (d0 : A).
  Fixpoint countp (l : list A) : nat :=
    match l with [] => O | x :: xs => ((if low x then 1 else 0) + countp xs)%nat end.

  Lemma countp_le_length l : (countp l <= length l)%nat.
  Proof. induction l as [|x xs IH]; cbn; [lia | destruct (low x); lia]. Qed.

  Lemma countp_mapi_from (g : nat -> A -> A) : (forall n x, low (g n x) = true -> low x = true) ->
    forall l n, (countp (mapi_from g n l) <= countp l)%nat.
  Proof.
    intros Hg. induction l as [|x xs IH]; intros n; cbn [mapi_from countp]; [lia|].
    specialize (IH (S n)). destruct (low (g n x)) eqn:E; [rewrite (Hg _ _ E); lia | destruct (low x); lia].
  Qed.

  Lemma countp_mapi_from_strict (g : nat -> A -> A) : (forall n x, low (g n x) = true -> low x = true) ->
    forall l n k, (k < length l)%nat -> low (nth k l d0) = true -> low (g (n + k)%nat (nth k l d0)) = false ->
    (countp (mapi_from g n l) < countp l)%nat.
  Proof.
    intros Hg. induction l as [|x xs IH]; intros n k Hk H1 H2; cbn [length] in Hk; [lia|].
    cbn [mapi_from countp]. destruct k.
    - cbn [nth] in *. rewrite Nat.add_0_r in H2. rewrite H1, H2.
      pose proof (countp_mapi_from g Hg xs (S n)). lia.
    - cbn [nth] in *. specialize (IH (S n) k ltac:(lia) H1).
      replace (S n + k)%nat with (n + S k)%nat in IH by lia. specialize (IH H2).
      destruct (low (g n x)) eqn:E; [rewrite (Hg _ _ E); lia | destruct (low x); lia].
  Qed.
End Count.

Lemma FOP_snoc {A} (R : A -> A -> Prop) (l : list A) x :
  ForallOrdPairs R l -> Forall (fun y => R y x) l -> ForallOrdPairs R (l ++ [x]).
Proof.
  induction l as [|a l IH]; intros H1 H2; cbn [app].
  - constructor; constructor.
  - inversion H1; subst. inversion H2; subst. constructor.
    + apply Forall_app. split; [assumption | constructor; [assumption | constructor]].
    + now apply IH.
Qed.

Lemma pairwise_app {A} (r : A -> A -> bool) l1 l2 :
  pairwise r l1 = true -> pairwise r l2 = true ->
  (forall x y, In x l1 -> In y l2 -> r x y = true) -> pairwise r (l1 ++ l2) = true.
Proof.
  induction l1 as [|a l1 IH]; intros H1 H2 H3; cbn [app pairwise]; [assumption|].
  cbn [pairwise] in H1. apply andb_true_iff in H1 as [Ha H1]. apply andb_true_iff. split.
  - rewrite forallb_app. apply andb_true_iff. split; [assumption|].
    apply forallb_forall. intros y Hy. apply H3; [now left | assumption].
  - apply IH; try assumption. intros x y Hx Hy. apply H3; [now right | assumption].
Qed.

Definition sc (row : list score) (k : Z) : score := nth (Z.to_nat k) row None.
Definition is_some (s : score) : bool := match s with Some _ => true | None => false end.

Lemma suppress_slice_length row lo hi : length (suppress_slice row lo hi) = length row.
Proof. apply mapi_length. Qed.

Lemma sc_suppress_slice row lo hi k : 0 <= k < Z.of_nat (length row) ->
  sc (suppress_slice row lo hi) k =
  if (norm (Z.of_nat (length row)) lo <=? k) && (k <? norm (Z.of_nat (length row)) hi) then None else sc row k.
Proof.
  intros H. unfold sc, suppress_slice, score in *. cbv zeta. rewrite (nth_mapi _ _ _ None None) by lia.
  now rewrite Z2Nat.id by lia.
Qed.

Lemma argmax_from_spec l : forall i best bi,
  let r := argmax_from l i best bi in
  (fst r = bi /\ snd r = best) \/
  (i <= fst r < i + Z.of_nat (length l) /\ snd r = nth (Z.to_nat (fst r - i)) l None).
Proof.
  induction l as [|x xs IH]; intros i best bi; cbn [argmax_from length]; [left; split; reflexivity|].
  destruct (score_ltb best x).
  - specialize (IH (i + 1) x i). cbv zeta in IH. destruct IH as [[H1 H2]|[H1 H2]].
    + right. rewrite H1, H2. split; [lia|]. now rewrite Z.sub_diag.
    + right. split; [lia|]. rewrite H2.
      replace (Z.to_nat (fst (argmax_from xs (i + 1) x i) - i)) with
        (S (Z.to_nat (fst (argmax_from xs (i + 1) x i) - (i + 1)))) by lia. reflexivity.
  - specialize (IH (i + 1) best bi). cbv zeta in IH. destruct IH as [[H1 H2]|[H1 H2]].
    + left. split; assumption.
    + right. split; [lia|]. rewrite H2.
      replace (Z.to_nat (fst (argmax_from xs (i + 1) best bi) - i)) with
        (S (Z.to_nat (fst (argmax_from xs (i + 1) best bi) - (i + 1)))) by lia. reflexivity.
Qed.

Lemma argmax_spec row am : argmax row = Ok am ->
  0 <= fst am < Z.of_nat (length row) /\ snd am = sc row (fst am).
Proof.
  destruct row as [|x xs]; cbn [argmax]; [discriminate|]. intros [= <-].
  pose proof (argmax_from_spec xs 1 x 0) as H. cbv zeta in H. unfold sc. cbn [length].
  destruct H as [[H1 H2]|[H1 H2]].
  - rewrite H1, H2. split; [lia | reflexivity].
  - split; [lia|]. rewrite H2.
    replace (Z.to_nat (fst (argmax_from xs 1 x 0))) with (S (Z.to_nat (fst (argmax_from xs 1 x 0) - 1))) by lia.
    reflexivity.
Qed.

Section Tf.
  Variable T : tfparams.
  Variable d : Z.                      (* number of windows of one example *)
  Hypothesis Hf : 0 <= t_flank T.
  Hypothesis Hsup : 0 <= t_suppress T.

  Definition MaskedP (row : list score) : Prop :=
    Z.of_nat (length row) = d /\
    forall k, 0 <= k < d -> (k < t_flank T \/ d - t_flank T <= k) -> sc row k = None.

  (* an emitted (start, end): comes from an arg-max a = start + flank that was not masked,
     and every cell within the suppression radius of a is now -inf *)
  Definition emitted (row : list score) (se : Z * Z) : Prop :=
    let a := fst se + t_flank T in
    snd se = a + t_window T + t_flank T /\ t_flank T <= a < d - t_flank T /\
    forall k, 0 <= k < d -> a - t_suppress T <= k <= a + t_suppress T -> sc row k = None.

  Definition farP (x y : Z * Z) : Prop := t_suppress T < Z.abs (fst x - fst y).
  Definition inside (se : Z * Z) : Prop :=
    snd se = fst se + t_window T + 2 * t_flank T /\ 0 <= fst se /\ fst se + 2 * t_flank T < d.

  Lemma emitted_inside row se : emitted row se -> inside se.
  Proof. unfold emitted, inside. cbv zeta. lia. Qed.

  Lemma iter_loop_inv : forall fuel row acc r,
    MaskedP row -> Forall (emitted row) acc -> ForallOrdPairs farP acc ->
    iter_loop fuel T row acc = Ok r -> Forall inside r /\ ForallOrdPairs farP r.
  Proof.
    induction fuel as [|f IH]; intros row acc r HM Hacc Hfar; cbn [iter_loop]; [discriminate|].
    destruct (argmax row) as [am|] eqn:Eam; cbn [bind]; [|discriminate].
    apply argmax_spec in Eam as [Ha Hv]. destruct HM as [Hlen Hmask]. rewrite Hlen in *.
    destruct (snd am) as [v|] eqn:Esnd.
    - set (a := fst am) in *.
      set (lo := Z.max ((2 * a + 1 - 2 * t_suppress T) / 2) 0).
      set (hi := Z.min (- (- (2 * a + 1 + 2 * t_suppress T) / 2)) d).
      assert (Hlo : norm d lo = Z.min (Z.max (a - t_suppress T) 0) d) by (unfold norm; destruct (lo <? 0) eqn:E; unfold lo in *; lia).
      assert (Hhi : norm d hi = Z.min (a + t_suppress T + 1) d) by (unfold norm; destruct (hi <? 0) eqn:E; unfold hi in *; lia).
      assert (Hnone : forall k, 0 <= k < d -> sc row k = None -> sc (suppress_slice row lo hi) k = None).
      { intros k Hk Hn. rewrite sc_suppress_slice by lia. now destruct (_ && _). }
      assert (Hfa : t_flank T <= a < d - t_flank T).
      { destruct (Z_lt_ge_dec a (t_flank T)); [rewrite Hmask in Hv by lia; discriminate|].
        destruct (Z_lt_ge_dec a (d - t_flank T)); [lia|]. rewrite Hmask in Hv by lia. discriminate. }
      apply IH.
      + split; [rewrite suppress_slice_length; exact Hlen|]. intros k Hk Hm. apply Hnone; [lia | now apply Hmask].
      + apply Forall_app. split.
        * eapply Forall_impl; [|exact Hacc]. intros se (H1 & H2 & H3). repeat split; try assumption; try lia.
          intros k Hk Hr. apply Hnone; [lia | now apply H3].
        * constructor; [|constructor]. unfold emitted. cbn [fst snd]. cbv zeta. repeat split; try lia.
          intros k Hk Hr. rewrite sc_suppress_slice by lia. rewrite Hlen, Hlo, Hhi.
          replace ((Z.min (Z.max (a - t_suppress T) 0) d <=? k) && (k <? Z.min (a + t_suppress T + 1) d)) with true by lia.
          reflexivity.
      + apply FOP_snoc; [assumption|]. eapply Forall_impl; [|exact Hacc].
        intros se (H1 & H2 & H3). unfold farP. cbn [fst].
        destruct (Z_lt_ge_dec (t_suppress T) (Z.abs (fst se - (a - t_flank T)))); [assumption|].
        rewrite H3 in Hv by lia. discriminate.
    - intros [= <-]. split; [|assumption]. eapply Forall_impl; [|exact Hacc]. apply emitted_inside.
  Qed.

  Lemma iterative_extract_ok row r : MaskedP row -> iterative_extract T row = Ok r ->
    Forall inside r /\ ForallOrdPairs farP r.
  Proof. intros HM. unfold iterative_extract. apply iter_loop_inv; [assumption | constructor | constructor]. Qed.

  (* termination: the number of cells that are not -inf decreases every round *)
  Lemma iter_loop_terminates : forall fuel row acc,
    row <> [] -> (countp is_some row < fuel)%nat -> exists r, iter_loop fuel T row acc = Ok r.
  Proof.
    induction fuel as [|f IH]; intros row acc Hne Hc; [lia|]. cbn [iter_loop].
    destruct row as [|x xs] eqn:Erow; [congruence|]. rewrite <- Erow in *.
    assert (exists am, argmax row = Ok am) as [am Eam] by (rewrite Erow; eexists; reflexivity).
    rewrite Eam. cbn [bind]. apply argmax_spec in Eam as [Ha Hv].
    destruct (snd am) as [v|] eqn:Esnd; [|eexists; reflexivity].
    set (a := fst am) in *. apply IH.
    - unfold suppress_slice, mapi. rewrite Erow. cbn. discriminate.
    - assert ((countp is_some (suppress_slice row
          (Z.max ((2 * a + 1 - 2 * t_suppress T) / 2) 0)
          (Z.min (- (- (2 * a + 1 + 2 * t_suppress T) / 2)) (Z.of_nat (length row)))) < countp is_some row)%nat); [|lia].
      unfold suppress_slice, mapi. cbv zeta.
      apply (countp_mapi_from_strict is_some None) with (k := Z.to_nat a).
      + intros n y. destruct (_ && _); [discriminate | auto].
      + lia.
      + fold (sc row a). now rewrite <- Hv.
      + cbn [Nat.add]. rewrite Z2Nat.id by lia.
        match goal with |- is_some (if ?c then _ else _) = false => replace c with true; [reflexivity|] end.
        unfold norm. repeat match goal with |- context [if ?c then _ else _] => destruct c eqn:? end; lia.
  Qed.

  Lemma iterative_extract_terminates row : row <> [] -> exists r, iterative_extract T row = Ok r.
  Proof.
    intros H. unfold iterative_extract. apply iter_loop_terminates; [assumption|].
    pose proof (countp_le_length is_some None row). lia.
  Qed.
End Tf.

Lemma masked_MaskedP T l row : masked T l row = true -> MaskedP T (l - t_window T + 1) row.
Proof.
  unfold masked. cbv zeta. intros H. apply andb_true_iff in H as [H1 H2]. split; [lia|].
  intros k Hk Hm. rewrite forallb_forall in H2. specialize (H2 k (in_zrange 0 (l - t_window T + 1) k ltac:(lia))).
  replace ((k <? t_flank T) || (l - t_window T + 1 - t_flank T <=? k)) with true in H2 by lia.
  unfold sc. destruct (nth (Z.to_nat k) row None); [discriminate | reflexivity].
Qed.

Lemma slice_sum_span x a b : 0 <= a <= b -> b <= Z.of_nat (length x) -> slice_sum x a b = sum_span x a b.
Proof.
  intros H1 H2. unfold slice_sum, sum_span, norm. cbv zeta.
  replace (a <? 0) with false by lia. replace (b <? 0) with false by lia.
  rewrite !Z.min_l by lia. now rewrite map_nth_seq by lia.
Qed.

Definition tfrow (T : tfparams) (l : Z) (x : list Z) (q : seqlet) : Prop :=
  0 <= q_start q /\ q_end q <= l /\ q_end q - q_start q = t_window T + 2 * t_flank T /\
  q_attr q = sum_span x (q_start q + t_flank T) (q_end q - t_flank T).

Lemma tf_attr_fields T x i se : q_idx (tf_attr T x i se) = i /\ q_start (tf_attr T x i se) = fst se
  /\ q_end (tf_attr T x i se) = snd se.
Proof. destruct se; cbn; auto. Qed.

Lemma tf_attr_row T l x i se : 1 <= t_window T -> 0 <= t_flank T -> Z.of_nat (length x) = l ->
  inside T (l - t_window T + 1) se -> tfrow T l x (tf_attr T x i se).
Proof.
  intros Hw Hf Hx (H1 & H2 & H3). destruct se as [s e]. cbn [fst snd] in *. unfold tfrow, tf_attr.
  cbn [q_start q_end q_attr]. replace (e - s - t_window T) with (t_flank T * 2) by lia.
  rewrite Z.quot_mul by lia. repeat split; try lia. apply slice_sum_span; lia.
Qed.

Lemma fop_pairwise T x i r a : r <= t_suppress T + 1 -> ForallOrdPairs (farP T) a ->
  pairwise (far r) (map (tf_attr T x i) a) = true.
Proof.
  intros Hr. induction 1 as [|se l Hse _ IH]; [reflexivity|]. cbn [map pairwise].
  apply andb_true_iff. split; [|exact IH]. apply forallb_forall. intros q Hq.
  apply in_map_iff in Hq as (se' & <- & Hin). rewrite Forall_forall in Hse. specialize (Hse _ Hin).
  unfold far, farP in *. destruct (tf_attr_fields T x i se) as (_ & -> & _).
  destruct (tf_attr_fields T x i se') as (_ & -> & _). apply orb_true_iff. right. lia.
Qed.

Lemma tf_all_good T l r : 1 <= t_window T -> t_window T <= l -> 0 <= t_flank T -> 0 <= t_suppress T ->
  r <= t_suppress T + 1 ->
  forall X scores i0 t, Forall (fun x => Z.of_nat (length x) = l) X ->
  Forall (MaskedP T (l - t_window T + 1)) scores ->
  tf_all_from T i0 X scores = Ok t ->
  Forall (fun q => i0 <= q_idx q < i0 + Z.of_nat (length X) /\
                   tfrow T l (nth (Z.to_nat (q_idx q - i0)) X []) q) t /\ pairwise (far r) t = true.
Proof.
  intros Hw Hwl Hf Hsup Hr. induction X as [|x X IH]; intros scores i0 t HX HM; cbn [tf_all_from].
  - destruct scores; [|discriminate]. intros [= <-]. split; [constructor | reflexivity].
  - destruct scores as [|row scores]; [discriminate|].
    destruct (iterative_extract T row) as [a|] eqn:Ea; cbn [bind]; [|discriminate].
    destruct (tf_all_from T (i0 + 1) X scores) as [b|] eqn:Eb; cbn [bind]; [|discriminate].
    intros [= <-]. inversion HX as [|? ? HX1 HX2]; subst. inversion HM as [|? ? HM1 HM2]; subst.
    destruct (iterative_extract_ok T (Z.of_nat (length x) - t_window T + 1) Hf Hsup row a HM1 Ea) as [Hins Hfop].
    apply IH in Eb as [Hb1 Hb2]; try assumption. split.
    + apply Forall_app. split.
      * apply Forall_forall. intros q Hq. apply in_map_iff in Hq as (se & <- & Hse).
        destruct (tf_attr_fields T x i0 se) as (Hi & _ & _). rewrite Hi. cbn [length]. split; [lia|].
        rewrite Z.sub_diag. cbn [Z.to_nat nth]. apply tf_attr_row; try assumption; try reflexivity.
        rewrite Forall_forall in Hins. now apply Hins.
      * eapply Forall_impl; [|exact Hb1]. intros q [Hi Hq]. cbn [length]. split; [lia|].
        replace (Z.to_nat (q_idx q - i0)) with (S (Z.to_nat (q_idx q - (i0 + 1)))) by lia. exact Hq.
    + apply pairwise_app; [now apply fop_pairwise | assumption |].
      intros q1 q2 H1 H2. apply in_map_iff in H1 as (se & <- & _).
      rewrite Forall_forall in Hb1. destruct (Hb1 _ H2) as [Hi _].
      unfold far. destruct (tf_attr_fields T x i0 se) as (-> & _ & _).
      apply orb_true_iff. left. apply negb_true_iff. lia.
Qed.

Lemma tf_all_terminates T : 0 <= t_suppress T -> forall X scores i0, length scores = length X ->
  Forall (fun row : list score => row <> []) scores -> exists t, tf_all_from T i0 X scores = Ok t.
Proof.
  intros Hsup. induction X as [|x X IH]; intros scores i0 Hlen Hne.
  - destruct scores; [|discriminate]. eexists; reflexivity.
  - destruct scores as [|row scores]; [discriminate|]. cbn [tf_all_from]. inversion Hne; subst.
    destruct (iterative_extract_terminates T Hsup row) as [a Ea]; [assumption|]. rewrite Ea. cbn [bind].
    destruct (IH scores (i0 + 1)) as [b Eb]; [cbn in Hlen; lia | assumption |]. rewrite Eb. cbn [bind].
    eexists; reflexivity.
Qed.

Lemma tf_hyps_unpack X prec T scores : tf_hyps (CTf X prec T scores) = true ->
  tf_scope X T = true /\ 1 <= Z.of_nat (length X) /\ 1 <= t_window T /\ t_window T <= xlen X /\ 0 <= t_flank T /\
  t_suppress T = tf_radius T /\ 0 <= t_suppress T /\ length scores = length X /\
  Forall (fun x => Z.of_nat (length x) = xlen X) X /\
  Forall (MaskedP T (xlen X - t_window T + 1)) scores.
Proof.
  cbn [tf_hyps]. intros H.
  apply andb_true_iff in H as [H HM]. apply andb_true_iff in H as [H Hlen]. apply andb_true_iff in H as [Hsc Hs].
  pose proof Hsc as H. unfold tf_scope in H.
  apply andb_true_iff in H as [H Hf]. apply andb_true_iff in H as [H Hwl]. apply andb_true_iff in H as [H Hw].
  apply andb_true_iff in H as [Hn Hrect].
  assert (Hq : 0 <= Z.quot (t_window T) 2) by (apply Z.quot_pos; lia).
  unfold tf_radius in *. repeat split; try lia; try assumption.
  - apply Forall_forall. intros x Hx. unfold rect in *. rewrite forallb_forall in Hrect. specialize (Hrect _ Hx). lia.
  - apply Forall_forall. intros row Hrow. rewrite forallb_forall in HM. apply masked_MaskedP. now apply HM.
Qed.

Lemma tf_row_ok_of X prec T q : 1 <= t_window T ->
  0 <= q_idx q < Z.of_nat (length X) ->
  tfrow T (xlen X) (nth (Z.to_nat (q_idx q)) X []) q -> tf_row_ok X prec T (xlen X) q = true.
Proof.
  intros Hw Hi (H1 & H2 & H3 & H4). unfold tf_row_ok. cbv zeta.
  repeat (apply andb_true_iff; split); try lia.
  unfold close. rewrite H4, Z.sub_diag. change (Z.abs 0) with 0. rewrite Z.mul_0_l.
  pose proof (abs_span_nonneg (nth (Z.to_nat (q_idx q)) X []) (q_start q + t_flank T) (q_end q - t_flank T)).
  apply Z.leb_le. apply Z.mul_nonneg_nonneg; lia.
Qed.

Lemma tf_spec X prec T scores : let c := CTf X prec T scores in
  tf_hyps c = true -> spec_ok c (model c) = true.
Proof.
  intros c Hh. subst c. apply tf_hyps_unpack in Hh as (Hsc & Hn & Hw & Hwl & Hf & Hs & Hs0 & Hlen & HX & HM).
  cbn [model model_raw]. destruct (tf_all_from T 0 X scores) as [t|] eqn:E; [|reflexivity].
  cbn [spec_ok]. rewrite Hsc.
  apply (tf_all_good T (xlen X) (tf_radius T) Hw Hwl Hf Hs0 ltac:(lia)) in E as [H1 H2]; try assumption.
  rewrite H2, andb_true_r. apply forallb_forall. intros q Hq. rewrite Forall_forall in H1.
  destruct (H1 q Hq) as [Hi Hr]. rewrite Z.sub_0_r in Hr. apply tf_row_ok_of; [assumption | lia | assumption].
Qed.

Lemma tf_rows_exact X prec T scores t : let c := CTf X prec T scores in
  tf_hyps c = true -> model c = Ok t ->
  Forall (fun q => q_attr q = sum_span (nth (Z.to_nat (q_idx q)) X []) (q_start q + t_flank T) (q_end q - t_flank T)) t
  /\ pairwise (far (tf_radius T + 1)) t = true.
Proof.
  intros c Hh. subst c. apply tf_hyps_unpack in Hh as (Hsc & Hn & Hw & Hwl & Hf & Hs & Hs0 & Hlen & HX & HM).
  cbn [model model_raw]. intros E.
  apply (tf_all_good T (xlen X) (tf_radius T + 1) Hw Hwl Hf Hs0 ltac:(lia)) in E as [H1 H2]; try assumption.
  split; [|assumption]. eapply Forall_impl; [|exact H1]. intros q [_ (_ & _ & _ & H)].
  now rewrite Z.sub_0_r in H.
Qed.

Lemma tf_terminates X prec T scores : let c := CTf X prec T scores in
  tf_hyps c = true -> exists t, model c = Ok t.
Proof.
  intros c Hh. subst c. apply tf_hyps_unpack in Hh as (Hsc & Hn & Hw & Hwl & Hf & Hs & Hs0 & Hlen & HX & HM).
  cbn [model model_raw]. apply tf_all_terminates; [assumption|assumption|].
  eapply Forall_impl; [|exact HM]. intros row [Hl _] ->. cbn in Hl. lia.
Qed.
