(* C19 model: the extraction loops of tangermeme/seqlet.py.

   _recursive_seqlets (per example, lines "for j in range(max_seqlet_len - min_seqlet_len)"
   to the end of the function) over an ARBITRARY p-value matrix, and
   _iterative_extract_seqlets + the attribution loop of tfmodisco_seqlets over an ARBITRARY
   row of window scores.  The float statistics that produce the p-value matrix / the window
   scores are not modelled: the matrices are inputs.

   Numbers.  Every float of a call is a dyadic rational; the harness multiplies all
   attribution-like values (X, X_csum, attributions, window scores) by one power of two and
   all p-value-like values (p-value matrix, threshold, reported p-values) by another, so
   that they are exact integers.  Comparisons (<, >, arg-min, arg-max) and the exact
   subtraction of two cumulative sums are scale invariant; the constant 1 written into the
   p-value matrix is the scaled integer [one].  -inf window scores are [None].

   Array reads go through Python index semantics ([pyget]: a negative index wraps once,
   anything still out of range raises) so that X_csum[i, start-1] with start = 0 reads the
   last cell, exactly as in the code.  No proofs here.                                   *)
From TM Require Import Base.Prelude.
Open Scope Z_scope.

(* ------------------------------------------------------------------------------------ *)
(* Python-style indexing *)

Definition pyget {A} (d : A) (l : list A) (k : Z) : res A :=
  let n := Z.of_nat (length l) in
  let k' := if k <? 0 then k + n else k in
  if (0 <=? k') && (k' <? n) then Ok (nth (Z.to_nat k') l d) else Err.

(* map with the (nat) position *)
Fixpoint mapi_from {A B} (f : nat -> A -> B) (i : nat) (l : list A) : list B :=
  match l with
  | [] => []
  | x :: xs => f i x :: mapi_from f (S i) xs
  end.
Definition mapi {A B} (f : nat -> A -> B) (l : list A) : list B := mapi_from f 0 l.

(* ------------------------------------------------------------------------------------ *)
(* _recursive_seqlets: the extraction loop *)

Definition pmat := list (list Z).          (* p_value[j][k], (max_seqlet_len+1) x l *)

Record seqlet := Sq { q_idx : Z; q_start : Z; q_end : Z; q_attr : Z; q_p : Z }.

Record params := Pm {
  p_thr : Z;        (* threshold, scaled *)
  p_one : Z;        (* the constant 1, scaled *)
  p_min : Z;        (* min_seqlet_len *)
  p_max : Z;        (* max_seqlet_len *)
  p_flanks : Z;     (* additional_flanks *)
  p_l : Z           (* l = X.shape[1] *)
}.

(* p_value[j, k] *)
Definition pm_get (pm : pmat) (j k : Z) : res Z :=
  do row <- pyget [] pm j ;; pyget 0 row k.

(* numpy argmin of a 1-d array: first position of the minimum; empty raises *)
Fixpoint argmin_from (l : list Z) (i : Z) (best : Z) (bi : Z) : Z :=
  match l with
  | [] => bi
  | x :: xs => if x <? best then argmin_from xs (i + 1) x i
               else argmin_from xs (i + 1) best bi
  end.
Definition argmin (l : list Z) : res Z :=
  match l with
  | [] => Err
  | x :: xs => Ok (argmin_from xs 1 x 0)
  end.

(* p_value[j, k] = v   (j, k already known to be in range and non-negative) *)
Definition set_cell (pm : pmat) (j k : Z) (v : Z) : pmat :=
  mapi (fun jj row => if (Z.of_nat jj =? j)
                      then mapi (fun kk x => if Z.of_nat kk =? k then v else x) row
                      else row) pm.

(* for n_idx in range(max_seqlet_len+1): for s_idx in range(start, end): p_value[n_idx, s_idx] = 1
   (the matrix has exactly max_seqlet_len+1 rows; 0 <= start, end <= l) *)
Definition claim (pm : pmat) (s e one : Z) : pmat :=
  map (mapi (fun kk x => if (s <=? Z.of_nat kk) && (Z.of_nat kk <? e) then one else x)) pm.

(* the inner  for k in range(j - min_seqlet_len): ... else:  loop.  Some end' when the loop
   ran to completion (the for-else branch), None when it hit break *)
Fixpoint triangle (pm : pmat) (thr j : Z) (steps : nat) (k endp : Z) : res (option Z) :=
  match steps with
  | O => Ok (Some endp)
  | S s => do v <- pm_get pm (j - k) (endp + 1) ;;
           if v <? thr then triangle pm thr j s (k + 1) (endp + 1) else Ok None
  end.

(* attr = X_csum[i, end-1]; if start > 0: attr -= X_csum[i, start-1]      (after the fix) *)
Definition attr_fixed (csum : list Z) (s e : Z) : res Z :=
  do a <- pyget 0 csum (e - 1) ;;
  if 0 <? s then do b <- pyget 0 csum (s - 1) ;; Ok (a - b) else Ok a.

(* attr = X_csum[i, end-1] - X_csum[i, start-1]                          (before the fix) *)
Definition attr_v0 (csum : list Z) (s e : Z) : res Z :=
  do a <- pyget 0 csum (e - 1) ;;
  do b <- pyget 0 csum (s - 1) ;; Ok (a - b).

Section Extract.
  Variable attrf : list Z -> Z -> Z -> res Z.
  Variable P : params.
  Variable csum : list Z.
  Variable i : Z.

  (* the  while True:  loop for one length j; one unit of fuel per round *)
  Fixpoint row_loop (fuel : nat) (j : Z) (pm : pmat) (acc : list seqlet)
    : res (pmat * list seqlet) :=
    match fuel with
    | O => Err
    | S f =>
        do row <- pyget [] pm j ;;
        do start <- argmin row ;;
        do p <- pyget 0 row start ;;
        let pm1 := set_cell pm j start (p_one P) in
        if p_thr P <? p then Ok (pm1, acc)
        else
          do t <- triangle pm1 (p_thr P) j (Z.to_nat (j - p_min P)) 0 start ;;
          match t with
          | None => row_loop f j pm1 acc
          | Some e0 =>
              let s := Z.max (start - p_flanks P) 0 in
              let e := Z.min (e0 + p_min P + p_flanks P - 1) (p_l P) in
              do a <- attrf csum s e ;;
              row_loop f j (claim pm1 s e (p_one P)) (acc ++ [Sq i s e a p])
          end
    end.

  (* fuel for one length: every round that does not leave the loop turns one cell that was
     <= threshold into 1, so l + 1 rounds always suffice (Proofs.v: extract_terminates) *)
  Definition row_fuel : nat := S (Z.to_nat (p_l P)).

  (* for j in range(max - min): j = max - j *)
  Fixpoint rows_loop (n : nat) (j : Z) (pm : pmat) (acc : list seqlet)
    : res (pmat * list seqlet) :=
    match n with
    | O => Ok (pm, acc)
    | S n' => do r <- row_loop row_fuel j pm acc ;;
              rows_loop n' (j - 1) (fst r) (snd r)
    end.

  Definition extract_gen (pm : pmat) : res (list seqlet) :=
    do r <- rows_loop (Z.to_nat (p_max P - p_min P)) (p_max P) pm [] ;; Ok (snd r).
End Extract.

Definition extract (pm : pmat) (csum : list Z) (P : params) (i : Z) : res (list seqlet) :=
  extract_gen attr_fixed P csum i pm.
Definition extract_v0 (pm : pmat) (csum : list Z) (P : params) (i : Z) : res (list seqlet) :=
  extract_gen attr_v0 P csum i pm.

(* all examples: the p-value matrix of example i is scored afresh before its extraction
   (captured from the running code), seqlets are appended in example order *)
Fixpoint extract_all_from (ex : pmat -> list Z -> params -> Z -> res (list seqlet))
  (P : params) (i : Z) (pms : list pmat) (csums : list (list Z)) : res (list seqlet) :=
  match pms, csums with
  | [], [] => Ok []
  | pm :: pms', cs :: csums' =>
      do a <- ex pm cs P i ;;
      do b <- extract_all_from ex P (i + 1) pms' csums' ;; Ok (a ++ b)
  | _, _ => Err
  end.

(* ------------------------------------------------------------------------------------ *)
(* tfmodisco_seqlets: _iterative_extract_seqlets for one example, then the attribution *)

Definition score := option Z.               (* None = -inf *)

(* numpy/torch argmax: first position of the maximum, -inf below everything *)
Definition score_ltb (a b : score) : bool :=
  match a, b with
  | None, Some _ => true
  | Some x, Some y => x <? y
  | _, None => false
  end.
Fixpoint argmax_from (l : list score) (i : Z) (best : score) (bi : Z) : Z * score :=
  match l with
  | [] => (bi, best)
  | x :: xs => if score_ltb best x then argmax_from xs (i + 1) x i
               else argmax_from xs (i + 1) best bi
  end.
Definition argmax (l : list score) : res (Z * score) :=
  match l with
  | [] => Err
  | x :: xs => Ok (argmax_from xs 1 x 0)
  end.

(* Python slice bound normalisation for a sequence of length d *)
Definition norm (d k : Z) : Z := if k <? 0 then Z.max (k + d) 0 else Z.min k d.

(* X_sum[i, l_idx:r_idx] = -inf *)
Definition suppress_slice (row : list score) (lo hi : Z) : list score :=
  let d := Z.of_nat (length row) in
  let lo' := norm d lo in let hi' := norm d hi in
  mapi (fun kk x => if (lo' <=? Z.of_nat kk) && (Z.of_nat kk <? hi') then None else x) row.

Record tfparams := Tf { t_window : Z; t_flank : Z; t_suppress : Z }.

(* while True: argmax; if -inf: break; append (argmax - flank, argmax + window + flank);
   l_idx = int(max(floor(argmax + 0.5 - suppress), 0)); r_idx = int(min(ceil(argmax + 0.5 + suppress), d))
   (halves written as (2a+1-2s)/2 with floor division; ceil x = -floor(-x)) *)
Fixpoint iter_loop (fuel : nat) (T : tfparams) (row : list score) (acc : list (Z * Z))
  : res (list (Z * Z)) :=
  match fuel with
  | O => Err
  | S f =>
      do am <- argmax row ;;
      match snd am with
      | None => Ok acc
      | Some _ =>
          let a := fst am in
          let d := Z.of_nat (length row) in
          let l_idx := Z.max ((2 * a + 1 - 2 * t_suppress T) / 2) 0 in
          let r_idx := Z.min (- ((- (2 * a + 1 + 2 * t_suppress T)) / 2)) d in
          iter_loop f T (suppress_slice row l_idx r_idx)
                    (acc ++ [(a - t_flank T, a + t_window T + t_flank T)])
      end
  end.

(* every round that does not stop turns the arg-max cell into -inf: d + 1 rounds suffice *)
Definition iterative_extract (T : tfparams) (row : list score) : res (list (Z * Z)) :=
  iter_loop (S (length row)) T row [].

(* X_attr[example, a:b].sum() with Python slice semantics *)
Definition sumZ (l : list Z) : Z := fold_right Z.add 0 l.
Definition slice_sum (x : list Z) (a b : Z) : Z :=
  let n := Z.of_nat (length x) in
  let a' := norm n a in let b' := norm n b in
  sumZ (firstn (Z.to_nat (b' - a')) (skipn (Z.to_nat a') x)).

(* attr_flank = int(0.5 * ((end-start) - window_size)): truncation toward zero *)
Definition tf_attr (T : tfparams) (x : list Z) (i : Z) (se : Z * Z) : seqlet :=
  let (s, e) := se in
  let attr_flank := Z.quot ((e - s) - t_window T) 2 in
  Sq i s e (slice_sum x (s + attr_flank) (e - attr_flank)) 0.

Fixpoint tf_all_from (T : tfparams) (i : Z) (X : list (list Z)) (scores : list (list score))
  : res (list seqlet) :=
  match X, scores with
  | [], [] => Ok []
  | x :: X', row :: scores' =>
      do a <- iterative_extract T row ;;
      do b <- tf_all_from T (i + 1) X' scores' ;;
      Ok (map (tf_attr T x i) a ++ b)
  | _, _ => Err
  end.
