(* C19 - property theorems only.  Each is closed by [exact] of a lemma from Proofs.v.

   Hypotheses, all decidable and evaluated on every captured matrix by the tie (Spec.agree):
     rec_hyps : the call is in scope (>= 1 example, rectangular X, 1 <= min <= max, flanks >= 0,
                l = X.shape[1] >= 1), threshold < 1, one p-value matrix and one cumulative sum
                per example, every matrix has (max+1) x l cells and its never-scored cells
                (k >= l - j, rows min < j <= max) are above the threshold  -- otherwise ARBITRARY;
     tf_hyps  : in scope (1 <= window <= l, flank >= 0), suppress = int(window/2) + flank, one
                score row of l - window + 1 cells per example whose first/last [flank] cells
                are -inf -- otherwise ARBITRARY.                                              *)
From TM Require Import Base.Prelude C19.Model C19.Spec C19.Proofs.
Open Scope Z_scope.

(* recursive_seqlets: for every p-value matrix, exact cumulative sum, min <= max, flanks >= 0
   and threshold < 1, every row of the (sorted) table has a valid example index,
   0 <= start < end <= l, comes from an unflanked span of length in [min, max] inside the
   example, has p <= threshold and attribution = sum of X over [start, end); the table is
   sorted by p-value. *)
Theorem c19_recursive_seqlets : forall X prec P pms csums,
  rec_hyps (CRec X prec P pms csums) = true -> csums = map cumsum X ->
  spec_ok (CRec X prec P pms csums) (model (CRec X prec P pms csums)) = true.
Proof. exact rec_spec. Qed.
Print Assumptions c19_recursive_seqlets.

(* ... with the attribution EXACTLY the span sum (spec_ok only demands it up to float rounding) *)
Theorem c19_recursive_attr_exact : forall X prec P pms csums t,
  rec_hyps (CRec X prec P pms csums) = true -> csums = map cumsum X ->
  model (CRec X prec P pms csums) = Ok t ->
  Forall (fun q => q_attr q = sum_span (nth (Z.to_nat (q_idx q)) X []) (q_start q) (q_end q)) t.
Proof. exact rec_attr_exact. Qed.
Print Assumptions c19_recursive_attr_exact.

(* the extraction never reads out of range and the stated fuel (l + 1 rounds per length)
   suffices: the model returns a table, for ANY cumulative-sum array of length l *)
Theorem c19_recursive_terminates : forall X prec P pms csums,
  rec_hyps (CRec X prec P pms csums) = true -> exists t, model (CRec X prec P pms csums) = Ok t.
Proof. exact rec_terminates. Qed.
Print Assumptions c19_recursive_terminates.

(* tfmodisco_seqlets: for every masked score tensor, every row spans window + 2 flank
   positions inside its example, reports the sum over the central window, and two rows of
   one example have starts at least the suppression radius apart *)
Theorem c19_tfmodisco_seqlets : forall X prec T scores,
  tf_hyps (CTf X prec T scores) = true ->
  spec_ok (CTf X prec T scores) (model (CTf X prec T scores)) = true.
Proof. exact tf_spec. Qed.
Print Assumptions c19_tfmodisco_seqlets.

(* ... exactly the central-window sum, and starts differ by MORE than the radius *)
Theorem c19_tfmodisco_exact_far : forall X prec T scores t,
  tf_hyps (CTf X prec T scores) = true -> model (CTf X prec T scores) = Ok t ->
  Forall (fun q => q_attr q = sum_span (nth (Z.to_nat (q_idx q)) X [])
                                (q_start q + t_flank T) (q_end q - t_flank T)) t
  /\ pairwise (far (tf_radius T + 1)) t = true.
Proof. exact tf_rows_exact. Qed.
Print Assumptions c19_tfmodisco_exact_far.

(* d + 1 rounds per example suffice *)
Theorem c19_tfmodisco_terminates : forall X prec T scores,
  tf_hyps (CTf X prec T scores) = true -> exists t, model (CTf X prec T scores) = Ok t.
Proof. exact tf_terminates. Qed.
Print Assumptions c19_tfmodisco_terminates.

(* ---- the hypotheses are satisfiable: a captured run (corpus/C19/start0_flank.json: one
        example of 40 integer-valued positions, bump at 1..4, threshold 0.1, min 3, max 5,
        additional_flanks 2; p-values scaled by 2^55) ---- *)
Definition witness : call :=
  (CRec [[0x1; 0x9; 0x5; 0xa; 0x2; (-0x2); (-0x2); 0x0; 0x0; 0x1; 0x0; 0x0; (-0x1); 0x2; 0x2;
    (-0x1); 0x0; 0x0; 0x0; (-0x1); (-0x2); 0x2; 0x0; (-0x1); (-0x1); 0x0; 0x1; (-0x2); (-0x1);
    0x2; (-0x2); 0x1; (-0x3); 0x0; 0x1; (-0x1); 0x1; 0x0; (-0x1); 0x1]] 53 (Pm 0xccccccccccccd
    0x80000000000000 3 5 2 40) (let tbl := [0x80000000000000; 0x5aaaaaaaaaaaac;
    0x313b13b13b13b0; 0x35555555555558; 0x37a6f4de9bd37c; 0x10000000000004; 0x69bd37a6f4de9c;
    0x4; 0x3b13b13b13b138; 0x50000000000000; 0x0; 0x1d89d89d89d89c; 0x5d1745d1745d18;
    0x65555555555558; 0x9d89d89d89d88; 0x13b13b13b13b10; 0x1bd37a6f4de9c0; 0x20000000000000;
    0x3a2e8ba2e8ba30; 0xaaaaaaaaaaab0; 0xba2e8ba2e8ba0; 0x1745d1745d1744; 0x22e8ba2e8ba2e8] in
    [(map (unpack 40 tbl) [[]; []; [];
    [0;10;14;15;5;7;5;2;2;2;3;2;11;11;2;3;1;3;19;3;1;2;5;5;1;3;5;3;3;2;7;5;5;1;2;1;1];
    [0;10;14;15;16;7;4;8;8;6;8;2;2;11;8;4;1;3;4;4;1;6;16;4;1;3;6;3;6;2;7;4;5;1;8;1];
    [0;10;20;21;17;7;9;12;13;6;8;18;18;22;12;4;1;9;9;4;1;6;9;4;1;13;6;3;6;2;7;4;17;12;13]])])
    [[0x1; 0xa; 0xf; 0x19; 0x1b; 0x19; 0x17; 0x17; 0x17; 0x18; 0x18; 0x18; 0x17; 0x19; 0x1b;
    0x1a; 0x1a; 0x1a; 0x1a; 0x19; 0x17; 0x19; 0x19; 0x18; 0x17; 0x17; 0x18; 0x16; 0x15; 0x17;
    0x15; 0x16; 0x13; 0x13; 0x14; 0x13; 0x14; 0x14; 0x13; 0x14]]).

Example witness_in_scope :
  rec_hyps witness = true
  /\ match witness with CRec X _ _ _ csums => csums = map cumsum X | _ => False end
  /\ model witness = Ok [Sq 0 0 6 25 0].
Proof. vm_compute. repeat split. Qed.

(* the code before the fix commit: attr = X_csum[i, end-1] - X_csum[i, start-1] wraps to the
   row total when additional_flanks clips start to 0: the seqlet [0, 6) reports 25 - 20 = 5
   instead of 25 *)
Lemma attr_start0_v0_refuted : exists c,
  rec_hyps c = true
  /\ match c with CRec X _ _ _ csums => csums = map cumsum X | _ => False end
  /\ spec_ok c (model_v0 c) = false.
Proof. exists witness. vm_compute. repeat split. Qed.

Example tf_witness_in_scope :
  let c := CTf [[1; 2; 3; 4; 5; 6; 7; 8]] 24 (Tf 2 1 2)
               [[None; Some 5; None; None; None; Some 9; None]] in
  tf_hyps c = true /\ model c = Ok [Sq 0 4 8 13 0; Sq 0 0 4 5 0].
Proof. vm_compute. split; reflexivity. Qed.
