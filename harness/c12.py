"""C12 - FIMO hits: correspondence of tangermeme.tools.fimo.fimo with coq/C12.

The harness builds the float log-odds matrices exactly as fimo does (numpy, same dtype), hands
every entry to Coq as an exact dyadic rational (integer numerator over one 2^K per call),
integerises with the same numpy.round, and prints the implementation's hits with their float
score / p-value converted exactly.  All comparing (tolerances, ambiguous band) is done in Coq."""
import json
import math
import os
import shutil
import subprocess
import sys
from fractions import Fraction

import numpy

from . import common as C

os.environ.setdefault('NUMBA_NUM_THREADS', '16')

PID = 'C12'
COQ_DIRS = ['C11', 'C12']
IMPORTS = ['C11.Model', 'C11.Spec', 'C12.Model', 'C12.Spec']
CASE_TYPE = 'case'
CHECK = 'check_case'
SHARD = 28
RULE = ('1-8 motifs of width 2-20 (dirichlet PWMs of varying sharpness, float32 and float64), random sequences '
        'and sequences with the consensus (or its reverse complement) planted at every offset 0..L-w, lengths '
        '1-120 incl. shorter than / equal to the motif, N and other unknown characters, lower case (FASTA), '
        'thresholds 1e-1..1e-6, bins 0.05-1, eps 1e-6-1e-2, FASTA file vs one-hot tensor, dim 0/1, '
        'return_counts, reverse_complement on/off, numba threads 1-16; all calls of a run go through one long-lived '
        'worker process (a dead interpreter = failing input); multi-call cases (+pre buckets): a fresh motif set is first '
        'scanned with another eps / bin_size / threshold / reverse_complement / mode / other sequences, then the checked '
        'call; n-run cases: runs of N at least as long as the motif with motif/threshold/bin combinations whose '
        'threshold bin is exactly 0 (score 0.0 vs threshold 0.0 is decided exactly: no hit); forms cases: MEME-file motifs, '
        'non-contiguous / requires_grad / oddly named motif tensors, width-1 motifs, sequence tensors and numpy arrays of '
        'dtypes float16-64, int8-64, uint8, bool, FASTA line widths 1-100000, CRLF, descriptions, unsorted names, empty '
        'records, missing final newline, alphabet as list/str/tuple in 4 orders, int and numpy.float64 parameters, '
        'parameters left at their defaults, thresholds 0.5/0.25/1/16, the same objects passed twice (arguments must be '
        'unchanged); non-trivial = a call with at least one '
        'hit window and one non-hit window; buckets ending in amb1 contain a window within 1e-7 of its score '
        'threshold (membership there is excluded from the comparison inside Coq)')
TRUSTED = ['C12: the harness recomputes log2(pwm+eps)-log2(0.25) with numpy in the dtype fimo uses and converts each '
           'entry exactly (Fraction); a different formula in the code shows up as differing scores',
           'C12: pandas frames are read back column by column; sequence names of FASTA input are mapped to indices; '
           'dim=1 frames are ordered by sequence index (the property leaves the order open)']
ASSUMPTIONS = ['float64 accumulation of the window score, int(score/bin) in floats, fastmath on _fast_hits and the numba '
               'thread schedule are not modelled: results are compared within 1e-9, windows within 1e-9 of the '
               'threshold are excluded, thread counts 1-16 are run',
               'pyfaidx returns the bytes of the FASTA file']
TMP = '/tmp/c12_verif'
LETTERS = 'ACGT'
_counter = [0]


# ------------------------------------------------------------------------------------------------
# inputs

def pwm_array(m, dtype):
    return numpy.array(m, dtype=numpy.float32 if dtype == 'f32' else numpy.float64)


def log_odds(m, dtype, eps):
    """exactly the expression of fimo(): numpy.log2(motif_pwms + eps) - math.log2(0.25); eps keeps the
    type it is passed with (a numpy.float64 eps promotes a float32 PWM to float64, a Python float
    does not)"""
    return numpy.log2(pwm_array(m, dtype) + eps) - math.log2(0.25)


def order_of(inp):
    """row order of the alphabet as fimo sees it: the `alphabet` argument matters for FASTA input only"""
    if inp.get('input') == 'fasta' and inp.get('alphabet'):
        return inp['alphabet']['order']
    return LETTERS


def seq_idx(s, order=LETTERS):
    return [order.index(ch) if ch in order else -1 for ch in s.upper()]


def mdtype(inp):
    return 'f64' if inp.get('meme') else inp['dtype']


def one_hot(seqs):
    import torch
    L = len(seqs[0])
    X = torch.zeros(len(seqs), 4, L, dtype=torch.float32)
    for b, s in enumerate(seqs):
        for i, k in enumerate(seq_idx(s)):
            if k >= 0:
                X[b, k, i] = 1
    return X


MIXED_NAMES = ['chr10', 'chr2', '1', 'X', 'seqB', 'chr1_random', 'a', 'Z9', 'chr11', '02', 'scaffold-7', 'b']


def seq_names(inp):
    n = len(inp['seqs'])
    if inp.get('fasta', {}).get('names') == 'mixed':
        return [MIXED_NAMES[i] if i < len(MIXED_NAMES) else 'q%03d' % i for i in range(n)]
    return ['s%03d' % i for i in range(n)]


def motif_names(inp):
    n = len(inp['motifs'])
    if inp.get('names') == 'odd' and not inp.get('meme'):
        return ['MA%04d.%d fox-%d-rc' % (i, i % 3, i) if i % 2 == 0 else 'x y\tz%d' % i for i in range(n)]
    return ['m%d' % i for i in range(n)]


def build_motifs(inp):
    """the `motifs` argument: dict of torch tensors (optionally non-contiguous / requiring grad) or
    the path of a MEME file (values have 6 decimals, so the text is exact)"""
    import torch
    names = motif_names(inp)
    if inp.get('meme'):
        lay = inp['meme'] if isinstance(inp['meme'], dict) else {}
        compact = lay.get('compact', False)          # no blank line / URL line between motifs
        os.makedirs(TMP, exist_ok=True)
        _counter[0] += 1
        path = os.path.join(TMP, 'm%d_%d.meme' % (os.getpid(), _counter[0]))
        out = ['MEME version 4', '', 'ALPHABET= ACGT', '', 'strands: + -', '',
               'Background letter frequencies', 'A 0.25 C 0.25 G 0.25 T 0.25', '']
        if compact:
            out = ['MEME version 4', 'ALPHABET= ACGT']
        for nm, m in zip(names, inp['motifs']):
            w = len(m[0])
            out.append('MOTIF %s' % nm)
            out.append('letter-probability matrix: alength= 4 w= %d nsites= 20 E= 0' % w)
            for j in range(w):
                out.append(' '.join('%.6f' % m[a][j] for a in range(4)))
            if not compact:
                if lay.get('url'):
                    out.append('URL http://example.org/%s' % nm)
                out.append('')
        while out and out[-1] == '':
            out.pop()
        txt = '\n'.join(out) + ('\n' if lay.get('final_nl', True) else '')
        with open(path, 'w') as f:
            f.write(txt)
        return path, names, [path]
    tdt = torch.float32 if inp['dtype'] == 'f32' else torch.float64
    d = {}
    for nm, m in zip(names, inp['motifs']):
        t = torch.tensor(m, dtype=tdt)
        if inp.get('noncontig'):
            t = t.T.contiguous().T
        if inp.get('grad'):
            t.requires_grad_(True)
        d[nm] = t
    return d, names, []


def build_sequences(inp):
    """the `sequences` argument: a FASTA path (line width, CRLF, descriptions, unsorted names, empty
    records, missing final newline) or a one-hot torch tensor / numpy array of any dtype"""
    import torch
    if inp['input'] == 'fasta':
        fa = inp.get('fasta', {})
        os.makedirs(TMP, exist_ok=True)
        _counter[0] += 1
        path = os.path.join(TMP, 'x%d_%d.fa' % (os.getpid(), _counter[0]))
        nl = '\r\n' if fa.get('crlf') else '\n'
        width = int(fa.get('width', 60))
        lines = []
        for i, (nm, s) in enumerate(zip(seq_names(inp), inp['seqs'])):
            lines.append('>%s%s' % (nm, ' len=%d some description' % len(s) if fa.get('desc') and i % 2 == 0 else ''))
            for a in range(0, len(s), width):
                lines.append(s[a:a + width])
        txt = nl.join(lines) + (nl if fa.get('final_nl', True) else '')
        with open(path, 'w', newline='') as f:
            f.write(txt)
        return path, [path, path + '.fai']
    X = one_hot(inp['seqs'])
    if inp.get('noncontig'):
        X = X.permute(0, 2, 1).contiguous().permute(0, 2, 1)
    sd = inp.get('seq_dtype', 'float32')
    if inp['input'] == 'numpy':
        X = X.numpy().astype(sd)
    else:
        X = X.to(getattr(torch, sd))
    return X, []


def snapshot(x):
    import torch
    if isinstance(x, dict):
        return {k: v.detach().clone() for k, v in x.items()}
    if isinstance(x, torch.Tensor):
        return x.clone()
    if isinstance(x, numpy.ndarray):
        return x.copy()
    if isinstance(x, str) and os.path.exists(x):
        return open(x, 'rb').read()
    return x


def same(a, b):
    import torch
    if isinstance(a, dict):
        return all(torch.equal(a[k].detach(), b[k]) for k in a)
    if isinstance(a, torch.Tensor):
        return bool(torch.equal(a, b))
    if isinstance(a, numpy.ndarray):
        return bool(numpy.array_equal(a, b))
    if isinstance(a, str) and os.path.exists(a):
        return open(a, 'rb').read() == b
    return True


DEFAULTS = {'bin': 0.1, 'eps': 0.0001, 'thr': 0.0001}


def ptyped(inp, x, key):
    pt = inp.get('ptype', 'float')
    if inp.get('defaults') and x == DEFAULTS[key]:
        return x                     # the argument is omitted from the call: fimo's own Python float
    if pt == 'np64':
        return numpy.float64(x)
    if pt == 'int' and key == 'bin' and float(x) == 1.0:
        return 1
    return x


def call_fimo(inp):
    """one checked fimo() call (twice on the very same objects when inp['reuse']); returns
    (result, motif names, sequence names)"""
    import numba
    from tangermeme.tools.fimo import fimo
    trash = []
    try:
        numba.set_num_threads(max(1, min(int(inp.get('threads', 1)), numba.config.NUMBA_NUM_THREADS)))
        motifs, names, t1 = build_motifs(inp)
        trash += t1
        sequences, t2 = build_sequences(inp)
        trash += t2
        mode = inp['mode']
        kw = dict(bin_size=ptyped(inp, inp['bin'], 'bin'), eps=ptyped(inp, inp['eps'], 'eps'),
                  threshold=ptyped(inp, inp['thr'], 'thr'), reverse_complement=inp['rc'],
                  return_counts=(mode == 'counts'), dim=1 if mode == 'dim1' else 0)
        if inp.get('alphabet'):
            o = inp['alphabet']['order']
            kw['alphabet'] = {'str': o, 'tuple': tuple(o), 'list': list(o)}[inp['alphabet'].get('form', 'list')]
        if inp.get('defaults'):
            # leave parameters that have their default value out of the call
            for k, dv in (('bin_size', 0.1), ('eps', 0.0001), ('threshold', 0.0001), ('reverse_complement', True),
                          ('return_counts', False), ('dim', 0)):
                if kw[k] == dv:
                    del kw[k]
        snap = (snapshot(motifs), snapshot(sequences))
        res = fimo(motifs, sequences, **kw)
        if inp.get('reuse'):
            res = fimo(motifs, sequences, **kw)          # same objects again: nothing may have changed
        if not (same(motifs, snap[0]) and same(sequences, snap[1])):
            raise RuntimeError('verif: fimo modified its arguments')
        return res, names, seq_names(inp)
    finally:
        for p in trash:
            try:
                os.remove(p)
            except OSError:
                pass


def run_local(inp):
    try:
        # earlier calls in the same process on the same motif set with other parameters
        # (inp['pre']: list of overrides); their results are dropped, only their side effects on
        # module-level state can matter for the call that is checked
        for ov in inp.get('pre', []):
            try:
                call_fimo(dict(inp, **ov))
            except Exception:
                pass
        res, names, seqnames = call_fimo(inp)
        mode = inp['mode']
        try:
            scan = [int(x) for x in float_scan(inp)]
        except Exception:
            scan = [0, 0, 0]
        if mode == 'counts':
            return {'ok': True, 'counts': [int(x) for x in res], 'scan': scan}
        sidx = {nm: i for i, nm in enumerate(seqnames)}
        groups = []
        for df in res:
            g = []
            cols = {c: df[c].tolist() for c in ('motif_name', 'motif_idx', 'sequence_name', 'start', 'end',
                                                'strand', 'score', 'p-value')}
            for r in range(len(df)):
                k = int(cols['motif_idx'][r])
                if not (0 <= k < len(names)) or cols['motif_name'][r] != names[k]:
                    k = -7                                   # name and index disagree: a wrong field
                sn = cols['sequence_name'][r]
                l = sidx.get(sn, -7) if inp['input'] == 'fasta' else int(sn)
                st = cols['strand'][r]
                g.append([k, l, int(cols['start'][r]), int(cols['end'][r]),
                          1 if st == '+' else 0 if st == '-' else -7,
                          float(cols['score'][r]), float(cols['p-value'][r])])
            groups.append(g)
        if mode == 'dim1':
            groups.sort(key=lambda g: (min(h[1] for h in g) if g else -1))
        return {'ok': True, 'groups': groups, 'scan': scan}
    except Exception as e:
        return {'ok': False, 'err': repr(e)[:300], 'scan': [0, 0, 0]}


# compiled numba kernels do not bounds-check: every implementation call runs in one long-lived
# worker process (so that module-level state persists from call to call, as in a user's session);
# if the interpreter dies the case is a failing input and the worker is restarted
_WORKER = None


def _worker():
    global _WORKER
    if _WORKER is None or _WORKER.poll() is not None:
        env = dict(os.environ, VERIF_FIMO_WORKER='1')
        _WORKER = subprocess.Popen([sys.executable, '-W', 'ignore', '-m', 'harness.c12', '--worker'],
                                   stdin=subprocess.PIPE, stdout=subprocess.PIPE,
                                   stderr=subprocess.DEVNULL, text=True, cwd=C.VERIF, env=env)
    return _WORKER


def run_impl(inp):
    global _WORKER
    if os.environ.get('VERIF_FIMO_WORKER') == '1':
        return run_local(inp)
    w = _worker()
    line = ''
    try:
        w.stdin.write(json.dumps(inp) + '\n')
        w.stdin.flush()
        while True:
            line = w.stdout.readline()
            if not line or line.startswith('@@'):
                break
    except (BrokenPipeError, OSError):
        line = ''
    if not line:
        try:
            w.kill()
        except Exception:
            pass
        rc = w.wait()
        _WORKER = None
        return {'ok': False, 'crash': True, 'scan': [0, 0, 0],
                'err': 'CRASH: the interpreter died during the call (exit %s)' % rc}
    return json.loads(line[2:])


def worker_main():
    for line in sys.stdin:
        out = run_local(json.loads(line))
        sys.stdout.write('@@' + json.dumps(out) + '\n')
        sys.stdout.flush()


# ------------------------------------------------------------------------------------------------
# Coq literals

def qlit(x):
    fr = Fraction(x)
    return '(mkQ %s %d)' % (C.z(fr.numerator), fr.denominator)


def call_lit(inp):
    los = [log_odds(m, mdtype(inp), ptyped(inp, inp['eps'], 'eps')) for m in inp['motifs']]
    fr = [[[Fraction(float(lo[a, j])) for a in range(4)] for j in range(lo.shape[1])] for lo in los]
    K = 0
    for m in fr:
        for col in m:
            for f in col:
                K = max(K, f.denominator.bit_length() - 1)
    mots = []
    for lo, m in zip(los, fr):
        zs = [[int(f.numerator * (1 << K) // f.denominator) for f in col] for col in m]
        im = numpy.round(lo.astype(numpy.float64) / numpy.float64(inp['bin'])).astype(numpy.int32)
        ims = [[int(im[a, j]) for a in range(4)] for j in range(im.shape[1])]
        mots.append('(Mo %s %s)' % (C.zmat(zs), C.zmat(ims)))
    mode = {'dim0': 'Dim0', 'dim1': 'Dim1', 'counts': 'Counts'}[inp['mode']]
    return '(Call %s %s %s %s %s %s %s)' % (
        C.z(K), C.lst(mots), qlit(inp['bin']), qlit(inp['thr']),
        C.lst([C.zlist(seq_idx(s, order_of(inp))) for s in inp['seqs']]), C.boolean(inp['rc']), mode)


def hit_lit(h):
    k, l, s, e, plus, sc, p = h
    if plus not in (0, 1) or sc != sc or p != p or abs(sc) == math.inf or abs(p) == math.inf:
        k, plus, sc, p = -7, 1, 0.0, -1.0                     # unreadable field: certainly wrong
    return '(Hit %s %s %s %s %s %s %s)' % (C.z(k), C.z(l), C.z(s), C.z(e), C.boolean(plus == 1),
                                            qlit(sc), qlit(p))


def coq_case(inp, out):
    if not out['ok']:
        o = 'Err'
    elif inp['mode'] == 'counts':
        o = '(Ok (OCounts %s))' % C.zlist(out['counts'])
    else:
        o = '(Ok (%s %s))' % ('ODim0' if inp['mode'] == 'dim0' else 'ODim1',
                              C.lst([C.lst([hit_lit(h) for h in g]) for g in out['groups']]))
    return '(%s, %s)' % (call_lit(inp), o)


# ------------------------------------------------------------------------------------------------
# evidence helpers: an independent float scanner (numpy), used only to describe the cases

def float_scan(inp):
    """(#windows, #windows above threshold, #windows within 1e-7 of the threshold), in floats"""
    from tangermeme.tools.fimo import _pwm_to_mapping
    n_win = n_hit = n_amb = 0
    for m in inp['motifs']:
        lo = log_odds(m, mdtype(inp), ptyped(inp, inp['eps'], 'eps')).astype(numpy.float64)
        for strand in ((0, 1) if inp['rc'] else (0,)):
            mat = lo[::-1, ::-1] if strand else lo
            sm, tab = _pwm_to_mapping(numpy.ascontiguousarray(mat), float(inp['bin']))
            idx = numpy.where(tab < math.log2(inp['thr']))[0]
            T = (idx[0] + sm) * inp['bin'] if len(idx) else math.inf
            w = mat.shape[1]
            for s in inp['seqs']:
                x = seq_idx(s, order_of(inp))
                for i in range(len(x) - w + 1):
                    sc = sum(mat[x[i + j], j] for j in range(w) if x[i + j] >= 0)
                    n_win += 1
                    n_hit += sc > T
                    n_amb += abs(sc - T) < 1e-7
    return n_win, n_hit, n_amb


def nontrivial(inp, out):
    n_win, n_hit, _ = out.get('scan', [0, 0, 0])
    return bool(out['ok']) and 0 < n_hit < n_win


def hist_key(inp, out):
    n_amb = out.get('scan', [0, 0, 0])[2]
    form = ''.join('+' + k for k in ('pre', 'reuse', 'meme', 'noncontig', 'alphabet') if inp.get(k))
    if inp.get('seq_dtype', 'float32') != 'float32':
        form += '+' + inp['seq_dtype']
    if inp.get('ptype'):
        form += '+p' + inp['ptype']
    return '%s%s/%s/rc%d/%s/t%d/amb%d' % (inp['input'], form, inp['mode'], inp['rc'],
                                          'ok' if out['ok'] else ('crash' if out.get('crash') else 'raise'),
                                          min(inp.get('threads', 1), 16) // 4 * 4, 1 if n_amb else 0)


def tags(inp, out):
    return set()


# ------------------------------------------------------------------------------------------------
# generators

def rand_pwm(rng, w, sharp):
    cols = []
    for _ in range(w):
        c = [rng.gammavariate(sharp, 1.0) + 1e-12 for _a in range(4)]
        if rng.random() < 0.1:
            c = [0.25] * 4
        elif rng.random() < 0.1:
            k = rng.randrange(4)
            c = [1.0 if a == k else 0.0 for a in range(4)]
        t = sum(c)
        cols.append([x / t for x in c])
    # round through float32 so that the JSON value is the tensor value, then renormalise is not
    # needed: columns sum to 1 within 1e-7
    return [[float(numpy.float32(cols[j][a])) for j in range(w)] for a in range(4)]


def consensus(m, rc=False):
    w = len(m[0])
    s = ''.join(LETTERS[max(range(4), key=lambda a: m[a][j])] for j in range(w))
    if rc:
        s = ''.join({'A': 'T', 'C': 'G', 'G': 'C', 'T': 'A'}[ch] for ch in reversed(s))
    return s


def rand_seq(rng, L, pn=0.0):
    alphabet = 'ACGT'
    return ''.join(('N' if rng.random() < pn else rng.choice(alphabet)) for _ in range(L))


def base_case(rng, quick=True):
    nm = rng.choice([1, 1, 2, 3, 4, 8]) if quick else rng.randint(1, 8)
    motifs = []
    for _ in range(nm):
        w = rng.choice([2, 3, 4, 5, 6, 8, 10, 12, 15, 20])
        motifs.append(rand_pwm(rng, w, rng.choice([0.05, 0.1, 0.2, 0.5, 1.0])))
    return {'kind': 'random', 'motifs': motifs, 'dtype': 'f32' if rng.random() < 0.8 else 'f64',
            'bin': rng.choice([0.1, 0.1, 0.1, 0.05, 0.2, 0.5, 1.0, 0.25, 0.125, 0.05]),
            'eps': rng.choice([1e-4, 1e-4, 1e-4, 1e-6, 1e-3, 1e-2, 0.1]),
            'thr': rng.choice([1e-1, 1e-2, 1e-3, 1e-4, 1e-4, 1e-5, 1e-6, 10 ** rng.uniform(-6, -1)]),
            'rc': rng.random() < 0.7, 'mode': rng.choice(['dim0', 'dim0', 'dim1', 'counts']),
            'threads': rng.choice([1, 2, 3, 4, 8, 16, rng.randint(1, 16)])}


def with_seqs(rng, c, planted):
    c = dict(c)
    ws = [len(m[0]) for m in c['motifs']]
    fasta = rng.random() < 0.5
    pn = rng.choice([0.0, 0.0, 0.02, 0.1])
    if planted:
        k = rng.randrange(len(ws))
        w = ws[k]
        L = w + rng.choice([0, 1, 2, 5, 9])
        word = consensus(c['motifs'][k], rc=(rng.random() < 0.4))
        bg = rng.choice(['rand', 'N', 'A'])
        seqs = []
        for o in range(L - w + 1):                       # every offset incl. 0 and L - w
            s = rand_seq(rng, L, pn) if bg == 'rand' else ('N' * L if bg == 'N' else 'A' * L)
            seqs.append(s[:o] + word + s[o + w:])
        if fasta and rng.random() < 0.5:                 # plus sequences shorter than the motif
            seqs += [rand_seq(rng, max(1, w - d)) for d in (1, 2, w - 1) if w - d >= 1]
        c['kind'] = 'planted'
        # a threshold the consensus can reach (the tail of the top score is at least 4^-w)
        c['thr'] = max(c['thr'], min(0.1, 8.0 * 4.0 ** -w))
    else:
        nseq = rng.choice([1, 1, 2, 3, 5])
        if fasta:
            wpick = rng.choice(ws)
            lens = [rng.choice([1, 2, max(1, wpick - 1), wpick, wpick + 1, rng.randint(1, 120), rng.randint(20, 120)])
                    for _ in range(nseq)]
        else:
            lens = [rng.choice([1, rng.choice(ws), rng.choice(ws) + 1, rng.randint(1, 120), rng.randint(20, 120)])] * nseq
        seqs = [rand_seq(rng, L, pn) for L in lens]
        if rng.random() < 0.5:                           # drop a few consensus words in
            for _ in range(rng.randint(1, 4)):
                k = rng.randrange(len(ws))
                b = rng.randrange(len(seqs))
                if len(seqs[b]) >= ws[k]:
                    o = rng.choice([0, len(seqs[b]) - ws[k], rng.randint(0, len(seqs[b]) - ws[k])])
                    word = consensus(c['motifs'][k], rc=(rng.random() < 0.5))
                    seqs[b] = seqs[b][:o] + word + seqs[b][o + ws[k]:]
    if fasta:
        if rng.random() < 0.3:
            seqs = [s.lower() if rng.random() < 0.5 else s for s in seqs]
        if rng.random() < 0.2:
            seqs = [''.join(rng.choice('RYXn-') if rng.random() < 0.03 else ch for ch in s) for s in seqs]
        c['input'] = 'fasta'
    else:
        L = len(seqs[0])
        seqs = [s for s in seqs if len(s) == L]
        c['input'] = 'tensor' if rng.random() < 0.8 else 'numpy'
    c['seqs'] = seqs
    return c


def variants(rng, c):
    """the same motifs and sequences through the other interfaces: one hit set, many views"""
    yield c
    same_len = len(set(len(s) for s in c['seqs'])) == 1 and all(set(s) <= set('ACGTN') for s in c['seqs'])
    for mode in ('dim0', 'dim1', 'counts'):
        for inputk in ('fasta', 'tensor'):
            if inputk == 'tensor' and not same_len:
                continue
            if mode == c['mode'] and inputk == c['input']:
                continue
            if rng.random() < 0.35:
                d = dict(c)
                d.update(mode=mode, input=inputk, threads=rng.choice([1, 2, 5, 8, 16]))
                yield d
    if rng.random() < 0.3:
        d = dict(c)
        d.update(rc=not c['rc'], mode='counts')
        yield d


def exact_b0(m, dtype, eps, b, thr):
    """threshold bin of a motif by an exact integer DP (python ints): least bin whose tail
    probability is below thr; used only to steer the generator towards threshold bin 0"""
    lo = log_odds(m, dtype, eps)
    im = numpy.round(lo.astype(numpy.float64) / numpy.float64(b)).astype(numpy.int64)
    dist = {0: 1}
    for j in range(im.shape[1]):
        nd = {}
        for sc, cnt in dist.items():
            for a in range(4):
                t = sc + int(im[a, j])
                nd[t] = nd.get(t, 0) + cnt
        dist = nd
    total = 4 ** im.shape[1]
    thr = Fraction(thr)
    tail = 0
    best = max(dist) + 1
    for sc in sorted(dist, reverse=True):
        tail += dist[sc]
        if Fraction(tail, total) < thr:
            best = sc
        else:
            break
    # bins between attainable scores share the tail of the next attainable score above
    lower = [sc for sc in dist if sc < best]
    return (max(lower) + 1) if lower else best


def n_run_cases(rng, quick):
    """windows made only of unknown characters score exactly 0.0; with a motif / threshold / bin
    whose threshold bin is exactly 0 the comparison score > thresh is 0.0 > 0.0: no hit"""
    want = 6 if quick else 30
    found = tries = 0
    while found < want and tries < 4000:
        tries += 1
        w = rng.choice([3, 4, 5, 6, 7, 8])
        m = rand_pwm(rng, w, rng.choice([0.2, 0.5, 1.0, 2.0]))
        b = rng.choice([0.1, 0.1, 0.5, 1.0, 0.2])
        thr = rng.choice([1e-1, 1e-1, 1e-1, 1e-2, 0.2])
        eps = rng.choice([1e-4, 1e-3])
        try:
            b0 = exact_b0(m, 'f32', eps, b, thr)
        except Exception:
            continue
        if b0 != 0 and not (found % 3 == 2 and abs(b0) == 1):
            continue
        found += 1
        run = 'N' * (w + rng.choice([0, 1, 3, 6]))
        seqs = [rand_seq(rng, rng.randint(0, 10)) + run + rand_seq(rng, rng.randint(0, 10)),
                rand_seq(rng, w + 5), run]
        tens = rng.random() < 0.5
        if tens:
            L = max(len(x) for x in seqs)
            seqs = [x + 'N' * (L - len(x)) for x in seqs]
        yield {'kind': 'n-run', 'motifs': [m], 'dtype': 'f32', 'bin': b, 'eps': eps, 'thr': thr,
               'rc': rng.random() < 0.7, 'mode': rng.choice(['dim0', 'dim0', 'dim1', 'counts']),
               'threads': rng.choice([1, 4]), 'input': 'tensor' if tens else 'fasta', 'seqs': seqs}


def multi_call(rng, c):
    """the same motif set scanned before with one parameter changed (eps, bin_size, threshold,
    reverse_complement, other sequences): cross-call state must not leak into the checked call"""
    what = rng.choice(['eps', 'eps', 'eps', 'bin', 'thr', 'rc', 'seqs', 'mode', 'threads', 'dtype'])
    if what == 'eps':
        ov = {'eps': rng.choice([e for e in (1e-6, 1e-4, 1e-3, 1e-2, 0.1) if e != c['eps']])}
    elif what == 'bin':
        ov = {'bin': rng.choice([x for x in (0.05, 0.1, 0.2, 0.5, 1.0) if x != c['bin']])}
    elif what == 'thr':
        ov = {'thr': rng.choice([x for x in (1e-1, 1e-2, 1e-3, 1e-5) if x != c['thr']])}
    elif what == 'rc':
        ov = {'rc': not c['rc']}
    elif what == 'mode':
        ov = {'mode': rng.choice([x for x in ('dim0', 'dim1', 'counts') if x != c['mode']])}
    elif what == 'threads':
        ov = {'threads': rng.choice([1, 3, 16])}
    elif what == 'dtype':
        ov = {'dtype': 'f64' if c['dtype'] == 'f32' else 'f32'}
    else:
        ov = {'seqs': [rand_seq(rng, len(x), 0.05) for x in c['seqs']]}
    d = dict(c)
    d['pre'] = [ov] + ([{'eps': rng.choice([1e-5, 1e-2])}] if rng.random() < 0.25 else [])
    return d


def rc_string(s):
    comp = {'A': 'T', 'C': 'G', 'G': 'C', 'T': 'A', 'a': 't', 'c': 'g', 'g': 'c', 't': 'a'}
    return ''.join(comp.get(ch, ch) for ch in reversed(s))


def forms_case(rng, quick):
    """accepted input forms and parameter forms of fimo(), a few at a time on a fresh case"""
    c = with_seqs(rng, base_case(rng, quick), planted=rng.random() < 0.5)
    c['kind'] = 'forms'
    c['thr'] = rng.choice([c['thr'], c['thr'], 1e-1, 1e-2, 0.5, 0.25, 0.0625])
    if c['thr'] > 0.05:
        # a large fraction of all windows are hits: keep the case small (the in-Coq comparison is
        # quadratic in the number of hits)
        c['motifs'] = c['motifs'][:2]
        c['seqs'] = [x[:40] for x in c['seqs'][:3]]
    if rng.random() < 0.25:                               # a width-1 motif among the others
        c['motifs'] = c['motifs'] + [rand_pwm(rng, 1, 0.3)]
    if rng.random() < 0.3:                                # every sequence together with its reverse complement
        c['seqs'] = [x for s in c['seqs'][:3] for x in (s, rc_string(s))]
    if rng.random() < 0.3:
        c['noncontig'] = True
    if rng.random() < 0.2:
        c['grad'] = True
    if rng.random() < 0.3:
        c['names'] = 'odd'
    if rng.random() < 0.3:
        c['reuse'] = True
    if rng.random() < 0.3:
        c['defaults'] = True
        if rng.random() < 0.7:
            c.update(rng.choice([{'bin': 0.1}, {'eps': 0.0001}, {'thr': 0.0001, 'bin': 0.1, 'eps': 0.0001},
                                 {'rc': True, 'mode': 'dim0'}]))
    pt = rng.random()
    if pt < 0.25:
        c['ptype'] = 'np64'
    elif pt < 0.4:
        c['ptype'] = 'int'
        c['bin'] = 1.0
    if rng.random() < 0.3 and all(len(m[0]) <= 12 for m in c['motifs']):
        # MEME file: standard layout (blank line, optional URL line after each matrix) or compact
        # (MOTIF line directly after the last row); with / without a final newline
        c['meme'] = {'compact': rng.random() < 0.5, 'url': rng.random() < 0.3, 'final_nl': rng.random() < 0.5}
        if len(c['motifs']) < 2:
            c['motifs'] = c['motifs'] + [rand_pwm(rng, rng.choice([2, 3, 5]), 0.3)]
        c['motifs'] = [[[round(x, 6) for x in row] for row in m] for m in c['motifs']]
        c.pop('grad', None)
    if c['input'] == 'fasta':
        c['fasta'] = {'width': rng.choice([1, 7, 60, 61, 100000]), 'crlf': rng.random() < 0.25,
                      'desc': rng.random() < 0.4, 'names': rng.choice(['plain', 'mixed']),
                      'final_nl': rng.random() < 0.8}
        if rng.random() < 0.3 and len(c['seqs']) < 10:    # empty records: first, middle, last
            k = rng.choice([0, len(c['seqs']) // 2, len(c['seqs'])])
            c['seqs'] = c['seqs'][:k] + [''] + c['seqs'][k:]
            if rng.random() < 0.3:
                c['seqs'] = c['seqs'] + ['']
        if rng.random() < 0.5:
            c['alphabet'] = {'order': rng.choice(['ACGT', 'ACGT', 'TGCA', 'CATG', 'GTAC']),
                             'form': rng.choice(['list', 'str', 'tuple'])}
        if c.get('alphabet', {}).get('order', 'ACGT') != 'ACGT' and rng.random() < 0.5:
            c['pre'] = [{'alphabet': None}]               # first the default alphabet, then this one
    else:
        if c['input'] == 'numpy':
            c['seq_dtype'] = rng.choice(['float32', 'float64', 'int8', 'int64', 'uint8', 'bool', 'float16', 'int32'])
        else:
            c['seq_dtype'] = rng.choice(['float32', 'float64', 'int8', 'int64', 'uint8', 'float16', 'int32'])
        if rng.random() < 0.2:
            c['alphabet'] = {'order': 'TGCA', 'form': 'list'}      # ignored for tensor input
    if rng.random() < 0.2:
        ov = rng.choice([{'input': 'tensor'} if c['input'] == 'fasta' and len(set(map(len, c['seqs']))) == 1 and
                         all(set(x) <= set('ACGTN') and x for x in c['seqs']) else {'eps': 0.01},
                         {'alphabet': {'order': 'TGCA', 'form': 'list'}}, {'noncontig': True}, {'threads': 7}])
        c['pre'] = [ov]
    return c


def near_threshold_cases(rng, quick):
    """many windows close to the score threshold, bin sizes that are not multiples of 0.1
    (threshold = k * bin_size has 2-3 decimals)"""
    for b in (0.25, 0.05, 0.01, 0.125):
        for _ in range(2 if quick else 6):
            motifs = [rand_pwm(rng, rng.choice([4, 5, 6]), rng.choice([0.3, 0.5, 1.0])) for _m in range(4)]
            seqs = [rand_seq(rng, 120) for _s in range(8 if quick else 16)]
            yield {'kind': 'near-thr', 'motifs': motifs, 'dtype': 'f32', 'bin': b, 'eps': 1e-4,
                   'thr': rng.choice([1e-2, 1e-2, 3e-2, 1e-3]), 'rc': True,
                   'mode': rng.choice(['dim0', 'dim0', 'counts']), 'threads': rng.choice([1, 4]),
                   'input': 'tensor', 'seqs': seqs}


def generate(tier, rng):
    quick = tier != 'thorough'
    n = 60 if quick else 400
    for i in range(n):
        c = with_seqs(rng, base_case(rng, quick), planted=(i % 2 == 0))
        for v in variants(rng, c):
            yield v
        if i % 3 == 0:
            # a motif set no earlier case has used: the first call that sees it is the pre-call
            yield multi_call(rng, with_seqs(rng, base_case(rng, quick), planted=(i % 2 == 1)))
    for v in n_run_cases(rng, quick):
        yield v
    for v in near_threshold_cases(rng, quick):
        yield v
    for _ in range(40 if quick else 250):
        yield forms_case(rng, quick)
    # thread sweep on one larger input
    for _ in range(1 if quick else 6):
        c = with_seqs(rng, base_case(rng, quick), planted=False)
        c.update(thr=1e-2, mode='dim0', rc=True)
        for t in range(1, 17):
            d = dict(c)
            d['threads'] = t
            yield d


def shrink(inp):
    # 'pre' (earlier calls in the same process) is never dropped: the worker is long-lived, so a
    # candidate without it could keep failing only because of state left by the run before it
    if len(inp['motifs']) > 1:
        for k in range(len(inp['motifs'])):
            c = dict(inp)
            c['motifs'] = inp['motifs'][:k] + inp['motifs'][k + 1:]
            yield c
    if len(inp['seqs']) > 1:
        for k in range(len(inp['seqs'])):
            c = dict(inp)
            c['seqs'] = inp['seqs'][:k] + inp['seqs'][k + 1:]
            yield c
    L = max(len(s) for s in inp['seqs'])
    if L > 1:
        for cut in (lambda s: s[:-1] if len(s) > 1 else s, lambda s: s[1:] if len(s) > 1 else s):
            c = dict(inp)
            c['seqs'] = [cut(s) for s in inp['seqs']]
            yield c
    if inp.get('threads', 1) != 1:
        c = dict(inp)
        c['threads'] = 1
        yield c


def search(rng, disagreeing):
    for i in range(60):
        c = with_seqs(rng, base_case(rng), planted=True)
        c.update(thr=rng.choice([1e-1, 1e-2, 1e-3]))
        yield c


if __name__ == '__main__' and '--worker' in sys.argv:
    worker_main()
