"""C09 - saturation mutagenesis: correspondence with coq/C09 (model + entry-wise spec).

The network handed to tangermeme is an exact-integer, position-sensitive encoder:

    score(x, a) = sum_{c,p} x[c,p] * base[p][c] + sum_j a_j * acoef[j]          (float64, exact)
    output k, entry (t, r) = mult[k][t][r] * score + bias[k][t][r]

`base` is drawn so that, for the sequences of the case, every (position, character) mutant inside
the window has a score of its own, hence every y_hat entry names the mutant that was evaluated.
The same integers instantiate the Section variable `h` of the Coq development (Spec.h_of).
"""
import itertools
from fractions import Fraction

import torch

from . import common as C

PID = 'C09'
IMPORTS = ['C09.Model', 'C09.Spec']
CASE_TYPE = 'case'
CHECK = 'check_case'
SHARD = 60
RULE = ('every window 0<=start<end<=L and every (start, end=-1) for L<=8 (quick: L<=6) x alphabets 2-5, '
        'tensor and tuple outputs, raw and attribution outputs; every batch_size 1..A*W+1 on small '
        'configurations; seeded random cases with A 2-5, L 1-30, 1-3 examples, trailing output '
        'dimensions (), (T), (T,R), (T,R1,R2), 1-3 output tensors, per-example args (1-2 tensors, '
        '1-3 dims), int/negative-int/slice/None targets, hypothetical on/off, X dtype '
        'float32/float64/int8, all-zero columns; plus a small out-of-scope stream (negative start, '
        'end > L, end <= start, end < -1, batch_size <= 0, args of the wrong length, attribution of a '
        'tuple model) on which only model agreement is checked; non-trivial = accepted in-scope call '
        'with A != end-start (a position-major reading of the mutant list cannot have the right shape '
        'by accident) and more than one mutant')
EXHAUSTIVE = {'quick': False, 'thorough': False}
TRUSTED = ['the encoder network (harness/c09.py: Enc) computes in float64 on integers below 2^53, hence exactly',
           'attribution outputs are float64; they are converted with fractions.Fraction (exact) and compared in Coq '
           'with the absolute tolerance 2^-16 carried by the call (|values| < 2^27)']
ASSUMPTIONS = ['the user model acts example-wise in eval mode (Section variable h; exercised by every case)',
               'torch reshape/stack/cat are row-major (exercised by every case)']
TOL = (1, 65536)


# ----------------------------------------------------------------------------------------
# the network

class Enc(torch.nn.Module):
    def __init__(self, base, acoef, comps, shapes, tup):
        super().__init__()
        # base[p][c] -> (A, L)
        self.base = torch.nn.Parameter(torch.tensor(base, dtype=torch.float64).T.contiguous(),
                                       requires_grad=False)
        self.acoef = torch.tensor(acoef, dtype=torch.float64)
        self.M = [torch.tensor([[mb[0] for mb in row] for row in comp], dtype=torch.float64).reshape(-1)
                  for comp in comps]
        self.B = [torch.tensor([[mb[1] for mb in row] for row in comp], dtype=torch.float64).reshape(-1)
                  for comp in comps]
        self.shapes = shapes
        self.tup = tup

    def forward(self, X, *args):
        s = (X.double() * self.base[None]).sum(dim=(1, 2))
        if args:
            flat = torch.cat([a.reshape(a.shape[0], -1).double() for a in args], dim=1)
            s = s + flat @ self.acoef
        outs = [(s[:, None] * M[None] + B[None]).reshape(X.shape[0], *shape)
                for M, B, shape in zip(self.M, self.B, self.shapes)]
        return tuple(outs) if self.tup else outs[0]


def tr_of(shape):
    T = shape[0] if len(shape) >= 1 else 1
    R = 1
    for d in shape[1:]:
        R *= d
    return T, R


def build_X(inp):
    A, L = inp['A'], inp['L']
    dt = {'float32': torch.float32, 'float64': torch.float64, 'int8': torch.int8}[inp.get('xdtype', 'float32')]
    X = torch.zeros(len(inp['X']), A, L, dtype=dt)
    for i, s in enumerate(inp['X']):
        for p, k in enumerate(s):
            if k >= 0:
                X[i, k, p] = 1
    return X


def build_args(inp):
    if inp.get('args') is None:
        return None
    out = []
    for a in inp['args']:
        dt = torch.float64 if a.get('dtype') == 'float64' else torch.int64
        out.append(torch.tensor(a['vals'], dtype=dt).reshape(len(a['vals']), *a['shape']))
    return tuple(out)


def py_target(t):
    if t is None or isinstance(t, int):
        return t
    return slice(t[0], t[1])


def to_TR(y, nd):
    """tensor (lead..., trailing nd dims) -> nested int lists (lead..., T, R); None if not integral"""
    y = y.detach().cpu()
    lead = list(y.shape[:y.dim() - nd])
    tshape = list(y.shape[y.dim() - nd:])
    T, R = tr_of(tshape)
    y = y.reshape(*lead, T, R).double()
    if not bool(torch.isfinite(y).all()) or not torch.equal(y, y.round()):
        return None, lead
    return y.to(torch.int64).tolist(), lead


def run_impl(inp):
    from tangermeme.ism import saturation_mutagenesis
    try:
        tup = inp['tuple'] is not None
        model = Enc(inp['base'], inp['acoef'], inp['comps'], inp['shapes'], tup)
        X = build_X(inp)
        args = build_args(inp)
        raw = inp['mode'] == 'raw'
        kw = {}
        if inp['bs'] is not None:
            kw['batch_size'] = inp['bs']
        if inp['end'] != 'default':
            kw['end'] = inp['end']
        if inp['start'] != 'default':
            kw['start'] = inp['start']
        res = saturation_mutagenesis(model, X, args=args, target=py_target(inp.get('target')),
                                     hypothetical=bool(inp.get('hyp')), raw_outputs=raw, device='cpu', **kw)
    except Exception as e:
        return {'ok': False, 'err': type(e).__name__}
    try:
        if raw:
            y0, yh = res
            if not tup:
                y0, yh = [y0], [yh]
            Y0, YH = [], []
            for k in range(len(y0)):
                nd = len(inp['shapes'][k])
                a, lead0 = to_TR(y0[k], nd)
                b, lead1 = to_TR(yh[k], nd)
                if a is None or b is None or len(lead0) != 1 or len(lead1) != 3:
                    return {'ok': True, 'malformed': True}
                Y0.append(a)
                YH.append(b)
            return {'ok': True, 'y0': Y0, 'yh': YH}
        a = res.detach().cpu().double()
        if a.dim() != 3 or not bool(torch.isfinite(a).all()):
            return {'ok': True, 'malformed': True}
        fr = [[[list(Fraction(v).as_integer_ratio()) for v in row] for row in ex] for ex in a.tolist()]
        return {'ok': True, 'attr': fr}
    except Exception as e:
        return {'ok': True, 'malformed': True, 'err': repr(e)[:200]}


# ----------------------------------------------------------------------------------------
# Coq literals

def column(A, k):
    c = [0] * A
    if k >= 0:
        c[k] = 1
    return c


def flat_args(inp):
    if inp.get('args') is None:
        return None
    n = len(inp['args'][0]['vals'])
    rows = []
    for i in range(n):
        r = []
        for a in inp['args']:
            v = a['vals'][i]
            r += list(_flatten(v))
        rows.append(r)
    return rows


def _flatten(v):
    if isinstance(v, list):
        for x in v:
            yield from _flatten(x)
    else:
        yield int(v)


def target_lit(t):
    if t is None:
        return 'TNone'
    if isinstance(t, int):
        return '(TInt %s)' % C.z(t)
    return '(TSlice %s %s)' % (C.z(t[0]), C.z(t[1]))


def nest(x, depth, leaf):
    if depth == 0:
        return leaf(x)
    return C.lst([nest(y, depth - 1, leaf) for y in x])


def coq_case(inp, out):
    A, L = inp['A'], inp['L']
    d = '(H %s %s %s)' % (C.zmat(inp['base']), C.zlist(inp['acoef']),
                          C.lst([C.lst([C.lst(['(%s, %s)' % (C.z(m), C.z(b)) for m, b in row]) for row in comp])
                                 for comp in inp['comps']]))
    X = C.batch_lit([[column(A, k) for k in s] for s in inp['X']])
    fa = flat_args(inp)
    args = 'None' if fa is None else '(Some %s)' % C.zmat(fa)
    start = 0 if inp['start'] == 'default' else inp['start']
    end = -1 if inp['end'] == 'default' else inp['end']
    bs = 32 if inp['bs'] is None else inp['bs']
    tup = 'None' if inp['tuple'] is None else '(Some %s)' % C.nat(inp['tuple'])
    if inp['mode'] == 'raw':
        mode = 'MRaw'
        tol = '(mkq 0 1)'
    else:
        mode = '(MAttr %s %s)' % (target_lit(inp.get('target')), C.boolean(inp.get('hyp')))
        tol = '(mkq %d %d)' % TOL
    T, R = tr_of(inp['shapes'][0])
    call = '(Call %s %s %s %s %s %s %s %s %s %s %s %s)' % (
        C.nat(A), C.nat(L), X, args, C.z(start), C.z(end), C.z(bs), tup, mode, C.nat(T), C.nat(R), tol)
    if not out['ok']:
        o = 'ObsErr'
    elif out.get('malformed'):
        o = '(ObsRaw [] [])' if inp['mode'] == 'raw' else '(ObsAttr [])'
    elif 'attr' in out:
        o = '(ObsAttr %s)' % nest(out['attr'], 3, lambda v: '(mkq %s %d)' % (C.z(v[0]), v[1]))
    else:
        o = '(ObsRaw %s %s)' % (nest(out['y0'], 4, C.z), nest(out['yh'], 6, C.z))
    return '(%s, %s, %s)' % (d, call, o)


# ----------------------------------------------------------------------------------------
# bookkeeping

def window_of(inp):
    """(start, end) when the call is one the property speaks about, else None"""
    L = inp['L']
    s = 0 if inp['start'] == 'default' else inp['start']
    e = -1 if inp['end'] == 'default' else inp['end']
    if s < 0:
        return None
    if e >= 0:
        return (s, e) if s < e <= L else None
    return (s, L) if (e == -1 and s < L) else None


def in_scope(inp):
    w = window_of(inp)
    if w is None or (inp['bs'] is not None and inp['bs'] < 1):
        return False
    if inp.get('args') is not None and any(len(a['vals']) != len(inp['X']) for a in inp['args']):
        return False
    if inp['mode'] == 'attr' and inp['tuple'] is not None:
        return False
    return True


def nontrivial(inp, out):
    w = window_of(inp)
    return bool(out['ok'] and not out.get('malformed') and in_scope(inp)
                and inp['A'] != w[1] - w[0] and inp['A'] * (w[1] - w[0]) > 1)


def hist_key(inp, out):
    kind = inp['mode'] + ('/tuple' if inp['tuple'] is not None else '/tensor')
    if not in_scope(inp):
        kind += '/out-of-scope'
    return kind + ('/ok' if out['ok'] else '/raise')


# ----------------------------------------------------------------------------------------
# generators

def scores_identify(base, acoef, X, A, win):
    """every (p, c) mutant with c != x[p] inside the window has a score of its own, different
    from the original's"""
    s, e = win
    for x in X:
        seen = {0}
        for p in range(s, e):
            cur = base[p][x[p]] if x[p] >= 0 else 0
            for c in range(A):
                if c == x[p]:
                    continue
                dlt = base[p][c] - cur
                if dlt in seen:
                    return False
                seen.add(dlt)
    return True


def draw_net(rng, A, L, X, win, K, shapes, nargs_flat, small):
    hi = (1 << 16) if small else (1 << 36)
    for _ in range(200):
        base = [[rng.randrange(hi) for _c in range(A)] for _p in range(L)]
        if win is None or scores_identify(base, None, X, A, win):
            break
    acoef = [rng.randrange(1, 1 << 10) * (-1 if rng.random() < 0.3 else 1) for _ in range(nargs_flat)]
    comps = []
    for k in range(K):
        T, R = tr_of(shapes[k])
        comp = []
        for t in range(T):
            row = []
            for r in range(R):
                m = 0
                while m == 0:
                    m = rng.randint(-8, 8)
                row.append([m, rng.randint(-50, 50)])
            comp.append(row)
        comps.append(comp)
    return base, acoef, comps


def rand_shape(rng, attr):
    r = rng.random()
    if r < 0.12 and not attr:
        return []
    if r < 0.5:
        return [rng.randint(1, 4)]
    if r < 0.85:
        return [rng.randint(1, 3), rng.randint(1, 3)]
    return [rng.randint(1, 3), rng.randint(1, 2), 2]


def rand_args(rng, n, bad_len=False):
    k = rng.choice([1, 1, 2])
    out = []
    for _ in range(k):
        shape = rng.choice([[], [1], [2], [3], [2, 2]])
        m = n + 1 if bad_len else n
        cnt = 1
        for d in shape:
            cnt *= d

        def mk(shape):
            if not shape:
                return rng.randint(-99, 99)
            return [mk(shape[1:]) for _ in range(shape[0])]
        out.append({'shape': shape, 'vals': [mk(shape) for _ in range(m)],
                    'dtype': rng.choice(['int64', 'float64'])})
    return out


def nflat(args):
    if args is None:
        return 0
    tot = 0
    for a in args:
        c = 1
        for d in a['shape']:
            c *= d
        tot += c
    return tot


def rand_target(rng, T):
    r = rng.random()
    if r < 0.3:
        return None
    if r < 0.65:
        return rng.randrange(-T, T)
    lo = rng.randrange(T)
    return [lo, rng.randint(lo + 1, T)]


def make(rng, A, L, n, start, end, bs, mode='raw', tup=None, shapes=None, args=None, target=None,
         hyp=False, xdtype='float32', zero_cols=False):
    X = [[rng.randrange(A) for _ in range(L)] for _ in range(n)]
    if zero_cols and L > 0:
        X[0][rng.randrange(L)] = -1
    K = 1 if tup is None else tup
    if shapes is None:
        shapes = [rand_shape(rng, mode == 'attr') for _ in range(K)]
    inp = {'A': A, 'L': L, 'X': X, 'xdtype': xdtype, 'args': args, 'start': start, 'end': end, 'bs': bs,
           'tuple': tup, 'shapes': shapes, 'mode': mode, 'target': target, 'hyp': hyp}
    win = window_of(inp)
    base, acoef, comps = draw_net(rng, A, L, X, win, K, shapes, nflat(args), small=(mode == 'attr'))
    inp.update({'base': base, 'acoef': acoef, 'comps': comps})
    return inp


def windows(L):
    for s in range(L):
        for e in range(s + 1, L + 1):
            yield s, e
        yield s, -1


def generate(tier, rng):
    quick = tier != 'thorough'
    # --- 1. every window of short sequences, for every alphabet size, tensor / tuple / attribution
    maxL = 6 if quick else 8
    idx = 0
    for L in range(1, maxL + 1):
        for A in (2, 3, 4, 5):
            for s, e in windows(L):
                W = (e if e >= 0 else L) - s
                kinds = ['tensor', 'tuple', 'attr'] if not quick else [['tensor', 'tuple', 'attr'][idx % 3]]
                idx += 1
                for kind in kinds:
                    n = rng.choice([1, 2, 2, 3])
                    bs = rng.choice([1, 2, A, W, A * W - 1, A * W, A * W + 1, 32, None])
                    if bs is not None and bs < 1:
                        bs = 1
                    args = rand_args(rng, n) if rng.random() < 0.4 else None
                    if kind == 'attr':
                        shapes = [rand_shape(rng, True)]
                        yield make(rng, A, L, n, s, e, bs, mode='attr', shapes=shapes, args=args,
                                   target=rand_target(rng, tr_of(shapes[0])[0]), hyp=rng.random() < 0.4)
                    else:
                        yield make(rng, A, L, n, s, e, bs, tup=(rng.choice([1, 2, 3]) if kind == 'tuple' else None),
                                   args=args)
    # defaults of start / end / batch_size
    for A in (2, 4):
        yield make(rng, A, 7, 2, 'default', 'default', None)
        yield make(rng, A, 9, 2, 'default', 'default', None, tup=2)
        yield make(rng, A, 7, 2, 3, 'default', None, mode='attr', shapes=[[3]], target=None)
    # --- 2. every batch size 1..A*W+1 (and the first one above)
    confs = [(2, 3, 0, 3), (3, 4, 1, 3), (4, 3, 0, -1)] if quick else \
        [(2, 3, 0, 3), (3, 4, 1, 3), (4, 3, 0, -1), (5, 4, 0, 4), (3, 6, 2, -1), (2, 8, 1, 7), (4, 5, 0, 5)]
    for A, L, s, e in confs:
        W = (e if e >= 0 else L) - s
        for bs in range(1, A * W + 3):
            for tup in (None, 2):
                n = 2
                yield make(rng, A, L, n, s, e, bs, tup=tup, args=rand_args(rng, n) if bs % 2 else None)
            if not quick:
                yield make(rng, A, L, 2, s, e, bs, mode='attr', shapes=[[2, 2]], args=rand_args(rng, 2),
                           target=rand_target(rng, 2), hyp=bool(bs % 2))
    # --- 3. random, larger
    N = 260 if quick else 3000
    for _ in range(N):
        A = rng.choice([2, 3, 4, 4, 5])
        L = rng.choice([1, 2, 3, 4, 5, 7, 9, 12, 16, 20, 25, 30]) if rng.random() < 0.8 else rng.randint(1, 30)
        n = rng.choice([1, 1, 2, 2, 3])
        s = rng.choice([0, 0, rng.randrange(L), rng.randrange(L)])
        e = rng.choice([-1, L, rng.randint(s + 1, L), rng.randint(s + 1, L)])
        W = (e if e >= 0 else L) - s
        bs = rng.choice([1, 2, 3, A, W, A * W - 1, A * W, A * W + 1, A * L + 1, rng.randint(1, A * L + 1),
                         rng.randint(1, A * L + 1), 32, None])
        if bs is not None and bs < 1:
            bs = 1
        args = rand_args(rng, n) if rng.random() < 0.5 else None
        xdtype = rng.choice(['float32', 'float32', 'float64', 'int8'])
        zero = rng.random() < 0.1
        if rng.random() < 0.4:
            shapes = [rand_shape(rng, True)]
            yield make(rng, A, L, n, s, e, bs, mode='attr', shapes=shapes, args=args,
                       target=rand_target(rng, tr_of(shapes[0])[0]), hyp=rng.random() < 0.4,
                       xdtype=xdtype, zero_cols=zero)
        else:
            tup = rng.choice([None, None, 1, 2, 3])
            yield make(rng, A, L, n, s, e, bs, tup=tup, args=args, xdtype=xdtype, zero_cols=zero)
    # --- 4. outside the property's scope: only the model's agreement with the code is checked
    M = 40 if quick else 300
    for _ in range(M):
        A = rng.choice([2, 3, 4])
        L = rng.randint(1, 7)
        n = rng.choice([1, 2])
        kind = rng.choice(['negstart', 'endbig', 'empty', 'negend', 'bs', 'arglen', 'attr-tuple'])
        s, e, bs, args, mode, tup = 0, -1, 4, None, 'raw', rng.choice([None, 2])
        if kind == 'negstart':
            s, e = -rng.randint(1, L + 2), rng.choice([-1, L, rng.randint(0, L)])
        elif kind == 'endbig':
            s, e = rng.randrange(L), L + rng.randint(1, 3)
        elif kind == 'empty':
            e = rng.randint(0, L)
            s = rng.randint(e, L + 1)
        elif kind == 'negend':
            s, e = rng.randint(0, L), -rng.randint(2, L + 3)
        elif kind == 'bs':
            bs = rng.choice([0, -1, -5])
        elif kind == 'arglen':
            args = rand_args(rng, n, bad_len=True)
        else:
            mode, tup = 'attr', 2
        if mode == 'attr':
            yield make(rng, A, L, n, s, e, bs, mode='attr', tup=tup, shapes=[[2], [2]], target=0)
        else:
            yield make(rng, A, L, n, s, e, bs, tup=tup, args=args)


# ----------------------------------------------------------------------------------------
# shrinking / search

def _cut_example(inp, i):
    c = dict(inp)
    c['X'] = inp['X'][:i] + inp['X'][i + 1:]
    if inp.get('args') is not None:
        c['args'] = [dict(a, vals=a['vals'][:i] + a['vals'][i + 1:]) for a in inp['args']]
    return c


def shrink(inp):
    n = len(inp['X'])
    if n > 1:
        for i in range(n):
            yield _cut_example(inp, i)
    if inp.get('args') is not None:
        c = dict(inp)
        c['args'] = None
        c['acoef'] = []
        yield c
    # drop the last position when the window does not need it
    L = inp['L']
    e = inp['end']
    if L > 1 and isinstance(e, int) and isinstance(inp['start'], int) and (e == -1 or e < L) and inp['start'] < L - 1:
        c = dict(inp)
        c['L'] = L - 1
        c['X'] = [x[:-1] for x in inp['X']]
        c['base'] = inp['base'][:-1]
        yield c
    # drop the first position
    if L > 1 and isinstance(e, int) and isinstance(inp['start'], int) and inp['start'] > 0:
        c = dict(inp)
        c['L'] = L - 1
        c['X'] = [x[1:] for x in inp['X']]
        c['base'] = inp['base'][1:]
        c['start'] = inp['start'] - 1
        if e > 0:
            c['end'] = e - 1
        yield c
    # fewer output tensors / simpler trailing shape
    if inp['tuple'] is not None and inp['tuple'] > 1:
        c = dict(inp)
        c['tuple'] = inp['tuple'] - 1
        c['comps'] = inp['comps'][:-1]
        c['shapes'] = inp['shapes'][:-1]
        yield c
    for k, sh in enumerate(inp['shapes']):
        if sh and inp['mode'] == 'raw':
            T, R = tr_of(sh)
            if T * R > 1:
                c = dict(inp)
                c['shapes'] = inp['shapes'][:k] + [[1]] + inp['shapes'][k + 1:]
                c['comps'] = inp['comps'][:k] + [[[inp['comps'][k][0][0]]]] + inp['comps'][k + 1:]
                yield c
    if inp['bs'] is not None and inp['bs'] > 1:
        c = dict(inp)
        c['bs'] = inp['bs'] - 1
        yield c


def search(rng, disagreeing):
    """boundary-directed extra inputs: windows that are not the whole sequence, A != W, tuple outputs,
    batch sizes around the number of mutants"""
    for d in disagreeing[:5]:
        for _ in range(8):
            c = dict(d)
            c['bs'] = rng.choice([1, 2, 3, d['A'] * d['L'] + 1])
            yield c
    for A in (2, 3, 5):
        for L in (3, 4, 6):
            for s, e in windows(L):
                for tup in (None, 2):
                    yield make(rng, A, L, 2, s, e, rng.choice([1, 2, A * L + 1]), tup=tup,
                               args=rand_args(rng, 2))
                yield make(rng, A, L, 2, s, e, 3, mode='attr', shapes=[[2, 2]], target=rand_target(rng, 2),
                           hyp=rng.random() < 0.5)
