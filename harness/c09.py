"""C09 - saturation mutagenesis: correspondence with coq/C09 (model + entry-wise spec).

The network handed to tangermeme is an exact-integer, position-sensitive encoder:

    score(x, a) = sum_{c,p} x[c,p] * base[p][c] + sum_j a_j * acoef[j]          (float64, exact)
    output k, entry (t, r) = mult[k][t][r] * score + bias[k][t][r]

`base` is drawn so that, for the sequences of the case, every (position, character) mutant inside
the window has a score of its own, hence every y_hat entry names the mutant that was evaluated.
The same integers instantiate the Section variable `h` of the Coq development (Spec.h_of).
"""
import contextlib
import io
import itertools
from fractions import Fraction

import numpy
import torch

from . import common as C

PID = 'C09'
IMPORTS = ['C09.Model', 'C09.Spec']
CASE_TYPE = 'case'
CHECK = 'check_case'
SHARD = 60
RULE = ('every window 0<=start<end<=L for L<=8 (quick: L<=6), end given positively or as the equivalent '
        'negative end (L+1+end), and every (start, end=-1), x alphabets 2-5, tensor and tuple outputs, raw and '
        'attribution outputs; every batch_size 1..A*W+2 on small configurations; seeded random cases with '
        'A 2-5, L 1-30, 1-3 examples, trailing output dimensions (), (T), (T,R), (T,R1,R2), 1-3 output '
        'tensors, per-example args (1-3 tensors, 1-3 dims), int/negative-int/slice/None targets, '
        'hypothetical on/off, X dtypes, all-zero columns; an input-form stream (each non-default form one '
        'at a time and mixed: numpy int64/int32 for start/end/batch_size/target, args as list, arg dtypes '
        'int32/int64/float32/float64 mixed in one call, forward(X, a0=None, ...) with defaults vs *args vs '
        'required names, list vs tuple outputs, parameter dtype float32/float64/no parameters, model left '
        'in training mode by the caller, non-contiguous X, torch.device object, verbose=True, integer '
        'hypothetical, slices with None / negative bounds / steps); a boundary stream (W=1 at both ends, '
        'end=-L, batch_size 1 / n / A*W-1 / A*W / A*W+1 / 10^6, 32/33/65 examples so that y0 is predicted '
        'in several batches, T=R=K=1, first/last/negative targets, one-row and whole slices, steps >= T); '
        'a multi-call stream (a first call in the same process on the SAME model / X / args objects, then '
        'the checked call with ONE thing changed: alphabet, length, window, batch size, examples, arg '
        'values, args on/off, target, hypothetical, raw/attribution, tensor/tuple, trailing shape, weights, '
        'X content, X dtype); plus an out-of-scope stream (negative start, end > L, empty window, end below '
        '-L-1, batch_size <= 0, args of the wrong length, attribution of a tuple model) on which only model '
        'agreement is checked. After every call X and args must be bit-identical to what was passed. '
        'non-trivial = accepted in-scope call with A != end-start (a position-major reading of the mutant '
        'list cannot have the right shape by accident) and more than one mutant')
EXHAUSTIVE = {'quick': False, 'thorough': False}
TRUSTED = ['the encoder network (harness/c09.py: Enc) computes in float64 on integers below 2^53, hence exactly',
           'attribution outputs are float64; they are converted with fractions.Fraction (exact) and compared in Coq '
           'with the absolute tolerance 2^-16 carried by the call (|values| < 2^27)',
           'python slice targets are canonicalised with slice.indices(T) before they are written as TSlice lo hi step',
           'the caller-data check (X, args unchanged) is torch.equal + dtype on clones taken before the call']
ASSUMPTIONS = ['the user model acts example-wise in eval mode (Section variable h; exercised by every case)',
               'torch reshape/stack/cat are row-major (exercised by every case)']
TOL = (1, 65536)


# ----------------------------------------------------------------------------------------
# the network

TRAIN_SHIFT = 1000003


class Shift(torch.nn.Module):
    """a child whose output depends on the training flag (as dropout / batch norm would)"""

    def forward(self, s):
        return s + TRAIN_SHIFT if self.training else s


class Enc(torch.nn.Module):
    """pdtype: dtype of the only parameter (predict casts X to it) or 'none' (no parameter: predict keeps
    X's dtype).  fwd: 'star' forward(X, *args) | 'defaults' forward(X, a0=None, a1=None, a2=None) |
    'named' forward(X, a0[, a1[, a2]]) with exactly the call's number of extra inputs."""

    def __init__(self, base, acoef, comps, shapes, tup, pdtype='float64', fwd='star', outform='tuple', nargs=0):
        super().__init__()
        if pdtype != 'none':
            self.steer = torch.nn.Parameter(torch.zeros(1, dtype=getattr(torch, pdtype)), requires_grad=False)
        self.shift = Shift()
        self.register_buffer('base', torch.zeros(len(base[0]) if base else 0, len(base), dtype=torch.float64))
        self.shapes = shapes
        self.tup = tup
        self.fwd = fwd
        self.outform = outform
        self.nargs = nargs
        self.set_weights(base, acoef, comps)

    def set_weights(self, base, acoef, comps):
        with torch.no_grad():
            self.base.copy_(torch.tensor(base, dtype=torch.float64).T.reshape(self.base.shape))   # base[p][c] -> (A, L)
        self.acoef = torch.tensor(acoef, dtype=torch.float64)
        self.M = [torch.tensor([[mb[0] for mb in row] for row in comp], dtype=torch.float64).reshape(-1)
                  for comp in comps]
        self.B = [torch.tensor([[mb[1] for mb in row] for row in comp], dtype=torch.float64).reshape(-1)
                  for comp in comps]

    def signature(self):
        return (tuple(self.base.shape), tuple(map(tuple, self.shapes)), self.tup, self.fwd, self.outform,
                self.nargs, hasattr(self, 'steer') and str(self.steer.dtype))

    def forward(self, X, *args, **kw):
        if self.fwd == 'defaults':
            if len(args) > 3 or set(kw) - {'a0', 'a1', 'a2'}:
                raise TypeError('unexpected arguments')
            args = [a for a in list(args) + [kw.get('a%d' % i) for i in range(len(args), 3)] if a is not None]
        elif self.fwd == 'named':
            if len(args) != self.nargs or kw:
                raise TypeError('forward() takes exactly %d extra inputs' % self.nargs)
        s = (X.double() * self.base[None]).sum(dim=(1, 2))
        if args:
            flat = torch.cat([a.reshape(a.shape[0], -1).double() for a in args], dim=1)
            s = s + flat @ self.acoef
        s = self.shift(s)
        outs = [(s[:, None] * M[None] + B[None]).reshape(X.shape[0], *shape)
                for M, B, shape in zip(self.M, self.B, self.shapes)]
        if not self.tup:
            return outs[0]
        return list(outs) if self.outform == 'list' else tuple(outs)


def tr_of(shape):
    T = shape[0] if len(shape) >= 1 else 1
    R = 1
    for d in shape[1:]:
        R *= d
    return T, R


XDT = {'float32': torch.float32, 'float64': torch.float64, 'float16': torch.float16, 'int8': torch.int8,
       'uint8': torch.uint8, 'int64': torch.int64, 'bool': torch.bool}
ADT = {'int64': torch.int64, 'int32': torch.int32, 'float64': torch.float64, 'float32': torch.float32}


def build_X(inp):
    A, L = inp['A'], inp['L']
    X = torch.zeros(len(inp['X']), A, L, dtype=XDT[inp.get('xdtype', 'float32')])
    for i, s in enumerate(inp['X']):
        for p, k in enumerate(s):
            if k >= 0:
                X[i, k, p] = 1
    if inp.get('xview') == 'permuted':          # same values, non-contiguous memory
        X = X.permute(0, 2, 1).contiguous().permute(0, 2, 1)
    return X


def build_args(inp):
    if inp.get('args') is None:
        return None
    out = []
    for a in inp['args']:
        out.append(torch.tensor(a['vals'], dtype=ADT[a.get('dtype', 'int64')]).reshape(len(a['vals']), *a['shape']))
    return out


def as_int(v, itype):
    if v is None or itype in (None, 'int'):
        return v
    return numpy.int64(v) if itype == 'np64' else numpy.int32(v)


def py_target(t, itype=None):
    if t is None:
        return None
    if isinstance(t, int):
        return as_int(t, itype)
    if isinstance(t, dict):
        return slice(*[as_int(v, itype) for v in t['slice']])
    return slice(as_int(t[0], itype), as_int(t[1], itype))


def canon_target(t, T):
    """None | int | (lo, hi, step) as Python's own slice.indices gives them for T targets"""
    if t is None or isinstance(t, int):
        return t
    sl = slice(*t['slice']) if isinstance(t, dict) else slice(t[0], t[1])
    return sl.indices(T)


def to_TR(y, shape):
    """tensor (lead..., *shape) -> nested int lists (lead..., T, R); None if the trailing dimensions are
    not exactly the network's or a value is not an integer"""
    nd = len(shape)
    y = y.detach().cpu()
    lead = list(y.shape[:y.dim() - nd])
    tshape = list(y.shape[y.dim() - nd:])
    if y.dim() < nd or tshape != list(shape):
        return None, lead
    T, R = tr_of(tshape)
    y = y.reshape(*lead, T, R).double()
    if not bool(torch.isfinite(y).all()) or not torch.equal(y, y.round()):
        return None, lead
    return y.to(torch.int64).tolist(), lead


def objects_for(inp, pool):
    """model / X / args for one call.  Objects of an earlier call of the same case (prelude) are REUSED and
    updated in place whenever their shapes and dtypes allow, so the calls of a sequence see the same
    model, tensor and argument objects with one thing changed."""
    tup = inp['tuple'] is not None
    nargs = 0 if inp.get('args') is None else len(inp['args'])
    model = Enc(inp['base'], inp['acoef'], inp['comps'], inp['shapes'], tup, pdtype=inp.get('pdtype', 'float64'),
                fwd=inp.get('fwd', 'star'), outform=inp.get('outform', 'tuple'), nargs=nargs)
    old = pool.get('model')
    if old is not None and old.signature() == model.signature():
        old.set_weights(inp['base'], inp['acoef'], inp['comps'])
        model = old
    pool['model'] = model
    X = build_X(inp)
    oX = pool.get('X')
    if oX is not None and oX.shape == X.shape and oX.dtype == X.dtype and inp.get('xview') != 'permuted':
        oX.copy_(X)
        X = oX
    pool['X'] = X
    args = build_args(inp)
    oa = pool.get('args')
    if args is not None and oa is not None and len(oa) == len(args) and \
            all(a.shape == b.shape and a.dtype == b.dtype for a, b in zip(oa, args)):
        for a, b in zip(oa, args):
            a.copy_(b)
        args = oa
    if args is not None:
        pool['args'] = args
    return model, X, args


def call_impl(inp, pool):
    from tangermeme.ism import saturation_mutagenesis
    model, X, args = objects_for(inp, pool)
    if inp.get('train'):
        model.train()
    itype = inp.get('itype')
    if args is not None:
        args_in = list(args) if inp.get('args_form') == 'list' else tuple(args)
    else:
        args_in = None
    X0 = X.clone()
    a0 = None if args is None else [a.clone() for a in args]
    kw = {}
    if inp['bs'] is not None:
        kw['batch_size'] = as_int(inp['bs'], itype)
    if inp['end'] != 'default':
        kw['end'] = as_int(inp['end'], itype)
    if inp['start'] != 'default':
        kw['start'] = as_int(inp['start'], itype)
    if inp.get('verbose'):
        kw['verbose'] = True
    hyp = bool(inp.get('hyp'))
    if inp.get('hyp_form') == 'int':
        hyp = int(hyp)
    device = torch.device('cpu') if inp.get('device') == 'obj' else 'cpu'
    try:
        with contextlib.redirect_stderr(io.StringIO()):      # verbose=True draws progress bars
            res = saturation_mutagenesis(model, X, args=args_in, target=py_target(inp.get('target'), itype),
                                         hypothetical=hyp, raw_outputs=(inp['mode'] == 'raw'), device=device, **kw)
    finally:
        same = X.dtype == X0.dtype and X.shape == X0.shape and bool(torch.equal(X, X0))
        if args is not None:
            same = same and len(args_in) == len(a0) and all(
                a is b and a.dtype == c.dtype and a.shape == c.shape and bool(torch.equal(a, c))
                for a, b, c in zip(args_in, args, a0))
        pool['unchanged'] = same
    return res


def run_impl(inp):
    pool = {}
    for step in inp.get('prelude') or []:         # earlier calls in the same process, results discarded
        try:
            call_impl(step, pool)
        except Exception:
            pass
    pool.pop('unchanged', None)
    tup = inp['tuple'] is not None
    raw = inp['mode'] == 'raw'
    try:
        res = call_impl(inp, pool)
    except Exception as e:
        return {'ok': False, 'err': type(e).__name__, 'unchanged': bool(pool.get('unchanged', True))}
    unchanged = bool(pool.get('unchanged', True))
    try:
        if raw:
            y0, yh = res
            if not tup:
                y0, yh = [y0], [yh]
            if len(y0) != len(inp['shapes']) or len(yh) != len(inp['shapes']):
                return {'ok': True, 'malformed': True, 'unchanged': unchanged}
            Y0, YH = [], []
            for k in range(len(y0)):
                a, lead0 = to_TR(y0[k], inp['shapes'][k])
                b, lead1 = to_TR(yh[k], inp['shapes'][k])
                if a is None or b is None or len(lead0) != 1 or len(lead1) != 3:
                    return {'ok': True, 'malformed': True, 'unchanged': unchanged}
                Y0.append(a)
                YH.append(b)
            return {'ok': True, 'y0': Y0, 'yh': YH, 'unchanged': unchanged}
        a = res.detach().cpu().double()
        if a.dim() != 3 or not bool(torch.isfinite(a).all()):
            return {'ok': True, 'malformed': True, 'unchanged': unchanged}
        fr = [[[list(Fraction(v).as_integer_ratio()) for v in row] for row in ex] for ex in a.tolist()]
        return {'ok': True, 'attr': fr, 'unchanged': unchanged}
    except Exception as e:
        return {'ok': True, 'malformed': True, 'err': repr(e)[:200], 'unchanged': unchanged}


# ----------------------------------------------------------------------------------------
# Coq literals

def column(A, k):
    c = [0] * A
    if k >= 0:
        c[k] = 1
    return c


def flat_args(inp):
    if inp.get('args') is None:
        return None
    n = len(inp['args'][0]['vals'])
    rows = []
    for i in range(n):
        r = []
        for a in inp['args']:
            v = a['vals'][i]
            r += list(_flatten(v))
        rows.append(r)
    return rows


def _flatten(v):
    if isinstance(v, list):
        for x in v:
            yield from _flatten(x)
    else:
        yield int(v)


def target_lit(t, T):
    t = canon_target(t, T)
    if t is None:
        return 'TNone'
    if isinstance(t, int):
        return '(TInt %s)' % C.z(t)
    return '(TSlice %s %s %s)' % (C.z(t[0]), C.z(t[1]), C.z(t[2]))


def nest(x, depth, leaf):
    if depth == 0:
        return leaf(x)
    return C.lst([nest(y, depth - 1, leaf) for y in x])


def coq_case(inp, out):
    A, L = inp['A'], inp['L']
    d = '(H %s %s %s)' % (C.zmat(inp['base']), C.zlist(inp['acoef']),
                          C.lst([C.lst([C.lst(['(%s, %s)' % (C.z(m), C.z(b)) for m, b in row]) for row in comp])
                                 for comp in inp['comps']]))
    X = C.batch_lit([[column(A, k) for k in s] for s in inp['X']])
    fa = flat_args(inp)
    args = 'None' if fa is None else '(Some %s)' % C.zmat(fa)
    start = 0 if inp['start'] == 'default' else inp['start']
    end = -1 if inp['end'] == 'default' else inp['end']
    bs = 32 if inp['bs'] is None else inp['bs']
    tup = 'None' if inp['tuple'] is None else '(Some %s)' % C.nat(inp['tuple'])
    T, R = tr_of(inp['shapes'][0])
    if inp['mode'] == 'raw':
        mode = 'MRaw'
        tol = '(mkq 0 1)'
    else:
        mode = '(MAttr %s %s)' % (target_lit(inp.get('target'), T), C.boolean(inp.get('hyp')))
        tol = '(mkq %d %d)' % TOL
    call = '(Call %s %s %s %s %s %s %s %s %s %s %s %s)' % (
        C.nat(A), C.nat(L), X, args, C.z(start), C.z(end), C.z(bs), tup, mode, C.nat(T), C.nat(R), tol)
    if not out['ok']:
        o = 'ObsErr'
    elif out.get('malformed'):
        o = '(ObsRaw [] [])' if inp['mode'] == 'raw' else '(ObsAttr [])'
    elif 'attr' in out:
        o = '(ObsAttr %s)' % nest(out['attr'], 3, lambda v: '(mkq %s %d)' % (C.z(v[0]), v[1]))
    else:
        o = '(ObsRaw %s %s)' % (nest(out['y0'], 4, C.z), nest(out['yh'], 6, C.z))
    return '(%s, %s, %s, %s)' % (d, call, o, C.boolean(out.get('unchanged', True)))


# ----------------------------------------------------------------------------------------
# bookkeeping

def window_of(inp):
    """(start, end) when the call is one the property speaks about, else None"""
    L = inp['L']
    s = 0 if inp['start'] == 'default' else inp['start']
    e = -1 if inp['end'] == 'default' else inp['end']
    if e < 0:
        e = L + 1 + e          # the convention under which the default end=-1 is the whole sequence
    return (s, e) if 0 <= s < e <= L else None


def in_scope(inp):
    w = window_of(inp)
    if w is None or (inp['bs'] is not None and inp['bs'] < 1):
        return False
    if inp.get('args') is not None and any(len(a['vals']) != len(inp['X']) for a in inp['args']):
        return False
    if inp['mode'] == 'attr' and inp['tuple'] is not None:
        return False
    return True


def nontrivial(inp, out):
    w = window_of(inp)
    return bool(out['ok'] and not out.get('malformed') and in_scope(inp)
                and inp['A'] != w[1] - w[0] and inp['A'] * (w[1] - w[0]) > 1)


def hist_key(inp, out):
    kind = inp.get('stream', 'corpus') + ':' + inp['mode'] + ('/tuple' if inp['tuple'] is not None else '/tensor')
    if not in_scope(inp):
        kind += '/out-of-scope'
    return kind + ('/ok' if out['ok'] else '/raise')


# ----------------------------------------------------------------------------------------
# generators

def scores_identify(base, acoef, X, A, win):
    """every (p, c) mutant with c != x[p] inside the window has a score of its own, different
    from the original's"""
    s, e = win
    for x in X:
        seen = {0}
        for p in range(s, e):
            cur = base[p][x[p]] if x[p] >= 0 else 0
            for c in range(A):
                if c == x[p]:
                    continue
                dlt = base[p][c] - cur
                if dlt in seen:
                    return False
                seen.add(dlt)
    return True


def draw_net(rng, A, L, X, win, K, shapes, nargs_flat, small):
    hi = (1 << 16) if small else (1 << 36)
    for _ in range(200):
        base = [[rng.randrange(hi) for _c in range(A)] for _p in range(L)]
        if win is None or scores_identify(base, None, X, A, win):
            break
    acoef = [rng.randrange(1, 1 << 10) * (-1 if rng.random() < 0.3 else 1) for _ in range(nargs_flat)]
    comps = []
    for k in range(K):
        T, R = tr_of(shapes[k])
        comp = []
        for t in range(T):
            row = []
            for r in range(R):
                m = 0
                while m == 0:
                    m = rng.randint(-8, 8)
                row.append([m, rng.randint(-50, 50)])
            comp.append(row)
        comps.append(comp)
    return base, acoef, comps


def rand_shape(rng, attr):
    r = rng.random()
    if r < 0.12 and not attr:
        return []
    if r < 0.5:
        return [rng.randint(1, 4)]
    if r < 0.85:
        return [rng.randint(1, 3), rng.randint(1, 3)]
    return [rng.randint(1, 3), rng.randint(1, 2), 2]


def rand_args(rng, n, bad_len=False, k=None, dtypes=('int64', 'float64')):
    k = k or rng.choice([1, 1, 2, 3])
    out = []
    for _ in range(k):
        shape = rng.choice([[], [1], [2], [3], [2, 2]])
        m = n + 1 if bad_len else n

        def mk(shape):
            if not shape:
                return rng.randint(-99, 99)
            return [mk(shape[1:]) for _ in range(shape[0])]
        out.append({'shape': shape, 'vals': [mk(shape) for _ in range(m)], 'dtype': rng.choice(list(dtypes))})
    return out


def nflat(args):
    if args is None:
        return 0
    tot = 0
    for a in args:
        c = 1
        for d in a['shape']:
            c *= d
        tot += c
    return tot


def rand_target(rng, T, forms=False):
    """None | int (also negative) | [lo, hi] | {'slice': [a, b, c]} with None / negative bounds and steps;
    never an empty selection"""
    r = rng.random()
    if r < 0.25:
        return None
    if r < 0.55:
        return rng.randrange(-T, T)
    lo = rng.randrange(T)
    hi = rng.randint(lo + 1, T)
    if not forms or r < 0.7:
        return [lo, hi]
    a = rng.choice([lo, lo - T, None if lo == 0 else lo])
    b = rng.choice([hi, None if hi == T else hi, hi - T if hi < T else hi])
    c = rng.choice([None, 1, 2, 3, T, T + 1])
    return {'slice': [a, b, c]}


FORM_DEFAULTS = {'itype': 'int', 'args_form': 'tuple', 'fwd': 'star', 'outform': 'tuple', 'pdtype': 'float64',
                 'train': False, 'xview': 'contig', 'device': 'str', 'verbose': False, 'hyp_form': 'bool'}
FORM_VALUES = {'itype': ['np64', 'np32'], 'args_form': ['list'], 'fwd': ['defaults', 'named'],
               'outform': ['list'], 'pdtype': ['float32', 'none'], 'train': [True], 'xview': ['permuted'],
               'device': ['obj'], 'verbose': [True], 'hyp_form': ['int']}
XDTYPES = ['float32', 'float64', 'float16', 'int8', 'uint8', 'int64', 'bool']
ADTYPES = ['int64', 'int32', 'float64', 'float32']


def rand_forms(rng, p=0.3):
    return {k: rng.choice(v) for k, v in FORM_VALUES.items() if rng.random() < p}


def make(rng, A, L, n, start, end, bs, mode='raw', tup=None, shapes=None, args=None, target=None,
         hyp=False, xdtype='float32', zero_cols=False, forms=None, stream='?'):
    X = [[rng.randrange(A) for _ in range(L)] for _ in range(n)]
    if zero_cols and L > 0:
        X[0][rng.randrange(L)] = -1
    K = 1 if tup is None else tup
    if shapes is None:
        shapes = [rand_shape(rng, mode == 'attr') for _ in range(K)]
    inp = {'A': A, 'L': L, 'X': X, 'xdtype': xdtype, 'args': args, 'start': start, 'end': end, 'bs': bs,
           'tuple': tup, 'shapes': shapes, 'mode': mode, 'target': target, 'hyp': hyp, 'stream': stream}
    for k, v in (forms or {}).items():
        if v != FORM_DEFAULTS.get(k):
            inp[k] = v
    win = window_of(inp)
    base, acoef, comps = draw_net(rng, A, L, X, win, K, shapes, nflat(args), small=(mode == 'attr'))
    inp.update({'base': base, 'acoef': acoef, 'comps': comps})
    return inp


def neg_end(L, e):
    return e - (L + 1)


def windows(L, both=True):
    """every 0 <= s < e <= L; both: e written positively and as the equivalent negative end (e = L is -1);
    otherwise the two spellings alternate and (s, -1) is always included"""
    k = 0
    for s in range(L):
        for e in range(s + 1, L + 1):
            k += 1
            if both or k % 2:
                yield s, e
            if both or not k % 2:
                yield s, neg_end(L, e)
        if not both:
            yield s, -1


def pick_bs(rng, A, L, W, n):
    bs = rng.choice([1, 2, 3, n, A, W, A * W - 1, A * W, A * W + 1, A * L + 1, rng.randint(1, A * L + 1),
                     rng.randint(1, A * L + 1), 32, None])
    return 1 if (bs is not None and bs < 1) else bs


def rand_case(rng, stream, forms=None, A=None, L=None, attr=None, tup='rand'):
    """one in-scope case with everything drawn at random (forms: non-default input forms to use)"""
    A = A or rng.choice([2, 3, 4, 4, 5])
    L = L or (rng.choice([1, 2, 3, 4, 5, 7, 9, 12, 16, 20, 25, 30]) if rng.random() < 0.8 else rng.randint(1, 30))
    n = rng.choice([1, 1, 2, 2, 3])
    s = rng.choice([0, 0, rng.randrange(L), rng.randrange(L)])
    e = rng.choice([-1, L, rng.randint(s + 1, L), rng.randint(s + 1, L)])
    W = (e if e >= 0 else L) - s
    if e > 0 and rng.random() < 0.25:
        e = neg_end(L, e)
    bs = pick_bs(rng, A, L, W, n)
    wide = forms is not None
    args = rand_args(rng, n, dtypes=ADTYPES if wide else ('int64', 'float64')) if rng.random() < 0.5 else None
    if forms and forms.get('fwd') == 'named' and args is None:
        args = rand_args(rng, n, dtypes=ADTYPES)
    if forms and forms.get('args_form') == 'list' and args is None:
        args = rand_args(rng, n, dtypes=ADTYPES)
    xdtype = rng.choice(XDTYPES if wide else ['float32', 'float32', 'float64', 'int8'])
    zero = rng.random() < 0.1
    attr = (rng.random() < 0.4) if attr is None else attr
    if attr:
        shapes = [rand_shape(rng, True)]
        return make(rng, A, L, n, s, e, bs, mode='attr', shapes=shapes, args=args,
                    target=rand_target(rng, tr_of(shapes[0])[0], forms=wide), hyp=rng.random() < 0.4,
                    xdtype=xdtype, zero_cols=zero, forms=forms, stream=stream)
    if tup == 'rand':
        tup = rng.choice([None, None, 1, 2, 3])
    if forms and forms.get('outform') == 'list' and tup is None:
        tup = 2
    return make(rng, A, L, n, s, e, bs, tup=tup, args=args, xdtype=xdtype, zero_cols=zero, forms=forms,
                stream=stream)


def variants(rng, c0):
    """c0 with exactly one thing changed (name, changed case); the network is redrawn only where the
    change makes the old one unusable"""
    A, L, n = c0['A'], c0['L'], len(c0['X'])
    W = window_of(c0)
    s0, e0 = W

    def redraw(c):
        K = 1 if c['tuple'] is None else c['tuple']
        base, acoef, comps = draw_net(rng, c['A'], c['L'], c['X'], window_of(c), K, c['shapes'], nflat(c['args']),
                                      small=(c['mode'] == 'attr'))
        c.update({'base': base, 'acoef': acoef, 'comps': comps})
        return c
    out = []
    # alphabet size (same window, same length)
    A2 = rng.choice([a for a in (2, 3, 4, 5) if a != A])
    c = dict(c0, A=A2, X=[[rng.randrange(A2) for _ in range(L)] for _ in range(n)])
    out.append(('alphabet', redraw(c)))
    # length (same start; end kept if it still fits)
    L2 = L + rng.choice([1, 2])
    c = dict(c0, L=L2, X=[x + [rng.randrange(A) for _ in range(L2 - L)] for x in c0['X']])
    out.append(('length', redraw(c)))
    # window start / end
    if e0 - s0 > 1:
        out.append(('start', redraw(dict(c0, start=s0 + 1))))
        out.append(('end', redraw(dict(c0, end=e0 - 1))))
    if s0 > 0:
        out.append(('start-', redraw(dict(c0, start=s0 - 1))))
    # batch size
    out.append(('bs', dict(c0, bs=(c0['bs'] or 32) % (A * (e0 - s0) + 1) + 1)))
    # number of examples
    c = dict(c0, X=c0['X'] + [[rng.randrange(A) for _ in range(L)]])
    if c0['args'] is not None:
        c['args'] = [dict(a, vals=a['vals'] + [a['vals'][0]]) for a in c0['args']]
    out.append(('examples', redraw(c)))
    # X content (same shape: the same tensor object is overwritten)
    out.append(('content', redraw(dict(c0, X=[[rng.randrange(A) for _ in range(L)] for _ in range(n)]))))
    # X dtype
    out.append(('xdtype', dict(c0, xdtype=rng.choice([d for d in XDTYPES if d != c0['xdtype']]))))
    # weights (same network object, new numbers)
    out.append(('weights', redraw(dict(c0))))
    # args: values / presence
    if c0['args'] is not None:
        c = dict(c0, args=[dict(a, vals=_bump(a['vals'])) for a in c0['args']])
        out.append(('argvals', c))
        out.append(('noargs', redraw(dict(c0, args=None))))
    else:
        out.append(('withargs', redraw(dict(c0, args=rand_args(rng, n, dtypes=ADTYPES)))))
    # output container / trailing shape
    if c0['mode'] == 'raw':
        if c0['tuple'] is None:
            out.append(('tuple', redraw(dict(c0, tuple=2, shapes=c0['shapes'] + [rand_shape(rng, False)]))))
        else:
            out.append(('tensor', redraw(dict(c0, tuple=None, shapes=c0['shapes'][:1]))))
        out.append(('shape', redraw(dict(c0, shapes=[rand_shape(rng, False) for _ in c0['shapes']]))))
        sh = rand_shape(rng, True)
        out.append(('to-attr', redraw(dict(c0, mode='attr', tuple=None, shapes=[sh],
                                           target=rand_target(rng, tr_of(sh)[0], True)))))
    else:
        T = tr_of(c0['shapes'][0])[0]
        out.append(('target', dict(c0, target=rand_target(rng, T, True))))
        out.append(('hyp', dict(c0, hyp=not c0['hyp'])))
        out.append(('to-raw', redraw(dict(c0, mode='raw'))))
        sh = rand_shape(rng, True)
        out.append(('shape', redraw(dict(c0, shapes=[sh], target=rand_target(rng, tr_of(sh)[0], True)))))
    return out


def _bump(v):
    if isinstance(v, list):
        return [_bump(x) for x in v]
    return v + 7


def strip(c):
    return {k: v for k, v in c.items() if k != 'prelude'}


def generate(tier, rng):
    quick = tier != 'thorough'
    # --- 0. (first, so that a state-dependent failure is reported as a self-contained replay) two calls in one process on the same objects, one thing changed between them
    for _ in range(8 if quick else 30):
        attr = rng.random() < 0.4
        c0 = rand_case(rng, 'sequence', forms=rand_forms(rng, 0.1), L=rng.randint(2, 7), attr=attr)
        for name, c1 in variants(rng, c0):
            a, b = strip(c0), strip(c1)
            yield dict(b, prelude=[a], changed=name, stream='sequence')
            if not quick or rng.random() < 0.3:
                yield dict(a, prelude=[b], changed=name + '<-', stream='sequence')
        yield dict(strip(c0), prelude=[strip(c0)], changed='nothing', stream='sequence')
    # --- 1. every window of short sequences, for every alphabet size, tensor / tuple / attribution
    maxL = 6 if quick else 8
    idx = 0
    for L in range(1, maxL + 1):
        for A in (2, 3, 4, 5):
            for s, e in windows(L, both=not quick):
                W = (e if e >= 0 else L + 1 + e) - s
                kinds = ['tensor', 'tuple', 'attr'] if not quick else [['tensor', 'tuple', 'attr'][idx % 3]]
                idx += 1
                for kind in kinds:
                    n = rng.choice([1, 2, 2, 3])
                    bs = pick_bs(rng, A, L, W, n)
                    args = rand_args(rng, n) if rng.random() < 0.4 else None
                    if kind == 'attr':
                        shapes = [rand_shape(rng, True)]
                        yield make(rng, A, L, n, s, e, bs, mode='attr', shapes=shapes, args=args,
                                   target=rand_target(rng, tr_of(shapes[0])[0]), hyp=rng.random() < 0.4,
                                   stream='windows')
                    else:
                        yield make(rng, A, L, n, s, e, bs, tup=(rng.choice([1, 2, 3]) if kind == 'tuple' else None),
                                   args=args, stream='windows')
    # defaults of start / end / batch_size
    for A in (2, 4):
        yield make(rng, A, 7, 2, 'default', 'default', None, stream='defaults')
        yield make(rng, A, 9, 2, 'default', 'default', None, tup=2, stream='defaults')
        yield make(rng, A, 7, 2, 3, 'default', None, mode='attr', shapes=[[3]], target=None, stream='defaults')
    # --- 2. every batch size 1..A*W+2
    confs = [(2, 3, 0, 3), (3, 4, 1, 3), (4, 3, 0, -1)] if quick else \
        [(2, 3, 0, 3), (3, 4, 1, 3), (4, 3, 0, -1), (5, 4, 0, 4), (3, 6, 2, -1), (2, 8, 1, 7), (4, 5, 0, 5)]
    for A, L, s, e in confs:
        W = (e if e >= 0 else L) - s
        for bs in range(1, A * W + 3):
            for tup in (None, 2):
                n = 2
                yield make(rng, A, L, n, s, e, bs, tup=tup, args=rand_args(rng, n) if bs % 2 else None,
                           stream='batch')
            if not quick:
                yield make(rng, A, L, 2, s, e, bs, mode='attr', shapes=[[2, 2]], args=rand_args(rng, 2),
                           target=rand_target(rng, 2), hyp=bool(bs % 2), stream='batch')
    # --- 3. random, larger
    for _ in range(200 if quick else 1500):
        yield rand_case(rng, 'random')
    # --- 4. input forms: every non-default form on its own (raw tensor, raw tuple, attribution), then mixed
    reps = 2 if quick else 4
    for key, vals in FORM_VALUES.items():
        for v in vals:
            for _ in range(reps):
                for attr, tup in ((False, None), (False, 2), (True, None)):
                    if key == 'outform' and (attr or tup is None):
                        continue
                    yield rand_case(rng, 'forms', forms={key: v}, L=rng.randint(1, 9), attr=attr, tup=tup)
    for it in ('np64', 'np32'):                  # numpy integers meet every place the window is used
        for hyp in (False, True):
            for s_, e_ in ((1, 3), (1, -2), (0, 2), (2, -1)):
                sh = rand_shape(rng, True)
                yield make(rng, rng.choice([2, 3, 5]), 4, 2, s_, e_, rng.choice([1, 3, None]), mode='attr', shapes=[sh],
                           target=rand_target(rng, tr_of(sh)[0], True), hyp=hyp, forms={'itype': it},
                           args=rand_args(rng, 2) if rng.random() < 0.3 else None, stream='forms')
            yield make(rng, 3, 4, 2, 1, 3, 2, tup=rng.choice([None, 2]), forms={'itype': it}, stream='forms')
    for xd in XDTYPES:
        for attr in (False, True):
            c = rand_case(rng, 'forms', forms={}, L=rng.randint(1, 9), attr=attr)
            c['xdtype'] = xd
            yield c
    for _ in range(60 if quick else 400):
        yield rand_case(rng, 'forms', forms=rand_forms(rng), L=rng.randint(1, 12))
    # --- 5. boundaries of every integer parameter
    for A in (2, 5) if quick else (2, 3, 4, 5):
        for L in (1, 2, 5):
            n = 2
            wins = {(0, 1), (L - 1, L), (0, L), (0, -L), (L - 1, -1), (0, -1)}
            for s, e in sorted(wins):
                W = (e if e >= 0 else L + 1 + e) - s
                for bs in sorted({1, n, max(1, A * W - 1), A * W, A * W + 1, 10 ** 6}):
                    yield make(rng, A, L, n, s, e, bs, tup=rng.choice([None, 1, 2]), shapes=None,
                               args=rand_args(rng, n) if rng.random() < 0.5 else None, stream='bounds')
    for n in (32, 33, 65):                       # y0 itself is predicted in batches of 32
        for tup in (None, 2):
            yield make(rng, 2, 2, n, 0, -1, rng.choice([1, 3, 32, None]), tup=tup, shapes=[[1]] * (tup or 1),
                       args=rand_args(rng, n, k=1), stream='bounds')
        yield make(rng, 3, 1, n, 0, 1, 2, mode='attr', shapes=[[2]], args=rand_args(rng, n, k=1), target=1,
                   stream='bounds')
    for T in (1, 2, 4):
        for R in ([], [1], [3]):
            tg = [None, 0, T - 1, -1, -T, [0, T], [T - 1, T], {'slice': [None, None, None]},
                  {'slice': [None, None, 2]}, {'slice': [None, None, T]}, {'slice': [0, None, T + 1]},
                  {'slice': [-1, None, None]}, {'slice': [None, 1, None]}, {'slice': [-T, T, 1]}]
            for t in tg if not quick else rng.sample(tg, 7):
                yield make(rng, rng.choice([2, 3, 5]), rng.randint(1, 4), 2, 0, -1, rng.choice([1, 2, 5]),
                           mode='attr', shapes=[[T] + R], target=t, hyp=rng.random() < 0.5, stream='bounds')
    yield make(rng, 3, 4, 1, 1, 3, 1, tup=1, shapes=[[1]], stream='bounds')
    yield make(rng, 3, 4, 1, 1, 3, 1, tup=1, shapes=[[]], stream='bounds')
    # --- 6. outside the property's scope: only the model's agreement with the code is checked
    M = 40 if quick else 300
    for _ in range(M):
        A = rng.choice([2, 3, 4])
        L = rng.randint(1, 7)
        n = rng.choice([1, 2])
        kind = rng.choice(['negstart', 'endbig', 'empty', 'negend', 'bs', 'arglen', 'attr-tuple'])
        s, e, bs, args, mode, tup = 0, -1, 4, None, 'raw', rng.choice([None, 2])
        if kind == 'negstart':
            s, e = -rng.randint(1, L + 2), rng.choice([-1, L, rng.randint(0, L)])
        elif kind == 'endbig':
            s, e = rng.randrange(L), L + rng.randint(1, 3)
        elif kind == 'empty':
            e = rng.randint(0, L)
            s = rng.randint(e, L + 1)
            if e > 0 and rng.random() < 0.5:
                e = neg_end(L, e)
        elif kind == 'negend':
            s, e = rng.randint(0, L), -(L + 1) - rng.randint(0, 3)
        elif kind == 'bs':
            bs = rng.choice([0, -1, -5])
        elif kind == 'arglen':
            args = rand_args(rng, n, bad_len=True)
        else:
            mode, tup = 'attr', 2
        if mode == 'attr':
            yield make(rng, A, L, n, s, e, bs, mode='attr', tup=tup, shapes=[[2], [2]], target=0, stream='outside')
        else:
            yield make(rng, A, L, n, s, e, bs, tup=tup, args=args, stream='outside')


# ----------------------------------------------------------------------------------------
# shrinking / search

def _cut_example(inp, i):
    c = dict(inp)
    c['X'] = inp['X'][:i] + inp['X'][i + 1:]
    if inp.get('args') is not None:
        c['args'] = [dict(a, vals=a['vals'][:i] + a['vals'][i + 1:]) for a in inp['args']]
    return c


def shrink(inp):
    if inp.get('prelude'):
        yield strip(inp)                       # does it fail without the earlier call?
    for k in FORM_VALUES:
        if k in inp:
            c = dict(inp)
            del c[k]
            yield c
    n = len(inp['X'])
    if n > 1:
        for i in range(n):
            yield _cut_example(inp, i)
    if inp.get('args') is not None:
        c = dict(inp)
        c['args'] = None
        c['acoef'] = []
        yield c
    # drop the last position when the window does not need it
    L = inp['L']
    e = inp['end']
    if isinstance(e, int) and e < -1 and L + 1 + e > 0:
        yield dict(inp, end=L + 1 + e)             # the same window, written positively
    if L > 1 and isinstance(e, int) and isinstance(inp['start'], int) and (e == -1 or 0 <= e < L) and inp['start'] < L - 1:
        c = dict(inp)
        c['L'] = L - 1
        c['X'] = [x[:-1] for x in inp['X']]
        c['base'] = inp['base'][:-1]
        yield c
    # drop the first position
    if L > 1 and isinstance(e, int) and isinstance(inp['start'], int) and inp['start'] > 0:
        c = dict(inp)
        c['L'] = L - 1
        c['X'] = [x[1:] for x in inp['X']]
        c['base'] = inp['base'][1:]
        c['start'] = inp['start'] - 1
        if e > 0:
            c['end'] = e - 1
        yield c
    # fewer output tensors / simpler trailing shape
    if inp['tuple'] is not None and inp['tuple'] > 1:
        c = dict(inp)
        c['tuple'] = inp['tuple'] - 1
        c['comps'] = inp['comps'][:-1]
        c['shapes'] = inp['shapes'][:-1]
        yield c
    for k, sh in enumerate(inp['shapes']):
        if sh and inp['mode'] == 'raw':
            T, R = tr_of(sh)
            if T * R > 1:
                c = dict(inp)
                c['shapes'] = inp['shapes'][:k] + [[1]] + inp['shapes'][k + 1:]
                c['comps'] = inp['comps'][:k] + [[[inp['comps'][k][0][0]]]] + inp['comps'][k + 1:]
                yield c
    if inp['bs'] is not None and inp['bs'] > 1:
        c = dict(inp)
        c['bs'] = inp['bs'] - 1
        yield c


def search(rng, disagreeing):
    """boundary-directed extra inputs: windows that are not the whole sequence, A != W, tuple outputs,
    batch sizes around the number of mutants"""
    for d in disagreeing[:5]:
        for _ in range(8):
            c = dict(d)
            c['bs'] = rng.choice([1, 2, 3, d['A'] * d['L'] + 1])
            yield c
    for A in (2, 3, 5):
        for L in (3, 4, 6):
            for s, e in windows(L, both=True):
                for tup in (None, 2):
                    yield make(rng, A, L, 2, s, e, rng.choice([1, 2, A * L + 1]), tup=tup,
                               args=rand_args(rng, 2), stream='search')
                yield make(rng, A, L, 2, s, e, 3, mode='attr', shapes=[[2, 2]], target=rand_target(rng, 2),
                           hyp=rng.random() < 0.5, stream='search')
