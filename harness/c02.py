"""C02 - shuffle / dinucleotide_shuffle: correspondence with coq/C02 (model + counting spec).

Three kinds of case, all evaluated in Coq by C02.Spec.check_case:

enum  dinucleotide_shuffle run through the PURE-PYTHON walk (_fast_shuffle.py_func, installed in
      the ersatz module namespace for the duration of the call) with numpy.random.permutation
      replaced by an enumerating source that hands out a planned value for every internal draw.
      The model gets the same plan; outputs are compared exactly.  The generator enumerates EVERY
      outcome of every internal permutation for every sequence of the small scope.
obs   the compiled dinucleotide_shuffle (numba), seeds 0..k: the draws are unknown, so only the
      spec (pair counts, first/last character, flanks, one-hot) and the accept/reject behaviour
      are evaluated on the implementation's output.
shuf  shuffle; numpy.random.RandomState(seed).shuffle is replayed to hand the model the very
      permutations the implementation drew; outputs are compared exactly.

Every call is made twice with the same seed (the global numpy generator is re-seeded differently
in between); seeds are passed as Python int, numpy int64/int32/uint8/uint64 scalars or 0-d integer
arrays, and for a non-Python-int seed a third call uses int(seed) and must give the same tensor: "same result" and "input bit-identical afterwards" enter the case as booleans.
"""
import itertools
import json
import math
import os
import subprocess
import sys

import numpy
import torch

from . import common as C

PID = 'C02'
IMPORTS = ['Base.OneHot', 'C02.Model', 'C02.Spec']
CASE_TYPE = 'case'
CHECK = 'check_case'
SHARD = 250
RULE = ('enum: every sequence of length <= 8 (quick: <= 6) over alphabets of size 2-4, whole sequence as '
        'region, n=1, EVERY outcome of every internal numpy.random.permutation call (batched: one call '
        'shuffles up to 16 sequences, each with its own planned draws); n=2 (cumulative in-place '
        'permutation, "all identical" guard) for every sequence of length <= 5 (quick: <= 4) and every '
        'pair of families; every (start, end) in [-L-2, L+2]^2 for sampled sequences. obs: compiled '
        'function on every sequence of the same scope (batched), end = L (seeds 0..1 up to length 7) and the default end = -1, plus random '
        'sequences up to length 300, alphabets 2-8, batch <= 4, n in {1,2,5,20}, random regions incl. '
        'negative bounds; seeds as Python int or numpy integer scalar / 0-d array (third call with int(seed) must agree). shuf: every sequence of length <= 6 (quick: <= 5) batched, every region in '
        '[-L-2, L+2]^2, n in {1,2}, seeds; random long; plus a malformed stream. Non-trivial = the call '
        'returned and its region has length >= 3 with >= 2 distinct characters in some example')
EXHAUSTIVE = {'quick': True, 'thorough': True}
TRUSTED = ['shuffle: the drawn permutations are obtained by replaying numpy.random.RandomState(seed).shuffle',
           'enum: numpy.random.permutation is replaced by a planned source while _fast_shuffle.py_func (the '
           'pure-Python body of the numba kernel) runs inside the real dinucleotide_shuffle',
           'one-hot rows, results and planned draws are printed as hexadecimal digit strings (Spec.dnb/obn/sgn decode them '
           'in Coq) only after an exact one-hot round-trip check in Python; other rows are printed as raw columns',
           'compiled calls run in a worker process; a worker that dies is reported as a failing input']
ASSUMPTIONS = ['RandomState.shuffle leaves a permutation of arange(k); numpy.random.permutation(k) returns a '
               'permutation of range(k) (hypotheses perms_ok / sig_ok of the theorems)',
               'the compiled walk is tied relationally (through the spec), the pure-Python walk exactly',
               'aliasing ("input not modified") and determinism per seed are observed, not modelled']


# ----------------------------------------------------------------------------------------
# tensors <-> column codes (k >= 0 one-hot at k; -1 all-zero; -2 two ones; -3 contains a 2)

def column(A, k):
    c = [0] * A
    if k >= 0:
        c[k] = 1
    elif k == -2:
        c[0] = 1
        c[A - 1] = 1 if A > 1 else 2
    elif k == -3:
        c[0] = 2
    return c


def to_tensor(A, seqs, dtype=torch.int8):
    B = len(seqs)
    L = len(seqs[0]) if B else 0
    X = torch.zeros(B, A, L, dtype=dtype)
    for b, s in enumerate(seqs):
        for p, k in enumerate(s):
            if k >= 0:
                X[b, k, p] = 1
            else:
                X[b, :, p] = torch.tensor(column(A, k), dtype=dtype)
    return X


def from_seq(Y):
    """(A, L) tensor -> ('codes', [k...]) when it is exactly one-hot, else ('raw', [L][A])"""
    Y = Y.detach().cpu()
    if Y.is_floating_point() and not torch.equal(Y, Y.round()):
        return None
    Yi = Y.to(torch.int64)
    A, L = Yi.shape
    codes = Yi.argmax(dim=0)
    back = torch.zeros_like(Yi)
    if L:
        back[codes, torch.arange(L)] = 1
    if torch.equal(back, Yi):
        return ['c', codes.tolist()]
    return ['r', Yi.t().tolist()]


def codes_lit(A, codes):
    """a one-hot row given by its character codes"""
    if A <= 16:
        return '(dn %s 0x1%s)' % (C.nat(A), ''.join('%x' % int(k) for k in codes))
    return '(en %s %s)' % (C.nat(A), natl(codes))


def seq_lit(A, enc):
    if enc[0] == 'c':
        return codes_lit(A, enc[1])
    return C.lst([C.zlist(c) for c in enc[1]])


def natl(xs):
    xs = [int(x) for x in xs]
    if xs and max(xs) <= 15:
        return '(dg 0x1%s)' % ''.join('%x' % x for x in xs)
    return '(%s)%%nat' % C.lst([str(x) for x in xs])


def digits(rows):
    return '0x1' + ''.join('%x' % int(k) for r in rows for k in r)


def tensor_lit(A, seqs):
    L = len(seqs[0]) if seqs else 0
    if seqs and L >= 1 and A <= 16 and all(k >= 0 for s in seqs for k in s):
        return '(T %s %s (dnb %s %s %s))' % (C.nat(A), C.nat(L), C.nat(A), C.nat(L), digits(seqs))
    rows = []
    for s in seqs:
        if all(k >= 0 for k in s):
            rows.append(codes_lit(A, s))
        else:
            rows.append(C.lst([C.zlist(column(A, k)) for k in s]))
    return '(T %s %s %s)' % (C.nat(A), C.nat(L), C.lst(rows))


# ----------------------------------------------------------------------------------------
# the enumerating permutation source

_PERMS = {}


def perms_of(m):
    assert m <= 7, m           # enumeration is for the small scope only
    if m not in _PERMS:
        _PERMS[m] = [list(p) for p in itertools.permutations(range(max(m, 0)))]
    return _PERMS[m]


def succ_counts(A, region):
    cnt = [0] * A
    for k in region[:-1]:
        if 0 <= k < A:
            cnt[k] += 1
    return cnt


def n_families(A, region):
    f = 1
    for n_c in succ_counts(A, region):
        f *= math.factorial(max(n_c - 1, 0))
    return f


def family(A, region, idx):
    """the idx-th family (mixed radix over characters) of draws for one shuffle of `region`:
    for character c the value numpy.random.permutation(n_c - 1) is to return"""
    fam = []
    for n_c in succ_counts(A, region):
        ps = perms_of(n_c - 1)
        fam.append(ps[idx % len(ps)])
        idx //= len(ps)
    return fam


def random_family(A, region, rng):
    """one random admissible family (no enumeration: the lists may be long)"""
    return [rng.sample(range(max(n_c - 1, 0)), max(n_c - 1, 0)) for n_c in succ_counts(A, region)]


class Planned:
    """stands in for numpy.random.permutation while the pure-Python walk runs"""

    def __init__(self, plan):
        self.queue = [p for ex in plan for sh in ex for p in sh]
        self.i = 0
        self.ok = True

    def __call__(self, k):
        if self.i >= len(self.queue):
            self.ok = False
            raise RuntimeError('verif: more draws than planned')
        p = self.queue[self.i]
        self.i += 1
        if len(p) != max(int(k), 0):
            self.ok = False
            raise RuntimeError('verif: draw of size %r, planned %d' % (k, len(p)))
        return numpy.array(p, dtype=numpy.int64)


def pyslice(L, start, end):
    a, b, _ = slice(start, end).indices(L)
    return a, b


# ----------------------------------------------------------------------------------------
# running the implementation

def canon(Y, B):
    """(B, n, A, L) tensor -> [B][n] encodings; None when the shape is not 4-d"""
    if not isinstance(Y, torch.Tensor) or Y.dim() != 4:
        return None
    out = []
    for b in range(Y.shape[0]):
        row = []
        for i in range(Y.shape[1]):
            e = from_seq(Y[b, i])
            if e is None:
                return None
            row.append(e)
        out.append(row)
    return out


# integer seed types the unchanged code accepts for both functions (probed on /repo: Python int,
# numpy signed/unsigned integer scalars, 0-d integer arrays all give the stream of int(seed));
# "a fixed integer seed" of the property text includes them
SEED_TYPES = ('int', 'i64', 'i32', 'u8', 'u64', 'arr0', 'arr0_i32')


def seed_value(inp, as_int=False):
    t = 'int' if as_int else inp.get('seed_type', 'int')
    v = int(inp['seed'])
    if t == 'i64':
        return numpy.int64(v)
    if t == 'i32':
        return numpy.int32(v)
    if t == 'u8':
        return numpy.uint8(v)
    if t == 'u64':
        return numpy.uint64(v)
    if t == 'arr0':
        return numpy.array(v)
    if t == 'arr0_i32':
        return numpy.array(v, dtype=numpy.int32)
    return v


def pick_seed(rng, big=True):
    """(seed, seed_type): half the calls use a Python int; u8 seeds stay below 200 (seed + example index)"""
    t = rng.choice(SEED_TYPES) if rng.random() < 0.5 else 'int'
    v = rng.choice([0, 1, 2, 3, rng.randint(0, 10 ** 6) if big else 3])
    if t == 'u8':
        v %= 200
    return v, t


def call_once(inp, X, as_int=False):
    from tangermeme import ersatz
    kind = inp['kind']
    if kind == 'shuf':
        return ersatz.shuffle(X, start=inp['start'], end=inp['end'], n=inp['n'],
                              random_state=seed_value(inp, as_int))
    if kind == 'obs':
        return ersatz.dinucleotide_shuffle(X, start=inp['start'], end=inp['end'], n=inp['n'],
                                           random_state=seed_value(inp, as_int))
    # enum: pure-Python kernel + planned draws, inside the real API function
    src = Planned(inp['plan'])
    kernel = ersatz._fast_shuffle
    saved = numpy.random.permutation
    ersatz._fast_shuffle = kernel.py_func
    numpy.random.permutation = src
    try:
        Y = ersatz.dinucleotide_shuffle(X, start=inp['start'], end=inp['end'],
                                        n=len(inp['plan'][0]) if inp['plan'] else 0, random_state=0)
    finally:
        numpy.random.permutation = saved
        ersatz._fast_shuffle = kernel
    if src.i != len(src.queue):
        raise RuntimeError('verif: %d of %d planned draws used' % (src.i, len(src.queue)))
    return Y


def run_impl(inp):
    """compiled (numba, no bounds checks) calls run in a worker process: if the interpreter dies
    the case is reported as a failing input instead of taking the whole check down"""
    if inp['kind'] == 'obs' and os.environ.get('VERIF_C02_WORKER') != '1':
        return run_isolated(inp)
    return run_local(inp)


_WORKER = None


def _worker():
    global _WORKER
    if _WORKER is None or _WORKER.poll() is not None:
        env = dict(os.environ, VERIF_C02_WORKER='1')
        _WORKER = subprocess.Popen([sys.executable, '-W', 'ignore', '-m', 'harness.c02', '--worker'],
                                   stdin=subprocess.PIPE, stdout=subprocess.PIPE,
                                   stderr=subprocess.DEVNULL, text=True, cwd=C.VERIF, env=env)
    return _WORKER


def run_isolated(inp):
    global _WORKER
    w = _worker()
    line = ''
    try:
        w.stdin.write(json.dumps(inp) + '\n')
        w.stdin.flush()
        while True:
            line = w.stdout.readline()
            if not line or line.startswith('@@'):
                break
    except (BrokenPipeError, OSError):
        line = ''
    if not line:
        try:
            w.kill()
        except Exception:
            pass
        rc = w.wait()
        _WORKER = None
        return {'ok': True, 'Y': 'shape', 'err': 'CRASH: the interpreter died during the call (exit %s)' % rc,
                'unchanged': False, 'same': False}
    return json.loads(line[2:])


def worker_main():
    for line in sys.stdin:
        out = run_local(json.loads(line))
        sys.stdout.write('@@' + json.dumps(out) + '\n')
        sys.stdout.flush()


def run_local(inp):
    A = inp['A']
    dtype = torch.float32 if inp.get('dtype') == 'f32' else torch.int8
    X = to_tensor(A, inp['seqs'], dtype)
    X0 = X.clone()
    res = []
    # two calls with the seed as given; when it is not a Python int, a third with int(seed):
    # equal integer values are the same seed
    typed = inp['kind'] != 'enum' and inp.get('seed_type', 'int') != 'int'
    for rep in range(3 if typed else 2):
        numpy.random.seed(1234567 + 7919 * rep)      # the result must not depend on the global state
        try:
            Y = call_once(inp, X, as_int=(rep == 2))
            enc = canon(Y, len(inp['seqs']))
            res.append(('ok', enc if enc is not None else 'shape'))
        except Exception as e:
            res.append(('raise', type(e).__name__))
    unchanged = bool(torch.equal(X, X0))
    same = all(r == res[0] for r in res[1:])
    ok = res[0][0] == 'ok'
    return {'ok': ok, 'Y': res[0][1] if ok else None, 'err': None if ok else res[0][1],
            'unchanged': unchanged, 'same': same}


# ----------------------------------------------------------------------------------------
# Coq literals

def replay_shuffle(inp):
    """the permutations shuffle draws, when its guards pass (else [] - the model rejects too)"""
    L = len(inp['seqs'][0]) if inp['seqs'] else 0
    end = inp['end']
    if end < 0:
        end = L + 1 + end
    start = inp['start']
    n = inp['n']
    if end <= start or end > L or start < 0 or n <= 0 or n > 64:
        return [[] for _ in range(max(0, min(n, 64)))]
    rs = numpy.random.RandomState(inp['seed'])
    perms = []
    for _ in range(n):
        idxs = numpy.arange(end - start)
        rs.shuffle(idxs)
        perms.append(idxs.tolist())
    return perms


def outcome_lit(inp, out, transpose):
    if not out['ok']:
        return 'Err'
    if out['Y'] == 'shape' or out['Y'] is None:
        return '(Ok [[[[7]]]])'          # not a (B, n, A, L) integral tensor: certainly wrong
    A = inp['A']
    Y = out['Y']
    if transpose:                           # shuffle: model is indexed [sample][example]
        n = len(Y[0]) if Y else 0
        Y = [[Y[b][i] for b in range(len(Y))] for i in range(n)]
    k = len(Y[0]) if Y else 0
    L = len(Y[0][0][1]) if k else 0
    if (Y and k >= 1 and L >= 1 and A <= 16 and all(len(row) == k for row in Y)
            and all(e[0] == 'c' and len(e[1]) == L for row in Y for e in row)):
        return '(Ok (obn %s %s %s %s))' % (C.nat(A), C.nat(L), C.nat(k),
                                           digits([e[1] for row in Y for e in row]))
    return '(Ok %s)' % C.lst([C.lst([seq_lit(A, e) for e in row]) for row in Y])


def coq_case(inp, out):
    A = inp['A']
    X = tensor_lit(A, inp['seqs'])
    kind = inp['kind']
    if kind == 'shuf':
        perms = replay_shuffle(inp)
        call = '(CShuf %s %s %s %s)' % (X, C.z(inp['start']), C.z(inp['end']),
                                        C.lst([natl(p) for p in perms]))
        o = outcome_lit(inp, out, True)
    elif kind == 'obs':
        call = '(CDinucObs %s %s %s %s)' % (X, C.z(inp['start']), C.z(inp['end']), C.nat(max(inp['n'], 0)))
        o = outcome_lit(inp, out, False)
    else:
        plan = inp['plan']
        n = len(plan[0]) if plan else 0
        flat = [p for ex in plan for sh in ex for p in sh]
        if (n >= 1 and all(len(ex) == n and all(len(sh) == A for sh in ex) for ex in plan)
                and all(x <= 14 for p in flat for x in p)):
            sig = '(sgn %s %s 0x1%s)' % (C.nat(A), C.nat(n),
                                         ''.join(''.join('%x' % x for x in p) + 'f' for p in flat))
        else:
            sig = C.lst([C.lst([C.lst([natl(p) for p in sh]) for sh in ex]) for ex in plan])
        call = '(CDinuc %s %s %s %s)' % (X, C.z(inp['start']), C.z(inp['end']), sig)
        o = outcome_lit(inp, out, False)
    return '(%s, %s, %s, %s)' % (call, o, C.boolean(out['unchanged']), C.boolean(out['same']))


# ----------------------------------------------------------------------------------------
# evidence helpers

def region_of(inp):
    L = len(inp['seqs'][0]) if inp['seqs'] else 0
    if inp['kind'] == 'shuf':
        e = inp['end'] if inp['end'] >= 0 else L + 1 + inp['end']
        if 0 <= inp['start'] < e <= L:
            return inp['start'], e
        return 0, 0
    return pyslice(L, inp['start'], inp['end'])


def nontrivial(inp, out):
    if not out['ok']:
        return False
    a, b = region_of(inp)
    return any(b - a >= 3 and len(set(s[a:b])) >= 2 for s in inp['seqs'])


def hist_key(inp, out):
    L = len(inp['seqs'][0]) if inp['seqs'] else 0
    return '%s/%s/L%s' % (inp['kind'], ('crash' if out.get('err') else 'ok') if out['ok'] else out['err'],
                          L if L <= 8 else ('9-40' if L <= 40 else '41+'))


def tags(inp, out):
    return set()


# ----------------------------------------------------------------------------------------
# generators

def all_seqs(A, L):
    return [list(t) for t in itertools.product(range(A), repeat=L)]


def enum_whole(A, seqs, batch):
    """every family of every sequence (region = whole sequence, n = 1), `batch` examples per call"""
    L = len(seqs[0])
    seqs = sorted(seqs, key=lambda s: -n_families(A, s))
    for i in range(0, len(seqs), batch):
        chunk = seqs[i:i + batch]
        fams = [n_families(A, s) for s in chunk]
        for k in range(max(fams)):
            yield {'kind': 'enum', 'A': A, 'seqs': chunk, 'start': 0, 'end': L,
                   'plan': [[family(A, s, k % f)] for s, f in zip(chunk, fams)]}


def enum_two(A, s):
    """n = 2: every pair of families (the lists are permuted in place, cumulatively)"""
    L = len(s)
    f = n_families(A, s)
    for k1 in range(f):
        for k2 in range(f):
            yield {'kind': 'enum', 'A': A, 'seqs': [s], 'start': 0, 'end': L,
                   'plan': [[family(A, s, k1), family(A, s, k2)]]}


def rand_seq(rng, A, L, skew=False):
    if skew:
        w = [rng.random() ** 2 + 0.02 for _ in range(A)]
        return rng.choices(range(A), weights=w, k=L)
    return [rng.randrange(A) for _ in range(L)]


def rand_region(rng, L):
    c = rng.random()
    if c < 0.25:
        return 0, rng.choice([-1, L])
    if c < 0.75:
        a = rng.randrange(0, max(1, L - 2))
        b = rng.randint(min(L, a + 1), L)
        return a, b
    return rng.randint(-L - 2, L + 2), rng.randint(-L - 2, L + 2)


def generate(tier, rng):
    quick = tier != 'thorough'
    # ---------------- enum: the pure-Python walk under every outcome of its draws
    maxL = 6 if quick else 8
    for A in (2, 3, 4):
        for L in range(1, maxL + 1):
            for c in enum_whole(A, all_seqs(A, L), 16):
                yield c
    for A in (2, 3, 4):
        for L in range(3, (4 if quick else 5) + 1):
            for s in all_seqs(A, L):
                for c in enum_two(A, s):
                    yield c
    # three shuffles, cumulative, random families, longer sequences
    for _ in range(60 if quick else 600):
        A = rng.choice([2, 3, 4, 5])
        L = rng.randint(5, 14)
        s = rand_seq(rng, A, L, rng.random() < 0.5)
        n = rng.choice([2, 3])
        yield {'kind': 'enum', 'A': A, 'seqs': [s], 'start': 0, 'end': L,
               'plan': [[random_family(A, s, rng) for _i in range(n)]]}
    # every region (Python slice semantics, negative and out-of-range bounds) on sampled sequences
    for A in (2, 3, 4):
        for L in ((5,) if quick else (5, 6, 7)):
            for s in rng.sample(all_seqs(A, L), 2 if quick else 5):
                other = rand_seq(rng, A, L)
                for start in range(-L - 2, L + 3):
                    for end in range(-L - 2, L + 3):
                        a, b = pyslice(L, start, end)
                        plan = []
                        for x in (s, other):
                            r = x[a:b]
                            plan.append([random_family(A, r, rng)])
                        yield {'kind': 'enum', 'A': A, 'seqs': [s, other], 'start': start, 'end': end,
                               'plan': plan}
    # ---------------- obs: the compiled function
    for A in (2, 3, 4):
        for L in range(1, maxL + 1):
            seqs = all_seqs(A, L)
            rng.shuffle(seqs)
            for i in range(0, len(seqs), 64):
                for end, seed in ((L, 0), (-1, 0)) if (quick or L == 8) else ((L, 0), (L, 1), (-1, 0)):
                    yield {'kind': 'obs', 'A': A, 'seqs': seqs[i:i + 64], 'start': 0, 'end': end,
                           'n': 1, 'seed': seed,
                           'seed_type': rng.choice(SEED_TYPES) if rng.random() < 0.5 else 'int'}
    for _ in range(150 if quick else 700):
        A = rng.choice([2, 3, 4, 4, 4, 5, 8])
        L = rng.choice([3, 4, 6, 9, 14, 20, 33, 50, 80, 120, 200, 300])
        n = rng.choice([1, 1, 2, 5, 20, 0])
        B = rng.randint(1, 4)
        while B * max(n, 1) * L * L > 600000 and B > 1:
            B -= 1
        while B * max(n, 1) * L * L > 600000 and n > 1:
            n = {20: 5, 5: 2, 2: 1}[n]
        seqs = [rand_seq(rng, A, L, rng.random() < 0.4) for _b in range(B)]
        start, end = rand_region(rng, L)
        sd, st = pick_seed(rng)
        yield {'kind': 'obs', 'A': A, 'seqs': seqs, 'start': start, 'end': end, 'n': n,
               'seed': sd, 'seed_type': st, 'dtype': 'f32' if rng.random() < 0.2 else 'i8'}
    # ---------------- shuf (the permutation does not depend on the data: one batch of sequences
    # per alphabet and length, every region)
    for A in (2, 3, 4):
        for L in range(1, (5 if quick else 7) + 1):
            seqs = all_seqs(A, L)
            seqs = rng.sample(seqs, min(len(seqs), 16 if quick else 32))
            regions = [(st, en) for st in range(-2, L + 2) for en in range(-L - 2, L + 3)]
            for (st, en) in regions:
                sd, sty = pick_seed(rng, big=False)
                yield {'kind': 'shuf', 'A': A, 'seqs': seqs, 'start': st, 'end': en,
                       'n': rng.choice([1, 2]), 'seed': sd, 'seed_type': sty}
    for _ in range(150 if quick else 700):
        A = rng.choice([2, 3, 4, 4, 5, 8])
        L = rng.choice([3, 5, 8, 13, 21, 40, 80, 150, 300])
        B = rng.randint(1, 4)
        n = rng.choice([1, 2, 3, 5, 0])
        while B * max(n, 1) * L > 3000 and B > 1:
            B -= 1
        seqs = [rand_seq(rng, A, L, rng.random() < 0.4) for _b in range(B)]
        start, end = rand_region(rng, L)
        sd, st = pick_seed(rng)
        yield {'kind': 'shuf', 'A': A, 'seqs': seqs, 'start': start, 'end': end, 'n': n,
               'seed': sd, 'seed_type': st, 'dtype': 'f32' if rng.random() < 0.2 else 'i8'}
    # ---------------- malformed inputs (both functions must reject; nothing may be modified)
    for _ in range(40 if quick else 200):
        A = rng.choice([2, 3, 4])
        L = rng.randint(3, 12)
        seqs = [rand_seq(rng, A, L) for _b in range(rng.randint(1, 3))]
        seqs[0][rng.randrange(L)] = rng.choice([-1, -2, -3])
        kind = rng.choice(['shuf', 'obs'])
        yield {'kind': kind, 'A': A, 'seqs': seqs, 'start': 0, 'end': L, 'n': 1, 'seed': 0}


def shrink(inp):
    B = len(inp['seqs'])
    if B > 3:
        for lo, hi in ((0, B // 2), (B // 2, B)):
            c = dict(inp)
            c['seqs'] = inp['seqs'][lo:hi]
            if inp['kind'] == 'enum':
                c['plan'] = inp['plan'][lo:hi]
            yield c
    if B > 1:
        for i in range(B):
            c = dict(inp)
            c['seqs'] = inp['seqs'][:i] + inp['seqs'][i + 1:]
            if inp['kind'] == 'enum':
                c['plan'] = inp['plan'][:i] + inp['plan'][i + 1:]
            yield c
    if inp['kind'] != 'enum' and inp.get('n', 1) > 1:
        c = dict(inp)
        c['n'] = inp['n'] // 2
        yield c
    if inp['kind'] == 'enum' and inp['plan'] and len(inp['plan'][0]) > 1:
        c = dict(inp)
        c['plan'] = [ex[:-1] for ex in inp['plan']]
        yield c
    # shorten from the right when the region is given by non-negative bounds inside the sequence
    L = len(inp['seqs'][0]) if inp['seqs'] else 0
    if inp['kind'] != 'enum' and L > 1 and 0 <= inp['start'] and 0 <= inp['end'] < L:
        c = dict(inp)
        c['seqs'] = [s[:-1] for s in inp['seqs']]
        yield c
    if inp['kind'] != 'enum' and inp.get('seed_type', 'int') not in ('int', 'i64'):
        c = dict(inp)
        c['seed_type'] = 'i64'
        yield c
    if inp['kind'] != 'enum' and inp.get('seed', 0) > 3:
        for sd in (0, 1):
            c = dict(inp)
            c['seed'] = sd
            yield c


def search(rng, disagreeing):
    """the tie broke without a failing input: look for one near the disagreeing calls with the
    compiled function / shuffle on the same sequences, more seeds, all regions"""
    for inp in disagreeing[:20]:
        L = len(inp['seqs'][0]) if inp['seqs'] else 0
        for seed in range(6):
            for (st, en) in [(0, L), (0, -1), (1, L), (0, L - 1), (1, -2)]:
                for kind in ('obs', 'shuf'):
                    yield {'kind': kind, 'A': inp['A'], 'seqs': inp['seqs'], 'start': st, 'end': en,
                           'n': rng.choice([1, 2, 3]), 'seed': seed,
                           'seed_type': SEED_TYPES[seed % len(SEED_TYPES)]}


if __name__ == '__main__' and '--worker' in sys.argv:
    worker_main()
