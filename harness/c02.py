"""C02 - shuffle / dinucleotide_shuffle: correspondence with coq/C02 (model + counting spec).

Three kinds of case, all evaluated in Coq by C02.Spec.check_case:

enum  dinucleotide_shuffle run through the PURE-PYTHON walk (_fast_shuffle.py_func, installed in
      the ersatz module namespace for the duration of the call) with numpy.random.permutation
      replaced by an enumerating source that hands out a planned value for every internal draw.
      The model gets the same plan; outputs are compared exactly.  The generator enumerates EVERY
      outcome of every internal permutation for every sequence of the small scope.
obs   the compiled dinucleotide_shuffle (numba), seeds 0..k: the draws are unknown, so only the
      spec (pair counts, first/last character, flanks, one-hot) and the accept/reject behaviour
      are evaluated on the implementation's output.
shuf  shuffle; numpy.random.RandomState(seed).shuffle is replayed to hand the model the very
      permutations the implementation drew; outputs are compared exactly.

Every call is made twice with the same seed (the global numpy generator is re-seeded differently
in between); seeds are passed as Python int, numpy int64/int32/uint8/uint64 scalars or 0-d integer
arrays, and for a non-Python-int seed a third call uses int(seed) and must give the same tensor: "same result" and "input bit-identical afterwards" enter the case as booleans.
"""
import contextlib
import io
import itertools
import json
import math
import os
import subprocess
import sys

import numpy
import torch

from . import common as C

torch.set_num_threads(1)      # tiny tensors only: intra-op threads just spin under load

PID = 'C02'
IMPORTS = ['Base.OneHot', 'C02.Model', 'C02.Spec']
CASE_TYPE = 'case'
CHECK = 'check_case'
SHARD = 250
RULE = ('enum: every sequence of length <= 8 (quick: <= 6) over alphabets of size 2-4, whole sequence as '
        'region, n=1, EVERY outcome of every internal numpy.random.permutation call (batched: one call '
        'shuffles up to 16 sequences, each with its own planned draws); n=2 (cumulative in-place '
        'permutation, "all identical" guard) for every sequence of length <= 5 (quick: <= 4) and every '
        'pair of families; every (start, end) in [-L-2, L+2]^2 for sampled sequences. obs: compiled '
        'function on every sequence of the same scope (batched), end = L (seeds 0..1 up to length 7) and the default end = -1, plus random '
        'sequences up to length 300, alphabets 2-8, batch <= 4, n in {1,2,5,20}, random regions incl. '
        'negative bounds; region lengths at the integer-width boundaries 127..129, 255..257 (exact) and 32767..32769, '
        '65535..65537 (one long sequence, n=1; shuffle evaluated through the spec only); seeds as Python int or numpy integer scalar / 0-d array (third call with int(seed) must agree). '
        'forms: one or two deviations from the plain call at a time (X dtype uint8..float64/bool, non-contiguous / view / '
        'expanded / requires_grad X, numpy-int start/end/n, omitted and None arguments, RandomState object / reused / no seed, '
        'verbose, n = 0, large seeds), each compared with its plain twin; an unrelated call between the two repetitions. shuf: every sequence of length <= 6 (quick: <= 5) batched, every region in '
        '[-L-2, L+2]^2, n in {1,2}, seeds; random long; plus a malformed stream. Non-trivial = the call '
        'returned and its region has length >= 3 with >= 2 distinct characters in some example')
EXHAUSTIVE = {'quick': True, 'thorough': True}
TRUSTED = ['shuffle: the drawn permutations are obtained by replaying numpy.random.RandomState(seed).shuffle',
           'enum: numpy.random.permutation is replaced by a planned source while _fast_shuffle.py_func (the '
           'pure-Python body of the numba kernel) runs inside the real dinucleotide_shuffle',
           'one-hot rows, results and planned draws are printed as hexadecimal digit strings (Spec.dnb/obn/sgn decode them '
           'in Coq) only after an exact one-hot round-trip check in Python; other rows are printed as raw columns',
           'compiled calls run in a worker process; a worker that dies is reported as a failing input']
ASSUMPTIONS = ['RandomState.shuffle leaves a permutation of arange(k); numpy.random.permutation(k) returns a '
               'permutation of range(k) (hypotheses perms_ok / sig_ok of the theorems)',
               'the compiled walk is tied relationally (through the spec), the pure-Python walk exactly',
               'aliasing ("input not modified") and determinism per seed are observed, not modelled']


# ----------------------------------------------------------------------------------------
# tensors <-> column codes (k >= 0 one-hot at k; -1 all-zero; -2 two ones; -3 contains a 2)

def column(A, k):
    c = [0] * A
    if k >= 0:
        c[k] = 1
    elif k == -2:
        c[0] = 1
        c[A - 1] = 1 if A > 1 else 2
    elif k == -3:
        c[0] = 2
    return c


def to_tensor(A, seqs, dtype=torch.int8):
    B = len(seqs)
    L = len(seqs[0]) if B else 0
    arr = numpy.zeros((B, A, L), dtype=numpy.int64)
    if B and L:
        codes = numpy.array(seqs, dtype=numpy.int64)
        b, p = numpy.nonzero(codes >= 0)
        arr[b, codes[b, p], p] = 1
        for b, p in zip(*numpy.nonzero(codes < 0)):
            arr[b, :, p] = column(A, int(codes[b, p]))
    return torch.from_numpy(arr).to(dtype)


def from_seq(Y):
    """(A, L) tensor -> ('codes', [k...]) when it is exactly one-hot, else ('raw', [L][A])"""
    Y = Y.detach().cpu()
    if Y.is_floating_point():
        Yd = Y.double()
        if not torch.equal(Yd, Yd.round()):
            return None
        Yi = Yd.to(torch.int64)
    else:
        Yi = Y.to(torch.int64)
    A, L = Yi.shape
    codes = Yi.argmax(dim=0)
    back = torch.zeros_like(Yi)
    if L:
        back[codes, torch.arange(L)] = 1
    if torch.equal(back, Yi):
        return ['c', codes.tolist()]
    return ['r', Yi.t().tolist()]


def codes_lit(A, codes):
    """a one-hot row given by its character codes"""
    if A <= 16:
        return '(dn %s 0x1%s)' % (C.nat(A), ''.join('%x' % int(k) for k in codes))
    return '(en %s %s)' % (C.nat(A), natl(codes))


def seq_lit(A, enc):
    if enc[0] == 'c':
        return codes_lit(A, enc[1])
    return C.lst([C.zlist(c) for c in enc[1]])


def lnat(n):
    """a nat literal without common.nat's 5000 cap (long-sequence cases); built from a binary Z by Z.to_nat"""
    n = int(n)
    return C.nat(n) if n < 5000 else '(Z.to_nat %d)' % n


def natl(xs):
    xs = [int(x) for x in xs]
    if xs and max(xs) <= 15:
        return '(dg 0x1%s)' % ''.join('%x' % x for x in xs)
    return '(%s)%%nat' % C.lst([str(x) for x in xs])


CHUNK = 2000      # hex digits per numeral in long literals


def digits(rows):
    return '0x1' + ''.join('%x' % int(k) for r in rows for k in r)


def digits_long(rows):
    flat = ''.join('%x' % int(k) for r in rows for k in r)
    return C.lst(['0x1' + flat[i:i + CHUNK] for i in range(0, len(flat), CHUNK)])


def tensor_lit(A, seqs):
    L = len(seqs[0]) if seqs else 0
    if seqs and L >= 1 and A <= 16 and all(k >= 0 for s in seqs for k in s):
        if len(seqs) * L > 2 * CHUNK:
            return '(T %s %s (dnbL %s %s %s))' % (lnat(A), lnat(L), lnat(A), lnat(L), digits_long(seqs))
        return '(T %s %s (dnb %s %s %s))' % (C.nat(A), C.nat(L), C.nat(A), C.nat(L), digits(seqs))
    rows = []
    for s in seqs:
        if all(k >= 0 for k in s):
            rows.append(codes_lit(A, s))
        else:
            rows.append(C.lst([C.zlist(column(A, k)) for k in s]))
    return '(T %s %s %s)' % (C.nat(A), C.nat(L), C.lst(rows))


# ----------------------------------------------------------------------------------------
# the enumerating permutation source

_PERMS = {}


def perms_of(m):
    assert m <= 7, m           # enumeration is for the small scope only
    if m not in _PERMS:
        _PERMS[m] = [list(p) for p in itertools.permutations(range(max(m, 0)))]
    return _PERMS[m]


def succ_counts(A, region):
    cnt = [0] * A
    for k in region[:-1]:
        if 0 <= k < A:
            cnt[k] += 1
    return cnt


def n_families(A, region):
    f = 1
    for n_c in succ_counts(A, region):
        f *= math.factorial(max(n_c - 1, 0))
    return f


def family(A, region, idx):
    """the idx-th family (mixed radix over characters) of draws for one shuffle of `region`:
    for character c the value numpy.random.permutation(n_c - 1) is to return"""
    fam = []
    for n_c in succ_counts(A, region):
        ps = perms_of(n_c - 1)
        fam.append(ps[idx % len(ps)])
        idx //= len(ps)
    return fam


def random_family(A, region, rng):
    """one random admissible family (no enumeration: the lists may be long)"""
    return [rng.sample(range(max(n_c - 1, 0)), max(n_c - 1, 0)) for n_c in succ_counts(A, region)]


class Planned:
    """stands in for numpy.random.permutation while the pure-Python walk runs"""

    def __init__(self, plan):
        self.queue = [p for ex in plan for sh in ex for p in sh]
        self.i = 0
        self.ok = True

    def __call__(self, k):
        if self.i >= len(self.queue):
            self.ok = False
            raise RuntimeError('verif: more draws than planned')
        p = self.queue[self.i]
        self.i += 1
        if len(p) != max(int(k), 0):
            self.ok = False
            raise RuntimeError('verif: draw of size %r, planned %d' % (k, len(p)))
        return numpy.array(p, dtype=numpy.int64)


def pyslice(L, start, end):
    a, b, _ = slice(start, end).indices(L)
    return a, b


# ----------------------------------------------------------------------------------------
# running the implementation

def canon(Y, B):
    """(B, n, A, L) tensor -> [B][n] encodings; None when the shape is not 4-d"""
    if not isinstance(Y, torch.Tensor) or Y.dim() != 4:
        return None
    out = []
    for b in range(Y.shape[0]):
        row = []
        for i in range(Y.shape[1]):
            e = from_seq(Y[b, i])
            if e is None:
                return None
            row.append(e)
        out.append(row)
    return out


# integer seed types the unchanged code accepts for both functions (probed on /repo: Python int,
# numpy signed/unsigned integer scalars, 0-d integer arrays all give the stream of int(seed));
# "a fixed integer seed" of the property text includes them
SEED_TYPES = ('int', 'i64', 'i32', 'u8', 'u64', 'arr0', 'arr0_i32')


def seed_value(inp, as_int=False):
    t = 'int' if as_int else inp.get('seed_type', 'int')
    v = int(inp['seed'])
    if t == 'i64':
        return numpy.int64(v)
    if t == 'i32':
        return numpy.int32(v)
    if t == 'u8':
        return numpy.uint8(v)
    if t == 'u64':
        return numpy.uint64(v)
    if t == 'arr0':
        return numpy.array(v)
    if t == 'arr0_i32':
        return numpy.array(v, dtype=numpy.int32)
    return v


def pick_seed(rng, big=True):
    """(seed, seed_type): half the calls use a Python int; u8 seeds stay below 200 (seed + example index)"""
    t = rng.choice(SEED_TYPES) if rng.random() < 0.5 else 'int'
    v = rng.choice([0, 1, 2, 3, rng.randint(0, 10 ** 6) if big else 3])
    if t == 'u8':
        v %= 200
    return v, t


DTYPES = {'i8': torch.int8, 'u8': torch.uint8, 'i16': torch.int16, 'i32': torch.int32, 'i64': torch.int64,
          'f16': torch.float16, 'bf16': torch.bfloat16, 'f32': torch.float32, 'f64': torch.float64,
          'bool': torch.bool}                     # bool: shuffle only (argmax rejects it)
XFORMS = ('contig', 'transposed', 'sliced', 'expanded', 'grad')    # + 'numpy', 'list': rejected forms


def n_of(inp):
    """the n the call passes: an int, or 'omit' (default: shuffle 1, dinucleotide_shuffle 20)"""
    if inp['kind'] == 'enum':
        return 'omit' if inp.get('n') == 'omit' else (len(inp['plan'][0]) if inp['plan'] else 0)
    return inp['n']


def eff(inp):
    """the integers (start, end, n) the call denotes: omitted arguments take the documented defaults;
    a None bound (dinucleotide_shuffle only) is the Python slice's open end"""
    L = len(inp['seqs'][0]) if inp['seqs'] else 0
    s, e, n = inp['start'], inp['end'], n_of(inp)
    s = 0 if s in ('omit', 'none') else s
    e = -1 if e == 'omit' else (L if e == 'none' else e)
    if n == 'omit':
        n = 1 if inp['kind'] == 'shuf' else 20
    return s, e, n


def build_X(inp, canonical=False):
    """the X argument in the requested memory layout / container, and the objects whose contents
    must be unchanged afterwards"""
    A, seqs = inp['A'], inp['seqs']
    dtype = DTYPES[inp.get('dtype', 'i8')]
    form = inp.get('xform', 'contig')
    if canonical and form in XFORMS:
        form = 'contig'
    B = len(seqs)
    L = len(seqs[0]) if B else 0
    if form == 'expanded':
        base = to_tensor(A, seqs[:1], dtype)
        return base.expand(B, -1, -1), [base]
    X = to_tensor(A, seqs, dtype)
    if form == 'transposed':
        X = X.permute(0, 2, 1).contiguous().permute(0, 2, 1)
    elif form == 'sliced':
        big = torch.ones(B + 1, A, L + 5, dtype=dtype)
        big[1:, :, 2:2 + L] = X
        return big[1:, :, 2:2 + L], [big]
    elif form == 'grad':
        X.requires_grad_()
    elif form == 'numpy':
        X = X.numpy()
    elif form == 'list':
        X = X.tolist()
    return X, [X]


def snapshot(objs):
    out = []
    for o in objs:
        if isinstance(o, torch.Tensor):
            out.append(o.detach().clone())
        elif isinstance(o, numpy.ndarray):
            out.append(o.copy())
        else:
            out.append(json.dumps(o))
    return out


def unchanged_all(objs, snaps):
    for o, c in zip(objs, snaps):
        if isinstance(o, torch.Tensor):
            if not torch.equal(o.detach(), c):
                return False
        elif isinstance(o, numpy.ndarray):
            if o.dtype != c.dtype or o.shape != c.shape or not (o == c).all():
                return False
        elif json.dumps(o) != c:
            return False
    return True


def build_kwargs(inp, canonical=False):
    np_pos = inp.get('pos_type') == 'np' and not canonical
    kw = {}
    for name in ('start', 'end'):
        v = inp[name]
        if v == 'none':
            kw[name] = None
        elif v != 'omit':
            kw[name] = numpy.int64(v) if np_pos else int(v)
    n = n_of(inp)
    if n != 'omit':
        kw['n'] = numpy.int64(n) if (inp.get('n_type') == 'np' and not canonical) else int(n)
    if inp.get('verbose'):
        kw['verbose'] = True
    return kw


def build_seed(inp, canonical=False):
    """(kwargs for random_state, objects to keep unchanged)"""
    rs = inp.get('rs', 'seed')
    if inp['kind'] == 'enum':
        return {'random_state': 0}, []
    if rs == 'none':
        return {}, []
    if rs == 'none_explicit':
        return {'random_state': None}, []
    if rs in ('object', 'reused') and not canonical:
        return {'random_state': numpy.random.RandomState(int(inp['seed']))}, []
    v = seed_value(inp, canonical)
    return {'random_state': v}, ([v] if isinstance(v, numpy.ndarray) else [])


def has_canonical(inp):
    """the call has a plain twin (contiguous X, Python ints everywhere) that denotes the same
    (input, region, n, seed) and therefore must return the same tensor"""
    if inp['kind'] == 'enum' or inp.get('rs', 'seed') not in ('seed', 'object'):
        return False
    return (inp.get('seed_type', 'int') != 'int' or inp.get('pos_type') == 'np' or inp.get('n_type') == 'np'
            or inp.get('xform', 'contig') in XFORMS[1:] or inp.get('rs') == 'object')


_Z = None


def interfere(inp):
    """an unrelated call between the two repetitions (other alphabet, length, n, seed): nothing of
    it may leak into the repetition"""
    from tangermeme import ersatz
    global _Z
    if _Z is None:
        _Z = to_tensor(5, [[0, 1, 2, 3, 4, 0, 2, 4, 1], [4, 4, 0, 1, 0, 2, 3, 3, 1]])
    Z = _Z
    try:
        ersatz.shuffle(Z, start=1, end=8, n=2, random_state=5)
        if inp['kind'] == 'obs':          # compiled kernel: only inside the worker process
            ersatz.dinucleotide_shuffle(Z, start=0, end=9, n=3, random_state=99)
    except Exception:
        pass


def call_once(inp, canonical=False):
    """-> (result tensor, objects that must be unchanged, their snapshots)"""
    from tangermeme import ersatz
    kind = inp['kind']
    X, keep = build_X(inp, canonical)
    kw = build_kwargs(inp, canonical)
    skw, skeep = build_seed(inp, canonical)
    kw.update(skw)
    keep = keep + skeep
    snaps = snapshot(keep)
    sink = io.StringIO()
    try:
        with contextlib.redirect_stdout(sink):
            if kind == 'shuf':
                if inp.get('rs') == 'reused' and not canonical:
                    ersatz.shuffle(X, **kw)            # the same RandomState object goes on
                Y = ersatz.shuffle(X, **kw)
            elif kind == 'obs':
                Y = ersatz.dinucleotide_shuffle(X, **kw)
            else:
                # enum: pure-Python kernel + planned draws, inside the real API function
                src = Planned(inp['plan'])
                kernel = ersatz._fast_shuffle
                saved = numpy.random.permutation
                ersatz._fast_shuffle = kernel.py_func
                numpy.random.permutation = src
                try:
                    Y = ersatz.dinucleotide_shuffle(X, **kw)
                finally:
                    numpy.random.permutation = saved
                    ersatz._fast_shuffle = kernel
                if src.i != len(src.queue):
                    raise RuntimeError('verif: %d of %d planned draws used' % (src.i, len(src.queue)))
    finally:
        ok_un = unchanged_all(keep, snaps)
    return Y, ok_un


def run_impl(inp):
    """compiled (numba, no bounds checks) calls run in a worker process: if the interpreter dies
    the case is reported as a failing input instead of taking the whole check down"""
    if inp['kind'] == 'obs' and os.environ.get('VERIF_C02_WORKER') != '1':
        return run_isolated(inp)
    return run_local(inp)


_WORKER = None


def _worker():
    global _WORKER
    if _WORKER is None or _WORKER.poll() is not None:
        env = dict(os.environ, VERIF_C02_WORKER='1')
        _WORKER = subprocess.Popen([sys.executable, '-W', 'ignore', '-m', 'harness.c02', '--worker'],
                                   stdin=subprocess.PIPE, stdout=subprocess.PIPE,
                                   stderr=subprocess.DEVNULL, text=True, cwd=C.VERIF, env=env)
    return _WORKER


def run_isolated(inp):
    global _WORKER
    w = _worker()
    line = ''
    try:
        w.stdin.write(json.dumps(inp) + '\n')
        w.stdin.flush()
        while True:
            line = w.stdout.readline()
            if not line or line.startswith('@@'):
                break
    except (BrokenPipeError, OSError):
        line = ''
    if not line:
        try:
            w.kill()
        except Exception:
            pass
        rc = w.wait()
        _WORKER = None
        return {'ok': True, 'Y': 'shape', 'err': 'CRASH: the interpreter died during the call (exit %s)' % rc,
                'unchanged': False, 'same': False}
    return json.loads(line[2:])


def worker_main():
    for line in sys.stdin:
        out = run_local(json.loads(line))
        sys.stdout.write('@@' + json.dumps(out) + '\n')
        sys.stdout.flush()


def run_local(inp):
    res = []
    unchanged = True
    # two calls in the form given, an unrelated call in between; when the call has a plain twin
    # (contiguous X, Python ints) a third call in that form: all must return the same tensor
    reps = 3 if has_canonical(inp) else 2
    if inp.get('once'):          # exhaustive planned-draw streams: the draws ARE the randomness, one call
        reps = 1
    for rep in range(reps):
        numpy.random.seed(1234567 + 7919 * rep)      # the result must not depend on the global state
        if rep == 1:
            interfere(inp)
        try:
            Y, un = call_once(inp, canonical=(rep == 2))
            unchanged = unchanged and un
            enc = canon(Y, len(inp['seqs']))
            res.append(('ok', enc if enc is not None else 'shape'))
        except Exception as e:
            res.append(('raise', type(e).__name__))
    if inp.get('rs') in ('none', 'none_explicit'):
        same = res[0][0] == res[1][0]                # no seed: only "returns / raises" is repeatable
    else:
        same = all(r == res[0] for r in res[1:])
    ok = res[0][0] == 'ok'
    return {'ok': ok, 'Y': res[0][1] if ok else None, 'err': None if ok else res[0][1],
            'unchanged': unchanged, 'same': same}


# ----------------------------------------------------------------------------------------
# Coq literals

def replay_shuffle(inp):
    """the permutations shuffle draws, when its guards pass (else [] - the model rejects too)"""
    L = len(inp['seqs'][0]) if inp['seqs'] else 0
    start, end, n = eff(inp)
    if end < 0:
        end = L + 1 + end
    if end <= start or end > L or start < 0 or n <= 0 or n > 64:
        return [[] for _ in range(max(0, min(n, 64)))]
    rs = numpy.random.RandomState(int(inp['seed']))
    perms = []
    for i in range(2 * n if inp.get('rs') == 'reused' else n):
        idxs = numpy.arange(end - start)
        rs.shuffle(idxs)
        perms.append(idxs.tolist())
    return perms[-n:]


def outcome_lit(inp, out, transpose):
    if not out['ok']:
        return 'Err'
    if out['Y'] == 'shape' or out['Y'] is None:
        return '(Ok [[[[7]]]])'          # not a (B, n, A, L) integral tensor: certainly wrong
    A = inp['A']
    Y = out['Y']
    if transpose:                           # shuffle: model is indexed [sample][example]
        n = len(Y[0]) if Y else 0
        Y = [[Y[b][i] for b in range(len(Y))] for i in range(n)]
    k = len(Y[0]) if Y else 0
    L = len(Y[0][0][1]) if k else 0
    if (Y and k >= 1 and L >= 1 and A <= 16 and all(len(row) == k for row in Y)
            and all(e[0] == 'c' and len(e[1]) == L for row in Y for e in row)):
        if len(Y) * k * L > 2 * CHUNK:
            return '(Ok (obnL %s %s %s %s))' % (lnat(A), lnat(L), lnat(k),
                                                digits_long([e[1] for row in Y for e in row]))
        return '(Ok (obn %s %s %s %s))' % (C.nat(A), C.nat(L), C.nat(k),
                                           digits([e[1] for row in Y for e in row]))
    return '(Ok %s)' % C.lst([C.lst([seq_lit(A, e) for e in row]) for row in Y])


def coq_case(inp, out):
    A = inp['A']
    if inp.get('xform') in ('numpy', 'list'):
        # not a tensor: both functions reject it; the model is handed an (invalid) empty batch
        X = '(T %s %s [])' % (C.nat(A), C.nat(len(inp['seqs'][0]) if inp['seqs'] else 0))
    else:
        X = tensor_lit(A, inp['seqs'])
    kind = inp['kind']
    start, end, n = eff(inp)
    if kind == 'shuf' and (inp.get('rs') in ('none', 'none_explicit') or inp.get('spec_only')):
        call = '(CShufObs %s %s %s %s)' % (X, C.z(start), C.z(end), C.nat(max(n, 0)))
        o = outcome_lit(inp, out, True)
    elif kind == 'shuf':
        perms = replay_shuffle(inp)
        call = '(CShuf %s %s %s %s)' % (X, C.z(start), C.z(end), C.lst([natl(p) for p in perms]))
        o = outcome_lit(inp, out, True)
    elif kind == 'obs':
        call = '(CDinucObs %s %s %s %s)' % (X, C.z(start), C.z(end), C.nat(max(n, 0)))
        o = outcome_lit(inp, out, False)
    else:
        plan = inp['plan']
        n = len(plan[0]) if plan else 0
        flat = [p for ex in plan for sh in ex for p in sh]
        if (n >= 1 and all(len(ex) == n and all(len(sh) == A for sh in ex) for ex in plan)
                and all(x <= 14 for p in flat for x in p)):
            sig = '(sgn %s %s 0x1%s)' % (C.nat(A), C.nat(n),
                                         ''.join(''.join('%x' % x for x in p) + 'f' for p in flat))
        else:
            sig = C.lst([C.lst([C.lst([natl(p) for p in sh]) for sh in ex]) for ex in plan])
        call = '(CDinuc %s %s %s %s)' % (X, C.z(start), C.z(end), sig)
        o = outcome_lit(inp, out, False)
    return '(%s, %s, %s, %s)' % (call, o, C.boolean(out['unchanged']), C.boolean(out['same']))


# ----------------------------------------------------------------------------------------
# evidence helpers

def region_of(inp):
    L = len(inp['seqs'][0]) if inp['seqs'] else 0
    start, end, _n = eff(inp)
    if inp['kind'] == 'shuf':
        e = end if end >= 0 else L + 1 + end
        if 0 <= start < e <= L:
            return start, e
        return 0, 0
    return pyslice(L, start, end)


def nontrivial(inp, out):
    if not out['ok']:
        return False
    a, b = region_of(inp)
    return any(b - a >= 3 and len(set(s[a:b])) >= 2 for s in inp['seqs'])


def hist_key(inp, out):
    L = len(inp['seqs'][0]) if inp['seqs'] else 0
    forms = any(k in inp for k in ('xform', 'pos_type', 'n_type', 'rs', 'verbose')) or \
        any(inp.get(k) in ('omit', 'none') for k in ('start', 'end', 'n')) or inp.get('dtype', 'i8') not in ('i8', 'f32')
    return '%s%s/%s/L%s' % (inp['kind'], '+forms' if forms else '',
                            ('crash' if out.get('err') else 'ok') if out['ok'] else out['err'],
                            L if L <= 8 else ('9-40' if L <= 40 else '41+'))


def tags(inp, out):
    return set()


# ----------------------------------------------------------------------------------------
# generators

def all_seqs(A, L):
    return [list(t) for t in itertools.product(range(A), repeat=L)]


def enum_whole(A, seqs, batch):
    """every family of every sequence (region = whole sequence, n = 1), `batch` examples per call"""
    L = len(seqs[0])
    seqs = sorted(seqs, key=lambda s: -n_families(A, s))
    for i in range(0, len(seqs), batch):
        chunk = seqs[i:i + batch]
        fams = [n_families(A, s) for s in chunk]
        for k in range(max(fams)):
            yield {'kind': 'enum', 'A': A, 'seqs': chunk, 'start': 0, 'end': L, 'once': k % 4 != 0,
                   'plan': [[family(A, s, k % f)] for s, f in zip(chunk, fams)]}


def enum_two(A, s):
    """n = 2: every pair of families (the lists are permuted in place, cumulatively)"""
    L = len(s)
    f = n_families(A, s)
    for k1 in range(f):
        for k2 in range(f):
            yield {'kind': 'enum', 'A': A, 'seqs': [s], 'start': 0, 'end': L, 'once': (k1 + k2) % 4 != 0,
                   'plan': [[family(A, s, k1), family(A, s, k2)]]}


def rand_seq(rng, A, L, skew=False):
    if skew:
        w = [rng.random() ** 2 + 0.02 for _ in range(A)]
        return rng.choices(range(A), weights=w, k=L)
    return [rng.randrange(A) for _ in range(L)]


def rand_region(rng, L):
    c = rng.random()
    if c < 0.25:
        return 0, rng.choice([-1, L])
    if c < 0.75:
        a = rng.randrange(0, max(1, L - 2))
        b = rng.randint(min(L, a + 1), L)
        return a, b
    return rng.randint(-L - 2, L + 2), rng.randint(-L - 2, L + 2)


def form_case(rng):
    kind = rng.choice(['obs', 'obs', 'shuf', 'shuf', 'enum'])
    dinuc = kind != 'shuf'
    A = rng.choice([2, 3, 4, 4, 5])
    L = rng.choice([4, 6, 8, 12, 12, 20, 40])
    B = rng.randint(1, 3)
    inp = {'kind': kind, 'A': A, 'n': rng.choice([1, 1, 1, 2, 3]), 'seed': rng.choice([0, 1, 2, 3]),
           'seed_type': 'int'}
    start, end = rand_region(rng, L)
    if rng.random() < 0.4 or pyslice(L, start, end)[1] - pyslice(L, start, end)[0] < 3:
        start, end = rng.choice([(0, L), (1, L), (0, L - 1), (1, -1)])
    inp['start'], inp['end'] = start, end
    devs = ['dtype', 'xform', 'pos_np', 'n_np', 'omit_start', 'omit_end', 'omit_both', 'omit_n',
            'n0', 'seed_type', 'big_seed']
    if dinuc:
        devs += ['none_start', 'none_end', 'verbose']
    if kind == 'shuf':
        devs += ['rs_object', 'rs_reused', 'rs_none', 'rs_none_explicit']
    if kind == 'obs':
        devs += ['rs_none', 'rs_none_explicit']
    same_seq = False
    for d in rng.sample(devs, rng.choice([1, 1, 2])):
        if d == 'dtype':
            inp['dtype'] = rng.choice([k for k in DTYPES if not (dinuc and k == 'bool')])
        elif d == 'xform':
            inp['xform'] = rng.choice(XFORMS[1:])
            same_seq = inp['xform'] == 'expanded'
        elif d == 'pos_np':
            inp['pos_type'] = 'np'
        elif d == 'n_np':
            inp['n_type'] = 'np'
        elif d == 'omit_start':
            inp['start'] = 'omit'
        elif d == 'omit_end':
            inp['end'] = 'omit'
        elif d == 'omit_both':
            inp['start'] = inp['end'] = 'omit'
        elif d == 'omit_n':
            inp['n'] = 'omit'
        elif d == 'n0':
            inp['n'] = 0
        elif d == 'none_start':
            inp['start'] = 'none'
        elif d == 'none_end':
            inp['end'] = 'none'
        elif d == 'verbose':
            inp['verbose'] = True
        elif d == 'seed_type' and kind != 'enum':
            inp['seed_type'] = rng.choice(SEED_TYPES[1:])
        elif d == 'big_seed' and kind != 'enum':
            inp['seed'] = rng.choice([255, 65536, 2 ** 31 - 10] + ([2 ** 31, 2 ** 32 - 1] if kind == 'shuf' else []))
        elif d.startswith('rs_'):
            inp['rs'] = d[3:]
    if inp.get('xform') == 'grad' and inp.get('dtype', 'i8') not in ('f16', 'bf16', 'f32', 'f64'):
        inp['dtype'] = rng.choice(['f32', 'f64'])
    if inp.get('seed', 0) > 255 and inp.get('seed_type') not in ('int', 'i64', 'u64'):
        inp['seed_type'] = 'i64'
    if inp.get('seed_type') == 'u8':
        inp['seed'] %= 200
    if kind == 'obs' and inp.get('rs') and inp['n'] not in (0, 1):
        inp['n'] = 1          # without a seed a second call may or may not hit "all identical"
    s0 = rand_seq(rng, A, L, rng.random() < 0.3)
    inp['seqs'] = [list(s0) if same_seq else rand_seq(rng, A, L, rng.random() < 0.3) for _b in range(B)]
    if kind == 'enum':
        n = inp.pop('n')
        if n == 'omit':
            inp['n'] = 'omit'
        k = 20 if n == 'omit' else n
        a, b = pyslice(L, *eff(dict(inp, plan=[[]]))[:2])
        inp['plan'] = [[random_family(A, x[a:b], rng) for _i in range(k)] for x in inp['seqs']]
        for key in ('seed', 'seed_type'):
            inp.pop(key, None)
    return inp


def long_case(rng, kind, Lr, A=None):
    """a region of exactly Lr positions inside a sequence a few positions longer (integer-width
    boundaries of index vectors); regions beyond 3000 positions are evaluated through the spec only"""
    A = A or rng.choice([2, 3, 4])
    a = rng.choice([0, 2, 3])
    L = a + Lr + rng.choice([0, 1, 4])
    if rng.random() < 0.5:      # composition differs along the sequence: a wrong index shows in the counts
        half = L // 2
        s = [rng.randrange(max(1, A // 2)) for _ in range(half)] + \
            [A // 2 + rng.randrange(A - A // 2) for _ in range(L - half)]
    else:
        s = rand_seq(rng, A, L, rng.random() < 0.5)
    c = {'kind': kind, 'A': A, 'seqs': [s], 'start': a, 'end': a + Lr, 'n': 1,
         'seed': rng.choice([0, 1, 2, 3]), 'seed_type': 'int'}
    if kind == 'shuf' and Lr > 3000:
        c['spec_only'] = True
    return c


WIDTHS_SMALL = (127, 128, 129, 255, 256, 257)
WIDTHS_LONG = (32767, 32768, 32769, 65535, 65536, 65537)


def generate(tier, rng):
    quick = tier != 'thorough'
    # ---------------- enum: the pure-Python walk under every outcome of its draws
    maxL = 6 if quick else 8
    for A in (2, 3, 4):
        for L in range(1, maxL + 1):
            for c in enum_whole(A, all_seqs(A, L), 16):
                yield c
    for A in (2, 3, 4):
        for L in range(3, (4 if quick else 5) + 1):
            for s in all_seqs(A, L):
                for c in enum_two(A, s):
                    yield c
    # three shuffles, cumulative, random families, longer sequences
    for _ in range(60 if quick else 600):
        A = rng.choice([2, 3, 4, 5])
        L = rng.randint(5, 14)
        s = rand_seq(rng, A, L, rng.random() < 0.5)
        n = rng.choice([2, 3])
        yield {'kind': 'enum', 'A': A, 'seqs': [s], 'start': 0, 'end': L,
               'plan': [[random_family(A, s, rng) for _i in range(n)]]}
    # every region (Python slice semantics, negative and out-of-range bounds) on sampled sequences
    for A in (2, 3, 4):
        for L in ((5,) if quick else (5, 6, 7)):
            for s in rng.sample(all_seqs(A, L), 2 if quick else 5):
                other = rand_seq(rng, A, L)
                for start in range(-L - 2, L + 3):
                    for end in range(-L - 2, L + 3):
                        a, b = pyslice(L, start, end)
                        plan = []
                        for x in (s, other):
                            r = x[a:b]
                            plan.append([random_family(A, r, rng)])
                        yield {'kind': 'enum', 'A': A, 'seqs': [s, other], 'start': start, 'end': end,
                               'plan': plan}
    # ---------------- integer-width boundaries of the region length (int8 / uint8 index vectors)
    for Lr in WIDTHS_SMALL:
        for kind in ('shuf', 'obs'):
            for _ in range(1 if quick else 3):
                yield long_case(rng, kind, Lr)
    # int16 / uint16 widths: long regions, one sequence, n = 1 (kept apart so that they end up in
    # different coqc shards: each needs some hundred MB)
    yield long_case(rng, 'shuf', 32769 if quick else 32768, 4)
    # ---------------- obs: the compiled function
    for A in (2, 3, 4):
        for L in range(1, maxL + 1):
            seqs = all_seqs(A, L)
            rng.shuffle(seqs)
            for i in range(0, len(seqs), 64):
                for end, seed in ((L, 0), (-1, 0)) if (quick or L == 8) else ((L, 0), (L, 1), (-1, 0)):
                    yield {'kind': 'obs', 'A': A, 'seqs': seqs[i:i + 64], 'start': 0, 'end': end,
                           'n': 1, 'seed': seed,
                           'seed_type': rng.choice(SEED_TYPES) if rng.random() < 0.5 else 'int'}
    for _ in range(150 if quick else 700):
        A = rng.choice([2, 3, 4, 4, 4, 5, 8])
        L = rng.choice([3, 4, 6, 9, 14, 20, 33, 50, 80, 120, 200, 300])
        n = rng.choice([1, 1, 2, 5, 20, 0])
        B = rng.randint(1, 4)
        while B * max(n, 1) * L * L > 600000 and B > 1:
            B -= 1
        while B * max(n, 1) * L * L > 600000 and n > 1:
            n = {20: 5, 5: 2, 2: 1}[n]
        seqs = [rand_seq(rng, A, L, rng.random() < 0.4) for _b in range(B)]
        start, end = rand_region(rng, L)
        sd, st = pick_seed(rng)
        c = {'kind': 'obs', 'A': A, 'seqs': seqs, 'start': start, 'end': end, 'n': n,
             'seed': sd, 'seed_type': st, 'dtype': 'f32' if rng.random() < 0.2 else 'i8'}
        if rng.random() < 0.25:
            c['pos_type'] = 'np'
        if rng.random() < 0.15:
            c['xform'] = rng.choice(XFORMS[1:4])
            if c['xform'] == 'expanded':
                c['seqs'] = [list(seqs[0]) for _b in seqs]
        yield c
    yield long_case(rng, 'obs', 32769, 4)
    if not quick:
        for Lr in (32767, 32768, 65536, 65537):
            yield long_case(rng, 'obs', Lr)
    # ---------------- shuf (the permutation does not depend on the data: one batch of sequences
    # per alphabet and length, every region)
    for A in (2, 3, 4):
        for L in range(1, (5 if quick else 7) + 1):
            seqs = all_seqs(A, L)
            seqs = rng.sample(seqs, min(len(seqs), 16 if quick else 32))
            regions = [(st, en) for st in range(-2, L + 2) for en in range(-L - 2, L + 3)]
            for (st, en) in regions:
                sd, sty = pick_seed(rng, big=False)
                c = {'kind': 'shuf', 'A': A, 'seqs': seqs, 'start': st, 'end': en,
                     'n': rng.choice([1, 2]), 'seed': sd, 'seed_type': sty}
                if rng.random() < 0.2:
                    c['pos_type'] = 'np'
                yield c
    for _ in range(150 if quick else 700):
        A = rng.choice([2, 3, 4, 4, 5, 8])
        L = rng.choice([3, 5, 8, 13, 21, 40, 80, 150, 300])
        B = rng.randint(1, 4)
        n = rng.choice([1, 2, 3, 5, 0])
        while B * max(n, 1) * L > 3000 and B > 1:
            B -= 1
        seqs = [rand_seq(rng, A, L, rng.random() < 0.4) for _b in range(B)]
        start, end = rand_region(rng, L)
        sd, st = pick_seed(rng)
        c = {'kind': 'shuf', 'A': A, 'seqs': seqs, 'start': start, 'end': end, 'n': n,
             'seed': sd, 'seed_type': st, 'dtype': 'f32' if rng.random() < 0.2 else 'i8'}
        if rng.random() < 0.25:
            c['pos_type'] = 'np'
        if rng.random() < 0.15:
            c['xform'] = rng.choice(XFORMS[1:4])
            if c['xform'] == 'expanded':
                c['seqs'] = [list(seqs[0]) for _b in seqs]
        yield c
    yield long_case(rng, 'shuf', 65537, 2)
    if not quick:
        for Lr in (32767, 32769, 40000, 65535, 65536):
            yield long_case(rng, 'shuf', Lr)
    # ---------------- forms: every accepted input form / argument type / default, one or two
    # deviations from the plain call at a time (see design/C02.md "Coverage audit")
    for _ in range(300 if quick else 1500):
        yield form_case(rng)
    # ---------------- malformed inputs (both functions must reject; nothing may be modified)
    for _ in range(40 if quick else 200):
        A = rng.choice([2, 3, 4])
        L = rng.randint(3, 12)
        seqs = [rand_seq(rng, A, L) for _b in range(rng.randint(1, 3))]
        seqs[0][rng.randrange(L)] = rng.choice([-1, -2, -3])
        kind = rng.choice(['shuf', 'obs'])
        yield {'kind': kind, 'A': A, 'seqs': seqs, 'start': 0, 'end': L, 'n': 1, 'seed': 0}
    # X that is not a tensor (numpy array, nested list): rejected, and left untouched
    for _ in range(12 if quick else 40):
        A = rng.choice([2, 4])
        L = rng.randint(3, 9)
        yield {'kind': rng.choice(['shuf', 'obs']), 'A': A, 'seqs': [rand_seq(rng, A, L) for _b in range(2)],
               'start': 0, 'end': L, 'n': 1, 'seed': 0, 'xform': rng.choice(['numpy', 'list'])}


def shrink(inp):
    B = len(inp['seqs'])
    for key in ('xform', 'dtype', 'pos_type', 'n_type', 'verbose'):      # back to the plain form
        if key in inp and inp.get(key) not in ('numpy', 'list'):
            c = dict(inp)
            del c[key]
            if not (key == 'dtype' and inp.get('xform') == 'grad'):
                yield c
    if B > 3:
        for lo, hi in ((0, B // 2), (B // 2, B)):
            c = dict(inp)
            c['seqs'] = inp['seqs'][lo:hi]
            if inp['kind'] == 'enum':
                c['plan'] = inp['plan'][lo:hi]
            yield c
    if B > 1:
        for i in range(B):
            c = dict(inp)
            c['seqs'] = inp['seqs'][:i] + inp['seqs'][i + 1:]
            if inp['kind'] == 'enum':
                c['plan'] = inp['plan'][:i] + inp['plan'][i + 1:]
            yield c
    if inp['kind'] != 'enum' and isinstance(inp.get('n', 1), int) and inp.get('n', 1) > 1:
        c = dict(inp)
        c['n'] = inp['n'] // 2
        yield c
    if inp['kind'] == 'enum' and inp['plan'] and len(inp['plan'][0]) > 1:
        c = dict(inp)
        c['plan'] = [ex[:-1] for ex in inp['plan']]
        yield c
    # shorten from the right when the region is given by non-negative bounds inside the sequence
    L = len(inp['seqs'][0]) if inp['seqs'] else 0
    if (inp['kind'] != 'enum' and L > 1 and isinstance(inp['start'], int) and isinstance(inp['end'], int)
            and 0 <= inp['start'] and 0 <= inp['end'] < L):
        c = dict(inp)
        c['seqs'] = [s[:-1] for s in inp['seqs']]
        yield c
    if inp['kind'] != 'enum' and inp.get('seed_type', 'int') not in ('int', 'i64'):
        c = dict(inp)
        c['seed_type'] = 'i64'
        yield c
    if inp['kind'] != 'enum' and inp.get('seed', 0) > 3:
        for sd in (0, 1):
            c = dict(inp)
            c['seed'] = sd
            yield c


def search(rng, disagreeing):
    """the tie broke without a failing input: look for one near the disagreeing calls with the
    compiled function / shuffle on the same sequences, more seeds, all regions"""
    for inp in disagreeing[:20]:
        L = len(inp['seqs'][0]) if inp['seqs'] else 0
        for seed in range(6):
            for (st, en) in [(0, L), (0, -1), (1, L), (0, L - 1), (1, -2)]:
                for kind in ('obs', 'shuf'):
                    yield {'kind': kind, 'A': inp['A'], 'seqs': inp['seqs'], 'start': st, 'end': en,
                           'n': rng.choice([1, 2, 3]), 'seed': seed,
                           'seed_type': SEED_TYPES[seed % len(SEED_TYPES)]}


if __name__ == '__main__' and '--worker' in sys.argv:
    worker_main()
