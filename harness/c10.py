"""C10 - variant effects: correspondence with coq/C10 (model + string-level spec).

The implementation is observed with an identity `func`: the tensors that reach `func`
("before" = trimmed reference, "after" = edited sequences) are returned unchanged and decoded
to nested integer lists [B][L][A].
"""
import itertools

import torch

from . import common as C

PID = 'C10'
IMPORTS = ['Base.OneHot', 'C10.Model', 'C10.Spec']
CASE_TYPE = 'case'
CHECK = 'check_case'
SHARD = 250
RULE = ('deletions: for every length L in 4..14 and both trim sides, every subset S of positions of '
        'size <= 3 paired with every total max in |S|..3 (so every subset is trimmed by every possible '
        'amount, incl. subsets touching the trimmed edge), packed into batches of 1-4 examples, one-hot and '
        'position-labelled tensors; insertions: every coordinate 0..L x every character alone, every pair of '
        'distinct coordinates, sampled triples, mixed batches, both sides; substitutions: every position x '
        'character, identical repeated rows, several rows per example; out-of-range example/position/character '
        '(must raise), negative coordinates and conflicting/duplicate rows (outside the scope, tie only), '
        'non-one-hot inputs for insertions. non-trivial = accepted call whose "after" differs from "before", '
        'or rejected call with a coordinate within 3 of an axis bound')
EXHAUSTIVE = {'quick': True, 'thorough': True}   # the (deletion subset, total, side) scope of the quantifier
TRUSTED = ['identity func: the tensors passed to func are the observation (y_before, y_after are returned as is)']
ASSUMPTIONS = ['torch index assignment of a constant, boolean-mask selection in row-major order, reshape, cumsum, '
               'flip, argsort (distinct keys) behave as modelled (exercised by every case)',
               'func is called on (X_before, X_after) and nothing else; func itself is opaque to the property']


def column(A, k):
    c = [0] * A
    if k >= 0:
        c[k % A] = 1
    elif k == -2:
        c[0] = 1
        c[A - 1] = 1 if A > 1 else 2
    elif k == -3:
        c[0] = 2
    return c


def build_X(inp):
    """(B, A, L) float tensor.  'lab': every cell holds a distinct integer >= 2 (position-labelled)."""
    A, seqs = inp['A'], inp['X']
    B = len(seqs)
    L = len(seqs[0]) if B else 0
    X = torch.zeros(B, A, L, dtype=torch.float32)
    for b, s in enumerate(seqs):
        for p, k in enumerate(s):
            if inp.get('lab'):
                X[b, :, p] = torch.tensor([2 + (b * L + p) * A + a for a in range(A)], dtype=torch.float32)
            else:
                X[b, :, p] = torch.tensor(column(A, k), dtype=torch.float32)
    return X


def from_tensor(Y):
    Y = Y.detach().cpu()
    if Y.dim() != 3 or not torch.equal(Y, Y.round()):
        return 'odd'
    return Y.permute(0, 2, 1).to(torch.int64).tolist()


def identity(model, X, args=None, **kwargs):
    return X


def rows_tensor(rows, width):
    if not rows:
        return torch.zeros(0, width, dtype=torch.int64)
    return torch.tensor(rows, dtype=torch.int64)


def run_impl(inp):
    from tangermeme import variant_effect as V
    X = build_X(inp)
    kind = inp['kind']
    try:
        if kind == 'sub':
            yb, ya = V.substitution_effect(None, X, rows_tensor(inp['rows'], 3), func=identity)
        elif kind == 'del':
            yb, ya = V.deletion_effect(None, X, rows_tensor(inp['rows'], 2), left=inp['left'], func=identity)
        elif kind == 'ins':
            yb, ya = V.insertion_effect(None, X, rows_tensor(inp['rows'], 3), left=inp['left'], func=identity)
        else:
            raise KeyError(kind)
        return {'ok': True, 'before': from_tensor(yb), 'after': from_tensor(ya)}
    except Exception as e:
        return {'ok': False, 'err': type(e).__name__}


def coq_case(inp, out):
    A = inp['A']
    X = build_X(inp)
    B, _, L = X.shape
    t = '(T %s %s %s)' % (C.nat(A), C.nat(L), C.batch_lit(from_tensor(X)))
    rows = C.lst(['(' + ', '.join(C.z(v) for v in r) + ')' for r in inp['rows']])
    kind = inp['kind']
    if kind == 'sub':
        call = '(CSub %s %s)' % (t, rows)
    elif kind == 'del':
        call = '(CDel %s %s %s)' % (t, rows, C.boolean(inp['left']))
    else:
        call = '(CIns %s %s %s)' % (t, rows, C.boolean(inp['left']))
    if out['ok'] and isinstance(out['before'], list) and isinstance(out['after'], list):
        o = '(Ok (%s, %s))' % (C.batch_lit(out['before']), C.batch_lit(out['after']))
    elif out['ok']:
        o = '(Ok ([[[7]]], [[[7]]]))'    # not a (B, A, L) integer tensor: certainly not the expected one
    else:
        o = 'Err'
    return '(%s, %s)' % (call, o)


def nontrivial(inp, out):
    L = len(inp['X'][0]) if inp['X'] else 0
    if out['ok']:
        return out['before'] != out['after']
    bounds = {0: len(inp['X']), 1: L, 2: inp['A']}
    return any(abs(v) <= 3 or abs(v - bounds[i]) <= 3 for r in inp['rows'] for i, v in enumerate(r))


def hist_key(inp, out):
    return '%s/B%d/%s' % (inp['kind'], len(inp['X']), 'ok' if out['ok'] else 'raise')


def tags(inp, out):
    return set()


# ----------------------------------------------------------------------------------------
# generators

def rand_seqs(rng, B, A, L):
    return [[rng.randrange(A) for _ in range(L)] for _ in range(B)]


def subsets_upto(L, k):
    for n in range(k + 1):
        for S in itertools.combinations(range(L), n):
            yield S


def deletion_cases(rng, Ls, per_pair_batches):
    """Every (subset S, total mx) pair with |S| <= mx <= 3 appears as an example whose batch has
    maximum mx, for both sides; examples are packed 1-4 per batch."""
    for L in Ls:
        subs = list(subsets_upto(L, 3))
        by_size = {n: [S for S in subs if len(S) == n] for n in range(4)}
        for left in (False, True):
            for mx in range(4):
                pool = [S for S in subs if len(S) <= mx]
                rng.shuffle(pool)
                i = 0
                while i < len(pool):
                    B = rng.randint(1, 4)
                    group = pool[i:i + B]
                    i += B
                    if max(len(S) for S in group) < mx:
                        # make sure the batch total is mx: add / replace one example of that size
                        full = rng.choice(by_size[mx])
                        if len(group) < 4:
                            group.insert(rng.randrange(len(group) + 1), full)
                        else:
                            # keep the four pool subsets, spill into a second batch
                            yield from _del_batch(rng, L, left, [group[-1], full])
                            group = group[:-1] + [full]
                    yield from _del_batch(rng, L, left, group)
            for _ in range(per_pair_batches):
                B = rng.randint(1, 4)
                yield from _del_batch(rng, L, left, [rng.choice(subs) for _ in range(B)])


def _del_batch(rng, L, left, group):
    A = rng.choice([4, 4, 4, 2, 3, 5])
    rows = [[b, p] for b, S in enumerate(group) for p in S]
    rng.shuffle(rows)
    yield {'kind': 'del', 'A': A, 'X': rand_seqs(rng, len(group), A, L), 'rows': rows,
           'left': left, 'lab': rng.random() < 0.5}


def insertion_cases(rng, Ls, n_triples, n_mixed):
    for L in Ls:
        A = 4
        for left in (False, True):
            # one insertion: every coordinate x every character, packed four examples per batch
            singles = [(p, c) for p in range(L + 1) for c in range(A)]
            rng.shuffle(singles)
            for i in range(0, len(singles), 4):
                grp = singles[i:i + 4]
                yield {'kind': 'ins', 'A': A, 'X': rand_seqs(rng, len(grp), A, L), 'left': left,
                       'rows': [[b, p, c] for b, (p, c) in enumerate(grp)]}
            # two insertions: every pair of distinct coordinates
            pairs = list(itertools.combinations(range(L + 1), 2))
            rng.shuffle(pairs)
            for i in range(0, len(pairs), 3):
                grp = pairs[i:i + 3]
                rows = [[b, p, rng.randrange(A)] for b, ps in enumerate(grp) for p in ps]
                rng.shuffle(rows)
                yield {'kind': 'ins', 'A': A, 'X': rand_seqs(rng, len(grp), A, L), 'left': left, 'rows': rows}
            for _ in range(n_triples):
                ps = rng.sample(range(L + 1), 3)
                # bias towards the ends
                if rng.random() < 0.5:
                    ps = list({rng.choice([0, 1, L - 1, L]), rng.choice([0, L]), rng.randint(0, L)})
                rows = [[0, p, rng.randrange(A)] for p in ps]
                yield {'kind': 'ins', 'A': A, 'X': rand_seqs(rng, 1, A, L), 'left': left, 'rows': rows}
            for _ in range(n_mixed):
                A2 = rng.choice([2, 3, 4, 4, 5])
                B = rng.randint(1, 4)
                rows = []
                for b in range(B):
                    k = rng.choice([0, 0, 1, 2, 3, 4])
                    for p in rng.sample(range(L + 1), min(k, L + 1)):
                        rows.append([b, p, rng.randrange(A2)])
                rng.shuffle(rows)
                yield {'kind': 'ins', 'A': A2, 'X': rand_seqs(rng, B, A2, L), 'left': left, 'rows': rows}


def substitution_cases(rng, Ls, n_mixed):
    for L in Ls:
        A = 4
        cells = [(p, c) for p in range(L) for c in range(A)]
        rng.shuffle(cells)
        for i in range(0, len(cells), 4):
            grp = cells[i:i + 4]
            rows = [[b, p, c] for b, (p, c) in enumerate(grp)]
            if i % 8 == 0:
                rows = rows + [rows[0]] + rows[:1]       # identical repeated rows
            yield {'kind': 'sub', 'A': A, 'X': rand_seqs(rng, len(grp), A, L), 'rows': rows,
                   'lab': i % 3 == 0}
        for _ in range(n_mixed):
            A2 = rng.choice([2, 3, 4, 4, 5])
            B = rng.randint(1, 4)
            rows = []
            for b in range(B):
                for p in rng.sample(range(L), rng.choice([0, 1, 2, 3, L])):
                    rows.append([b, p, rng.randrange(A2)])
            rows += [list(r) for r in rng.sample(rows, min(len(rows), rng.choice([0, 1, 2])))]   # repeats
            rng.shuffle(rows)
            yield {'kind': 'sub', 'A': A2, 'X': rand_seqs(rng, B, A2, L), 'rows': rows,
                   'lab': rng.random() < 0.3}


def malformed_cases(rng, Ls, n):
    """out-of-range coordinates (must raise), negative coordinates / conflicting or duplicate rows /
    non-one-hot input (outside the property's scope: model tie only)"""
    for L in Ls:
        for kind in ('sub', 'del', 'ins'):
            width = 2 if kind == 'del' else 3
            for _ in range(n):
                A = rng.choice([2, 4, 4])
                B = rng.randint(1, 4)
                hi_p = L + 1 if kind == 'ins' else L
                rows = []
                for b in range(B):
                    for p in rng.sample(range(hi_p), rng.choice([0, 1, 2])):
                        rows.append([b, p] + ([rng.randrange(A)] if width == 3 else []))
                bad = [rng.randrange(B), rng.randrange(hi_p)] + ([rng.randrange(A)] if width == 3 else [])
                bounds = [B, hi_p, A]
                how = rng.choice(['oob', 'oob', 'oob', 'neg', 'dup', 'conflict', 'none'])
                axis = rng.randrange(width)
                if how == 'oob':
                    bad[axis] = bounds[axis] + rng.choice([0, 0, 1, 3])
                elif how == 'neg':
                    bad[axis] = -rng.choice([1, 1, 2, bounds[axis], bounds[axis] + 1])
                elif how in ('dup', 'conflict') and kind == 'ins':
                    pass          # equal insertion positions: torch leaves their order unspecified
                elif how == 'dup' and rows:
                    bad = list(rng.choice(rows))
                elif how == 'conflict' and rows and width == 3:
                    bad = list(rng.choice(rows))
                    bad[2] = (bad[2] + 1) % A
                rows.insert(rng.randrange(len(rows) + 1), bad)
                X = rand_seqs(rng, B, A, L)
                if kind == 'ins' and rng.random() < 0.25:
                    X[rng.randrange(B)][rng.randrange(L)] = rng.choice([-1, -2, -3])
                yield {'kind': kind, 'A': A, 'X': X, 'rows': rows, 'left': rng.random() < 0.5,
                       'lab': kind != 'ins' and rng.random() < 0.3}


def generate(tier, rng):
    allL = list(range(4, 15))
    if tier == 'thorough':
        for _round in range(3):     # every (subset, total) pair three times, in differently mixed batches
            yield from deletion_cases(rng, allL, 200)
        yield from insertion_cases(rng, allL, 80, 200)
        yield from substitution_cases(rng, allL, 120)
        yield from malformed_cases(rng, allL, 60)
    else:
        Ls = [4, 5, 7, 10, 14]
        yield from deletion_cases(rng, allL, 20)
        yield from insertion_cases(rng, Ls, 15, 30)
        yield from substitution_cases(rng, Ls, 20)
        yield from malformed_cases(rng, Ls, 12)


# ----------------------------------------------------------------------------------------
# shrinking / directed search

def shrink(inp):
    rows = inp['rows']
    B = len(inp['X'])
    # drop one example (and its rows; later examples are renumbered)
    if B > 1:
        for i in range(B):
            c = dict(inp)
            c['X'] = inp['X'][:i] + inp['X'][i + 1:]
            c['rows'] = [[r[0] - (1 if r[0] > i else 0)] + list(r[1:]) for r in rows if r[0] != i]
            yield c
    # drop one row
    for i in range(len(rows)):
        c = dict(inp)
        c['rows'] = rows[:i] + rows[i + 1:]
        yield c
    # drop the last / first position when no row names a position beyond it
    L = len(inp['X'][0]) if inp['X'] else 0
    if L > 1 and all(0 <= r[1] < L - 1 for r in rows):
        c = dict(inp)
        c['X'] = [s[:-1] for s in inp['X']]
        yield c
    if L > 1 and all(r[1] >= 1 for r in rows):
        c = dict(inp)
        c['X'] = [s[1:] for s in inp['X']]
        c['rows'] = [[r[0], r[1] - 1] + list(r[2:]) for r in rows]
        yield c


def search(rng, disagreeing):
    """boundary-directed extras: variants at the two ends, every side, small batches"""
    for L in (4, 6, 9):
        for left in (False, True):
            for S in subsets_upto(L, 2):
                for T_ in ((), (0,), (L - 1,), (0, L - 1), (0, 1, 2)):
                    yield {'kind': 'del', 'A': 4, 'X': rand_seqs(rng, 2, 4, L), 'left': left, 'lab': True,
                           'rows': [[0, p] for p in S] + [[1, p] for p in T_]}
            for p in range(L + 1):
                for q in (0, L, L + 1):
                    rows = [[0, p, 1]] + ([[1, q, 2]] if q != p else [])
                    yield {'kind': 'ins', 'A': 4, 'X': rand_seqs(rng, 2, 4, L), 'left': left, 'rows': rows}
                yield {'kind': 'ins', 'A': 4, 'X': rand_seqs(rng, 2, 4, L), 'left': left, 'rows': [[2, p, 1]]}
        for p in range(L + 1):
            yield {'kind': 'sub', 'A': 4, 'X': rand_seqs(rng, 2, 4, L), 'rows': [[1, p, 3], [0, 0, 0]], 'lab': True}
