"""C10 - variant effects: correspondence with coq/C10 (model + string-level spec).

The implementation is observed with an identity `func`: the tensors that reach `func`
("before" = trimmed reference, "after" = edited sequences) are returned unchanged and decoded
to nested integer lists [B][L][A].
"""
import itertools

import torch

from . import common as C

PID = 'C10'
IMPORTS = ['Base.OneHot', 'C10.Model', 'C10.Spec']
CASE_TYPE = 'case'
CHECK = 'check_case'
SHARD = 250
RULE = ('deletions: for every length L in 4..14 and both trim sides, every subset S of positions of '
        'size <= 3 paired with every total max in |S|..3 (so every subset is trimmed by every possible '
        'amount, incl. subsets touching the trimmed edge), packed into batches of 1-4 examples, one-hot and '
        'position-labelled tensors; insertions: every coordinate 0..L x every character alone, every pair of '
        'distinct coordinates, sampled triples, mixed batches, both sides; substitutions: every position x '
        'character, identical repeated rows, several rows per example; out-of-range example/position/character '
        '(must raise), negative coordinates and conflicting/duplicate rows (outside the scope, tie only), '
        'non-one-hot inputs for insertions. About 45% of these cases, plus dedicated streams, vary the input forms: '
        'X dtype (float64/16, int8/32/64, uint8) and memory layout (contiguous, (B,L,A)-permuted, strided view of a '
        'larger tensor); variant table as int64/int32 tensor, numpy int64/int32 array (sub, del), column-major or a '
        'view of a wider table, extra columns (del); left as bool/int/numpy.bool_/0-dim tensor; func = identity, '
        'recording func with model/args/additional_func_kwargs/kwargs (every routing), or the default predict with '
        'an identity model that encodes its args, batch sizes 1-32; call sequences on the SAME X/table objects with '
        'one thing changed (other side, other table, repeated, other func); sizes below the quantifier (L 1-3, A=1). '
        'non-trivial = accepted call whose "after" differs from "before", '
        'or rejected call with a coordinate within 3 of an axis bound')
EXHAUSTIVE = {'quick': True, 'thorough': True}   # the (deletion subset, total, side) scope of the quantifier
TRUSTED = ['identity func: the tensors passed to func are the observation (y_before, y_after are returned as is)',
           'the recording func / offset-encoding identity model used to observe model, args and kwargs reaching func']
ASSUMPTIONS = ['torch index assignment of a constant, boolean-mask selection in row-major order, reshape, cumsum, '
               'flip, argsort (distinct keys) behave as modelled (exercised by every case)',
               'func itself is opaque to the property; that it receives the caller\'s model/args/kwargs is observed (bit `plumbed` of the case), not modelled']


def column(A, k):
    c = [0] * A
    if k >= 0:
        c[k % A] = 1
    elif k == -2:
        c[0] = 1
        c[A - 1] = 1 if A > 1 else 2
    elif k == -3:
        c[0] = 2
    return c


DTYPES = {'float32': torch.float32, 'float64': torch.float64, 'float16': torch.float16, 'int8': torch.int8,
          'uint8': torch.uint8, 'int32': torch.int32, 'int64': torch.int64}


def base_X(inp):
    """(B, A, L) float32 tensor of integer values.  'lab': every cell holds a distinct integer >= 2."""
    A, seqs = inp['A'], inp['X']
    B = len(seqs)
    L = len(seqs[0]) if B else 0
    X = torch.zeros(B, A, L, dtype=torch.float32)
    for b, s in enumerate(seqs):
        for p, k in enumerate(s):
            if inp.get('lab'):
                X[b, :, p] = torch.tensor([2 + (b * L + p) * A + a for a in range(A)], dtype=torch.float32)
            else:
                X[b, :, p] = torch.tensor(column(A, k), dtype=torch.float32)
    return X


def build_X(inp):
    """The tensor handed to the implementation: requested dtype and memory layout, same values."""
    X = base_X(inp).to(DTYPES[inp.get('xdtype', 'float32')])
    lay = inp.get('xlayout', 'contig')
    if lay == 'perm':          # stored as (B, L, A), the way one-hot data usually arrives
        X = X.permute(0, 2, 1).contiguous().permute(0, 2, 1)
    elif lay == 'view':        # a strided window into a larger tensor full of other values
        B, A, L = X.shape
        big = torch.full((2 * B + 1, A, L + 5), 5, dtype=X.dtype)
        big[1::2, :, 3:3 + L] = X
        X = big[1::2, :, 3:3 + L]
    return X


def from_tensor(Y):
    Y = Y.detach().cpu()
    if Y.dim() != 3:
        return 'odd'
    Y = Y.to(torch.float64)
    if not torch.equal(Y, Y.round()):
        return 'odd'
    return Y.permute(0, 2, 1).to(torch.int64).tolist()


def identity(model, X, args=None, **kwargs):
    return X


class Recorder:
    """identity func that records how it was called"""
    def __init__(self):
        self.calls = []

    def __call__(self, model, X, args=None, **kwargs):
        self.calls.append((model, args, dict(kwargs)))
        return X


class OffsetIdentity(torch.nn.Module):
    """model for the default func (predict): returns its input, plus 1000*(k+1)*arg_k per example, so that
    the arguments that reached the model - and their pairing with the examples - are part of the output"""
    def forward(self, X, *args):
        Y = X
        for k, a in enumerate(args):
            Y = Y + 1000 * (k + 1) * a[:, None, None]
        return Y


def make_table(inp, rows, width):
    if rows:
        t = torch.tensor(rows, dtype=torch.int64)
    else:
        t = torch.zeros(0, width, dtype=torch.int64)
    extra = inp.get('extra_col', 0)
    if extra:                   # more columns than the function reads (the repository's own tests do this)
        t = torch.cat([t, torch.full((t.shape[0], extra), 7, dtype=torch.int64)], dim=1)
    form = inp.get('tform', 'long')
    if form in ('int32', 'np32'):
        t = t.to(torch.int32)
    lay = inp.get('tlayout', 'contig')
    if lay == 'colmajor':
        t = t.T.contiguous().T
    elif lay == 'wide':
        t = torch.cat([t, torch.full((t.shape[0], 2), -5, dtype=t.dtype)], dim=1)[:, :t.shape[1]]
    if form in ('np64', 'np32'):
        t = t.numpy()
    return t


def left_arg(inp, left):
    import numpy
    form = inp.get('leftform', 'bool')
    if form == 'int':
        return 1 if left else 0
    if form == 'npbool':
        return numpy.bool_(left)
    if form == 'tbool':
        return torch.tensor(bool(left))
    return bool(left)


def one_call(V, inp, X, table, left, form):
    """one call of the function under test; returns (y_before, y_after, plumbed)"""
    kind = inp['kind']
    f = {'sub': V.substitution_effect, 'del': V.deletion_effect, 'ins': V.insertion_effect}[kind]
    pos = (X, table)
    kw = {} if kind == 'sub' else {'left': left_arg(inp, left)}
    B = X.shape[0]
    if form == 'ident':
        yb, ya = f(None, *pos, func=identity, **kw)
        return yb, ya, True
    nargs = inp.get('nargs', 0)
    if form == 'rec':
        rec = Recorder()
        model = torch.nn.Identity()
        args = tuple(torch.arange(B) + 10 * k for k in range(nargs)) if nargs else None
        afk = {'none': None, 'empty': {}, 'dict': {'alpha': 3, 'gamma': [1, 2]}}[inp.get('afk', 'none')]
        extra = {'beta': 'x'} if inp.get('kw') else {}
        expect = dict(afk or {}, **extra)
        if inp.get('afk', 'none') == 'none' and inp.get('kw'):
            yb, ya = f(model, *pos, args=args, func=rec, **extra, **kw)      # additional_func_kwargs left to its default
        else:
            yb, ya = f(model, *pos, args=args, func=rec, additional_func_kwargs=afk, **extra, **kw)

        def same_args(a):
            if args is None or a is None:
                return a is args
            return len(a) == len(args) and all(torch.equal(u, v) for u, v in zip(a, args))
        plumbed = bool(rec.calls) and all(m is model and same_args(a) and k == expect for m, a, k in rec.calls)
        return yb, ya, plumbed
    # default func (tangermeme.predict.predict) with a model that returns its input (+ an encoding of its args)
    model = OffsetIdentity()
    args = tuple((torch.arange(B) + 1).to(torch.float32) for _k in range(nargs)) if nargs else None
    bs = inp.get('bs', 32)
    if inp.get('kw'):
        yb, ya = f(model, *pos, args=args, device='cpu', batch_size=bs, **kw)
    else:
        yb, ya = f(model, *pos, args=args, additional_func_kwargs={'batch_size': bs, 'device': 'cpu'}, **kw)
    if nargs:
        off = sum(1000 * (k + 1) for k in range(nargs)) * (torch.arange(B) + 1).to(torch.float64)
        yb = yb.to(torch.float64) - off[:, None, None]
        ya = ya.to(torch.float64) - off[:, None, None]
    return yb, ya, True


def run_impl(inp):
    from tangermeme import variant_effect as V
    X = build_X(inp)
    kind = inp['kind']
    width = 2 if kind == 'del' else 3
    tables = {}

    def table_for(rows):
        key = repr(rows)
        if key not in tables:
            tables[key] = make_table(inp, rows, width)
        return tables[key]
    # earlier calls in the same process on the SAME tensor objects, with one thing changed
    for pre in inp.get('pre', []):
        try:
            one_call(V, inp, X, table_for(pre.get('rows', inp['rows'])), pre.get('left', inp.get('left', False)),
                     pre.get('func', 'ident'))
        except Exception:
            pass
    try:
        yb, ya, plumbed = one_call(V, inp, X, table_for(inp['rows']), inp.get('left', False), inp.get('func', 'ident'))
        return {'ok': True, 'before': from_tensor(yb), 'after': from_tensor(ya), 'plumbed': plumbed}
    except Exception as e:
        return {'ok': False, 'err': type(e).__name__, 'plumbed': True}


def coq_case(inp, out):
    A = inp['A']
    X = base_X(inp)
    B, _, L = X.shape
    t = '(T %s %s %s)' % (C.nat(A), C.nat(L), C.batch_lit(from_tensor(X)))
    rows = C.lst(['(' + ', '.join(C.z(v) for v in r) + ')' for r in inp['rows']])
    kind = inp['kind']
    if kind == 'sub':
        call = '(CSub %s %s)' % (t, rows)
    elif kind == 'del':
        call = '(CDel %s %s %s)' % (t, rows, C.boolean(inp['left']))
    else:
        call = '(CIns %s %s %s)' % (t, rows, C.boolean(inp['left']))
    if out['ok'] and isinstance(out['before'], list) and isinstance(out['after'], list):
        o = '(Ok (%s, %s))' % (C.batch_lit(out['before']), C.batch_lit(out['after']))
    elif out['ok']:
        o = '(Ok ([[[7]]], [[[7]]]))'    # not a (B, A, L) integer tensor: certainly not the expected one
    else:
        o = 'Err'
    return '(%s, %s, %s)' % (call, o, C.boolean(out.get('plumbed', True)))


def nontrivial(inp, out):
    L = len(inp['X'][0]) if inp['X'] else 0
    if out['ok']:
        return out['before'] != out['after']
    bounds = {0: len(inp['X']), 1: L, 2: inp['A']}
    return any(abs(v) <= 3 or abs(v - bounds[i]) <= 3 for r in inp['rows'] for i, v in enumerate(r))


def hist_key(inp, out):
    forms = '+'.join(sorted(k for k in OPTIONAL if k in inp and k not in ('nargs', 'kw', 'afk', 'bs'))) or 'plain'
    return '%s/%s/%s' % (inp['kind'], forms, 'ok' if out['ok'] else 'raise')


def tags(inp, out):
    return set()


# ----------------------------------------------------------------------------------------
# generators

def rand_seqs(rng, B, A, L):
    return [[rng.randrange(A) for _ in range(L)] for _ in range(B)]


def subsets_upto(L, k):
    for n in range(k + 1):
        for S in itertools.combinations(range(L), n):
            yield S


def deletion_cases(rng, Ls, per_pair_batches):
    """Every (subset S, total mx) pair with |S| <= mx <= 3 appears as an example whose batch has
    maximum mx, for both sides; examples are packed 1-4 per batch."""
    for L in Ls:
        subs = list(subsets_upto(L, 3))
        by_size = {n: [S for S in subs if len(S) == n] for n in range(4)}
        for left in (False, True):
            for mx in range(4):
                pool = [S for S in subs if len(S) <= mx]
                rng.shuffle(pool)
                i = 0
                while i < len(pool):
                    B = rng.randint(1, 4)
                    group = pool[i:i + B]
                    i += B
                    if max(len(S) for S in group) < mx:
                        # make sure the batch total is mx: add / replace one example of that size
                        full = rng.choice(by_size[mx])
                        if len(group) < 4:
                            group.insert(rng.randrange(len(group) + 1), full)
                        else:
                            # keep the four pool subsets, spill into a second batch
                            yield from _del_batch(rng, L, left, [group[-1], full])
                            group = group[:-1] + [full]
                    yield from _del_batch(rng, L, left, group)
            for _ in range(per_pair_batches):
                B = rng.randint(1, 4)
                yield from _del_batch(rng, L, left, [rng.choice(subs) for _ in range(B)])


def _del_batch(rng, L, left, group):
    A = rng.choice([4, 4, 4, 2, 3, 5])
    rows = [[b, p] for b, S in enumerate(group) for p in S]
    rng.shuffle(rows)
    yield {'kind': 'del', 'A': A, 'X': rand_seqs(rng, len(group), A, L), 'rows': rows,
           'left': left, 'lab': rng.random() < 0.5}


def insertion_cases(rng, Ls, n_triples, n_mixed):
    for L in Ls:
        A = 4
        for left in (False, True):
            # one insertion: every coordinate x every character, packed four examples per batch
            singles = [(p, c) for p in range(L + 1) for c in range(A)]
            rng.shuffle(singles)
            for i in range(0, len(singles), 4):
                grp = singles[i:i + 4]
                yield {'kind': 'ins', 'A': A, 'X': rand_seqs(rng, len(grp), A, L), 'left': left,
                       'rows': [[b, p, c] for b, (p, c) in enumerate(grp)]}
            # two insertions: every pair of distinct coordinates
            pairs = list(itertools.combinations(range(L + 1), 2))
            rng.shuffle(pairs)
            for i in range(0, len(pairs), 3):
                grp = pairs[i:i + 3]
                rows = [[b, p, rng.randrange(A)] for b, ps in enumerate(grp) for p in ps]
                rng.shuffle(rows)
                yield {'kind': 'ins', 'A': A, 'X': rand_seqs(rng, len(grp), A, L), 'left': left, 'rows': rows}
            for _ in range(n_triples):
                ps = rng.sample(range(L + 1), 3)
                # bias towards the ends
                if rng.random() < 0.5:
                    ps = list({rng.choice([0, 1, L - 1, L]), rng.choice([0, L]), rng.randint(0, L)})
                rows = [[0, p, rng.randrange(A)] for p in ps]
                yield {'kind': 'ins', 'A': A, 'X': rand_seqs(rng, 1, A, L), 'left': left, 'rows': rows}
            for _ in range(n_mixed):
                A2 = rng.choice([2, 3, 4, 4, 5])
                B = rng.randint(1, 4)
                rows = []
                for b in range(B):
                    k = rng.choice([0, 0, 1, 2, 3, 4])
                    for p in rng.sample(range(L + 1), min(k, L + 1)):
                        rows.append([b, p, rng.randrange(A2)])
                rng.shuffle(rows)
                yield {'kind': 'ins', 'A': A2, 'X': rand_seqs(rng, B, A2, L), 'left': left, 'rows': rows}


def substitution_cases(rng, Ls, n_mixed):
    for L in Ls:
        A = 4
        cells = [(p, c) for p in range(L) for c in range(A)]
        rng.shuffle(cells)
        for i in range(0, len(cells), 4):
            grp = cells[i:i + 4]
            rows = [[b, p, c] for b, (p, c) in enumerate(grp)]
            if i % 8 == 0:
                rows = rows + [rows[0]] + rows[:1]       # identical repeated rows
            yield {'kind': 'sub', 'A': A, 'X': rand_seqs(rng, len(grp), A, L), 'rows': rows,
                   'lab': i % 3 == 0}
        for _ in range(n_mixed):
            A2 = rng.choice([2, 3, 4, 4, 5])
            B = rng.randint(1, 4)
            rows = []
            for b in range(B):
                for p in rng.sample(range(L), rng.choice([0, 1, 2, 3, L])):
                    rows.append([b, p, rng.randrange(A2)])
            rows += [list(r) for r in rng.sample(rows, min(len(rows), rng.choice([0, 1, 2])))]   # repeats
            rng.shuffle(rows)
            yield {'kind': 'sub', 'A': A2, 'X': rand_seqs(rng, B, A2, L), 'rows': rows,
                   'lab': rng.random() < 0.3}


def malformed_cases(rng, Ls, n):
    """out-of-range coordinates (must raise), negative coordinates / conflicting or duplicate rows /
    non-one-hot input (outside the property's scope: model tie only)"""
    for L in Ls:
        for kind in ('sub', 'del', 'ins'):
            width = 2 if kind == 'del' else 3
            for _ in range(n):
                A = rng.choice([2, 4, 4])
                B = rng.randint(1, 4)
                hi_p = L + 1 if kind == 'ins' else L
                rows = []
                for b in range(B):
                    for p in rng.sample(range(hi_p), rng.choice([0, 1, 2])):
                        rows.append([b, p] + ([rng.randrange(A)] if width == 3 else []))
                bad = [rng.randrange(B), rng.randrange(hi_p)] + ([rng.randrange(A)] if width == 3 else [])
                bounds = [B, hi_p, A]
                how = rng.choice(['oob', 'oob', 'oob', 'neg', 'dup', 'conflict', 'none'])
                axis = rng.randrange(width)
                if how == 'oob':
                    bad[axis] = bounds[axis] + rng.choice([0, 0, 1, 3])
                elif how == 'neg':
                    bad[axis] = -rng.choice([1, 1, 2, bounds[axis], bounds[axis] + 1])
                elif how in ('dup', 'conflict') and kind == 'ins':
                    pass          # equal insertion positions: torch leaves their order unspecified
                elif how == 'dup' and rows:
                    bad = list(rng.choice(rows))
                elif how == 'conflict' and rows and width == 3:
                    bad = list(rng.choice(rows))
                    bad[2] = (bad[2] + 1) % A
                rows.insert(rng.randrange(len(rows) + 1), bad)
                X = rand_seqs(rng, B, A, L)
                if kind == 'ins' and rng.random() < 0.25:
                    X[rng.randrange(B)][rng.randrange(L)] = rng.choice([-1, -2, -3])
                yield {'kind': kind, 'A': A, 'X': X, 'rows': rows, 'left': rng.random() < 0.5,
                       'lab': kind != 'ins' and rng.random() < 0.3}


# every accepted input form / option, as (field, non-default values, kinds it applies to)
FORM_ITEMS = [
    ('xdtype', ['float64', 'float16', 'int8', 'uint8', 'int32', 'int64'], ('sub', 'del', 'ins')),
    ('xlayout', ['perm', 'view'], ('sub', 'del', 'ins')),
    ('tform', ['int32'], ('sub', 'del', 'ins')),
    ('tform', ['np64', 'np32'], ('sub', 'del')),        # insertion_effect needs a torch table (argsort)
    ('tlayout', ['colmajor', 'wide'], ('sub', 'del', 'ins')),
    ('extra_col', [1, 2], ('del',)),                    # tests/test_variant_effect.py passes a 3-column table
    ('leftform', ['int', 'npbool', 'tbool'], ('del', 'ins')),
    ('func', ['rec', 'predict'], ('sub', 'del', 'ins')),
]


def lab_fits(inp, dtype):
    if not inp.get('lab'):
        return True
    B = len(inp['X'])
    L = len(inp['X'][0]) if B else 0
    top = 2 + B * L * inp['A']
    return top <= {'int8': 127, 'uint8': 255, 'float16': 2048}.get(dtype, 10 ** 9)


def set_form(rng, inp, field, value):
    c = dict(inp)
    if field == 'xdtype' and not lab_fits(inp, value):
        c['lab'] = False
    c[field] = value
    if field == 'func':
        c['nargs'] = rng.choice([0, 1, 2])
        c['kw'] = rng.random() < 0.5
        if value == 'rec':
            c['afk'] = rng.choice(['none', 'empty', 'dict'])
        else:
            c['bs'] = rng.choice([1, 2, 3, 32])
            if c['nargs'] and c.get('xdtype', 'float32') in ('int8', 'uint8', 'float16'):
                c['xdtype'] = 'float32'       # the offset encoding of args needs room
    return c


def decorate(rng, inp, p=0.45):
    """spread the input forms over the exhaustive streams: with probability p a case gets 1-3 non-default forms"""
    if rng.random() >= p:
        return inp
    items = [it for it in FORM_ITEMS if inp['kind'] in it[2]]
    for field, values, _ in rng.sample(items, rng.choice([1, 1, 2, 3])):
        inp = set_form(rng, inp, field, rng.choice(values))
    if inp.get('func') == 'predict' and inp.get('nargs') and inp.get('xdtype') in ('int8', 'uint8', 'float16'):
        inp = dict(inp, xdtype='float32')
    return inp


def edge_rows(rng, kind, B, L, A):
    """a small variant table biased to the two ends of the sequence"""
    rows = []
    for b in range(B):
        hi = L + 1 if kind == 'ins' else L
        cand = list({0, hi - 1, rng.randrange(hi), rng.randrange(hi)})
        k = rng.choice([0, 1, 2, min(3, len(cand))])
        if kind == 'del':
            k = min(k, 3, L - 1)
        for pp in rng.sample(cand, min(k, len(cand))):
            rows.append([b, pp] + ([rng.randrange(A)] if kind != 'del' else []))
    rng.shuffle(rows)
    return rows


def form_cases(rng, reps):
    """every single form item on its own (so that each one is exercised whatever the seed), every kind, both
    sides, variants at the two ends"""
    for kind in ('sub', 'del', 'ins'):
        for field, values, kinds in FORM_ITEMS:
            if kind not in kinds:
                continue
            for value in values:
                for left in (False, True):
                    for _ in range(reps):
                        A = rng.choice([2, 4, 4, 5])
                        B = rng.randint(1, 4)
                        L = rng.choice([4, 5, 8, 14])
                        inp = {'kind': kind, 'A': A, 'X': rand_seqs(rng, B, A, L), 'left': left,
                               'rows': edge_rows(rng, kind, B, L, A),
                               'lab': kind != 'ins' and rng.random() < 0.5}
                        yield set_form(rng, inp, field, value)
    # every func form x every way the keyword arguments can be routed x number of args
    for kind in ('sub', 'del', 'ins'):
        for func in ('rec', 'predict'):
            for nargs in (0, 1, 2):
                for kw in (False, True):
                    for afk in (('none', 'empty', 'dict') if func == 'rec' else ('none',)):
                        B = rng.randint(1, 4)
                        L = rng.choice([4, 6, 9])
                        left = rng.random() < 0.5
                        yield {'kind': kind, 'A': 4, 'X': rand_seqs(rng, B, 4, L), 'left': left,
                               'rows': edge_rows(rng, kind, B, L, 4), 'func': func, 'nargs': nargs, 'kw': kw,
                               'afk': afk, 'bs': rng.choice([1, 2, 32]), 'lab': kind != 'ins' and nargs == 0}


def reuse_cases(rng, reps):
    """call sequences in one process on the SAME X / table objects with one thing changed before the observed call:
    the other side, another table, the same call repeated, another func form"""
    for kind in ('sub', 'del', 'ins'):
        for what in ('same', 'side', 'table', 'func', 'two'):
            for _ in range(reps):
                A = 4
                B = rng.randint(1, 4)
                L = rng.choice([4, 5, 7, 10])
                left = rng.random() < 0.5
                rows = edge_rows(rng, kind, B, L, A)
                other = edge_rows(rng, kind, B, L, A)
                pre = {'same': [{}], 'side': [{'left': not left}], 'table': [{'rows': other}],
                       'func': [{'func': rng.choice(['rec', 'predict'])}],
                       'two': [{'rows': other, 'left': not left}, {'left': not left}]}[what]
                inp = {'kind': kind, 'A': A, 'X': rand_seqs(rng, B, A, L), 'left': left, 'rows': rows, 'pre': pre,
                       'lab': kind != 'ins' and rng.random() < 0.5}
                if rng.random() < 0.5:
                    field, values, _ = rng.choice([it for it in FORM_ITEMS if kind in it[2] and it[0] != 'func'])
                    inp = set_form(rng, inp, field, rng.choice(values))
                yield inp


def small_cases(rng, reps):
    """sizes below the quantifier's (the theorems hold for all sizes): L 1-3, alphabet of one letter for the two
    functions that do not validate, batch of one"""
    for L in (1, 2, 3):
        for kind in ('sub', 'del', 'ins'):
            for _ in range(reps):
                A = rng.choice([1, 2, 4]) if kind != 'ins' else rng.choice([2, 4])
                B = rng.randint(1, 3)
                yield {'kind': kind, 'A': A, 'X': rand_seqs(rng, B, A, L), 'left': rng.random() < 0.5,
                       'rows': edge_rows(rng, kind, B, L, A), 'lab': kind != 'ins'}


def generate(tier, rng):
    allL = list(range(4, 15))
    if tier == 'thorough':
        streams = [deletion_cases(rng, allL, 150) for _round in range(2)]   # every (subset, total) pair twice,
        streams += [insertion_cases(rng, allL, 80, 200),                    # in differently mixed batches
                    substitution_cases(rng, allL, 120), malformed_cases(rng, allL, 60)]
        extra = [form_cases(rng, 6), reuse_cases(rng, 20), small_cases(rng, 12)]
    else:
        Ls = [4, 5, 7, 10, 14]
        streams = [deletion_cases(rng, allL, 20), insertion_cases(rng, Ls, 15, 30),
                   substitution_cases(rng, Ls, 20), malformed_cases(rng, Ls, 12)]
        extra = [form_cases(rng, 2), reuse_cases(rng, 6), small_cases(rng, 4)]
    for st in streams:
        for inp in st:
            yield decorate(rng, inp)
    for st in extra:
        yield from st


# ----------------------------------------------------------------------------------------
# shrinking / directed search

OPTIONAL = ('pre', 'xdtype', 'xlayout', 'tform', 'tlayout', 'extra_col', 'leftform', 'func', 'nargs', 'kw', 'afk', 'bs')


def shrink(inp):
    rows = inp['rows']
    B = len(inp['X'])
    # back to the default form of one optional item
    for k in OPTIONAL:
        if k in inp:
            c = dict(inp)
            del c[k]
            yield c
    # drop one example (and its rows; later examples are renumbered)
    if B > 1:
        for i in range(B):
            c = dict(inp)
            c['X'] = inp['X'][:i] + inp['X'][i + 1:]
            c['rows'] = [[r[0] - (1 if r[0] > i else 0)] + list(r[1:]) for r in rows if r[0] != i]
            yield c
    # drop one row
    for i in range(len(rows)):
        c = dict(inp)
        c['rows'] = rows[:i] + rows[i + 1:]
        yield c
    # drop the last / first position when no row names a position beyond it
    L = len(inp['X'][0]) if inp['X'] else 0
    if L > 1 and all(0 <= r[1] < L - 1 for r in rows):
        c = dict(inp)
        c['X'] = [s[:-1] for s in inp['X']]
        yield c
    if L > 1 and all(r[1] >= 1 for r in rows):
        c = dict(inp)
        c['X'] = [s[1:] for s in inp['X']]
        c['rows'] = [[r[0], r[1] - 1] + list(r[2:]) for r in rows]
        yield c


def search(rng, disagreeing):
    """boundary-directed extras: variants at the two ends, every side, small batches"""
    for L in (4, 6, 9):
        for left in (False, True):
            for S in subsets_upto(L, 2):
                for T_ in ((), (0,), (L - 1,), (0, L - 1), (0, 1, 2)):
                    yield {'kind': 'del', 'A': 4, 'X': rand_seqs(rng, 2, 4, L), 'left': left, 'lab': True,
                           'rows': [[0, p] for p in S] + [[1, p] for p in T_]}
            for p in range(L + 1):
                for q in (0, L, L + 1):
                    rows = [[0, p, 1]] + ([[1, q, 2]] if q != p else [])
                    yield {'kind': 'ins', 'A': 4, 'X': rand_seqs(rng, 2, 4, L), 'left': left, 'rows': rows}
                yield {'kind': 'ins', 'A': 4, 'X': rand_seqs(rng, 2, 4, L), 'left': left, 'rows': [[2, p, 1]]}
        for p in range(L + 1):
            yield {'kind': 'sub', 'A': 4, 'X': rand_seqs(rng, 2, 4, L), 'rows': [[1, p, 3], [0, 0, 0]], 'lab': True}
