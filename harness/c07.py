"""C07 - a model is left unchanged by every call, even one that fails.

prebuild(): translate the current source of the API functions into coq/C07/Generated.v
(harness/skeleton.py); coq/C07/Property.v then re-proves `clean` for every skeleton.
Cases: crash-point injection on the real code (line-level via sys.settrace at every line
the skeleton classifies as a possible raise point, at its k-th visit; plus exceptions
raised inside the k-th forward call / reference-generator call / backward hook, and
invalid inputs), and histories of calls on one shared model versus fresh copies.
"""
import copy
import os
import sys
import warnings

import numpy
import torch

from . import common as C
from . import skeleton as S

PID = 'C07'
COQ_DIRS = ['C07']
IMPORTS = ['C07.Lang', 'C07.Generated', 'C07.Spec']
CASE_TYPE = 'case'
CHECK = 'check_case'
RULE = ('every (line, k-th visit) crash point of the skeleton\'s raise lines executed by small runs of each API '
        'function (deep_lift_shap: 2 examples x 2 shuffles x batch sizes 1,3,4, with/without args and tensor '
        'references), exceptions inside the k-th forward / reference-generator / backward-hook call, invalid inputs, '
        'and call histories of length <= 4 on a shared model vs fresh copies; non-trivial = the injected crash '
        'happens after hook registration and before the final clear (deep_lift_shap) or during a forward pass')
TRUSTED = ['harness/skeleton.py statement classification table (validated by the line-level injector: a line that '
           'raises must be one the skeleton lists)',
           'torch hook containers: handle.remove() removes; hooks are observed through module._forward_hooks, '
           '_forward_pre_hooks, _backward_hooks, _backward_pre_hooks']
ASSUMPTIONS = ['callee contract for func/predict/deep_lift_shap invoked by the wrappers: clean model in, clean model out '
               '(discharged for the listed functions by c07_histories)',
               'the three tracked facts (hooks, eval mode, parameters/buffers touched) are the only model state the '
               'API functions can affect; the translator rejects any other use of the model variable']

_FNS = None


class Injected(Exception):
    pass


_LOCK = None


def prebuild():
    global _FNS, _LOCK
    # coq/C07/Generated.v is shared by every C07 run: concurrent runs (e.g. against different
    # scratch copies of the repository) are serialised for their whole lifetime
    import fcntl
    os.makedirs(os.path.join(C.WORK, 'C07'), exist_ok=True)
    _LOCK = open(os.path.join(C.WORK, 'C07', 'lock'), 'w')
    fcntl.flock(_LOCK, fcntl.LOCK_EX)
    fns, errors = S.translate_all()
    for f in fns:
        if f['term'] == 'Raise':
            f['term'] = '(Register 0)'
    S.write_generated(fns)
    _FNS = fns
    if errors:
        raise RuntimeError('untranslatable constructs: %s' % '; '.join(errors))
    return {'functions': [(f['file'], f['name'], len(f['raise_lines'])) for f in fns]}


def fns():
    global _FNS
    if _FNS is None:
        _FNS, _ = S.translate_all()
    return _FNS


def fid(name):
    for f in fns():
        if f['name'] == name:
            return f
    raise KeyError(name)


# ----------------------------------------------------------------------------------------
# the model under test and the drivers

class Net(torch.nn.Module):
    def __init__(self, n_out=1):
        super().__init__()
        self.conv = torch.nn.Conv1d(4, 3, 3, padding=1)
        self.bn = torch.nn.BatchNorm1d(3)
        self.relu = torch.nn.ReLU()
        self.drop = torch.nn.Dropout(0.5)
        self.pool = torch.nn.MaxPool1d(2)
        self.tanh = torch.nn.Tanh()
        self.lin = torch.nn.Linear(3, 2)
        # the same activation instance is also reachable through a second parent, so
        # Module.apply visits it twice (hook registration must be idempotent)
        self.head = torch.nn.Sequential(self.tanh)
        # a float64 buffer next to float32 parameters: a call must not re-cast the model's state
        self.register_buffer('calib', torch.tensor([1.0, 0.5], dtype=torch.float64))
        self.fail_at = None      # raise inside the k-th forward call
        self.calls = 0

    def forward(self, X, a=None):
        self.calls += 1
        if self.fail_at is not None and self.calls == self.fail_at:
            raise Injected('forward %d' % self.calls)
        h = self.head(self.pool(self.drop(self.relu(self.bn(self.conv(X))))))
        y = self.lin(h.sum(dim=-1))
        if a is not None:
            y = y + a
        return y


def _halve_grad(module, grad_input, grad_output):
    return tuple(g * 0.5 if g is not None else None for g in grad_input)


def make_model(train_mode, user_hook=False):
    torch.manual_seed(7)
    m = Net()
    if user_hook:
        # a full backward hook of the caller on a layer deep_lift_shap also hooks: it must still be
        # registered and still fire afterwards (ordinary gradients are halved by it)
        m.relu.register_full_backward_hook(_halve_grad)
    with torch.no_grad():
        m.bn.running_mean.copy_(torch.tensor([0.1, -0.2, 0.3]))
        m.bn.running_var.copy_(torch.tensor([1.5, 0.7, 1.1]))
    if train_mode == 'mixed':
        # root (and most layers) in eval mode, batch-norm and dropout switched back to training:
        # a call must still run every forward pass in evaluation mode
        m.eval()
        m.bn.train()
        m.drop.train()
    elif train_mode == 'mixed2':
        # root in training mode, batch-norm and dropout deliberately frozen in evaluation mode:
        # a call may move modules INTO evaluation mode, never out of it
        m.train()
        m.bn.eval()
        m.drop.eval()
    else:
        m.train(bool(train_mode))
    return m


def mode_flags(model):
    return [bool(x.training) for x in model.modules()]


def onehot(seqs):
    from tangermeme.utils import one_hot_encode
    return torch.stack([one_hot_encode(s) for s in seqs]).float()


X2 = ['ACGTACGGTACATGCATGAC', 'GGATCCATAGGATCTAGCTA']


_DRIVERS = None


def drivers():
    global _DRIVERS
    if _DRIVERS is None:
        _DRIVERS = _build_drivers()
    return _DRIVERS


def _build_drivers():
    """name -> callable(model, variant) performing one representative call"""
    import tangermeme.predict as P
    import tangermeme.deep_lift_shap as D
    import tangermeme.ism as I
    import tangermeme.marginalize as M
    import tangermeme.ablate as A
    import tangermeme.space as SP
    import tangermeme.variant_effect as V
    import tangermeme.product as PR
    import tangermeme.design as G
    import pandas
    X = onehot(X2)
    arg = torch.tensor([[0.5, 1.0], [2.0, -1.0]])

    def dls(model, v=None):
        v = v or {}
        kw = dict(device='cpu', n_shuffles=2, batch_size=v.get('bs', 3), random_state=0, warning_threshold=1e9)
        if v.get('args'):
            kw['args'] = (arg,)
        if v.get('refs') == 'tensor':
            from tangermeme.ersatz import dinucleotide_shuffle
            kw['references'] = dinucleotide_shuffle(X, n=2, random_state=1)
        elif v.get('refs') == 'failing':
            calls = {'n': 0}
            from tangermeme.ersatz import dinucleotide_shuffle

            def ref(x, n=1, random_state=None):
                calls['n'] += 1
                if calls['n'] == v['k']:
                    raise Injected('reference %d' % calls['n'])
                return dinucleotide_shuffle(x, n=n, random_state=random_state)
            kw['references'] = ref
        if v.get('target') is not None:
            kw['target'] = v['target']
        Xin = X
        if v.get('invalid') == 'N':
            Xin = X.clone()
            Xin[0, :, 3] = 0
        if v.get('invalid') == 'args_len':
            kw['args'] = (arg[:1],)
        if v.get('hypothetical'):
            kw['hypothetical'] = True
        return D.deep_lift_shap(model, Xin, **kw)

    table = {
        'predict': lambda m, v=None: P.predict(m, X, batch_size=1, device='cpu'),
        'deep_lift_shap': dls,
        'saturation_mutagenesis': lambda m, v=None: I.saturation_mutagenesis(m, X, batch_size=5, device='cpu'),
        'marginalize': lambda m, v=None: M.marginalize(m, X, 'ACG', device='cpu'),
        'marginalize_annotations': lambda m, v=None: M.marginalize_annotations(
            m, X, X, torch.tensor([[0, 1, 4], [1, 2, 5]]), device='cpu'),
        'ablate': lambda m, v=None: A.ablate(m, X, 2, 6, n=2, random_state=0, device='cpu'),
        'ablate_annotations': lambda m, v=None: A.ablate_annotations(
            m, X, torch.tensor([[0, 1, 4], [1, 2, 5]]), n=2, random_state=0, device='cpu'),
        'space': lambda m, v=None: SP.space(m, X, ['AC', 'GT'], [[1], [2]], device='cpu'),
        'substitution_effect': lambda m, v=None: V.substitution_effect(
            m, X, torch.tensor([[0, 2, 1], [1, 3, 0]]), device='cpu'),
        'deletion_effect': lambda m, v=None: V.deletion_effect(
            m, X, torch.tensor([[0, 2], [1, 3]]), device='cpu'),
        'insertion_effect': lambda m, v=None: V.insertion_effect(
            m, X, torch.tensor([[0, 2, 1], [1, 3, 0]]), device='cpu'),
        'apply_pairwise': lambda m, v=None: PR.apply_pairwise(P.predict, m, X, args=(arg,), batch_size=3, device='cpu'),
        'apply_product': lambda m, v=None: PR.apply_product(P.predict, m, X, args=(arg,), batch_size=3, device='cpu'),
        'greedy_substitution': lambda m, v=None: G.greedy_substitution(
            m, X[:1], ['AC', 'TTG'], torch.tensor([[3.0, -3.0]]), max_iter=2, device='cpu'),
        'marginalize_dls': lambda m, v=None: M.marginalize(
            m, X, 'ACG', func=D.deep_lift_shap,
            additional_func_kwargs=dict(n_shuffles=2, random_state=0, warning_threshold=1e9), device='cpu'),
        'ablate_dls': lambda m, v=None: A.ablate(
            m, X, 2, 6, n=2, random_state=0, func=D.deep_lift_shap,
            additional_func_kwargs=dict(n_shuffles=2, random_state=0, warning_threshold=1e9), device='cpu'),
    }
    return table


# ----------------------------------------------------------------------------------------
# line-level injection through sys.monitoring (LINE events of one code object only)

_TOOL = 4
_B0 = {}


def _mon_start(code, callback):
    mon = sys.monitoring
    try:
        mon.use_tool_id(_TOOL, 'verif-c07')
    except ValueError:
        pass
    mon.register_callback(_TOOL, mon.events.LINE, callback)
    mon.set_local_events(_TOOL, code, mon.events.LINE)


def _mon_stop(code):
    mon = sys.monitoring
    mon.set_local_events(_TOOL, code, 0)
    mon.register_callback(_TOOL, mon.events.LINE, None)


# ----------------------------------------------------------------------------------------
# observation

def hook_count(model):
    n = 0
    for mod in model.modules():
        for attr in ('_forward_hooks', '_forward_pre_hooks', '_backward_hooks', '_backward_pre_hooks',
                     '_forward_hooks_with_kwargs', '_state_dict_hooks'):
            d = getattr(mod, attr, None)
            if d:
                n += len(d)
    return n


def behaviour(model):
    """outputs and ordinary gradients in eval mode on a probe input (deterministic)"""
    m = model
    was = {id(x): x.training for x in m.modules()}
    m.eval()
    fa, m.fail_at = m.fail_at, None
    x = onehot(['ACGTACGT', 'TTGACCAG']).requires_grad_()
    y = m(x)
    g = torch.autograd.grad(y.sum(), [x] + [p for p in m.parameters()])
    for x in m.modules():
        x.training = was[id(x)]
    m.fail_at = fa
    return [y.detach().clone()] + [t.detach().clone() for t in g]


def same_state(a, b):
    sa, sb = a.state_dict(), b.state_dict()
    if sa.keys() != sb.keys():
        return False
    for k in sa:
        x, y = sa[k], sb[k]
        if x.dtype != y.dtype or x.shape != y.shape:
            return False
        if not torch.equal(x, y):
            return False
    return True


def run_impl(inp):
    import tangermeme.deep_lift_shap as D
    kind = inp['kind']
    res = {'raised': False, 'hooks_left': False, 'changed': False, 'line_hit': True, 'exc': None}
    table = drivers()
    if kind == 'history':
        shared = make_model(inp['train'], inp.get('user_hook', False))
        outs_shared, outs_fresh = [], []
        for name in inp['calls']:
            for model, acc in ((shared, outs_shared), (make_model(inp['train'], inp.get('user_hook', False)), outs_fresh)):
                try:
                    with warnings.catch_warnings():
                        warnings.simplefilter('ignore')
                        y = table[name](model, inp.get('variant'))
                    acc.append(y)
                except Exception as e:
                    acc.append(repr(type(e)))
        res['changed'] = not deep_equal(outs_shared, outs_fresh) or not same_state(shared, make_model(inp['train'], inp.get('user_hook', False)))
        res['hooks_left'] = hook_count(shared) != hook_count(make_model(inp['train'], inp.get('user_hook', False)))
        if not res['changed']:
            try:
                b1 = behaviour(shared)
                b0 = behaviour(make_model(inp['train'], inp.get('user_hook', False)))
                res['changed'] = not all(torch.equal(a, b) for a, b in zip(b0, b1))
            except Exception as e:
                res['changed'] = True
        if any(a and not b for a, b in zip(mode_flags(shared), mode_flags(make_model(inp['train'], inp.get('user_hook', False))))):
            res['changed'] = True
        return res

    model = make_model(inp.get('train', False), inp.get('user_hook', False))
    pristine = copy.deepcopy(model)
    flags0 = mode_flags(model)
    key = str(inp.get('train', False)) + str(inp.get('user_hook', False))
    if key not in _B0:
        _B0[key] = behaviour(copy.deepcopy(pristine))
    b0 = _B0[key]
    v = dict(inp.get('variant') or {})
    fn = inp['fn']
    target_code = None
    old_nonlinear = D._nonlinear
    tracer = None
    if kind == 'forward':
        model.fail_at = inp['k']
    elif kind == 'reference':
        v.update(refs='failing', k=inp['k'])
    elif kind == 'bhook':
        calls = {'n': 0}

        def failing_nonlinear(module, grad_input, grad_output):
            calls['n'] += 1
            if calls['n'] == inp['k']:
                raise Injected('bhook %d' % calls['n'])
            return old_nonlinear(module, grad_input, grad_output)
        D._nonlinear = failing_nonlinear
    elif kind == 'layer':
        # the forward of one hooked layer itself raises at its k-th call (after the layer's
        # forward pre-hooks ran, before its forward hooks)
        layer = getattr(model, inp['layer'])
        orig_forward = layer.forward
        lcalls = {'n': 0}

        def failing_forward(*a, **kw):
            lcalls['n'] += 1
            if lcalls['n'] == inp['k']:
                raise Injected('%s forward %d' % (inp['layer'], lcalls['n']))
            return orig_forward(*a, **kw)
        layer.forward = failing_forward
    elif kind == 'line':
        f = fid(inp['target'])
        mod = sys.modules['tangermeme.' + f['file'][:-3]]
        target_code = getattr(mod, f['name']).__code__
        state = {'n': 0}

        def tracer(code, line):
            if line == inp['line']:
                state['n'] += 1
                if state['n'] == inp['k']:
                    raise Injected('line %d visit %d' % (inp['line'], inp['k']))
        res['line_hit'] = False
    try:
        if tracer:
            _mon_start(target_code, tracer)
        try:
            with warnings.catch_warnings():
                warnings.simplefilter('ignore')
                table[fn](model, v)
        finally:
            if tracer:
                _mon_stop(target_code)
            D._nonlinear = old_nonlinear
    except Injected as e:
        res['raised'] = True
        res['exc'] = 'Injected'
        res['line_hit'] = True
    except Exception as e:
        res['raised'] = True
        res['exc'] = type(e).__name__
    model.fail_at = None
    if kind == 'layer':
        try:
            del getattr(model, inp['layer']).forward     # drop the instance-level wrapper
        except Exception:
            pass
    # a line-level injection that lands inside a context manager's exit sequence can leave the
    # process-global grad mode off; that is an artefact of the injector, not model state.  After any
    # other kind of failure (or a completed call) a disabled grad mode means ordinary gradients can
    # no longer be computed as before the call.
    grad_left_off = (not torch.is_grad_enabled()) and kind != 'line'
    torch.set_grad_enabled(True)
    res['hooks_left'] = hook_count(model) != hook_count(pristine)
    changed = not same_state(model, pristine)
    if not changed:
        try:
            b1 = behaviour(model)
            changed = not all(torch.equal(a, b) for a, b in zip(b0, b1))
        except Exception as e:   # the model no longer even runs forward/backward as before
            changed = True
            res['behaviour_error'] = repr(e)[:200]
    # a call may switch modules to evaluation mode but must never switch one back to training
    if any(a and not b for a, b in zip(mode_flags(model), flags0)):
        changed = True
        res['mode_flipped_to_training'] = True
    if grad_left_off:
        changed = True
        res['grad_mode_left_disabled'] = True
    res['changed'] = changed
    return res


def deep_equal(a, b):
    if isinstance(a, torch.Tensor) and isinstance(b, torch.Tensor):
        return a.shape == b.shape and torch.equal(a, b)
    if isinstance(a, (list, tuple)) and isinstance(b, (list, tuple)):
        return len(a) == len(b) and all(deep_equal(x, y) for x, y in zip(a, b))
    return a == b


def coq_case(inp, out):
    if inp['kind'] == 'history':
        f = fid(inp['calls'][-1].replace('_dls', ''))
        line = 0
    else:
        f = fid(inp.get('target', inp['fn'].replace('_dls', '')))
        line = inp['line'] if inp['kind'] == 'line' else 0
    return '(%s, %s, %s, %s)' % (C.nat(f['id']), C.nat(line), C.boolean(out['hooks_left']),
                                 C.boolean(out['changed']))


def nontrivial(inp, out):
    if inp['kind'] == 'history':
        return len(set(inp['calls'])) > 1
    return bool(out['raised'])


def hist_key(inp, out):
    return '%s/%s/%s' % (inp['kind'], inp.get('fn', 'history'), 'raised' if out.get('raised') else 'completed')


def visit_counts(fn, target, variant, train):
    """dry run: how often each line of `target` is executed when driver `fn` runs"""
    f = fid(target)
    mod = sys.modules.get('tangermeme.' + f['file'][:-3])
    if mod is None:
        import importlib
        mod = importlib.import_module('tangermeme.' + f['file'][:-3])
    code = getattr(mod, f['name']).__code__
    counts = {}

    def cb(code_, line):
        counts[line] = counts.get(line, 0) + 1
    model = make_model(train)
    _mon_start(code, cb)
    try:
        with warnings.catch_warnings():
            warnings.simplefilter('ignore')
            drivers()[fn](model, variant)
    finally:
        _mon_stop(code)
    return counts, set(f['raise_lines'])


def generate(tier, rng):
    quick = tier != 'thorough'
    kmax = 2 if quick else 12
    # ---- line-level crash points, deep_lift_shap under several batchings
    variants = [{'bs': 1}, {'bs': 3, 'args': True}, {'bs': 4, 'refs': 'tensor'}]
    if not quick:
        variants += [{'bs': 3}, {'bs': 4, 'args': True}, {'bs': 2, 'hypothetical': True}, {'bs': 1, 'args': True, 'refs': 'tensor'}]
    for v in variants:
        for train in ((False,) if quick else (False, True)):
            counts, rl = visit_counts('deep_lift_shap', 'deep_lift_shap', v, train)
            for line in sorted(counts):
                if line not in rl:
                    continue
                for k in range(1, min(counts[line], kmax) + 1):
                    yield {'kind': 'line', 'fn': 'deep_lift_shap', 'target': 'deep_lift_shap', 'line': line,
                           'k': k, 'variant': v, 'train': train}
    # ---- line-level crash points in every other API function (first visits)
    for name in [f['name'] for f in fns() if f['name'] != 'deep_lift_shap']:
        # a function with its own driver is driven directly; a private helper that takes the model
        # (e.g. product._apply, or one introduced by a refactoring) is driven through every driver
        # that executes it
        cands = [name] if name in drivers() else list(drivers())
        used = 0
        for drv in cands:
            try:
                counts, rl = visit_counts(drv, name, None, True)
            except Exception:
                continue
            if not counts:
                continue
            used += 1
            for line in sorted(counts):
                if line in rl:
                    for k in range(1, min(counts[line], 2 if quick else 6) + 1):
                        yield {'kind': 'line', 'fn': drv, 'target': name, 'line': line, 'k': k, 'train': True}
            if used >= 3:
                break
        if used == 0:
            raise RuntimeError('no driver executes API helper %s; add one to harness/c07.py' % name)
    # wrappers whose func is deep_lift_shap: crash inside the callee's loop
    for name in ('marginalize_dls', 'ablate_dls'):
        counts, rl = visit_counts(name, 'deep_lift_shap', None, False)
        for line in sorted(counts):
            if line in rl:
                yield {'kind': 'line', 'fn': name, 'target': 'deep_lift_shap', 'line': line,
                       'k': min(counts[line], 2), 'train': False}
    # ---- exceptions inside callees
    for name in list(drivers()):
        for k in range(1, 4 if quick else 12):
            yield {'kind': 'forward', 'fn': name, 'k': k, 'train': [True, False, 'mixed', 'mixed2'][k % 4]}
    for layer in ('relu', 'pool', 'tanh', 'bn', 'conv'):
        for k in (1, 2, 3):
            yield {'kind': 'layer', 'fn': 'deep_lift_shap', 'layer': layer, 'k': k, 'variant': {'bs': 1}, 'train': False}
        yield {'kind': 'layer', 'fn': 'marginalize_dls', 'layer': layer, 'k': 1, 'train': True}
        yield {'kind': 'layer', 'fn': 'predict', 'layer': layer, 'k': 2, 'train': 'mixed'}
    for k in range(1, 5):
        yield {'kind': 'reference', 'fn': 'deep_lift_shap', 'k': k, 'variant': {'bs': 3}}
        yield {'kind': 'bhook', 'fn': 'deep_lift_shap', 'k': k, 'variant': {'bs': 1}}
        yield {'kind': 'bhook', 'fn': 'marginalize_dls', 'k': k}
    for inv in ({'invalid': 'N'}, {'invalid': 'args_len'}, {'target': 7}, {'target': -9}):
        for bs in (1, 3):
            yield {'kind': 'invalid', 'fn': 'deep_lift_shap', 'variant': dict(inv, bs=bs), 'train': True}
    # ---- a model that carries a backward hook of the caller
    for name in list(drivers()):
        yield {'kind': 'forward', 'fn': name, 'k': 10 ** 6, 'train': False, 'user_hook': True}
        yield {'kind': 'forward', 'fn': name, 'k': 2, 'train': True, 'user_hook': True}
    for inv in ({'invalid': 'N'}, {'target': 7}):
        yield {'kind': 'invalid', 'fn': 'deep_lift_shap', 'variant': dict(inv, bs=3), 'train': False, 'user_hook': True}
    yield {'kind': 'reference', 'fn': 'deep_lift_shap', 'k': 1, 'variant': {'bs': 3}, 'user_hook': True}
    # ---- plain completed calls from each mode (k beyond the number of forward calls: no crash)
    for name in list(drivers()):
        for mode in (True, False, 'mixed', 'mixed2'):
            yield {'kind': 'forward', 'fn': name, 'k': 10 ** 6, 'train': mode}
    # ---- histories on a shared model vs fresh copies
    names = list(drivers())
    nh = 12 if quick else 60
    for _ in range(nh):
        calls = [rng.choice(names) for _i in range(rng.randint(2, 4))]
        variant = rng.choice([None, {'invalid': 'N'}, {'target': 7}, {'bs': 1}])
        yield {'kind': 'history', 'calls': calls, 'variant': variant, 'train': rng.choice([True, False, 'mixed', 'mixed2']),
               'user_hook': rng.random() < 0.3}


def shrink(inp):
    return []
