"""C11 - FIMO p-value tables: correspondence of the compiled fimo._pwm_to_mapping with coq/C11.

The harness integerises the log-odds matrix with the same numpy.round the code uses and hands
the integer matrix to Coq together with the implementation's table, each float entry x
converted exactly (the float 2.0**x as m * 2^e).  All comparing is done inside Coq."""
import json
import math
import os
import subprocess
import sys

import numpy

from . import common as C

PID = 'C11'
IMPORTS = ['C11.Model', 'C11.Spec']
CASE_TYPE = 'case'
CHECK = 'check_case'
SHARD = 60
RULE = ('PWMs 4 x w (w 1-7 quick, up to 30 thorough; float64 and float32 log-odds as fimo builds them: '
        'log2(pwm+eps)-log2(0.25)) of kinds dirichlet(0.1-5), with exact zeros, with uniform columns, with '
        'one-hot columns, mixed, plus raw integer-valued log-odds matrices (bin 1 or 0.5) that drive prefix '
        'minima/maxima away from the totals; bins 0.01-1, eps 1e-6-0.1; PWMs with an all-positive integerised '
        'column (uniform / near-uniform column, eps up to 0.1, bins down to 0.01) first, in the middle, last and '
        'everywhere; compiled _pwm_to_mapping is called in a worker process (a dead interpreter = failing input); '
        'kind fimo: the table fimo() itself passes to _fast_hits in the last of 2-3 calls on the same motif that '
        'differ in eps / bin_size / reverse_complement, and the table of motif number `which` (forward or reverse '
        'complement, width-1 motifs included) among up to 6 motifs of one call; direct calls with Fortran-ordered and '
        'sliced arrays, int and numpy.float64 bin_size, the same array twice (argument must be unchanged); '
        'non-trivial = a table with >= 3 distinct finite probabilities and at least one -inf bin')
TRUSTED = ['C11: kind fimo observes the (smallest, table) arguments of _fast_hits by wrapping the module attribute at '
           'run time in the worker; nothing in /repo is touched',
           'C11: numpy.round(log_pwm/bin).astype(int32) computed by the harness is the integer matrix the '
           'compiled code works on (a differing integerisation changes the table and is reported)',
           'C11: 2.0**x (C pow) applied by the harness to each returned log2 value; exact conversion by float.as_integer_ratio']
ASSUMPTIONS = ['float log-space accumulation (logaddexp2) is compared with the exact counts to 1e-9 relative, not verified',
               'int32 overflow of the integerised scores is not modelled (|entries| < 2^31 by construction)']
EPS = [1e-6, 1e-5, 1e-4, 1e-3, 1e-2, 0.1]
BINS = [0.01, 0.02, 0.05, 0.1, 0.1, 0.2, 0.25, 0.5, 1.0]


def log_pwm_of(inp, m=None):
    """the log-odds matrix exactly as fimo() builds it before calling _pwm_to_mapping"""
    if inp['kind'] == 'raw':
        return numpy.array(inp['log_pwm'], dtype=numpy.float64)
    dt = numpy.float32 if inp.get('dtype') == 'f32' else numpy.float64
    pwm = numpy.array(inp['pwm'] if m is None else m, dtype=dt)
    eps = numpy.float64(inp['eps']) if inp.get('epstype') == 'np64' else inp['eps']   # numpy scalars promote
    return numpy.log2(pwm + eps) - math.log2(0.25)


def checked_matrix(inp):
    """the log-odds matrix whose table is observed: for kind fimo motif number inp['which'] of
    others[:at] + [pwm] + others[at:] followed by their reverse complements"""
    if inp['kind'] != 'fimo' or 'which' not in inp:
        return log_pwm_of(inp)
    ms = all_motifs(inp)
    k = inp['which']
    if k < len(ms):
        return log_pwm_of(inp, ms[k])
    return log_pwm_of(inp, ms[k - len(ms)])[::-1, ::-1]


def all_motifs(inp):
    oth = inp.get('others', [])
    at = inp.get('at', 0)
    return oth[:at] + [inp['pwm']] + oth[at:]


def int_matrix(inp):
    lp = checked_matrix(inp)
    # numba promotes float32 array / float64 scalar to float64
    im = numpy.round(lp.astype(numpy.float64) / numpy.float64(inp['bin'])).astype(numpy.int32)
    return [[int(im[a, j]) for a in range(im.shape[0])] for j in range(im.shape[1])]   # columns


def cell(x):
    if x == -math.inf:
        return 'ninf'
    if x != x or x == math.inf:
        return 'nan'
    try:
        p = 2.0 ** x
    except OverflowError:
        return 'nan'
    num, den = p.as_integer_ratio()
    return [num, -(den.bit_length() - 1)]


def run_local(inp):
    from tangermeme.tools.fimo import _pwm_to_mapping
    try:
        if inp['kind'] == 'fimo':
            sm, tab = fimo_table(inp)
        else:
            lp = log_pwm_of(inp)
            lay = inp.get('layout', 'C')
            if lay == 'F':
                lp = numpy.asfortranarray(lp)
            elif lay == 'slice':                      # a column slice of a wider array, as fimo() passes it
                big = numpy.zeros((lp.shape[0], lp.shape[1] + 5), dtype=lp.dtype)
                big[:, 2:2 + lp.shape[1]] = lp
                lp = big[:, 2:2 + lp.shape[1]]
            bt = inp.get('bintype', 'float')
            b = 1 if (bt == 'int' and float(inp['bin']) == 1.0) else numpy.float64(inp['bin']) if bt == 'np64' else float(inp['bin'])
            keep = lp.copy()
            sm, tab = _pwm_to_mapping(lp, b)
            if inp.get('reuse'):
                sm, tab = _pwm_to_mapping(lp, b)      # the same array again
            if not numpy.array_equal(keep, lp):
                raise RuntimeError('verif: _pwm_to_mapping modified its argument')
        return {'ok': True, 'smallest': int(sm), 'cells': [cell(float(x)) for x in tab]}
    except Exception as e:
        return {'ok': False, 'err': repr(e)[:200]}


def fimo_table(inp):
    """the table fimo() itself uses for motif 0 in its LAST call of a sequence of calls on the same
    motif (earlier calls: inp['pre'], each overriding eps / bin): observed at the _fast_hits call
    boundary by wrapping the module attribute at run time (nothing in /repo is touched)"""
    import torch
    import tangermeme.tools.fimo as F
    rec = {}
    orig = F._fast_hits

    def spy(X, cl, pwm, pl, thr, bin_size, smallest, pv, pvl):
        k = int(inp.get('which', 0))
        rec['t'] = (int(smallest[k]), numpy.array(pv[int(pvl[k]):int(pvl[k + 1])], dtype=numpy.float64))
        return orig(X, cl, pwm, pl, thr, bin_size, smallest, pv, pvl)

    tdt = torch.float32 if inp.get('dtype') == 'f32' else torch.float64
    ms = all_motifs(inp)
    motifs = {'m%d' % i: torch.tensor(m, dtype=tdt) for i, m in enumerate(ms)}
    X = torch.zeros(1, 4, 12)
    for i in range(12):
        X[0, (i * 7 + 3) % 4, i] = 1
    F._fast_hits = spy
    try:
        for ov in list(inp.get('pre', [])) + [{}]:
            c = dict(inp, **ov)
            eps = numpy.float64(c['eps']) if c.get('epstype') == 'np64' else c['eps']
            F.fimo(motifs, X, bin_size=c['bin'], eps=eps, threshold=0.01,
                   reverse_complement=bool(c.get('rc', False)))
    finally:
        F._fast_hits = orig
    return rec['t']


# compiled numba kernels do not bounds-check: every implementation call runs in one long-lived
# worker process; if the interpreter dies the case is a failing input (outcome "raised/crashed"),
# the worker is restarted for the next case
_WORKER = None


def _worker():
    global _WORKER
    if _WORKER is None or _WORKER.poll() is not None:
        env = dict(os.environ, VERIF_FIMO_WORKER='1')
        _WORKER = subprocess.Popen([sys.executable, '-W', 'ignore', '-m', 'harness.c11', '--worker'],
                                   stdin=subprocess.PIPE, stdout=subprocess.PIPE,
                                   stderr=subprocess.DEVNULL, text=True, cwd=C.VERIF, env=env)
    return _WORKER


def run_impl(inp):
    global _WORKER
    if os.environ.get('VERIF_FIMO_WORKER') == '1':
        return run_local(inp)
    w = _worker()
    line = ''
    try:
        w.stdin.write(json.dumps(inp) + '\n')
        w.stdin.flush()
        while True:
            line = w.stdout.readline()
            if not line or line.startswith('@@'):
                break
    except (BrokenPipeError, OSError):
        line = ''
    if not line:
        try:
            w.kill()
        except Exception:
            pass
        rc = w.wait()
        _WORKER = None
        return {'ok': False, 'crash': True,
                'err': 'CRASH: the interpreter died during the call (exit %s)' % rc}
    return json.loads(line[2:])


def worker_main():
    for line in sys.stdin:
        out = run_local(json.loads(line))
        sys.stdout.write('@@' + json.dumps(out) + '\n')
        sys.stdout.flush()


def cell_lit(c):
    if c == 'ninf':
        return 'CNegInf'
    if c == 'nan':
        return 'CNaN'
    return 'CV %s %s' % (C.z(c[0]), C.z(c[1]))


def coq_case(inp, out):
    M = C.zmat(int_matrix(inp))
    if out['ok']:
        cells = [cell_lit(c) for c in out['cells']]
        if len(cells) > 5000:       # a 48000-element list literal overflows coqc's stack: append chunks
            tab = '(' + ' ++ '.join(C.lst(cells[a:a + 1500]) for a in range(0, len(cells), 1500)) + ')'
        else:
            tab = C.lst(cells)
        o = '(Ok (%s, %s))' % (C.z(out['smallest']), tab)
    else:
        o = 'Err'
    return '(%s, %s)' % (M, o)


def nontrivial(inp, out):
    if not out['ok']:
        return False
    vals = set(tuple(c) for c in out['cells'] if isinstance(c, list))
    return len(vals) >= 3 and 'ninf' in out['cells']


def width(inp):
    return len(inp['log_pwm'][0]) if inp['kind'] == 'raw' else len(inp['pwm'][0])


def hist_key(inp, out):
    w = width(inp)
    wb = 'w1' if w == 1 else 'w2-7' if w <= 7 else 'w8-30'
    n = len(out['cells']) if out.get('ok') else -1
    nb = ('crash' if out.get('crash') else 'err') if n < 0 else 'len<100' if n < 100 else 'len<1000' if n < 1000 else 'len>=1000'
    form = ''.join('+' + str(inp[k]) for k in ('layout', 'bintype', 'epstype') if inp.get(k) not in (None, 'C', 'float'))
    form += '+reuse' if inp.get('reuse') else ''
    form += '+multi' if inp.get('others') else ''
    return '%s%s/%s/%s/%s' % (inp['kind'], form, inp.get('dtype', 'f64'), wb, nb)


def tags(inp, out):
    return set()


def norm(cols):
    """columns (list of 4 non-negative numbers) -> 4 x w matrix with columns summing to 1"""
    w = len(cols)
    return [[cols[j][a] / sum(cols[j]) for j in range(w)] for a in range(4)]


def rand_col(rng, kind):
    if kind == 'uniform':
        return [0.25, 0.25, 0.25, 0.25]
    if kind == 'onehot':
        c = [0.0] * 4
        c[rng.randrange(4)] = 1.0
        return c
    if kind == 'zeros':
        c = [rng.random() for _ in range(4)]
        for k in rng.sample(range(4), rng.randint(1, 3)):
            c[k] = 0.0
        return c
    a = kind
    return [rng.gammavariate(a, 1.0) + 1e-300 for _ in range(4)]


def est_len(w, b, eps):
    return w * ((math.log2(0.25 / eps) + 2.1) / b + 1) + w + 1


def rand_case(rng, w, maxlen):
    kind = rng.choice(['dirichlet', 'dirichlet', 'zeros', 'uniform', 'onehot', 'mixed'])
    if kind == 'dirichlet':
        a = rng.choice([0.1, 0.5, 1.0, 5.0])
        cols = [rand_col(rng, a) for _ in range(w)]
    elif kind == 'mixed':
        cols = [rand_col(rng, rng.choice(['uniform', 'onehot', 'zeros', 0.3, 1.0])) for _ in range(w)]
    else:
        cols = [rand_col(rng, kind if rng.random() < 0.6 else 1.0) for _ in range(w)]
    eps = rng.choice(EPS)
    b = rng.choice(BINS) if rng.random() < 0.7 else round(rng.uniform(0.01, 1.0), 3)
    while est_len(w, b, eps) > maxlen:
        b = min(1.0, b * 2)
        if b >= 1.0 and est_len(w, b, eps) > maxlen:
            eps = min(0.1, eps * 10)
    return {'kind': kind, 'pwm': norm(cols), 'bin': b, 'eps': eps,
            'dtype': 'f32' if rng.random() < 0.4 else 'f64'}


def raw_case(rng, w):
    """integer-valued log-odds (exact in float): every integer matrix shape can be driven,
    e.g. columns whose maximum is negative (largest prefix maximum above the total) or whose
    minimum is positive"""
    b = rng.choice([1.0, 0.5])
    lo, hi = rng.choice([(-6, 6), (-20, 3), (1, 9), (-9, -1), (0, 0), (-3, 40)])
    M = [[float(rng.randint(lo, hi)) * b for _ in range(w)] for _a in range(4)]
    if rng.random() < 0.3:
        j = rng.randrange(w)
        s = rng.choice([-15, 15])
        for a in range(4):
            M[a][j] += s * b
    return {'kind': 'raw', 'log_pwm': M, 'bin': b}


def generate(tier, rng):
    quick = tier != 'thorough'
    # systematic: every width with every special column kind
    for w in range(1, 8):
        for kind in ('uniform', 'onehot', 'zeros', 0.5):
            for b, eps in ((0.1, 1e-4), (1.0, 1e-6), (0.25, 0.1)):
                cols = [rand_col(rng, kind) for _ in range(w)]
                yield {'kind': 'sys-%s' % kind, 'pwm': norm(cols), 'bin': b, 'eps': eps,
                       'dtype': 'f32' if (w + len(str(kind))) % 2 else 'f64'}
    # columns whose every integerised entry is positive (uniform / near-uniform column, large
    # pseudocount, fine bins): the lowest reachable score RISES at that column; at position 0,
    # in the middle and last, and everywhere
    for w in (2, 3, 4, 5, 6):
        for pos in ('first', 'mid', 'last', 'all'):
            for b, eps in ((0.01, 0.1), (0.02, 0.05), (0.1, 0.1), (0.05, 0.01)):
                if quick and (w + len(pos) + int(b * 100)) % 3:
                    continue
                cols = [rand_col(rng, rng.choice([0.3, 1.0, 'zeros', 'onehot'])) for _ in range(w)]
                where = {'first': [0], 'mid': [w // 2], 'last': [w - 1], 'all': list(range(w))}[pos]
                for j in where:
                    cols[j] = [0.25 + rng.uniform(-0.02, 0.02) for _a in range(4)] if rng.random() < 0.5 else [0.25] * 4
                yield {'kind': 'poscol-%s' % pos, 'pwm': norm(cols), 'bin': b, 'eps': eps,
                       'dtype': 'f32' if (w + len(pos)) % 2 else 'f64'}
    # the table fimo() uses in the second of two calls on the same motif that differ in eps / bin
    # (cross-call state: caches keyed on the raw PWM, module globals)
    # argument forms of _pwm_to_mapping: Fortran-ordered / sliced arrays, integer and numpy-scalar
    # bin_size, the same array passed twice (must not be modified)
    for i in range(24 if quick else 120):
        if i % 3 == 0:
            c = raw_case(rng, rng.choice([1, 2, 3, 5]))
            c['bin'] = 1.0
            c['log_pwm'] = [[float(round(x)) for x in row] for row in c['log_pwm']]
            c['bintype'] = rng.choice(['int', 'int', 'np64'])
        else:
            c = rand_case(rng, rng.choice([1, 2, 3, 4, 6]), 1200)
            c['bintype'] = rng.choice(['float', 'np64'])
        c['layout'] = rng.choice(['F', 'slice', 'slice', 'C'])
        c['reuse'] = rng.random() < 0.5
        yield c
    # the table of motif number `which` (forward or reverse-complemented) among several motifs of
    # different widths scanned in one fimo() call (prange over motifs, concatenated tables)
    for _ in range(10 if quick else 60):
        c = rand_case(rng, rng.choice([1, 2, 3, 4, 5]), 1200)
        c['dtype'] = 'f32' if rng.random() < 0.7 else 'f64'
        nother = rng.randint(1, 5)
        c['others'] = [norm([rand_col(rng, rng.choice([0.3, 1.0, 'uniform', 'onehot'])) for _j in range(rng.choice([1, 2, 3, 6]))])
                       for _o in range(nother)]
        c['at'] = rng.randint(0, nother)
        c['rc'] = rng.random() < 0.7
        n = nother + 1
        c['which'] = rng.randrange(2 * n if c['rc'] else n)
        if rng.random() < 0.3:
            c['epstype'] = 'np64'
        c.update(kind='fimo', pre=[])
        yield c
    for _ in range(10 if quick else 60):
        w = rng.choice([2, 3, 4, 5, 6])
        c = rand_case(rng, w, 1500)
        c['dtype'] = 'f32' if rng.random() < 0.7 else 'f64'
        what = rng.choice(['eps', 'eps', 'bin', 'rc'])
        if what == 'eps':
            pre = [{'eps': rng.choice([e for e in EPS if e != c['eps']])}]
        elif what == 'bin':
            pre = [{'bin': rng.choice([x for x in (0.1, 0.2, 0.5, 1.0) if x != c['bin']])}]
        else:
            pre = [{'rc': True}]
        if rng.random() < 0.3:
            pre.append({'eps': rng.choice(EPS)})
        c.update(kind='fimo', pre=pre, rc=False)
        yield c
    # deep tables: the sum of the column minima passes -32767 bins (24 zero-containing columns at
    # eps 1e-6, bin 0.01: about 48000 bins), and a pair just below / above 32767; judged in Coq by
    # the linear clauses only (big_ok)
    def deep(ncols, extra_p=None):
        cols = [rand_col(rng, rng.choice(['onehot', 'onehot', 'zeros'])) for _ in range(ncols)]
        if extra_p is not None:
            cols.insert(rng.randrange(ncols + 1), [extra_p, 0.5, 0.3, 0.2 - extra_p])
        return {'kind': 'deep', 'pwm': norm(cols), 'bin': 0.01, 'eps': 1e-6, 'dtype': rng.choice(['f32', 'f64'])}
    yield deep(24)
    yield deep(18, 0.00849)          # column minima sum to about -32762
    yield deep(18, 0.00792)          # ... about -32772
    if not quick:
        for _ in range(6):
            yield deep(rng.randint(17, 30))
    n = 260 if quick else 1500
    for _ in range(n):
        w = rng.choice([1, 1, 2, 2, 3, 3, 4, 5, 6, 7])
        yield rand_case(rng, w, 1500 if rng.random() < 0.9 else 8000)
    for _ in range(60 if quick else 300):
        yield raw_case(rng, rng.choice([1, 1, 2, 3, 4, 5, 6, 7] + ([] if quick else [9, 12])))
    # wide motifs
    for _ in range(25 if quick else 250):
        w = rng.randint(8, 30) if not quick else rng.choice([8, 10, 14, 20, 30])
        yield rand_case(rng, w, 2500 if quick else rng.choice([2500, 6000, 12000]))


def shrink(inp):
    w = width(inp)
    key = 'log_pwm' if inp['kind'] == 'raw' else 'pwm'
    if w > 1:
        for j in range(w):
            c = dict(inp)
            c[key] = [row[:j] + row[j + 1:] for row in inp[key]]
            yield c
    if inp['bin'] < 1.0 and inp['kind'] != 'raw':
        c = dict(inp)
        c['bin'] = min(1.0, inp['bin'] * 2)
        yield c


def search(rng, disagreeing):
    for _ in range(200):
        yield rand_case(rng, rng.choice([1, 2, 3, 4]), 600)


if __name__ == '__main__' and '--worker' in sys.argv:
    worker_main()
