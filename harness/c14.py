"""C14 - TOMTOM scores and p-values against the complete-score reference (coq/C14).

One input = one tomtom(...) call (1-3 queries against a target set).  For every query of the
call the harness (i) runs the njit kernel tomtom._integer_distances_and_histogram directly on the
same arrays tomtom() builds, which yields the integerised similarity matrix gamma_int, the
histogram f and the offset that the integer stage consumes, and (ii) takes the five output
tensors of the public tomtom(...) call.  Coq then evaluates, per query, the executable model of
the integer stage (C14/Model.v) and the independent reference (C14/Spec.v) on exactly these
integers and compares them with the implementation's floats (converted exactly to rationals).
"""
import json
import math
from fractions import Fraction

import numpy

from . import common as C

PID = 'C14'
IMPORTS = ['C14.Model', 'C14.Spec']
COQ_DIRS = ['C14']
CASE_TYPE = 'case'
CHECK = 'check_case'
SHARD = 4
RULE = ('random tomtom(...) calls: 1-3 queries and 1-5 targets with lengths 1-25 (queries shorter, equal '
        'and longer than targets), PWMs from Dirichlet(0.05/0.3/1) either continuous or rounded to a '
        'grid of 4 or 10 (coarse grids make ties, duplicate columns and integerised similarities equal '
        'to 0 frequent), a dedicated stream over the grid {0,1/4,1/2,1} with odd n_score_bins (53, 75, 150, random odd) '
        'where distances, medians and the scaled similarity are exact doubles (half-integer ties), n_score_bins 5-200, reverse complement on/off, hashing off or on (on: checked '
        'injective, else the case is dropped), a target equal to a query in ~30%, the whole target set '
        'reverse-complemented in ~10%; plus a dedicated stream of single-column queries with a zero '
        'similarity; n_cache = 2*n_score_bins+10 always. non-trivial = at least one query/target pair '
        'whose reference p-value is strictly inside (0,1) and whose best score is attained with an '
        'overhang (overlap < min(nq, nt)) or with nq != nt')
TRUSTED = ['the harness replicates the ~30 numpy lines of tomtom() that concatenate, reverse-complement and '
           'hash the targets, in order to call _integer_distances_and_histogram on the same arrays',
           'float -> rational conversion by fractions.Fraction (exact)']
ASSUMPTIONS = ['the float stage (Euclidean distances, binned median, integerisation) is not verified: its outputs '
               'gamma_int, f, offset are taken from the real kernel; only monotonicity in the exact distance and '
               'consistency of f with gamma_int are checked on them',
               'machine integers are not wrapped in the model: side conditions x - offset within int16 and '
               '0 <= t_k <= 32767 are monitored on every explored input (violations are counted in the histogram)',
               'p-values are compared with tolerance 1e-9 relative + 1e-11 absolute (1 - cumsum cancels in floats)']

NT_ALPHA = 4


# ----------------------------------------------------------------------------------------
# replication of tomtom()'s preprocessing + direct kernel call

def prep(Qs, Ts, rc, ntb):
    Q_lens = numpy.array([Q.shape[-1] for Q in Qs], dtype='int64')
    Q = numpy.concatenate(Qs, axis=-1)
    Q_norm = (Q ** 2).sum(axis=0)
    if rc:
        Ts = Ts + [T[::-1, ::-1] for T in Ts]
    T_lens = numpy.array([T.shape[-1] for T in Ts], dtype='int64')
    T = numpy.concatenate(Ts, axis=-1)
    T_full = T
    T_norm = (T ** 2).sum(axis=0)
    if ntb is not None:
        T_min = T.min(axis=-1, keepdims=True)
        T_max = T.max(axis=-1, keepdims=True)
        T_max[T_max == T_min] = T_min[T_max == T_min] + 1
        T_ints = numpy.around((T - T_min) / (T_max - T_min) * (ntb - 1))
        T_ints = T_ints.T.dot(ntb ** numpy.arange(len(T))[:, None])
        _, rr_idxs, rr_inv, rr_counts = numpy.unique(T_ints.flatten(), return_index=True,
                                                    return_inverse=True, return_counts=True)
        T = T[:, rr_idxs]
        T_norm = T_norm[rr_idxs]
        rr_inv = rr_inv.astype('uint64')
    else:
        rr_inv = numpy.arange(T.shape[-1])
        rr_counts = numpy.ones_like(rr_inv)
    injective = bool((T[:, rr_inv.astype('int64')] == T_full).all())
    return dict(Q=Q, Q_lens=Q_lens, Q_norm=Q_norm, T=T, T_lens=T_lens, T_norm=T_norm,
                rr_inv=rr_inv, rr_counts=rr_counts, injective=injective)


def stage(P, nb, n_median_bins=1000):
    """_integer_distances_and_histogram for every query, on private scratch."""
    from tangermeme.tools import tomtom as tt
    out = []
    qo = numpy.concatenate([[0], numpy.cumsum(P['Q_lens'])])
    Qm = int(P['Q_lens'].max())
    ncol = P['T'].shape[-1]
    for i, nq in enumerate(P['Q_lens']):
        nq = int(nq)
        gamma = numpy.zeros((ncol, Qm))
        gi = numpy.zeros((ncol, Qm), dtype='int16')
        f = numpy.zeros((Qm, nb + 1))
        med = numpy.zeros(Qm)
        mb = numpy.zeros((n_median_bins, 2))
        off = tt._integer_distances_and_histogram(P['Q'], P['T'], gamma, gi, f, med, mb, P['Q_norm'],
                                                  P['T_norm'], P['rr_counts'], qo[i], nq, nb)
        x = gi[:, :nq][:, ::-1].astype('int64') + int(off)
        out.append({'off': int(off), 'x': x.tolist(), 'f': f[:nq].tolist(),
                    'gmin': int(gi[:, :nq].min()), 'gmax': int(gi[:, :nq].max()),
                    'med': med[:nq].tolist(),                     # medians[i] as left by the kernel (median + i_min)
                    'W': float((gamma[:, :nq] - med[None, :nq]).max())})   # z_max - i_min
    return out


def arrays(inp):
    """numpy arrays (alphabet, length) in the dtype the call uses (default float64)"""
    Qs = [numpy.array(q, dtype='float64').T.astype(inp.get('Qdt', 'float64')).copy() for q in inp['Q']]
    Ts = [numpy.array(t, dtype='float64').T.astype(inp.get('Tdt', 'float64')).copy() for t in inp['T']]
    return Qs, Ts


_SHARED = {}


def call_objects(inp, Qs, Ts):
    """the objects handed to tomtom(): numpy arrays or torch tensors; inputs of one 'share' sequence reuse
    the very same Python objects across calls (stale caches / in-place modification show up as a
    disagreement of a later call with its reference, which is always computed from fresh arrays)"""
    import torch
    key = None
    if inp.get('share') is not None:
        key = json.dumps([inp['share'], inp['Q'], inp['T'], inp.get('Qdt'), inp.get('Tdt'),
                          inp.get('Qform'), inp.get('Tform')])
        if key in _SHARED:
            return _SHARED[key]
    qo = [torch.from_numpy(q.copy()) if inp.get('Qform') == 'torch' else q.copy() for q in Qs]
    to = [torch.from_numpy(t.copy()) if inp.get('Tform') == 'torch' else t.copy() for t in Ts]
    if key is not None:
        if len(_SHARED) > 40:
            _SHARED.clear()
        _SHARED[key] = (qo, to)
    return qo, to


def call_kwargs(inp, st):
    """keyword arguments of the tomtom(...) call and the n_cache value in force"""
    nb = inp['nb']
    if inp.get('bare'):                     # tomtom(Qs, Ts): every default (100 bins, hashing 100, n_cache 100, rc, all threads)
        assert nb == 100 and inp['ntb'] == 100 and inp['rc']
        return {}, 100
    nc = inp.get('ncache', 2 * nb + 10)
    maxoff = max(s_['off'] for s_ in st)
    if nc == 'maxoff':
        nc = maxoff
    elif nc == 'maxoff+1':
        nc = maxoff + 1
    rc = inp['rc']
    rc = {'int': int(rc), 'npbool': numpy.bool_(rc)}.get(inp.get('rc_form'), rc)
    kw = dict(n_score_bins=nb, n_target_bins=inp['ntb'], reverse_complement=rc, n_cache=nc)
    if inp.get('nmb') is not None:
        kw['n_median_bins'] = inp['nmb']
    nj = inp.get('n_jobs')
    if nj == 'np3':
        kw['n_jobs'] = numpy.int64(3)
    elif nj:
        kw['n_jobs'] = nj
    return kw, nc


def fl(v):
    """a float as exact [num, den] (strings, JSON-safe); None for nan/inf"""
    if not math.isfinite(v):
        return None
    fr = Fraction(v)
    return [str(fr.numerator), str(fr.denominator)]


def run_impl(inp):
    from tangermeme.tools.tomtom import tomtom
    try:
        Qs, Ts = arrays(inp)
        nb, rc, ntb = inp['nb'], inp['rc'], inp['ntb']
        P = prep(Qs, Ts, rc, ntb)
        if not P['injective']:
            return {'ok': False, 'why': 'hash-not-injective'}
        st = stage(P, nb, inp.get('nmb') or 1000)
        kw, ncache = call_kwargs(inp, st)
        qo, to = call_objects(inp, Qs, Ts)
        nT0 = len(to)
        r = tomtom(qo, to, **kw)
        r = [t.numpy() for t in r]
        modified = len(to) != nT0 or any(not numpy.array_equal(numpy.asarray(a), b) for a, b in zip(qo, Qs)) \
            or any(not numpy.array_equal(numpy.asarray(a), b) for a, b in zip(to, Ts))
    except ZeroDivisionError:
        return {'ok': False, 'why': 'degenerate (all similarities equal: bin_scale division by zero)'}
    except Exception as e:   # an in-scope call must not raise
        return {'ok': False, 'why': 'raised %r' % (e,), 'raised': True}
    rows = []
    for qi in range(len(Qs)):
        rows.append([[fl(float(r[0][qi, ti]))] + [int(r[k][qi, ti]) if float(r[k][qi, ti]).is_integer() else 'nonint'
                                                  for k in range(1, 5)]
                     for ti in range(r[0].shape[1])])
    return {'ok': True, 'stage': st, 'rows': rows,
            'counts': [int(c) for c in P['rr_counts']], 'tlens': [int(t) for t in P['T_lens']],
            'rrinv': [int(j) for j in P['rr_inv']], 'ncol': int(P['T'].shape[-1]),
            'Tu': P['T'].T.astype('float64').tolist(), 'Qv': [q.T.astype('float64').tolist() for q in Qs],
            'ncache': int(ncache), 'modified': bool(modified)}


# ----------------------------------------------------------------------------------------
# Coq literals

def qlit(p):
    if p is None:
        return '(7 # 1)%Q'      # nan/inf: certainly not a p-value
    return '(%s # %s)%%Q' % (('(%s)' % p[0]) if p[0].startswith('-') else p[0], p[1])


def qfloat(v):
    return qlit(fl(v))


def call_lit(inp, out, qi):
    st = out['stage'][qi]
    nq = len(inp['Q'][qi])
    nb = inp['nb']
    td = '(mktd %d %s %s %s %s)' % (nb, C.zlist(out['counts']), C.natlist(out['tlens']),
                                    C.natlist(out['rrinv']), C.boolean(inp['rc']))
    dm = '(mkdims %d %d)' % (max(len(q) for q in inp['Q']), out['ncache'])
    qd = '(mkqd %d %d %s)' % (nq, st['off'], C.zmat(st['x']))
    return '(mkcall %s %s %s)' % (td, dm, qd)


def outcome_lit(inp, out, qi):
    st = out['stage'][qi]
    f = C.lst([C.lst([qfloat(v) for v in row]) for row in st['f']])
    rows = []
    for r in out['rows'][qi]:
        ints = [v if isinstance(v, int) else -99999 for v in r[1:]]
        rows.append('(mkorow %s %s %s %s %s)' % (qlit(r[0]), C.z(ints[0]), C.z(ints[1]), C.z(ints[2]), C.z(ints[3])))
    return '(mkout %s %s)' % (f, C.lst(rows))


def model_cost(inp, out, qi):
    """rough number of big-integer operations of the Coq model for this query"""
    st = out['stage'][qi]
    nq, nb, off = len(inp['Q'][qi]), inp['nb'], st['off']
    n = nq * (nb + off)
    qmax = max(len(q) for q in inp['Q'])
    nlen = qmax * (nb + out.get('ncache', 2 * nb + 10))
    tmax = max(out['tlens'])
    bits = max(1, sum(out['counts']).bit_length())
    a = sum((nb * j + 1) * (nb + 1 + nlen // 8) for j in range(nq) for _ in range(j + 1))
    b = sum((nt + nq) * n * (1 + (bits * nq * nt // 60) ** 2) for nt in range(1, tmax + 1))
    return a + b


def mono_cases(inp, out, qi, limit=2):
    """exact squared distances of query columns to the unique target columns + the kernel's x"""
    res = []
    Tu = out['Tu']
    for i, qc in enumerate(out['Qv'][qi][:limit]):
        d2 = []
        for tc in Tu:
            d2.append(sum((Fraction(a) - Fraction(b)) ** 2 for a, b in zip(qc, tc)))
        xs = [row[i] for row in out['stage'][qi]['x']]
        den = 1
        for d in d2:
            den = den * d.denominator // math.gcd(den, d.denominator)
        nums = [int(d * den) for d in d2]
        res.append('(KMono %s %s %s)' % (C.z(den // 10 ** 12), C.zlist(nums), C.zlist(xs)))
    return res


def _is_rep(fr):
    """is the rational exactly a double?"""
    try:
        return Fraction(float(fr)) == fr
    except OverflowError:
        return False


def _dyadic(v):
    d = Fraction(v).denominator
    return d <= 1024 and d & (d - 1) == 0


def _sqrt_bracket(fr, digits=40):
    n, d = fr.numerator, fr.denominator
    rn, rd = math.isqrt(n), math.isqrt(d)
    if rn * rn == n and rd * rd == d:
        s = Fraction(rn, rd)
        return s, s, True
    S = 10 ** digits
    r = math.isqrt(n * d * S * S)
    return Fraction(r, d * S), Fraction(r + 1, d * S), False


def recover_scale(nb, st):
    """bin_scale is not an output of the kernel: floor(n_bins / (z_max - i_min)), cross-checked against
    offset = -i_min * bin_scale with -i_min in 0..3; None when the float quotient is ambiguous"""
    W, off = st['W'], st['off']
    if not (W > 0):
        return None
    s0 = int(math.floor(nb / W))
    for s in (s0, s0 - 1, s0 + 1):
        if s > 0 and off % s == 0 and 0 <= off // s <= 64:
            return s if (off > 0 or s == s0) else None
    return None


INT_STATS = {'exact': 0, 'bracket': 0, 'ambiguous': 0, 'no-scale': 0}


def int_cells(inp, out, qi, max_bracket=48):
    """(lo, hi, x) per (query column, unique target column): v = (gamma - median) * scale recomputed from
    the PWM entries with fractions; exact cells (all kernel float operations exact) give lo = hi"""
    st = out['stage'][qi]
    scale = recover_scale(inp['nb'], st)
    if scale is None:
        INT_STATS['no-scale'] += 1
        return []
    cells = []
    n_br = 0
    half = Fraction(1, 2)
    for i, qc in enumerate(out['Qv'][qi]):
        M = Fraction(st['med'][i])
        qf = [Fraction(a) for a in qc]
        q_dy = all(_dyadic(a) for a in qc)
        for j, tc in enumerate(out['Tu']):
            x = st['x'][j][i]
            d2 = sum((a - Fraction(b)) ** 2 for a, b in zip(qf, tc))
            lo_s, hi_s, sq = _sqrt_bracket(d2)
            if sq and q_dy and all(_dyadic(b) for b in tc):
                g = -lo_s
                v = (g - M) * scale
                if _is_rep(g - M) and _is_rep(v) and _is_rep(v + half):
                    cells.append((v, v, x))
                    INT_STATS['exact'] += 1
                    continue
            if n_br >= max_bracket:
                continue
            # kernel: z = |q|^2 + |t|^2 - 2 q.t in floats (abs. error <= ~1e-15), gamma = -sqrt(z)
            if d2 == 0:
                dg = Fraction(5, 10 ** 8)
            elif d2 < Fraction(1, 10 ** 8):
                INT_STATS['ambiguous'] += 1
                continue
            else:
                dg = Fraction(1, 10 ** 14) / (2 * lo_s) + Fraction(1, 10 ** 14)
            eps = Fraction(scale, 10 ** 12)
            lo = (-hi_s - dg - M) * scale - eps
            hi = (-lo_s + dg - M) * scale + eps
            if math.floor(lo + half) != math.floor(hi + half):
                INT_STATS['ambiguous'] += 1
                continue
            # keep the literal short: 30 significant digits are plenty for a decided floor
            cells.append((lo, hi, x))
            INT_STATS['bracket'] += 1
            n_br += 1
    return cells


def kernel_imin(nb, st):
    """the i_min the kernel used (not an output): -offset / bin_scale; None when not recoverable"""
    scale = recover_scale(nb, st)
    if scale is None:
        return None, None
    return (-(st['off'] // scale) if st['off'] > 0 else 0), scale


SHIFT_STATS = {'exact': 0, 'bracket': 0, 'undecided': 0}


def shift_case(inp, out, qi):
    """brackets of z_min and z_max (extreme median-centred similarities over all query columns) recomputed
    from the PWM entries; the median of a column is taken from the kernel (medians[i] - i_min)"""
    st = out['stage'][qi]
    imk, scale = kernel_imin(inp['nb'], st)
    if imk is None:
        return None
    zl = zh = Zl = Zh = None
    exact = True
    for i, qc in enumerate(out['Qv'][qi]):
        Mi = Fraction(st['med'][i])
        m = Mi - imk
        m_exact = Mi.denominator <= 2 ** 30
        slack = Fraction(0) if m_exact else Fraction(1, 10 ** 13)
        qf = [Fraction(a) for a in qc]
        q_dy = all(_dyadic(a) for a in qc)
        for tc in out['Tu']:
            d2 = sum((a - Fraction(b)) ** 2 for a, b in zip(qf, tc))
            lo_s, hi_s, sq = _sqrt_bracket(d2)
            if sq and q_dy and m_exact and all(_dyadic(b) for b in tc) and _is_rep(-lo_s - m):
                lo = hi = -lo_s - m
            else:
                exact = False
                if d2 == 0:
                    dg = Fraction(5, 10 ** 8)
                elif d2 < Fraction(1, 10 ** 8):
                    dg = Fraction(1, 10 ** 3)
                else:
                    dg = Fraction(1, 10 ** 14) / (2 * lo_s) + Fraction(1, 10 ** 14)
                lo, hi = -hi_s - dg - m - slack, -lo_s + dg - m + slack
            zl = lo if zl is None else min(zl, lo)
            zh = hi if zh is None else min(zh, hi)
            Zl = lo if Zl is None else max(Zl, lo)
            Zh = hi if Zh is None else max(Zh, hi)
    a = math.floor(zl)
    decided = a == math.floor(zh) and Zl - a > 0 and \
        math.floor(Fraction(inp['nb']) / (Zh - a)) == math.floor(Fraction(inp['nb']) / (Zl - a))
    if not decided:
        SHIFT_STATS['undecided'] += 1
        return None
    SHIFT_STATS['exact' if zl == zh and Zl == Zh else 'bracket'] += 1
    zl, Zl = _short(zl, True), _short(Zl, True)
    zh, Zh = _short(zh, False), _short(Zh, False)
    q = lambda fr: '(%s # %d)%%Q' % (C.z(fr.numerator), fr.denominator)
    return '(KShift %d %s %s %s %s %d)' % (inp['nb'], q(zl), q(zh), q(Zl), q(Zh), st['off'])


def _short(fr, down):
    """round a rational outward to denominator 10^24 (keeps the bracket rigorous)"""
    S = 10 ** 24
    n = fr * S
    k = math.floor(n) if down else math.ceil(n)
    return Fraction(k, S)


def int_case(inp, out, qi):
    cells = int_cells(inp, out, qi)
    if not cells:
        return None
    lits = []
    for lo, hi, x in cells:
        if lo != hi:
            lo, hi = _short(lo, True), _short(hi, False)
            if math.floor(lo + Fraction(1, 2)) != math.floor(hi + Fraction(1, 2)):
                continue
        lits.append('(%s, %s, %s)' % ('(%s # %d)%%Q' % (C.z(lo.numerator), lo.denominator),
                                      '(%s # %d)%%Q' % (C.z(hi.numerator), hi.denominator), C.z(x)))
    return '(KInt %s)' % C.lst(lits) if lits else None


MODEL_BUDGET = 2_500_000


def coq_case(inp, out):
    if not out['ok']:
        # a raise on an in-scope call is a failing input; degenerate / non-injective inputs are out of scope
        return 'KRaised' if out.get('raised') else '(KMany [])'
    parts = []
    for qi in range(len(inp['Q'])):
        wm = inp.get('with_model', True) and model_cost(inp, out, qi) <= MODEL_BUDGET
        st = out['stage'][qi]
        nq = len(inp['Q'][qi])
        qmax = max(len(q) for q in inp['Q'])
        if st['off'] > out['ncache'] or nq * (inp['nb'] + st['off']) >= qmax * (inp['nb'] + out['ncache']):
            wm = False        # outside wf (offset == n_cache with nq == Q_max): the spec is silent, no model comparison
        parts.append('(KQuery %s %s %s)' % (C.boolean(wm), call_lit(inp, out, qi), outcome_lit(inp, out, qi)))
        if inp.get('mono', True):
            parts += mono_cases(inp, out, qi)
        if inp.get('intcheck', True):
            k = int_case(inp, out, qi)
            if k:
                parts.append(k)
            k = shift_case(inp, out, qi)
            if k:
                parts.append(k)
        # targets that are the query itself: best score at offset 0 with full overlap
        start = 0
        n_fwd = len(inp['T'])
        for ti, tl in enumerate(out['tlens'][:n_fwd]):
            if inp['T'][ti] == inp['Q'][qi]:
                parts.append('(KSelf %s %d)' % (call_lit(inp, out, qi), start))
            start += tl
    return '(KMany %s)' % C.lst(parts)


# ----------------------------------------------------------------------------------------
# evidence helpers

def _side_ok(inp, out):
    for qi, st in enumerate(out['stage']):
        nq = len(inp['Q'][qi])
        if st['gmin'] < -32768 or st['gmax'] > 32767:
            return False
        if nq * (inp['nb'] + st['off']) > 32767:
            return False
        if st['off'] > out.get('ncache', 2 * inp['nb'] + 10):
            return False
    return True


def nontrivial(inp, out):
    if not out['ok']:
        return False
    for qi, rows in enumerate(out['rows']):
        nq = len(inp['Q'][qi])
        for ti, r in enumerate(rows):
            nt = out['tlens'][ti]
            if r[0] is None:
                continue
            p = Fraction(int(r[0][0]), int(r[0][1]))
            if 0 < p < 1 and (nq != nt or (isinstance(r[3], int) and r[3] < min(nq, nt))):
                return True
    return False


def hist_key(inp, out):
    if not out['ok']:
        return 'out-of-scope: ' + out['why'][:40]
    nb = inp['nb']
    zero = any(0 in row for st in out['stage'] for row in st['x'])
    side = ('' if _side_ok(inp, out) else '/SIDE-CONDITION-VIOLATED') + ('/INPUT-MODIFIED' if out.get('modified') else '')
    qm = max(len(q) for q in inp['Q'])
    return ('coarse/' if inp.get('coarse') else '') + (inp['opt'] + '/' if inp.get('opt') else '') + 'bins<=20' * (nb <= 20) + 'bins21-100' * (20 < nb <= 100) + 'bins>100' * (nb > 100) + \
        '/nq<=8' * (qm <= 8) + '/nq>8' * (qm > 8) + ('/rc' if inp['rc'] else '/fwd') + \
        ('/hash' if inp['ntb'] else '') + ('/zero-sim' if zero else '') + side


def tags(inp, out):
    return set()


# ----------------------------------------------------------------------------------------
# generators

def np_rng(rng):
    return numpy.random.RandomState(rng.randrange(2 ** 31))


def pwm(rs, L, alpha, grid):
    p = rs.dirichlet([alpha] * NT_ALPHA, size=L)
    if grid:
        p = numpy.round(p * grid)
        p[p.sum(1) == 0] = [1, 0, 0, 0]
        p = p / p.sum(1, keepdims=True)
    return p.tolist()


def distinct_cols(Ts):
    cols = {tuple(c) for t in Ts for c in t}
    return len(cols)


def gen_call(rng, lens_q, lens_t, nbs, big=False):
    rs = np_rng(rng)
    nb = rng.choice(nbs)
    alpha = rng.choice([0.05, 0.3, 1.0])
    grid = rng.choice([0, 0, 4, 10])
    nQ = rng.randint(1, 3) if not big else 1
    nT = rng.randint(1, 5) if not big else rng.randint(1, 3)
    Q = [pwm(rs, rng.choice(lens_q), alpha, grid) for _ in range(nQ)]
    T = [pwm(rs, rng.choice(lens_t), alpha, grid) for _ in range(nT)]
    if rng.random() < 0.3:
        T[rng.randrange(len(T))] = [list(c) for c in Q[0]]          # a target equal to a query
    if rng.random() < 0.1:
        T = [[c[::-1] for c in t[::-1]] for t in T]                 # reverse-complemented targets
    rc = rng.random() < 0.5
    ntb = 100 if (grid and rng.random() < 0.5) else None
    if distinct_cols(T) < 2:
        T.append(pwm(rs, 2, 1.0, 0))
    return {'kind': 'tomtom', 'Q': Q, 'T': T, 'nb': nb, 'rc': rc, 'ntb': ntb}


U = [.25, .25, .25, .25]


def coarse_columns():
    """all columns over the grid {0, 1/4, 1/2, 1} that sum to 1"""
    cols = [list(U)]
    for i in range(4):
        e = [0.0] * 4
        e[i] = 1.0
        cols.append(e)
    for i in range(4):
        for j in range(i + 1, 4):
            h = [0.0] * 4
            h[i] = h[j] = 0.5
            cols.append(h)
    for i in range(4):
        for j in range(4):
            for k in range(j + 1, 4):
                if i != j and i != k:
                    c = [0.0] * 4
                    c[i] = 0.5
                    c[j] = c[k] = 0.25
                    cols.append(c)
    return cols


COARSE = coarse_columns()


def gen_coarse(rng):
    """PWMs over the grid {0,1/4,1/2,1}: distances 0, 1/2, 1 are exact, medians are grid values, so the
    scaled similarity is often exactly k + 1/2 (with an odd bin scale) - the integerisation's rounding
    rule is then observable bit-exactly. Uniform and half/half columns are favoured (exact distances)."""
    w = [6] + [1] * 4 + [3] * 6 + [1] * 12

    def motif(L):
        return [list(rng.choices(COARSE, weights=w)[0]) for _ in range(L)]
    nb = rng.choice([53, 75, 150, 53, 75, 150, 2 * rng.randint(10, 99) + 1, rng.choice([25, 37, 50, 100, 200])])
    Q = [motif(rng.randint(1, 5)) for _ in range(rng.randint(1, 2))]
    T = [motif(rng.randint(1, 5)) for _ in range(rng.randint(2, 4))]
    if rng.random() < 0.5:
        T.append([list(c) for c in Q[0]])
    if distinct_cols(T) < 2:
        T.append([[0.5, 0.5, 0.0, 0.0], [0.0, 0.0, 0.5, 0.5]])
    return {'kind': 'tomtom', 'Q': Q, 'T': T, 'nb': nb, 'rc': rng.random() < 0.5,
            'ntb': 100 if rng.random() < 0.3 else None, 'coarse': True}


def pwm_alpha(rs, L, A, alpha=0.4):
    return rs.dirichlet([alpha] * A, size=L).tolist()


def gen_options(rng, seq_id):
    """a multi-call sequence in one process on the SAME objects: a base call, then follow-ups that change
    exactly one thing (a parameter, its type, the container or dtype of the inputs)"""
    rs = np_rng(rng)
    alpha = rng.choice([0.3, 1.0])
    grid = 0                                  # real-valued entries: a float32 cast anywhere loses bits
    Q = [pwm(rs, rng.randint(1, 6), alpha, grid) for _ in range(rng.randint(1, 2))]
    T = [pwm(rs, rng.randint(1, 6), alpha, grid) for _ in range(rng.randint(2, 4))]
    if rng.random() < 0.4:
        T[0] = [list(c) for c in Q[0]]
    if distinct_cols(T) < 2:
        T.append(pwm(rs, 2, 1.0, 0))
    nb = rng.choice([10, 20, 31, 50])
    base = {'kind': 'tomtom', 'Q': Q, 'T': T, 'nb': nb, 'rc': rng.random() < 0.5, 'ntb': None,
            'share': seq_id, 'opt': 'seq', 'mono': False}
    yield dict(base)
    changes = [
        {'nb': nb + rng.choice([1, 7, 10])}, {'rc': not base['rc']}, {'ntb': rng.choice([10, 100, 1000])},
        {'ncache': 'maxoff+1'}, {'ncache': 'maxoff'}, {'ncache': 5 * nb},
        {'rc_form': rng.choice(['int', 'npbool'])}, {'n_jobs': rng.choice([1, 2, 'np3'])},
        {'Qform': 'torch'}, {'Qdt': 'float32', 'Tdt': 'float32'}, {'Tdt': 'float32', 'Tform': 'torch'},
        {'nmb': rng.choice([100, 5000])},
    ]
    # always: float64 torch targets (the tensor branch), float64 torch queries+targets, a coarse median grid
    always = [{'Tform': 'torch'}, {'Qform': 'torch', 'Tform': 'torch'}, {'nmb': rng.choice([1, 2, 3])}]
    for ch in always + rng.sample(changes, 3):
        yield dict(base, **ch)
    yield dict(base)                         # the base call again, last


def gen_forms(rng):
    """input forms outside the usual 4-letter float64 PWM: other alphabet sizes, count matrices, an
    alphabet row that no target uses (the T_max == T_min branch of the hashing), integer one-hot queries,
    and the call with every default"""
    rs = np_rng(rng)
    kind = rng.choice(['alphabet', 'alphabet', 'pfm', 'constrow', 'onehot-int', 'bare', 'bare'])
    nb = rng.choice([10, 20, 50])
    inp = {'kind': 'tomtom', 'nb': nb, 'rc': rng.random() < 0.5, 'ntb': None, 'opt': kind, 'mono': False}
    if kind == 'alphabet':
        A = rng.choice([2, 3, 5, 20])
        inp['Q'] = [pwm_alpha(rs, rng.randint(1, 5), A) for _ in range(rng.randint(1, 2))]
        inp['T'] = [pwm_alpha(rs, rng.randint(1, 5), A) for _ in range(rng.randint(2, 4))]
        inp['ntb'] = rng.choice([None, None, 100]) if A <= 5 else None
    elif kind == 'pfm':                      # unnormalised counts
        inp['Q'] = [rs.randint(0, 9, size=(rng.randint(1, 5), 4)).astype(float).tolist() for _ in range(rng.randint(1, 2))]
        inp['T'] = [(rs.randint(0, 9, size=(rng.randint(1, 5), 4)) + numpy.eye(4)[rs.randint(4)]).astype(float).tolist()
                    for _ in range(rng.randint(2, 4))]
    elif kind == 'constrow':
        def three(L):
            p = rs.dirichlet([0.5] * 3, size=L)
            if rng.random() < 0.5:
                p = numpy.round(p * 4) / 4
                p[p.sum(1) == 0] = [1, 0, 0]
            return numpy.concatenate([p, numpy.zeros((L, 1))], axis=1).tolist()
        inp['Q'] = [pwm(rs, rng.randint(1, 5), 0.4, 0)]
        inp['T'] = [three(rng.randint(1, 5)) for _ in range(rng.randint(2, 4))]
        inp['ntb'] = 100
    elif kind == 'onehot-int':
        eye = numpy.eye(4)
        inp['Q'] = [eye[rs.randint(4, size=rng.randint(2, 8))].tolist() for _ in range(rng.randint(1, 2))]
        inp['T'] = [pwm(rs, rng.randint(1, 6), 0.4, 0) for _ in range(rng.randint(2, 4))]
        inp['Qdt'] = rng.choice(['int8', 'int64'])
        inp['Qform'] = rng.choice(['numpy', 'torch'])
    else:
        inp.update(nb=100, rc=True, ntb=100, bare=True)
        inp['Q'] = [pwm(rs, rng.randint(1, 8), 0.4, rng.choice([0, 4])) for _ in range(rng.randint(1, 2))]
        inp['T'] = [pwm(rs, rng.randint(1, 8), 0.4, 0) for _ in range(rng.randint(2, 4))]
        inp['T'].append([list(c) for c in inp['Q'][0]])
    if distinct_cols(inp['T']) < 2:
        inp['T'].append([[0.5, 0.5] + [0.0] * (len(inp['T'][0][0]) - 2)] + [[0.0] * (len(inp['T'][0][0]) - 1) + [1.0]])
    return inp


def integer_distance_pairs():
    """pairs of grid columns at Euclidean distance exactly 1 (the only non-zero integer distance on the
    grid {0,1/4,1/2,1}: d2 ranges over multiples of 1/16 up to 2)"""
    out = []
    for a_ in COARSE:
        for b_ in COARSE:
            if sum((Fraction(x) - Fraction(y)) ** 2 for x, y in zip(a_, b_)) == 1:
                out.append((a_, b_))
    return out


INT_PAIRS = integer_distance_pairs()


def gen_intz(rng):
    """z_min (the smallest median-centred similarity) exactly an integer: more than half of the pooled target
    columns equal the query column c (its median similarity is exactly 0) and another pooled column d lies at
    distance exactly 1 (z_min = -1.0); or more than half of the pool at distance 1 and the rest equal
    (median = minimum for every query column, z_min = 0.0 when all query columns are c)"""
    rc = rng.random() < 0.4
    pairs = [p_ for p_ in INT_PAIRS if not rc or (p_[0] == p_[0][::-1] and p_[1] == p_[1][::-1])]
    c, d = rng.choice(pairs)
    near = [x for x in COARSE if 0 < sum((Fraction(a_) - Fraction(b_)) ** 2 for a_, b_ in zip(c, x)) < 1
            and (not rc or x == x[::-1])]
    kind = rng.choice(['minus1', 'minus1', 'minus1', 'zero'])
    if kind == 'minus1':
        n_c = rng.randint(6, 12)
        pool = [c] * n_c + [d] * rng.randint(1, 2) + [rng.choice(near) for _ in range(rng.randint(0, min(3, n_c - 4)))]
        qcols = [c] * rng.randint(1, 3) + ([rng.choice(near)] if near and rng.random() < 0.5 else [])
    else:
        n_d = rng.randint(6, 10)
        pool = [d] * n_d + [c] * rng.randint(1, n_d // 2 - 1)
        qcols = [c] * rng.randint(1, 3)
    rng.shuffle(pool)
    rng.shuffle(qcols)
    T = []
    while pool:
        k = rng.randint(1, 5)
        T.append([list(x) for x in pool[:k]])
        pool = pool[k:]
    return {'kind': 'tomtom', 'Q': [[list(x) for x in qcols]], 'T': T,
            'nb': rng.choice([10, 20, 53, 100, 150, rng.randint(5, 200)]), 'rc': rc,
            'ntb': 100 if rng.random() < 0.4 else None, 'coarse': True, 'opt': 'intz', 'mono': False}


def gen_zero(rng):
    """single-column query with some integerised similarity equal to 0 (found by calling the kernel)"""
    rs = np_rng(rng)
    for _ in range(3000):
        nb = rng.randint(5, 20)
        ncol = rng.randint(3, 8)
        Q = [pwm(rs, 1, 0.05, 0)]
        cols = pwm(rs, ncol, 0.05, 0)
        inp = {'kind': 'tomtom', 'Q': Q, 'T': [[c] for c in cols], 'nb': nb, 'rc': False, 'ntb': None}
        try:
            Qs, Ts = arrays(inp)
            st = stage(prep(Qs, Ts, False, None), nb)[0]
        except ZeroDivisionError:
            continue
        zs = [j for j, row in enumerate(st['x']) if row[0] == 0]
        if zs:
            # group the zero-similarity columns (and one more) into one target of length >= 2
            grp = zs[:2] + [j for j in range(ncol) if j not in zs][:1] if len(zs) == 1 else zs[:2]
            if len(zs) >= 2 and rng.random() < 0.7:
                grp = zs[:2]
            rest = [j for j in range(ncol) if j not in grp]
            inp['T'] = [[cols[j] for j in grp]] + [[cols[j]] for j in rest]
            if rng.random() < 0.5:
                inp['Q'] = [pwm(rs, rng.randint(3, 6), 0.3, 0)] + inp['Q']
            return inp
    return None


def generate(tier, rng):
    quick = tier != 'thorough'
    small = list(range(1, 8))
    n_small, n_zero, n_mid, n_long, n_big = (40, 8, 7, 4, 2) if quick else (250, 30, 45, 22, 6)
    n_coarse = 14 if quick else 100
    light, heavy = [], []
    for _ in range(n_coarse):
        light.append(gen_coarse(rng))
    for _ in range(8 if quick else 40):
        light.append(gen_intz(rng))
    for _ in range(8 if quick else 50):
        light.append(gen_forms(rng))
    seqs = []
    for k in range(3 if quick else 20):     # multi-call sequences keep their order and stay contiguous
        seqs.append(list(gen_options(rng, k)))
    for _ in range(n_small):
        light.append(gen_call(rng, small, small, [5, 8, 10, 10, 15, 20, 20, 30]))
    for _ in range(n_zero):
        z = gen_zero(rng)
        if z is not None:
            light.append(z)
    for _ in range(n_mid):                 # fine score grids, moderate lengths
        heavy.append(gen_call(rng, list(range(1, 11)), list(range(1, 11)), [50, 100, 100, 150, 200]))
    for _ in range(n_long):                # lengths up to 25, coarse score grid
        c = gen_call(rng, [9, 12, 16, 20, 25], [1, 2, 5, 9, 14, 20, 25], [10, 12, 15], big=True)
        c['mono'] = False
        heavy.append(c)
    for _ in range(n_big):                 # lengths up to 25 with fine score grids: reference only
        lq, nbig = rng.choice([(25, 100), (20, 150), (15, 200)])     # the reference's polynomial products grow with nq * bins
        c = gen_call(rng, [lq], [3, 10, 18, 25], [nbig], big=True)
        c['with_model'] = False
        c['mono'] = False
        heavy.append(c)
    # spread the expensive cases over the coqc shards (SHARD consecutive cases per process)
    heavy.reverse()
    per = max(1, len(light) // max(1, len(heavy)))
    out = []
    while light or heavy:
        if heavy:
            out.append(heavy.pop(0))
        out += light[:per]
        light = light[per:]
    for c in out:
        yield c
    for sq in seqs:
        for c in sq:
            yield c


def shrink(inp):
    if inp.get('kind') != 'tomtom':
        return
    if len(inp['Q']) > 1:
        for i in range(len(inp['Q'])):
            yield dict(inp, Q=inp['Q'][:i] + inp['Q'][i + 1:])
    if len(inp['T']) > 1:
        for i in range(len(inp['T'])):
            c = dict(inp, T=inp['T'][:i] + inp['T'][i + 1:])
            if distinct_cols(c['T']) >= 2:
                yield c
    for i, q in enumerate(inp['Q']):
        if len(q) > 1:
            yield dict(inp, Q=inp['Q'][:i] + [q[:-1]] + inp['Q'][i + 1:])
            yield dict(inp, Q=inp['Q'][:i] + [q[1:]] + inp['Q'][i + 1:])
    for i, t in enumerate(inp['T']):
        if len(t) > 1:
            c = dict(inp, T=inp['T'][:i] + [t[:-1]] + inp['T'][i + 1:])
            if distinct_cols(c['T']) >= 2:
                yield c
    if inp['rc']:
        yield dict(inp, rc=False)
    if inp['ntb']:
        yield dict(inp, ntb=None)
