"""./check <id> quick|thorough | --replay <file>

For one property: (1) rebuild the Coq development (theorems = proof obligations) and record
Print Assumptions of the property theorems; (2) run /repo's implementation on the corpus
and on generated cases; (3) let coqc evaluate, on each (input, implementation outcome), the
executable model and the decidable spec the theorems are about; (4) report.
"""
import importlib
import json
import os
import sys
import time
import traceback

from . import common as C


def load_corpus(pid):
    d = os.path.join(C.VERIF, 'corpus', pid)
    out = []
    if os.path.isdir(d):
        for f in sorted(os.listdir(d)):
            if f.endswith('.json'):
                data = json.load(open(os.path.join(d, f)))
                for inp in (data['inputs'] if 'inputs' in data else [data['input']]):
                    inp = dict(inp)
                    inp['_corpus'] = f
                    out.append(inp)
    return out


def evaluate(mod, inputs):
    """Run implementation then Coq on a list of inputs. Returns (outs, codes, err)."""
    outs, terms = [], []
    for inp in inputs:
        out = mod.run_impl(inp)
        outs.append(out)
        terms.append(mod.coq_case(inp, out))
    codes, err = C.coq_eval(mod.PID, mod.IMPORTS, mod.CASE_TYPE, mod.CHECK, terms,
                            shard=getattr(mod, 'SHARD', 400))
    return outs, codes, err


def shrink(mod, inp, code, budget=40):
    """Greedy shrinking: keep a smaller input while the verdict code stays the same."""
    if not hasattr(mod, 'shrink'):
        return inp
    steps = 0
    improved = True
    while improved and steps < budget:
        improved = False
        cands = list(mod.shrink(inp))[:24]
        if not cands:
            break
        try:
            outs, codes, err = evaluate(mod, cands)
        except Exception:
            break
        steps += 1
        if err:
            break
        for c, k in zip(cands, codes):
            if k == code:
                inp = c
                improved = True
                break
    return inp


def finding_match(mod, entry, inp, out):
    tags = set(mod.tags(inp, out)) if hasattr(mod, 'tags') else set()
    return entry.get('tag') in tags


def main(argv):
    if len(argv) < 2:
        print('usage: check <id> quick|thorough | --replay <file>')
        return 2
    pid = argv[0].upper()
    replay = None
    if argv[1] == '--replay':
        replay = argv[2]
        tier = 'quick'
    else:
        tier = argv[1]
    tier = os.environ.get('VERIF_TIER', tier) if argv[1] != '--replay' else tier
    seed = int(os.environ.get('VERIF_SEED', '20260930'))
    t0 = time.time()
    mod = importlib.import_module('harness.%s' % pid.lower())
    C.setup_numba_cache()
    rng = C.Rng(seed * 1000003 + int(pid[1:]))

    problems = []      # broken obligations / broken tie (no concrete failing input)
    # ---- 0. property-specific pre-build step (the C07 translator regenerates a model file)
    pre_info = None
    if hasattr(mod, 'prebuild'):
        try:
            pre_info = mod.prebuild()
        except Exception as e:
            problems.append({'kind': 'translator', 'what': 'prebuild failed: %r' % (e,),
                             'trace': traceback.format_exc()[-2000:]})

    # ---- 1. proofs
    dirs = ['Base'] + list(getattr(mod, 'COQ_DIRS', [pid]))
    ok, log = C.coq_build(dirs)
    if not ok:
        failing = [l for l in log.splitlines() if 'Error' in l or l.startswith('File ')][-12:]
        problems.append({'kind': 'proof', 'what': 'the Coq development no longer builds',
                         'detail': failing, 'log_tail': log[-3000:]})
    n_obl, obl_names = C.count_obligations(dirs)
    assum, aerr = C.print_assumptions(pid)
    if assum is None:
        problems.append({'kind': 'proof', 'what': '%s/Property.v does not check' % pid,
                         'detail': (aerr or '')[-3000:]})
    chk = None
    if tier == 'thorough' and not replay and ok and os.environ.get('VERIF_NO_COQCHK') != '1':
        cok, cfields, csum = C.coqchk(pid)
        chk = {'ok': cok, 'summary': cfields}
        if not cok or any(v not in ('<none>',) for k, v in cfields.items()):
            # stdlib axioms would be listed here; none are expected in this development
            problems.append({'kind': 'proof', 'what': 'coqchk does not accept %s/Property.vo with an empty axiom/unsafe context' % pid,
                             'detail': csum})
    forb = C.forbidden_scan()
    if forb:
        problems.append({'kind': 'proof', 'what': 'forbidden vernacular in the development',
                         'detail': forb})

    # ---- 2/3. correspondence
    if replay:
        data = json.load(open(replay))
        inputs = [data['input']] if 'input' in data else data.get('inputs', [])
        if not inputs:
            print('replay file names no input: %s' % data.get('what'))
            return 1
    else:
        inputs = load_corpus(pid)
        try:
            inputs = inputs + list(mod.generate(tier, rng))
        except Exception as e:
            problems.append({'kind': 'correspondence', 'what': 'the case generator failed: %r' % (e,),
                             'detail': traceback.format_exc()[-3000:]})
    outs, codes, err = [], [], None
    try:
        outs, codes, err = evaluate(mod, inputs)
    except Exception as e:
        err = 'harness exception: %r\n%s' % (e, traceback.format_exc()[-3000:])
    if err:
        problems.append({'kind': 'correspondence', 'what': 'cases could not be evaluated',
                         'detail': err})
        codes = codes or []

    known = C.load_known_findings(pid)
    known_hit = {}
    failing, disagree = [], []
    for i, k in enumerate(codes or []):
        if k == 0:
            continue
        hit = None
        for e in known:
            if finding_match(mod, e, inputs[i], outs[i]):
                hit = e
                break
        if hit is not None:
            known_hit.setdefault(hit['id'], (hit, inputs[i]))
        elif k == 2:
            failing.append(i)
        else:
            disagree.append(i)

    # boundary-directed extra search when the tie is broken but no failing input was seen
    if (disagree or problems) and not failing and not replay and hasattr(mod, 'search'):
        try:
            extra = list(mod.search(rng, [inputs[i] for i in disagree]))
            eouts, ecodes, eerr = evaluate(mod, extra)
            if not eerr:
                for j, k in enumerate(ecodes):
                    if k == 2 and not any(finding_match(mod, e, extra[j], eouts[j]) for e in known):
                        inputs.append(extra[j]); outs.append(eouts[j]); codes.append(2)
                        failing.append(len(inputs) - 1)
        except Exception:
            pass

    # ---- 4. evidence
    nontriv = set()
    hist = {}
    for inp, out in zip(inputs, outs):
        try:
            hk = mod.hist_key(inp, out) if hasattr(mod, 'hist_key') else inp.get('kind', '?')
            hist[hk] = hist.get(hk, 0) + 1
            if mod.nontrivial(inp, out):
                nontriv.add(json.dumps(inp, sort_keys=True, default=str))
        except Exception:
            pass
    trusted = [
        'Coq 8.16.1 kernel incl. its VM (vm_compute); no native_compute; full .vo build via coq_makefile',
        'axioms per Print Assumptions of the property theorems: ' +
        ('none (%d theorems closed under the global context)' % assum['closed']
         if assum and not assum['axioms'] else (json.dumps(assum['axioms']) if assum else 'unavailable')),
        'no extraction: model and spec are evaluated by coqc on literals written by harness/%s.py' % pid.lower(),
        ('coqchk -o (independent checker) on %s/Property.vo: %s' % (pid, json.dumps(chk['summary'])) if chk else
         'coqchk -o runs in the thorough tier'),
        'correspondence harness (generators, canonicalisation of tensors to nested integer lists)',
    ] + list(getattr(mod, 'TRUSTED', []))
    samples = []
    for inp in inputs[:: max(1, len(inputs) // 3)][:3]:
        s = json.dumps(inp, sort_keys=True, default=str)
        samples.append(s if len(s) < 1500 else s[:1500] + '...')
    if not samples:
        samples = ['(no case could be run)']
    n_viol = len(failing) + (1 if (disagree or problems) and not failing else 0)
    ev = {
        'property_id': pid, 'tier': tier, 'seed': seed, 'level': 'proof',
        'coverage': {
            'obligations': n_obl,
            'discharged': n_obl if ok and assum is not None and not forb else 0,
            'checker_cmd': 'cd /verif/coq && coqc -Q . TM <each file of Base/ and %s/ in coqdep order> (full .vo); coqc %s/Property.v for Print Assumptions; ./setup.sh builds everything with coq_makefile+make' % (pid, pid),
            'trusted_base': trusted,
            'evaluations': len(inputs),
            'distinct_nontrivial': len(nontriv),
            'rule': getattr(mod, 'RULE', ''),
            'samples': samples,
            'input_distribution': hist,
            'model_disagreements': len(disagree),
            'spec_failures': len(failing),
            'known_findings_hit': sorted(known_hit),
            'exhaustive': bool(getattr(mod, 'EXHAUSTIVE', {}).get(tier, False)),
            'theorems': obl_names[-40:],
            'repo_head': C.git_head(C.REPO), 'repo_dirty': C.git_dirty(C.REPO),
            'pre': pre_info,
            'coqchk': chk,
        },
        'assumptions': list(getattr(mod, 'ASSUMPTIONS', [])),
        'wall_s': round(time.time() - t0, 2),
        'violations': n_viol,
    }
    if not replay:
        if C.REPO == '/repo':
            C.write_json(os.path.join(C.VERIF, 'evidence', '%s.json' % pid), ev)
        else:   # self-test against a scratch copy of the repository: keep the real evidence
            C.write_json(os.path.join(C.WORK, pid, 'evidence_scratch.json'), ev)

    # ---- 5. report
    for fid, (e, inp) in sorted(known_hit.items()):
        print('KNOWN-FINDING: property=%s %s' % (pid, e['what']))
    rdir = os.path.join(C.VERIF, 'replays') if C.REPO == '/repo' else os.path.join(C.WORK, pid, 'replays_scratch')
    if failing:
        i = failing[0]
        small = shrink(mod, inputs[i], 2) if not replay else inputs[i]
        sout = mod.run_impl(small)
        path = os.path.join(rdir, '%s_%d_fail.json' % (pid, seed))
        C.write_json(path, {
            'property': pid, 'kind': 'failing-input', 'input': small, 'impl_outcome': sout,
            'what': 'the implementation\'s outcome on this input violates the spec %s' % mod.CHECK,
            'n_failing_cases': len(failing), 'seed': seed,
            'replay_cmd': './check %s --replay %s' % (pid, path)})
        print('VIOLATION property=%s replay=%s' % (pid, path))
        return 1
    if disagree or problems:
        path = os.path.join(rdir, '%s_%d_tie.json' % (pid, seed))
        rec = {'property': pid, 'kind': 'no-failing-input-found', 'seed': seed,
               'what': 'a proof obligation or the model/implementation correspondence no longer checks; '
                       'the search found no input on which the spec itself fails',
               'broken': problems}
        if disagree:
            i = disagree[0]
            small = shrink(mod, inputs[i], 1) if not replay else inputs[i]
            rec.update({'correspondence': mod.CHECK, 'input': small,
                        'impl_outcome': mod.run_impl(small), 'n_disagreeing_cases': len(disagree),
                        'replay_cmd': './check %s --replay %s' % (pid, path)})
        C.write_json(path, rec)
        print('VIOLATION property=%s replay=%s no-failing-input-found' % (pid, path))
        return 1
    print('OK property=%s tier=%s cases=%d nontrivial=%d obligations=%d wall=%.1fs' % (
        pid, tier, len(inputs), len(nontriv), n_obl, time.time() - t0))
    return 0


if __name__ == '__main__':
    sys.exit(main(sys.argv[1:]))
