"""C01 - ersatz edit primitives: correspondence with coq/C01 (model + pointwise spec)."""
import itertools

import numpy
import torch

from . import common as C

PID = 'C01'
IMPORTS = ['Base.OneHot', 'C01.Model', 'C01.Spec']
CASE_TYPE = 'case'
CHECK = 'check_case'
RULE = ('exhaustive small scope (every sequence over alphabets 2-4 up to the tier length, batched; '
        'motifs of length 1-3; every start in [-3, L+3]; every (start,end) in [-2,L+2]^2 for delete) '
        'plus seeded random cases (L<=60, batch<=6, alphabets 2-6, string/tensor, shared/per-example '
        'motifs, multisubstitute, randomize) plus a malformed stream; non-trivial = accepted call whose '
        'output differs from the input, or rejected call with a position within 3 of a boundary')
EXHAUSTIVE = {'quick': False, 'thorough': False}
TRUSTED = ['randomize: the drawn replacement is obtained by replaying numpy RandomState through utils.random_one_hot']
ASSUMPTIONS = ['torch slicing/cat/clone implement list surgery (exercised by every case)',
               'aliasing ("caller tensors unmodified") is observed by the harness, not modelled']
LETTERS = 'ACGTXY'

# column codes: k>=0 one-hot at k; -1 all-zero; -2 two ones; -3 contains a 2


def column(A, k):
    c = [0] * A
    if k >= 0:
        c[k] = 1
    elif k == -2:
        c[0] = 1
        c[A - 1 if A > 1 else 0] = 1 if A > 1 else 2
    elif k == -3:
        c[0] = 2
    return c


def to_tensor(A, seqs):
    """seqs: list of lists of column codes -> float tensor (B, A, L)."""
    B = len(seqs)
    L = len(seqs[0]) if B else 0
    X = torch.zeros(B, A, L, dtype=torch.float32)
    for b, s in enumerate(seqs):
        for p, k in enumerate(s):
            X[b, :, p] = torch.tensor(column(A, k), dtype=torch.float32)
    return X


def from_tensor(Y):
    """(B, A, L) tensor -> [B][L][A] nested int lists (values must be integral)."""
    Y = Y.detach().cpu()
    if not torch.equal(Y, Y.round()):
        return 'nonintegral'
    return Y.permute(0, 2, 1).to(torch.int64).tolist()


def tensor_lit(A, seqs):
    L = len(seqs[0]) if seqs else 0
    return '(T %s %s %s)' % (C.nat(A), C.nat(L),
                             C.batch_lit([[column(A, k) for k in s] for s in seqs]))


def motif_arg(inp_m, alphabet):
    if inp_m['form'] == 'str':
        return ''.join('N' if k == -1 else LETTERS[k] for k in inp_m['seqs'][0])
    return to_tensor(inp_m['A'], inp_m['seqs'])


def draw_rands(inp):
    """replay of the replacements randomize draws (utils.random_one_hot on one RandomState)"""
    from tangermeme.utils import random_one_hot
    B, s, e = len(inp['X']), inp['s'], inp['e']
    probs = torch.tensor(inp['probs'])
    rs = numpy.random.RandomState(inp['seed'])
    Rs = []
    try:
        for _ in range(inp['n']):
            R = random_one_hot((B, probs.shape[1], e - s), probs=probs, random_state=rs)
            Rs.append(R)
    except Exception:
        return None
    return Rs


def run_impl(inp):
    from tangermeme import ersatz
    A = inp['A']
    alphabet = list(LETTERS[:A])
    X = to_tensor(A, inp['X'])
    X0 = X.clone()
    kind = inp['kind']
    keep = []
    try:
        if kind in ('sub', 'ins'):
            m = motif_arg(inp['M'], alphabet)
            keep = [(m, m.clone())] if isinstance(m, torch.Tensor) else []
            f = ersatz.substitute if kind == 'sub' else ersatz.insert
            Y = [f(X, m, start=inp['start'], alphabet=alphabet)]
        elif kind == 'del':
            Y = [ersatz.delete(X, inp['s'], inp['e'])]
        elif kind == 'multi':
            ms = [motif_arg(m, alphabet) for m in inp['Ms']]
            keep = [(m, m.clone()) for m in ms if isinstance(m, torch.Tensor)]
            Y = [ersatz.multisubstitute(X, ms, inp['spacing'], start=inp['start'], alphabet=alphabet)]
        elif kind == 'rand':
            Yr = ersatz.randomize(X, inp['s'], inp['e'], probs=inp['probs'], n=inp['n'],
                                  random_state=inp['seed'])
            Y = [Yr[:, i] for i in range(Yr.shape[1])]
        else:
            raise KeyError(kind)
        ys = [from_tensor(y) for y in Y]
        ok = True
    except Exception as e:
        ys, ok = None, False
    unchanged = bool(torch.equal(X, X0)) and all(torch.equal(a, b) for a, b in keep)
    return {'ok': ok, 'Y': ys, 'unchanged': unchanged}


def motif_lit(m):
    return tensor_lit(m['A'], m['seqs'])


def coq_case(inp, out):
    A = inp['A']
    X = tensor_lit(A, inp['X'])
    kind = inp['kind']
    if kind == 'sub':
        call = '(CSub %s %s %s)' % (X, motif_lit(inp['M']), C.opt(inp['start']))
    elif kind == 'ins':
        call = '(CIns %s %s %s)' % (X, motif_lit(inp['M']), C.opt(inp['start']))
    elif kind == 'del':
        call = '(CDel %s %s %s)' % (X, C.z(inp['s']), C.z(inp['e']))
    elif kind == 'multi':
        sp = inp['spacing']
        if isinstance(sp, int):
            sp = [sp] * (len(inp['Ms']) - 1)
        call = '(CMulti %s %s %s %s)' % (X, C.lst([motif_lit(m) for m in inp['Ms']]),
                                         C.zlist(sp), C.opt(inp['start']))
    else:
        Rs = draw_rands(inp)
        rl = []
        if Rs is not None:
            for R in Rs:
                rl.append('(T %s %s %s)' % (C.nat(R.shape[1]), C.nat(R.shape[2]),
                                            C.batch_lit(from_tensor(R))))
        call = '(CRand %s %s %s %s)' % (X, C.z(inp['s']), C.z(inp['e']), C.lst(rl))
    if out['ok'] and all(isinstance(y, list) for y in out['Y']):
        o = '(Ok %s)' % C.lst([C.batch_lit(y) for y in out['Y']])
    elif out['ok']:
        o = '(Ok [[[[7]]]])'   # non-integral output: certainly not the expected tensor
    else:
        o = 'Err'
    return '(%s, %s, %s)' % (call, o, C.boolean(out['unchanged']))


def nontrivial(inp, out):
    L = len(inp['X'][0])
    if out['ok']:
        A = inp['A']
        X = [[column(A, k) for k in s] for s in inp['X']]
        return any(y != X for y in out['Y'])
    pos = [inp.get('start'), inp.get('s'), inp.get('e')]
    return any(p is not None and (abs(p) <= 3 or abs(p - L) <= 3) for p in pos)


def hist_key(inp, out):
    return '%s/%s' % (inp['kind'], 'ok' if out['ok'] else 'raise')


def all_seqs(A, L):
    return [list(t) for t in itertools.product(range(A), repeat=L)]


def batches(seqs, size):
    for i in range(0, len(seqs), size):
        yield seqs[i:i + size]


def rand_seq(rng, A, L, bad=False):
    s = [rng.randrange(A) for _ in range(L)]
    if bad and L:
        s[rng.randrange(L)] = rng.choice([-1, -2, -3])
    return s


def generate(tier, rng):
    quick = tier != 'thorough'
    maxL = 4 if quick else 5
    # --- exhaustive small scope
    for A in (2, 3, 4):
        for L in range(1, maxL + 1):
            seqs = all_seqs(A, L)
            if quick and len(seqs) > 64:
                seqs = rng.sample(seqs, 64)
            for X in batches(seqs, 16):
                for m in (1, 2, 3):
                    motifs = all_seqs(A, m)
                    if len(motifs) > 4:
                        motifs = rng.sample(motifs, 4 if quick else 8)
                    for mo in motifs:
                        for start in range(-3, L + 4):
                            form = 'str' if (start + m) % 2 else 'tensor'
                            M = {'form': form, 'A': A, 'seqs': [mo]}
                            yield {'kind': 'sub', 'A': A, 'X': X, 'M': M, 'start': start}
                            yield {'kind': 'ins', 'A': A, 'X': X, 'M': M, 'start': start}
                for s in range(-2, L + 3):
                    for e in range(-2, L + 3):
                        yield {'kind': 'del', 'A': A, 'X': X, 's': s, 'e': e}
    # --- random, larger
    n = 600 if quick else 6000
    for _ in range(n):
        A = rng.choice([2, 3, 4, 4, 4, 5, 6])
        L = rng.choice([1, 2, 3, 5, 8, 13, 21, 34, 60])
        B = rng.randint(1, 6)
        bad = rng.random() < 0.08
        X = [rand_seq(rng, A, L, bad and i == 0) for i in range(B)]
        kind = rng.choice(['sub', 'ins', 'del', 'multi', 'multi', 'rand'])
        near = lambda: rng.choice([rng.randint(-3, 3), L + rng.randint(-4, 3), rng.randint(0, L)])
        if kind in ('sub', 'ins'):
            m = rng.choice([1, 1, 2, 3, 5, L, L + 1]) or 1
            Bm = rng.choice([1, 1, B, B, rng.randint(1, 7)])
            mA = A if rng.random() > 0.05 else rng.choice([2, 3, 4, 5, 6])
            form = 'str' if (Bm == 1 and mA == A and rng.random() < 0.4) else 'tensor'
            mbad = rng.random() < 0.06
            seqs = [rand_seq(rng, mA, m, mbad and i == 0) for i in range(Bm)]
            if form == 'str':
                seqs = [[k if k >= -1 else -1 for k in seqs[0]]]
            start = None if rng.random() < 0.1 else rng.choice([near(), L - m + rng.randint(-2, 2)])
            yield {'kind': kind, 'A': A, 'X': X, 'start': start,
                   'M': {'form': form, 'A': mA, 'seqs': seqs}}
        elif kind == 'del':
            s = near()
            e = rng.choice([near(), s + rng.randint(-1, 4)])
            yield {'kind': 'del', 'A': A, 'X': X, 's': s, 'e': e}
        elif kind == 'multi':
            k = rng.randint(1, 4)
            Ms = []
            for _j in range(k):
                m = rng.choice([1, 1, 2, 3, 4])
                Bm = rng.choice([1, 1, 1, B])
                form = 'str' if (Bm == 1 and rng.random() < 0.5) else 'tensor'
                Ms.append({'form': form, 'A': A, 'seqs': [rand_seq(rng, A, m) for _i in range(Bm)]})
            if rng.random() < 0.3:
                spacing = rng.choice([0, 0, 1, 2, 3, -1, L, L - 1])
            else:
                spacing = [rng.choice([0, 0, 1, 2, 5, -1, L]) if rng.random() < 0.15 else rng.randint(0, 3)
                           for _j in range(k - 1 if rng.random() > 0.05 else k)]
            tot = sum(len(m['seqs'][0]) for m in Ms)
            start = None if rng.random() < 0.25 else rng.choice([near(), L - tot - rng.randint(0, 6), 0])
            yield {'kind': 'multi', 'A': A, 'X': X, 'Ms': Ms, 'spacing': spacing, 'start': start}
        else:
            s = near()
            e = rng.choice([near(), s + rng.randint(-1, 5), L, L - 1])
            pa = A if rng.random() > 0.05 else rng.choice([2, 3, 4, 5])
            # dyadic probabilities: exactly representable in float32, so they sum to 1 exactly
            w = [1] * pa
            for _i in range(16 - pa):
                w[rng.randrange(pa)] += 1
            probs = [[x / 16.0 for x in w]]
            yield {'kind': 'rand', 'A': A, 'X': X, 's': s, 'e': e, 'probs': probs,
                   'n': rng.randint(1, 3), 'seed': rng.randint(0, 10 ** 6)}


def shrink(inp):
    # drop batch rows
    B = len(inp['X'])
    if B > 1:
        for i in range(B):
            c = dict(inp)
            c['X'] = inp['X'][:i] + inp['X'][i + 1:]
            if inp['kind'] in ('sub', 'ins') and len(inp['M']['seqs']) == B:
                c['M'] = dict(inp['M'], seqs=inp['M']['seqs'][:i] + inp['M']['seqs'][i + 1:])
            if inp['kind'] == 'multi':
                c['Ms'] = [dict(m, seqs=(m['seqs'][:i] + m['seqs'][i + 1:]) if len(m['seqs']) == B else m['seqs'])
                           for m in inp['Ms']]
            yield c
    # shorten sequences from the right
    L = len(inp['X'][0])
    if L > 1:
        c = dict(inp)
        c['X'] = [s[:-1] for s in inp['X']]
        yield c
