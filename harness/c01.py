"""C01 - ersatz edit primitives: correspondence with coq/C01 (model + pointwise spec)."""
import itertools

import numpy
import torch

from . import common as C

PID = 'C01'
IMPORTS = ['Base.OneHot', 'C01.Model', 'C01.Spec', 'C01.Lit']
CASE_TYPE = 'case'
CHECK = 'check_case'
RULE = ('(1) small scope: alphabets 2-4, every sequence of length 1..5 (quick tier: length 1..4, at most 64 '
        'sequences per (A,L) and 4 motifs per length), 16 sequences per call; every shared motif of length '
        '1-3 (string/tensor alternating); every start in [-3, L+3] for substitute and insert; every '
        '(start,end) in [-2,L+2]^2 for delete; alphabets 5-6: same positions, 64 sampled sequences per '
        '(A,L) and 8 sampled motifs per length. (2) systematic positions with sampled content: '
        'multisubstitute (sequence length 4..8) over every pair of motif lengths 1-3 x spacing in '
        '{-1,0,1,2,L-1,L} x start in [-2,L+2] and the default start; randomize over every (start,end) in [-2,L+2]^2; per-example motifs at every '
        'start and the default start. (3) seeded random cases (L<=60, batch<=6, alphabets 2-6, string/tensor, shared/per-example '
        'motifs, 1-4 motifs with spacing lists): 60% drawn inside the scope with positions biased to the '
        'boundaries (0, L-m, L), 40% from a boundary/malformed stream (positions within 4 of 0 and L, '
        'all-zero / two-ones / value-2 columns, wrong alphabet, wrong motif batch, motif longer than X, bad '
        'spacing lists). Non-trivial = accepted call whose output differs from the input, or rejected call '
        'with a position within 3 of a boundary')
# thorough: the enumeration (1) is complete for A<=4, L<=5, motif length<=3, shared motif, start in
# [-3,L+3] (substitute, insert) and (start,end) in [-2,L+2]^2 (delete); everything else is sampled.
EXHAUSTIVE = {'quick': False, 'thorough': True}
TRUSTED = ['compact case literals: an all-one-hot batch is written as one base-8 numeral per sequence (digit q = '
           'index of the 1 in column q) and expanded by C01/Lit.v:decn inside Coq (any other batch is written in full)',
           'randomize: the drawn replacement is obtained by replaying numpy RandomState through utils.random_one_hot']
ASSUMPTIONS = ['torch slicing/cat/clone implement list surgery (exercised by every case)',
               'aliasing ("caller tensors unmodified") is observed by the harness, not modelled']
LETTERS = 'ACGTXY'
SHARD = 1000

# column codes: k>=0 one-hot at k; -1 all-zero; -2 two ones; -3 contains a 2


def column(A, k):
    c = [0] * A
    if k >= 0:
        c[k] = 1
    elif k == -2:
        c[0] = 1
        c[A - 1 if A > 1 else 0] = 1 if A > 1 else 2
    elif k == -3:
        c[0] = 2
    return c


def to_tensor(A, seqs):
    """seqs: list of lists of column codes -> float tensor (B, A, L)."""
    B = len(seqs)
    L = len(seqs[0]) if B else 0
    if B == 0 or L == 0:
        return torch.zeros(B, A, L, dtype=torch.float32)
    cols = {}
    data = [[cols.get(k) or cols.setdefault(k, column(A, k)) for k in s] for s in seqs]
    return torch.tensor(data, dtype=torch.float32).permute(0, 2, 1).contiguous()


def from_tensor(Y):
    """(B, A, L) tensor -> [B][L][A] nested int lists (values must be integral)."""
    Y = Y.detach().cpu()
    if not torch.equal(Y, Y.round()):
        return 'nonintegral'
    return Y.permute(0, 2, 1).to(torch.int64).tolist()


def packed(A, codes):
    """all-one-hot batch given as column indices -> '(decn A L [n; ...])' (see coq/C01/Lit.v)"""
    L = len(codes[0])
    ns = []
    for s in codes:
        n = 0
        for q, k in enumerate(s):
            n |= k << (3 * q)
        ns.append(n)
    return '(decn %s %s %s)' % (C.nat(A), C.nat(L), C.zlist(ns))


def codes_lit(A, codes):
    """batch given as column codes -> Coq term of type batch"""
    if codes and A <= 8 and all(0 <= k < A for s in codes for k in s):
        return packed(A, codes)
    return C.batch_lit([[column(A, k) for k in s] for s in codes])


def nested_lit(Y):
    """batch given as nested 0/1 lists [B][L][A'] -> Coq term of type batch (packed when every
    column is one-hot over one common width <= 8)"""
    widths = {len(c) for s in Y for c in s}
    if len(widths) == 1 and len({len(s) for s in Y}) == 1:
        A = widths.pop()
        codes = []
        for s in Y:
            row = []
            for c in s:
                if c.count(1) != 1 or c.count(0) != A - 1:
                    return C.batch_lit(Y)
                row.append(c.index(1))
            codes.append(row)
        if A <= 8:
            return packed(A, codes)
    return C.batch_lit(Y)


def tensor_lit(A, seqs):
    L = len(seqs[0]) if seqs else 0
    return '(T %s %s %s)' % (C.nat(A), C.nat(L), codes_lit(A, seqs))


def motif_arg(inp_m, alphabet):
    if inp_m['form'] == 'str':
        return ''.join('N' if k == -1 else LETTERS[k] for k in inp_m['seqs'][0])
    return to_tensor(inp_m['A'], inp_m['seqs'])


def draw_rands(inp):
    """replay of the replacements randomize draws (utils.random_one_hot on one RandomState)"""
    from tangermeme.utils import random_one_hot
    B, s, e = len(inp['X']), inp['s'], inp['e']
    probs = torch.tensor(inp['probs'])
    rs = numpy.random.RandomState(inp['seed'])
    Rs = []
    try:
        for _ in range(inp['n']):
            R = random_one_hot((B, probs.shape[1], e - s), probs=probs, random_state=rs)
            Rs.append(R)
    except Exception:
        return None
    return Rs


def run_impl(inp):
    from tangermeme import ersatz
    A = inp['A']
    alphabet = list(LETTERS[:A])
    X = to_tensor(A, inp['X'])
    X0 = X.clone()
    kind = inp['kind']
    keep = []
    try:
        if kind in ('sub', 'ins'):
            m = motif_arg(inp['M'], alphabet)
            keep = [(m, m.clone())] if isinstance(m, torch.Tensor) else []
            f = ersatz.substitute if kind == 'sub' else ersatz.insert
            Y = [f(X, m, start=inp['start'], alphabet=alphabet)]
        elif kind == 'del':
            Y = [ersatz.delete(X, inp['s'], inp['e'])]
        elif kind == 'multi':
            ms = [motif_arg(m, alphabet) for m in inp['Ms']]
            keep = [(m, m.clone()) for m in ms if isinstance(m, torch.Tensor)]
            Y = [ersatz.multisubstitute(X, ms, inp['spacing'], start=inp['start'], alphabet=alphabet)]
        elif kind == 'rand':
            Yr = ersatz.randomize(X, inp['s'], inp['e'], probs=inp['probs'], n=inp['n'],
                                  random_state=inp['seed'])
            Y = [Yr[:, i] for i in range(Yr.shape[1])]
        else:
            raise KeyError(kind)
        ys = [from_tensor(y) for y in Y]
        ok = True
    except Exception as e:
        ys, ok = None, False
    unchanged = bool(torch.equal(X, X0)) and all(torch.equal(a, b) for a, b in keep)
    return {'ok': ok, 'Y': ys, 'unchanged': unchanged}


def motif_lit(m):
    return tensor_lit(m['A'], m['seqs'])


def coq_case(inp, out):
    A = inp['A']
    X = tensor_lit(A, inp['X'])
    kind = inp['kind']
    if kind == 'sub':
        call = '(CSub %s %s %s)' % (X, motif_lit(inp['M']), C.opt(inp['start']))
    elif kind == 'ins':
        call = '(CIns %s %s %s)' % (X, motif_lit(inp['M']), C.opt(inp['start']))
    elif kind == 'del':
        call = '(CDel %s %s %s)' % (X, C.z(inp['s']), C.z(inp['e']))
    elif kind == 'multi':
        sp = inp['spacing']
        if isinstance(sp, int):
            sp = [sp] * (len(inp['Ms']) - 1)
        call = '(CMulti %s %s %s %s)' % (X, C.lst([motif_lit(m) for m in inp['Ms']]),
                                         C.zlist(sp), C.opt(inp['start']))
    else:
        Rs = draw_rands(inp)
        # the draw itself failed (span of non-positive length, probs of the wrong shape): hand the
        # model a replacement outside the scope, on which it raises and the spec is silent
        rl = ['(T 0%nat 0%nat [])'] if Rs is None else []
        if Rs is not None:
            for R in Rs:
                rl.append('(T %s %s %s)' % (C.nat(R.shape[1]), C.nat(R.shape[2]),
                                            nested_lit(from_tensor(R))))
        call = '(CRand %s %s %s %s)' % (X, C.z(inp['s']), C.z(inp['e']), C.lst(rl))
    if out['ok'] and all(isinstance(y, list) for y in out['Y']):
        o = '(Ok %s)' % C.lst([nested_lit(y) for y in out['Y']])
    elif out['ok']:
        o = '(Ok [[[[7]]]])'   # non-integral output: certainly not the expected tensor
    else:
        o = 'Err'
    return '(%s, %s, %s)' % (call, o, C.boolean(out['unchanged']))


def nontrivial(inp, out):
    L = len(inp['X'][0])
    if out['ok']:
        A = inp['A']
        X = [[column(A, k) for k in s] for s in inp['X']]
        return any(y != X for y in out['Y'])
    pos = [inp.get('start'), inp.get('s'), inp.get('e')]
    return any(p is not None and (abs(p) <= 3 or abs(p - L) <= 3) for p in pos)


def hist_key(inp, out):
    src = 'corpus' if '_corpus' in inp else inp.get('_src', '?')
    return '%s/%s/%s' % (src, inp['kind'], 'ok' if out['ok'] else 'raise')


def all_seqs(A, L):
    return [list(t) for t in itertools.product(range(A), repeat=L)]


def batches(seqs, size):
    for i in range(0, len(seqs), size):
        yield seqs[i:i + size]


def rand_seq(rng, A, L, bad=False):
    s = [rng.randrange(A) for _ in range(L)]
    if bad and L:
        s[rng.randrange(L)] = rng.choice([-1, -2, -3])
    return s


def dyadic_probs(rng, pa):
    """probabilities that are exactly representable in float32 and sum to 1 exactly"""
    w = [1] * pa
    for _i in range(16 - pa):
        w[rng.randrange(pa)] += 1
    return [[x / 16.0 for x in w]]


def gen_small(tier, rng):
    """(1) the property's small scope, enumerated"""
    quick = tier != 'thorough'
    maxL = 4 if quick else 5
    for A in (2, 3, 4, 5, 6):
        full = A <= 4
        for L in range(1, maxL + 1):
            if full or A ** L <= 64:
                seqs = all_seqs(A, L)
            else:
                seqs = [rand_seq(rng, A, L) for _ in range(64)]
            if quick and len(seqs) > 64:
                seqs = rng.sample(seqs, 64)
            if quick and not full:
                seqs = seqs[:16]
            for X in batches(seqs, 16):
                for m in (1, 2, 3):
                    motifs = all_seqs(A, m)
                    cap = 4 if quick else (None if full else 8)
                    if cap and len(motifs) > cap:
                        motifs = rng.sample(motifs, cap)
                    for mo in motifs:
                        for start in range(-3, L + 4):
                            form = 'str' if (start + m) % 2 else 'tensor'
                            M = {'form': form, 'A': A, 'seqs': [mo]}
                            yield {'kind': 'sub', 'A': A, 'X': X, 'M': M, 'start': start}
                            yield {'kind': 'ins', 'A': A, 'X': X, 'M': M, 'start': start}
                for s in range(-2, L + 3):
                    for e in range(-2, L + 3):
                        yield {'kind': 'del', 'A': A, 'X': X, 's': s, 'e': e}


def gen_positions(tier, rng):
    """(2) every position of the remaining primitives / motif forms, on sampled content"""
    quick = tier != 'thorough'
    maxL = 4 if quick else 5
    for A in (2, 3, 4) if quick else (2, 3, 4, 5, 6):
        for L in range(1, maxL + 1):
            B = rng.randint(2, 4)
            X = [rand_seq(rng, A, L) for _ in range(B)]
            # per-example motifs, every start
            for m in (1, 2, 3):
                for start in list(range(-3, L + 4)) + [None]:
                    M = {'form': 'tensor', 'A': A, 'seqs': [rand_seq(rng, A, m) for _ in range(B)]}
                    yield {'kind': 'sub', 'A': A, 'X': X, 'M': M, 'start': start}
                    yield {'kind': 'ins', 'A': A, 'X': X, 'M': M, 'start': start}
            # multisubstitute on a sequence of length L+3: two motifs, every pair of lengths, spacings at
            # both ends of the admissible range, every start in [-2, L'+2] and the default; then three
            # motifs tiling the sequence exactly, shifted one to the right, and centred
            L2 = L + 3
            X2 = [rand_seq(rng, A, L2) for _ in range(B)]
            for m1 in (1, 2, 3):
                for m2 in (1, 2, 3):
                    for sp in sorted({-1, 0, 1, 2, L2 - 1, L2}):
                        for start in list(range(-2, L2 + 3)) + [None]:
                            if (sp < 0 or sp >= L2) and start not in (None, 0):
                                continue    # rejected for the spacing alone, whatever the start
                            Ms = []
                            for m in (m1, m2):
                                per = rng.random() < 0.3
                                Ms.append({'form': 'tensor' if per or rng.random() < 0.5 else 'str', 'A': A,
                                           'seqs': [rand_seq(rng, A, m) for _ in range(B if per else 1)]})
                            yield {'kind': 'multi', 'A': A, 'X': X2, 'Ms': Ms,
                                   'spacing': sp if rng.random() < 0.5 else [sp], 'start': start}
            for start in (0, 1, None):
                lens = [1, L2 - 2, 1]
                Ms = [{'form': 'str', 'A': A, 'seqs': [rand_seq(rng, A, m)]} for m in lens]
                yield {'kind': 'multi', 'A': A, 'X': X2, 'Ms': Ms, 'spacing': 0, 'start': start}
            # randomize: every span
            for s in range(-2, L + 3):
                for e in range(-2, L + 3):
                    yield {'kind': 'rand', 'A': A, 'X': X, 's': s, 'e': e, 'probs': dyadic_probs(rng, A),
                           'n': rng.randint(1, 2), 'seed': rng.randint(0, 10 ** 6)}


def edge(rng, lo, hi):
    """a position in [lo, hi], the two ends twice as likely as the interior as a whole"""
    r = rng.random()
    if r < 0.3 or hi <= lo:
        return lo
    if r < 0.6:
        return hi
    return rng.randint(lo, hi)


def gen_inside(rng, A, L, B, X, kind):
    """a random call drawn inside the property's scope (expected to be accepted)"""
    def motif(m):
        Bm = rng.choice([1, 1, B])
        form = 'str' if (Bm == 1 and rng.random() < 0.4) else 'tensor'
        return {'form': form, 'A': A, 'seqs': [rand_seq(rng, A, m) for _i in range(Bm)]}
    if kind == 'sub':
        m = min(L, rng.choice([1, 1, 2, 3, 5, 8, L]))
        start = None if rng.random() < 0.1 else edge(rng, 0, L - m)
        return {'kind': 'sub', 'A': A, 'X': X, 'start': start, 'M': motif(m)}
    if kind == 'ins':
        m = rng.choice([1, 1, 2, 3, 5, 8, L, L + 1])
        start = None if rng.random() < 0.1 else edge(rng, 0, L)
        return {'kind': 'ins', 'A': A, 'X': X, 'start': start, 'M': motif(m)}
    if kind == 'del':
        s = edge(rng, 0, L - 1)
        e = edge(rng, s + 1, L)
        return {'kind': 'del', 'A': A, 'X': X, 's': s, 'e': e}
    if kind == 'multi':
        k = rng.randint(1, 4)
        lens = [rng.choice([1, 1, 2, 3, 4]) for _j in range(k)]
        while sum(lens) > L:
            if len(lens) > 1:
                lens.pop()
            else:
                lens[0] = L
        k = len(lens)
        room = L - sum(lens)
        spacing = []
        for _j in range(k - 1):
            sp = min(rng.choice([0, 0, 1, 2, 3, room]), room, L - 1)
            spacing.append(sp)
            room -= sp
        if k > 1 and len(set(spacing)) == 1 and rng.random() < 0.5:
            spacing = spacing[0]
        start = None if rng.random() < 0.25 else edge(rng, 0, room)
        return {'kind': 'multi', 'A': A, 'X': X, 'Ms': [motif(m) for m in lens], 'spacing': spacing,
                'start': start}
    s = edge(rng, 0, L - 1)
    e = edge(rng, s + 1, L)
    return {'kind': 'rand', 'A': A, 'X': X, 's': s, 'e': e, 'probs': dyadic_probs(rng, A),
            'n': rng.randint(1, 3), 'seed': rng.randint(0, 10 ** 6)}


def gen_edgy(rng, A, L, B, kind):
    """a random call from the boundary / malformed stream (mostly expected to be rejected)"""
    bad = rng.random() < 0.2
    X = [rand_seq(rng, A, L, bad and i == 0) for i in range(B)]
    near = lambda: rng.choice([rng.randint(-3, 3), L + rng.randint(-4, 3), rng.randint(0, L)])
    if kind in ('sub', 'ins'):
        m = rng.choice([1, 1, 2, 3, 5, L, L + 1]) or 1
        Bm = rng.choice([1, 1, B, B, rng.randint(1, 7)])
        mA = A if rng.random() > 0.12 else rng.choice([2, 3, 4, 5, 6])
        form = 'str' if (Bm == 1 and mA == A and rng.random() < 0.4) else 'tensor'
        mbad = rng.random() < 0.15
        seqs = [rand_seq(rng, mA, m, mbad and i == 0) for i in range(Bm)]
        if form == 'str':
            seqs = [[k if k >= -1 else -1 for k in seqs[0]]]
        start = None if rng.random() < 0.1 else rng.choice([near(), L - m + rng.randint(-2, 2)])
        return {'kind': kind, 'A': A, 'X': X, 'start': start,
                'M': {'form': form, 'A': mA, 'seqs': seqs}}
    if kind == 'del':
        s = near()
        e = rng.choice([near(), s + rng.randint(-1, 4)])
        return {'kind': 'del', 'A': A, 'X': X, 's': s, 'e': e}
    if kind == 'multi':
        k = rng.randint(1, 4)
        Ms = []
        for _j in range(k):
            m = rng.choice([1, 1, 2, 3, 4])
            Bm = rng.choice([1, 1, 1, B])
            form = 'str' if (Bm == 1 and rng.random() < 0.5) else 'tensor'
            Ms.append({'form': form, 'A': A, 'seqs': [rand_seq(rng, A, m) for _i in range(Bm)]})
        if rng.random() < 0.3:
            spacing = rng.choice([0, 0, 1, 2, 3, -1, L, L - 1])
        else:
            spacing = [rng.choice([0, 0, 1, 2, 5, -1, L]) if rng.random() < 0.15 else rng.randint(0, 3)
                       for _j in range(k - 1 if rng.random() > 0.05 else k)]
        tot = sum(len(m['seqs'][0]) for m in Ms)
        start = None if rng.random() < 0.25 else rng.choice([near(), L - tot - rng.randint(0, 6), 0])
        return {'kind': 'multi', 'A': A, 'X': X, 'Ms': Ms, 'spacing': spacing, 'start': start}
    s = near()
    e = rng.choice([near(), s + rng.randint(-1, 5), L, L + 1])
    pa = A if rng.random() > 0.1 else rng.choice([2, 3, 4, 5])
    return {'kind': 'rand', 'A': A, 'X': X, 's': s, 'e': e, 'probs': dyadic_probs(rng, pa),
            'n': rng.randint(1, 3), 'seed': rng.randint(0, 10 ** 6)}


def gen_random(tier, rng):
    """(3) random, larger: 60% inside the scope, 40% boundary / malformed"""
    n = 1500 if tier != 'thorough' else 12000
    for _ in range(n):
        A = rng.choice([2, 3, 4, 4, 4, 5, 6])
        L = rng.choice([1, 2, 3, 5, 8, 13, 21, 34, 60])
        B = rng.randint(1, 6)
        kind = rng.choice(['sub', 'ins', 'del', 'multi', 'multi', 'rand'])
        if rng.random() < 0.6:
            X = [rand_seq(rng, A, L) for _i in range(B)]
            yield gen_inside(rng, A, L, B, X, kind)
        else:
            yield gen_edgy(rng, A, L, B, kind)


def generate(tier, rng):
    for src, g in (('small', gen_small), ('pos', gen_positions), ('random', gen_random)):
        for inp in g(tier, rng):
            inp['_src'] = src
            yield inp


def shrink(inp):
    # drop batch rows
    B = len(inp['X'])
    if B > 1:
        for i in range(B):
            c = dict(inp)
            c['X'] = inp['X'][:i] + inp['X'][i + 1:]
            if inp['kind'] in ('sub', 'ins') and len(inp['M']['seqs']) == B:
                c['M'] = dict(inp['M'], seqs=inp['M']['seqs'][:i] + inp['M']['seqs'][i + 1:])
            if inp['kind'] == 'multi':
                c['Ms'] = [dict(m, seqs=(m['seqs'][:i] + m['seqs'][i + 1:]) if len(m['seqs']) == B else m['seqs'])
                           for m in inp['Ms']]
            yield c
    # shorten sequences from the right
    L = len(inp['X'][0])
    if L > 1:
        c = dict(inp)
        c['X'] = [s[:-1] for s in inp['X']]
        yield c
