"""C01 - ersatz edit primitives: correspondence with coq/C01 (model + pointwise spec).

An input is ONE call, or a FAMILY of calls ({'kind': 'seq', 'calls': [...]}) made one after the
other in this process on the same caller-owned tensor object (motif tensors, spacing / alphabet /
probs objects and RandomState objects are shared between the calls of a family as well).  After
every call every caller-owned object is compared with its snapshot.  Optional 'opts' (on the
family and/or on a call) select the input form: dtype and memory layout of X and of motif
tensors, Python / numpy integer types, alphabet form (list / str / default argument, any order of
letters), probs form (list / numpy / tensor / default argument, shared or per example),
random_state form (int / numpy int / RandomState object)."""
import copy
import itertools
import json

import numpy
import torch

from . import common as C

PID = 'C01'
IMPORTS = ['Base.OneHot', 'C01.Model', 'C01.Spec', 'C01.Lit']
CASE_TYPE = 'mcase'
CHECK = 'check_mcase'
RULE = ('an input = one call or a family of calls on the SAME tensor objects in one process (verdict = worst '
        'call; evaluations counts inputs). (1) small: alphabets 2-4, every sequence of length 1..5 (quick: '
        'length 1..4, <=64 sequences per (A,L), 4 motifs per length), 16 sequences per tensor; one family per '
        '(tensor, shared motif of length 1-3) = substitute and insert at every start in [-3,L+3] + default, '
        'string/tensor alternating; one family per tensor = delete at every (start,end) in [-2,L+2]^2; '
        'alphabets 5-6: same positions, 64 sampled sequences, 8 sampled motifs per length. (2) pos: '
        'per-example motifs at every start; multisubstitute (L 4..8) over every pair of motif lengths 1-3 x '
        'spacing {-1,0,1,2,L-1,L} x start [-2,L+2] + default, one motif with [] / int spacing at every '
        'start, three motifs tiling exactly; randomize at every (start,end) in [-2,L+2]^2. (3) random '
        '(L<=60, batch<=6, alphabets 2-6): 60% inside the scope with positions biased to 0, L-m, L; 40% '
        'boundary/malformed (bad columns, wrong alphabet / batch, motif longer than X, bad spacing lists). '
        '(4) forms: random calls (75% in scope, 25% boundary/malformed) with every input form (9 dtypes and 3 memory layouts of X and of '
        'motif tensors, numpy int32/int64 positions / counts / seeds, alphabet as list / str / default and in '
        'permuted order, probs as list / numpy / tensor / default, shared / per-example, RandomState objects); '
        'edge values (empty motif, motif length = L, n = 1 and 5, one-motif lists). (5) seq: families of 3-7 '
        'calls re-using the same X, motif, list and RandomState objects with ONE thing changed between '
        'consecutive calls (start, kind, motif form, alphabet order with the same motif string, seed, probs '
        'form, spacing int <-> list, a rejected call in between). Non-trivial = accepted call whose output '
        'differs from the input, or rejected call with a position within 3 of a boundary')
# thorough: the enumeration (1) is complete for A<=4, L<=5, motif length<=3, shared motif, start in
# [-3,L+3] (substitute, insert) and (start,end) in [-2,L+2]^2 (delete); everything else is sampled.
EXHAUSTIVE = {'quick': False, 'thorough': True}
TRUSTED = ['compact case literals: an all-one-hot batch is written as one hexadecimal numeral (1-3 bits per column) '
           'and expanded by C01/Lit.v:decb inside Coq (any other batch is written in full); a family is judged by '
           'C01/Lit.v:check_mcase = worst Spec.check_case of its calls',
           'randomize: the drawn replacement is obtained by replaying numpy RandomState through utils.random_one_hot']
ASSUMPTIONS = ['torch slicing/cat/clone implement list surgery (exercised by every case)',
               'aliasing ("caller tensors unmodified") is observed by the harness after every call (X, the tensor '
               'X is a view of, motif tensors, motif / spacing / alphabet lists, probs), not modelled']
LETTERS = 'ACGTXY'
SHARD = 150

DTYPES = {'float32': torch.float32, 'float64': torch.float64, 'float16': torch.float16, 'int8': torch.int8,
          'uint8': torch.uint8, 'int16': torch.int16, 'int32': torch.int32, 'int64': torch.int64,
          'bool': torch.bool}
ITYPES = {'int': int, 'np64': numpy.int64, 'np32': numpy.int32}

# column codes: k>=0 one-hot at k; -1 all-zero; -2 two ones; -3 contains a 2


def column(A, k):
    c = [0] * A
    if k >= 0:
        c[k] = 1
    elif k == -2:
        c[0] = 1
        c[A - 1 if A > 1 else 0] = 1 if A > 1 else 2
    elif k == -3:
        c[0] = 2
    return c


def to_tensor(A, seqs):
    """seqs: list of lists of column codes -> float tensor (B, A, L)."""
    B = len(seqs)
    L = len(seqs[0]) if B else 0
    if B == 0 or L == 0:
        return torch.zeros(B, A, L, dtype=torch.float32)
    cols = {}
    data = [[cols.get(k) or cols.setdefault(k, column(A, k)) for k in s] for s in seqs]
    return torch.tensor(data, dtype=torch.float32).permute(0, 2, 1).contiguous()


def shaped(T, dtype='float32', layout='contig'):
    """the same values with the requested dtype and memory layout; returns (tensor, base or None)
    where base is the larger tensor T is a view of"""
    dt = DTYPES[dtype]
    if dt == torch.bool and not bool(((T == 0) | (T == 1)).all()):
        dt = torch.float32      # a malformed column must stay malformed
    if layout == 'permuted' and T.dim() == 3:
        return T.permute(0, 2, 1).contiguous().to(dt).permute(0, 2, 1), None
    if layout == 'slice' and T.dim() == 3:
        B, A, L = T.shape
        base = torch.zeros(B + 2, A, L + 3, dtype=dt)
        base[:, 0, :] = 1
        base[1:B + 1, :, 2:L + 2] = T.to(dt)
        return base[1:B + 1, :, 2:L + 2], base
    return T.to(dt), None


def from_tensor(Y):
    """(B, A, L) tensor -> [B][L][A] nested int lists (values must be integral)."""
    Y = Y.detach().cpu().to(torch.float64)
    if not torch.equal(Y, Y.round()):
        return 'nonintegral'
    return Y.permute(0, 2, 1).to(torch.int64).tolist()


# ----------------------------------------------------------------------------------------
# Coq literals

def packed(A, codes):
    """all-one-hot batch given as column indices -> (w, A, B, L, numeral) for C01/Lit.v:decb"""
    B, L = len(codes), len(codes[0])
    w = 1 if A <= 2 else 2 if A <= 4 else 3
    n, sh = 0, 0
    for s in codes:
        for k in s:
            n |= k << sh
            sh += w
    return '%d %s %s %s %s' % (w, C.nat(A), C.nat(B), C.nat(L), hex(n))


def packable(A, codes):
    return bool(codes) and 2 <= A <= 8 and len({len(s) for s in codes}) == 1 and \
        all(0 <= k < A for s in codes for k in s)


def codes_lit(A, codes):
    """batch given as column codes -> Coq term of type batch"""
    if packable(A, codes):
        return '(decb %s)' % packed(A, codes)
    return C.batch_lit([[column(A, k) for k in s] for s in codes])


def tensor_lit(A, codes):
    L = len(codes[0]) if codes else 0
    if packable(A, codes):
        return '(tb %s)' % packed(A, codes)
    return '(T %s %s %s)' % (C.nat(A), C.nat(L), codes_lit(A, codes))


def nested_codes(Y):
    """nested 0/1 lists [B][L][A'] -> (A', codes) when every column is one-hot over one width"""
    widths = {len(c) for s in Y for c in s}
    if len(widths) != 1:
        return None
    A = widths.pop()
    codes = []
    for s in Y:
        row = []
        for c in s:
            if c.count(1) != 1 or c.count(0) != A - 1:
                return None
            row.append(c.index(1))
        codes.append(row)
    return (A, codes) if packable(A, codes) else None


def nested_lit(Y):
    ac = nested_codes(Y)
    return '(decb %s)' % packed(*ac) if ac else C.batch_lit(Y)


def nested_tensor_lit(Y, A, L):
    ac = nested_codes(Y)
    if ac and ac[0] == A:
        return '(tb %s)' % packed(*ac)
    return '(T %s %s %s)' % (C.nat(A), C.nat(L), C.batch_lit(Y))


def motif_lit(m):
    return tensor_lit(m['A'], m['seqs'])


# ----------------------------------------------------------------------------------------
# running the implementation

def calls_of(inp):
    return inp['calls'] if inp['kind'] == 'seq' else [inp]


def opts_of(inp, call):
    o = dict(inp.get('opts') or {})
    if call is not inp:
        o.update(call.get('opts') or {})
    return o


def letters_of(inp, call):
    return call.get('alphabet') or inp.get('alphabet') or LETTERS[:inp['A']]


class Session:
    """one caller: owns X and every other object handed to the implementation"""

    def __init__(self, inp):
        self.inp = inp
        self.A = inp['A']
        o = inp.get('opts') or {}
        self.X, self.base = shaped(to_tensor(self.A, inp['X']), o.get('xdtype', 'float32'),
                                   o.get('xlayout', 'contig'))
        self.watch = [(self.X, self.X.clone())]
        if self.base is not None:
            self.watch.append((self.base, self.base.clone()))
        self.objs = {}
        self.states = {}

    # -- caller-owned objects, shared between the calls of a family
    def obj(self, key, make):
        k = json.dumps(key, sort_keys=True, default=str)
        if k not in self.objs:
            v = make()
            self.objs[k] = v
            if isinstance(v, torch.Tensor):
                self.watch.append((v, v.clone()))
            elif isinstance(v, numpy.ndarray):
                self.watch.append((v, v.copy()))
            elif isinstance(v, list):
                self.watch.append((v, list(v)))
        return self.objs[k]

    def unchanged(self):
        for v, snap in self.watch:
            if isinstance(v, torch.Tensor):
                if v.dtype != snap.dtype or v.shape != snap.shape or not torch.equal(v, snap):
                    return False
            elif isinstance(v, numpy.ndarray):
                if v.dtype != snap.dtype or not numpy.array_equal(v, snap):
                    return False
            else:
                if len(v) != len(snap) or any(a is not b and not (type(a) is type(b) and not
                                              isinstance(a, torch.Tensor) and a == b)
                                              for a, b in zip(v, snap)):
                    return False
        return True

    def motif(self, m, letters, o, j=0):
        if m['form'] == 'str':
            return ''.join('N' if k == -1 else letters[k] for k in m['seqs'][0])
        dt = o.get('mdtype', 'float32')
        lay = o.get('mlayout', 'contig')
        if isinstance(dt, list):
            dt = dt[j % len(dt)]
        return self.obj(['motif', m['A'], m['seqs'], dt, lay],
                        lambda: shaped(to_tensor(m['A'], m['seqs']), dt, lay)[0])

    def alphabet_kw(self, letters, o):
        form = o.get('aform', 'list')
        if form == 'default' and letters == 'ACGT':
            return {}
        if form == 'str':
            return {'alphabet': letters}
        return {'alphabet': self.obj(['alphabet', letters], lambda: list(letters))}

    def replay(self, call, o, ok):
        """the replacements randomize draws: utils.random_one_hot on the same RandomState stream"""
        from tangermeme.utils import random_one_hot
        B, s, e = len(self.inp['X']), call['s'], call['e']
        probs = torch.tensor(call['probs'])
        seed = call['seed']
        if o.get('rsform') == 'state':
            rs = self.states.setdefault(seed, [numpy.random.RandomState(seed), numpy.random.RandomState(seed)])[1]
        else:
            rs = numpy.random.RandomState(seed)
        before = rs.get_state()
        Rs = []
        try:
            for _ in range(call['n']):
                R = random_one_hot((B, probs.shape[1], e - s), probs=probs, random_state=rs)
                Rs.append([int(R.shape[1]), int(R.shape[2]), from_tensor(R)])
        except Exception:
            Rs = None
        if not ok:
            rs.set_state(before)     # a rejected call must not have consumed the caller's stream
        return Rs

    def call(self, call):
        from tangermeme import ersatz
        inp, X = self.inp, self.X
        o = opts_of(inp, call)
        I = ITYPES[o.get('itype', 'int')]
        conv = lambda v: None if v is None else I(v)
        letters = letters_of(inp, call)
        kind = call['kind']
        extra = {}
        try:
            if kind in ('sub', 'ins'):
                m = self.motif(call['M'], letters, o)
                f = ersatz.substitute if kind == 'sub' else ersatz.insert
                Y = [f(X, m, start=conv(call['start']), **self.alphabet_kw(letters, o))]
            elif kind == 'del':
                Y = [ersatz.delete(X, conv(call['s']), conv(call['e']))]
            elif kind == 'multi':
                ms = [self.motif(m, letters, o, j) for j, m in enumerate(call['Ms'])]
                self.watch.append((ms, list(ms)))
                sp = call['spacing']
                if isinstance(sp, list):
                    sp = self.obj(['spacing', sp, o.get('itype', 'int')], lambda: [I(v) for v in sp])
                Y = [ersatz.multisubstitute(X, ms, sp, start=conv(call['start']),
                                            **self.alphabet_kw(letters, o))]
            elif kind == 'rand':
                kw = {}
                pf = o.get('pform', 'list')
                if not (pf == 'default' and call['probs'] == [[0.25] * 4]):
                    kw['probs'] = self.obj(['probs', call['probs'], pf], lambda: {
                        'numpy': lambda: numpy.array(call['probs']),
                        'numpy32': lambda: numpy.array(call['probs'], dtype=numpy.float32),
                        'tensor': lambda: torch.tensor(call['probs']),
                        'tensor64': lambda: torch.tensor(call['probs'], dtype=torch.float64),
                    }.get(pf, lambda: copy.deepcopy(call['probs']))())
                rf = o.get('rsform', 'int')
                if rf == 'state':
                    seed = self.states.setdefault(call['seed'], [numpy.random.RandomState(call['seed']),
                                                                 numpy.random.RandomState(call['seed'])])[0]
                else:
                    seed = numpy.int64(call['seed']) if rf == 'np64' else int(call['seed'])
                Yr = ersatz.randomize(X, conv(call['s']), conv(call['e']), n=conv(call['n']),
                                      random_state=seed, **kw)
                if Yr.dim() != 4 or Yr.shape[0] != X.shape[0]:
                    raise ValueError('shape of the randomize result: %r' % (tuple(Yr.shape),))
                Y = [Yr[:, i] for i in range(Yr.shape[1])]
            else:
                raise KeyError(kind)
            ys = [from_tensor(y) for y in Y]
            ok = True
        except Exception as e:
            ys, ok = None, False
            extra['err'] = type(e).__name__
        out = {'ok': ok, 'Y': ys, 'unchanged': self.unchanged()}
        if kind == 'rand':
            out['Rs'] = self.replay(call, o, ok)
        out.update(extra)
        return out


def run_impl(inp):
    try:
        sess = Session(inp)
    except Exception as e:
        raise
    outs = [sess.call(c) for c in calls_of(inp)]
    return {'seq': outs} if inp['kind'] == 'seq' else outs[0]


def outs_of(inp, out):
    return out['seq'] if inp['kind'] == 'seq' else [out]


def op_lit(inp, call, out):
    kind = call['kind']
    if kind == 'sub':
        return '(OSub %s %s)' % (motif_lit(call['M']), C.opt(call['start']))
    if kind == 'ins':
        return '(OIns %s %s)' % (motif_lit(call['M']), C.opt(call['start']))
    if kind == 'del':
        return '(ODel %s %s)' % (C.z(call['s']), C.z(call['e']))
    if kind == 'multi':
        sp = call['spacing']
        if isinstance(sp, int):
            sp = [sp] * (len(call['Ms']) - 1)
        return '(OMulti %s %s %s)' % (C.lst([motif_lit(m) for m in call['Ms']]), C.zlist(sp),
                                      C.opt(call['start']))
    Rs = out.get('Rs')
    # the draw itself failed (span of non-positive length, probs of the wrong shape): hand the model a
    # replacement outside the scope, on which it raises and the spec is silent
    rl = ['(T 0%nat 0%nat [])'] if Rs is None else [nested_tensor_lit(Y, a, l) for a, l, Y in Rs]
    return '(ORand %s %s %s)' % (C.z(call['s']), C.z(call['e']), C.lst(rl))


def outcome_lit(out):
    if out['ok'] and all(isinstance(y, list) for y in out['Y']):
        return '(Ok %s)' % C.lst([nested_lit(y) for y in out['Y']])
    if out['ok']:
        return '(Ok [[[[7]]]])'   # non-integral output: certainly not the expected tensor
    return 'Err'


def coq_case(inp, out):
    steps = ['(%s, %s, %s)' % (op_lit(inp, c, o), outcome_lit(o), C.boolean(o['unchanged']))
             for c, o in zip(calls_of(inp), outs_of(inp, out))]
    return '(%s, %s)' % (tensor_lit(inp['A'], inp['X']), C.lst(steps))


def nontrivial(inp, out):
    L = len(inp['X'][0])
    X = [[column(inp['A'], k) for k in s] for s in inp['X']]
    for c, o in zip(calls_of(inp), outs_of(inp, out)):
        if o['ok']:
            if any(y != X for y in o['Y']):
                return True
        else:
            pos = [c.get('start'), c.get('s'), c.get('e')]
            if any(p is not None and (abs(p) <= 3 or abs(p - L) <= 3) for p in pos):
                return True
    return False


def hist_key(inp, out):
    src = 'corpus' if '_corpus' in inp else inp.get('_src', '?')
    outs = outs_of(inp, out)
    kinds = sorted({c['kind'] for c in calls_of(inp)})
    n_ok = sum(1 for o in outs if o['ok'])
    tag = 'ok' if n_ok == len(outs) else 'raise' if n_ok == 0 else 'mixed'
    return '%s/%s/%s' % (src, '+'.join(kinds) if len(kinds) <= 2 else 'several', tag)


# ----------------------------------------------------------------------------------------
# generators

def all_seqs(A, L):
    return [list(t) for t in itertools.product(range(A), repeat=L)]


def batches(seqs, size):
    for i in range(0, len(seqs), size):
        yield seqs[i:i + size]


def rand_seq(rng, A, L, bad=False):
    s = [rng.randrange(A) for _ in range(L)]
    if bad and L:
        s[rng.randrange(L)] = rng.choice([-1, -2, -3])
    return s


def dyadic_probs(rng, pa, rows=1):
    """probabilities that are exactly representable in float32 and sum to 1 exactly"""
    out = []
    for _r in range(rows):
        w = [1] * pa
        for _i in range(16 - pa):
            w[rng.randrange(pa)] += 1
        out.append([x / 16.0 for x in w])
    return out


def family(A, X, calls):
    return {'kind': 'seq', 'A': A, 'X': X, 'calls': calls}


def gen_small(tier, rng):
    """(1) the property's small scope, enumerated"""
    quick = tier != 'thorough'
    maxL = 4 if quick else 5
    for A in (2, 3, 4, 5, 6):
        full = A <= 4
        for L in range(1, maxL + 1):
            if full or A ** L <= 64:
                seqs = all_seqs(A, L)
            else:
                seqs = [rand_seq(rng, A, L) for _ in range(64)]
            if quick and len(seqs) > 64:
                seqs = rng.sample(seqs, 64)
            if quick and not full:
                seqs = seqs[:16]
            for X in batches(seqs, 16):
                for m in (1, 2, 3):
                    motifs = all_seqs(A, m)
                    cap = 4 if quick else (None if full else 8)
                    if cap and len(motifs) > cap:
                        motifs = rng.sample(motifs, cap)
                    for mo in motifs:
                        calls = []
                        for start in list(range(-3, L + 4)) + [None]:
                            form = 'str' if ((start or 0) + m) % 2 else 'tensor'
                            M = {'form': form, 'A': A, 'seqs': [mo]}
                            calls.append({'kind': 'sub', 'M': M, 'start': start})
                            calls.append({'kind': 'ins', 'M': M, 'start': start})
                        yield family(A, X, calls)
                yield family(A, X, [{'kind': 'del', 's': s, 'e': e}
                                    for s in range(-2, L + 3) for e in range(-2, L + 3)])


def gen_positions(tier, rng):
    """(2) every position of the remaining primitives / motif forms, on sampled content"""
    quick = tier != 'thorough'
    maxL = 4 if quick else 5
    for A in (2, 3, 4) if quick else (2, 3, 4, 5, 6):
        for L in range(1, maxL + 1):
            B = rng.randint(2, 4)
            X = [rand_seq(rng, A, L) for _ in range(B)]
            # per-example motifs, every start
            for m in (1, 2, 3):
                calls = []
                for start in list(range(-3, L + 4)) + [None]:
                    M = {'form': 'tensor', 'A': A, 'seqs': [rand_seq(rng, A, m) for _ in range(B)]}
                    calls.append({'kind': 'sub', 'M': M, 'start': start})
                    calls.append({'kind': 'ins', 'M': M, 'start': start})
                yield family(A, X, calls)
            # multisubstitute on a sequence of length L+3: two motifs, every pair of lengths, spacings at
            # both ends of the admissible range, every start in [-2, L'+2] and the default
            L2 = L + 3
            X2 = [rand_seq(rng, A, L2) for _ in range(B)]

            def motif(m):
                per = rng.random() < 0.3
                return {'form': 'tensor' if per or rng.random() < 0.5 else 'str', 'A': A,
                        'seqs': [rand_seq(rng, A, m) for _ in range(B if per else 1)]}
            for m1 in (1, 2, 3):
                for m2 in (1, 2, 3):
                    calls = []
                    for sp in sorted({-1, 0, 1, 2, L2 - 1, L2}):
                        for start in list(range(-2, L2 + 3)) + [None]:
                            if (sp < 0 or sp >= L2) and start not in (None, 0):
                                continue    # rejected for the spacing alone, whatever the start
                            calls.append({'kind': 'multi', 'Ms': [motif(m1), motif(m2)],
                                          'spacing': sp if rng.random() < 0.5 else [sp], 'start': start})
                    yield family(A, X2, calls)
            # one motif (empty spacing list / any int spacing) at every start; three motifs tiling the
            # sequence exactly, shifted one to the right, and centred
            calls = []
            for m in (1, 2, L2):
                for start in list(range(-2, L2 + 3)) + [None]:
                    calls.append({'kind': 'multi', 'Ms': [motif(m)],
                                  'spacing': rng.choice([[], 0, 1, L2 - 1]), 'start': start})
            for start in (0, 1, None):
                calls.append({'kind': 'multi', 'Ms': [motif(1), motif(L2 - 2), motif(1)], 'spacing': 0,
                              'start': start})
            yield family(A, X2, calls)
            # randomize: every span
            yield family(A, X, [{'kind': 'rand', 's': s, 'e': e, 'probs': dyadic_probs(rng, A),
                                 'n': rng.randint(1, 2), 'seed': rng.randint(0, 10 ** 6)}
                                for s in range(-2, L + 3) for e in range(-2, L + 3)])


def edge(rng, lo, hi):
    """a position in [lo, hi], the two ends twice as likely as the interior as a whole"""
    r = rng.random()
    if r < 0.3 or hi <= lo:
        return lo
    if r < 0.6:
        return hi
    return rng.randint(lo, hi)


def gen_inside(rng, A, L, B, X, kind):
    """a random call drawn inside the property's scope (expected to be accepted)"""
    def motif(m):
        Bm = rng.choice([1, 1, B])
        form = 'str' if (Bm == 1 and rng.random() < 0.4) else 'tensor'
        return {'form': form, 'A': A, 'seqs': [rand_seq(rng, A, m) for _i in range(Bm)]}
    if kind == 'sub':
        m = min(L, rng.choice([1, 1, 2, 3, 5, 8, L]))
        start = None if rng.random() < 0.1 else edge(rng, 0, L - m)
        return {'kind': 'sub', 'A': A, 'X': X, 'start': start, 'M': motif(m)}
    if kind == 'ins':
        m = rng.choice([1, 1, 2, 3, 5, 8, L, L + 1])
        start = None if rng.random() < 0.1 else edge(rng, 0, L)
        return {'kind': 'ins', 'A': A, 'X': X, 'start': start, 'M': motif(m)}
    if kind == 'del':
        s = edge(rng, 0, L - 1)
        e = edge(rng, s + 1, L)
        return {'kind': 'del', 'A': A, 'X': X, 's': s, 'e': e}
    if kind == 'multi':
        k = rng.randint(1, 4)
        lens = [rng.choice([1, 1, 2, 3, 4]) for _j in range(k)]
        while sum(lens) > L:
            if len(lens) > 1:
                lens.pop()
            else:
                lens[0] = L
        k = len(lens)
        room = L - sum(lens)
        spacing = []
        for _j in range(k - 1):
            sp = min(rng.choice([0, 0, 1, 2, 3, room]), room, L - 1)
            spacing.append(sp)
            room -= sp
        if len(set(spacing)) == 1 and rng.random() < 0.5:
            spacing = spacing[0]
        elif k == 1 and rng.random() < 0.5:
            spacing = rng.choice([0, 1, L - 1])
        start = None if rng.random() < 0.25 else edge(rng, 0, room)
        return {'kind': 'multi', 'A': A, 'X': X, 'Ms': [motif(m) for m in lens], 'spacing': spacing,
                'start': start}
    s = edge(rng, 0, L - 1)
    e = edge(rng, s + 1, L)
    return {'kind': 'rand', 'A': A, 'X': X, 's': s, 'e': e,
            'probs': dyadic_probs(rng, A, rng.choice([1, 1, B])),
            'n': rng.choice([1, 1, 2, 3, 5]), 'seed': rng.randint(0, 10 ** 6)}


def gen_edgy(rng, A, L, B, kind):
    """a random call from the boundary / malformed stream (mostly expected to be rejected)"""
    bad = rng.random() < 0.2
    X = [rand_seq(rng, A, L, bad and i == 0) for i in range(B)]
    near = lambda: rng.choice([rng.randint(-3, 3), L + rng.randint(-4, 3), rng.randint(0, L)])
    if kind in ('sub', 'ins'):
        m = rng.choice([1, 1, 2, 3, 5, L, L + 1]) or 1
        Bm = rng.choice([1, 1, B, B, rng.randint(1, 7)])
        mA = A if rng.random() > 0.12 else rng.choice([2, 3, 4, 5, 6])
        form = 'str' if (Bm == 1 and mA == A and rng.random() < 0.4) else 'tensor'
        mbad = rng.random() < 0.15
        seqs = [rand_seq(rng, mA, m, mbad and i == 0) for i in range(Bm)]
        if form == 'str':
            seqs = [[k if k >= -1 else -1 for k in seqs[0]]]
        start = None if rng.random() < 0.1 else rng.choice([near(), L - m + rng.randint(-2, 2)])
        return {'kind': kind, 'A': A, 'X': X, 'start': start,
                'M': {'form': form, 'A': mA, 'seqs': seqs}}
    if kind == 'del':
        s = near()
        e = rng.choice([near(), s + rng.randint(-1, 4)])
        return {'kind': 'del', 'A': A, 'X': X, 's': s, 'e': e}
    if kind == 'multi':
        k = rng.randint(1, 4)
        Ms = []
        for _j in range(k):
            m = rng.choice([1, 1, 2, 3, 4])
            Bm = rng.choice([1, 1, 1, B])
            form = 'str' if (Bm == 1 and rng.random() < 0.5) else 'tensor'
            Ms.append({'form': form, 'A': A, 'seqs': [rand_seq(rng, A, m) for _i in range(Bm)]})
        if rng.random() < 0.3:
            spacing = rng.choice([0, 0, 1, 2, 3, -1, L, L - 1])
        else:
            spacing = [rng.choice([0, 0, 1, 2, 5, -1, L]) if rng.random() < 0.15 else rng.randint(0, 3)
                       for _j in range(k - 1 if rng.random() > 0.05 else k)]
        tot = sum(len(m['seqs'][0]) for m in Ms)
        start = None if rng.random() < 0.25 else rng.choice([near(), L - tot - rng.randint(0, 6), 0])
        return {'kind': 'multi', 'A': A, 'X': X, 'Ms': Ms, 'spacing': spacing, 'start': start}
    s = near()
    e = rng.choice([near(), s + rng.randint(-1, 5), L, L + 1])
    pa = A if rng.random() > 0.1 else rng.choice([2, 3, 4, 5])
    return {'kind': 'rand', 'A': A, 'X': X, 's': s, 'e': e,
            'probs': dyadic_probs(rng, pa, rng.choice([1, 1, 1, B, B + 1])),
            'n': rng.randint(1, 3), 'seed': rng.randint(0, 10 ** 6)}


def gen_random(tier, rng):
    """(3) random, larger: 60% inside the scope, 40% boundary / malformed"""
    n = 1500 if tier != 'thorough' else 12000
    for _ in range(n):
        A = rng.choice([2, 3, 4, 4, 4, 5, 6])
        L = rng.choice([1, 2, 3, 5, 8, 13, 21, 34, 60])
        B = rng.randint(1, 6)
        kind = rng.choice(['sub', 'ins', 'del', 'multi', 'multi', 'rand'])
        if rng.random() < 0.6:
            X = [rand_seq(rng, A, L) for _i in range(B)]
            yield gen_inside(rng, A, L, B, X, kind)
        else:
            yield gen_edgy(rng, A, L, B, kind)


def rand_letters(rng, A):
    pool = list('ACGTXYWZ')
    if rng.random() < 0.5:
        l = list(LETTERS[:A])
    else:
        l = rng.sample(pool, A)
    rng.shuffle(l)
    return ''.join(l)


def rand_opts(rng, A, kind):
    """one random choice for every input form"""
    dts = sorted(DTYPES)
    o = {'itype': rng.choice(['int', 'np64', 'np32']),
         'mdtype': [rng.choice(dts) for _ in range(3)],
         'mlayout': rng.choice(['contig', 'contig', 'permuted', 'slice']),
         'aform': rng.choice(['list', 'str'] + (['default'] if A == 4 else []))}
    if kind == 'rand':
        o['pform'] = rng.choice(['list', 'numpy', 'numpy32', 'tensor', 'tensor64'])
        o['rsform'] = rng.choice(['int', 'np64', 'state'])
    return o


def x_opts(rng):
    return {'xdtype': rng.choice(sorted(DTYPES)), 'xlayout': rng.choice(['contig', 'permuted', 'slice'])}


def gen_forms(tier, rng):
    """(4) every accepted input form on in-scope calls, and edge values"""
    quick = tier != 'thorough'
    n = 700 if quick else 5000
    for i in range(n):
        A = rng.choice([2, 3, 4, 4, 4, 5, 6])
        L = rng.choice([1, 2, 3, 5, 8, 13])
        B = rng.randint(1, 4)
        kind = ['sub', 'ins', 'del', 'multi', 'rand'][i % 5]
        X = [rand_seq(rng, A, L) for _i in range(B)]
        inp = gen_inside(rng, A, L, B, X, kind) if rng.random() < 0.75 else gen_edgy(rng, A, L, B, kind)
        o = rand_opts(rng, A, kind)
        o.update(x_opts(rng))
        if kind == 'rand' and A == 4 and rng.random() < 0.3:
            inp['probs'] = [[0.25] * 4]
            o['pform'] = 'default'
        inp['opts'] = o
        if o['aform'] != 'default':
            inp['alphabet'] = rand_letters(rng, A)
        yield inp
    # edge values
    for A in (2, 4, 6):
        for L in (1, 2, 5):
            B = rng.randint(1, 3)
            X = [rand_seq(rng, A, L) for _i in range(B)]
            empty_s = {'form': 'str', 'A': A, 'seqs': [[]]}
            empty_t = {'form': 'tensor', 'A': A, 'seqs': [[]] * B}
            whole = {'form': 'tensor', 'A': A, 'seqs': [rand_seq(rng, A, L) for _i in range(B)]}
            one = {'form': 'str', 'A': A, 'seqs': [rand_seq(rng, A, 1)]}
            calls = []
            for M in (empty_s, empty_t):
                for start in (0, L, None):
                    calls.append({'kind': 'sub', 'M': M, 'start': start})
                    calls.append({'kind': 'ins', 'M': M, 'start': start})
                calls.append({'kind': 'multi', 'Ms': [M], 'spacing': [], 'start': 0})
                calls.append({'kind': 'multi', 'Ms': [one, M], 'spacing': 0, 'start': 0})
            for start in (0, None, 1, -1):
                calls.append({'kind': 'sub', 'M': whole, 'start': start})
                calls.append({'kind': 'multi', 'Ms': [whole], 'spacing': [], 'start': start})
            calls.append({'kind': 'del', 's': 0, 'e': L})
            calls.append({'kind': 'del', 's': L - 1, 'e': L})
            calls.append({'kind': 'del', 's': L, 'e': L})
            calls.append({'kind': 'del', 's': 0, 'e': 0})
            for n_ in (1, 5):
                calls.append({'kind': 'rand', 's': 0, 'e': L, 'probs': dyadic_probs(rng, A, B), 'n': n_,
                              'seed': rng.randint(0, 999)})
                calls.append({'kind': 'rand', 's': L - 1, 'e': L, 'probs': dyadic_probs(rng, A), 'n': n_,
                              'seed': rng.randint(0, 999)})
            yield family(A, X, calls)


def vary(rng, A, L, B, X, c):
    """a copy of call c with ONE thing changed"""
    d = copy.deepcopy(c)
    o = d.setdefault('opts', {})
    kind = d['kind']
    choices = ['itype', 'reject']
    if kind in ('sub', 'ins'):
        choices += ['start', 'start', 'kind', 'mform', 'mdtype', 'alphabet', 'aform']
    elif kind == 'del':
        choices += ['s', 'e']
    elif kind == 'multi':
        choices += ['start', 'spform', 'one', 'mdtype', 'alphabet', 'aform', 'twice']
    else:
        choices += ['seed', 'same', 'pform', 'rsform', 'n', 'probs', 's']
    what = rng.choice(choices)
    if what == 'itype':
        o['itype'] = rng.choice([t for t in ITYPES if t != o.get('itype', 'int')])
    elif what == 'reject':
        key = 'start' if 'start' in d else rng.choice(['s', 'e'])
        d[key] = rng.choice([-1, L + 1, L + 2]) if key != 's' else rng.choice([-1, L])
        d['_rej'] = True
    elif what == 'start':
        if kind == 'multi':
            sp = d['spacing']
            m = sum(len(M['seqs'][0]) for M in d['Ms']) + \
                (sp * (len(d['Ms']) - 1) if isinstance(sp, int) else sum(sp))
        else:
            m = len(d['M']['seqs'][0])
        hi = L if kind == 'ins' else max(0, L - m)
        d['start'] = None if d['start'] is not None and rng.random() < 0.3 else edge(rng, 0, hi)
    elif what == 'kind':
        d['kind'] = 'ins' if kind == 'sub' else 'sub'
    elif what == 'mform':
        M = d['M']
        if M['form'] == 'tensor' and len(M['seqs']) == 1:
            M['form'] = 'str'
        elif M['form'] == 'str':
            M['form'] = 'tensor'
        else:
            o['mlayout'] = rng.choice(['permuted', 'slice', 'contig'])
    elif what == 'mdtype':
        o['mdtype'] = [rng.choice(sorted(DTYPES)) for _ in range(2)]
        for M in ([d['M']] if 'M' in d else d['Ms']):
            if M['form'] == 'str' and rng.random() < 0.5:
                M['form'] = 'tensor'
    elif what == 'alphabet':
        # same letters in another order: a string motif keeps its TEXT, so it denotes other columns
        old = d.get('alphabet') or LETTERS[:A]
        new = list(old)
        rng.shuffle(new)
        new = ''.join(new)
        for M in ([d['M']] if 'M' in d else d['Ms']):
            if M['form'] == 'str':
                M['seqs'] = [[new.index(old[k]) for k in M['seqs'][0]]]
        d['alphabet'] = new
        if o.get('aform') == 'default':
            o['aform'] = 'list'
    elif what == 'aform':
        forms = ['list', 'str'] + (['default'] if (d.get('alphabet') or LETTERS[:A]) == 'ACGT' else [])
        o['aform'] = rng.choice([f for f in forms if f != o.get('aform', 'list')])
    elif what in ('s', 'e'):
        if kind == 'rand' or what == 's':
            d['s'] = edge(rng, 0, d['e'] - 1)
        else:
            d['e'] = edge(rng, d['s'] + 1, L)
    elif what == 'spform':
        sp = d['spacing']
        if isinstance(sp, int):
            d['spacing'] = [sp] * (len(d['Ms']) - 1)
        elif len(set(sp)) == 1:
            d['spacing'] = sp[0]
        elif not sp:
            d['spacing'] = rng.choice([0, 1])
    elif what == 'one':
        d['Ms'] = d['Ms'][:1]
        d['spacing'] = rng.choice([[], 0])
    elif what == 'twice' and len(d['Ms']) >= 2:
        # the same motif object twice in the list
        m0 = d['Ms'][0]
        tot = len(m0['seqs'][0]) * 2
        if tot <= L:
            d['Ms'] = [m0, copy.deepcopy(m0)]
            d['spacing'] = [min(1, L - tot)]
            d['start'] = 0
    elif what == 'seed':
        d['seed'] = rng.randint(0, 10 ** 6)
    elif what == 'same':
        pass
    elif what == 'pform':
        if A == 4 and rng.random() < 0.4:
            d['probs'] = [[0.25] * 4]
            o['pform'] = 'default'
        else:
            o['pform'] = rng.choice(['list', 'numpy', 'numpy32', 'tensor', 'tensor64'])
    elif what == 'rsform':
        o['rsform'] = rng.choice([f for f in ('int', 'np64', 'state') if f != o.get('rsform', 'int')])
    elif what == 'n':
        d['n'] = rng.choice([1, 2, 3, 5])
    elif what == 'probs':
        d['probs'] = dyadic_probs(rng, A, rng.choice([1, B]))
        if o.get('pform') == 'default':
            o['pform'] = 'list'
    return d


def gen_seq(tier, rng):
    """(5) families of calls on the same objects, one thing changed between consecutive calls"""
    quick = tier != 'thorough'
    n = 500 if quick else 4000
    for i in range(n):
        A = rng.choice([2, 3, 4, 4, 4, 4, 5, 6])
        L = rng.choice([2, 3, 5, 8, 12])
        B = rng.randint(1, 4)
        X = [rand_seq(rng, A, L) for _i in range(B)]
        kind = ['sub', 'ins', 'del', 'multi', 'rand', 'sub', 'multi', 'rand'][i % 8]
        c = gen_inside(rng, A, L, B, X, kind)
        c.pop('A')
        c.pop('X')
        c['opts'] = rand_opts(rng, A, kind) if rng.random() < 0.5 else \
            ({'aform': 'default'} if A == 4 else {})
        if c['opts'].get('aform') == 'default' and kind == 'rand' and rng.random() < 0.5:
            c['probs'] = [[0.25] * 4]
            c['opts']['pform'] = 'default'
        if c['opts'].get('aform', 'list') != 'default' and rng.random() < 0.5:
            c['alphabet'] = rand_letters(rng, A)
        calls = [c]
        for _j in range(rng.randint(2, 6)):
            prev = calls[-1]
            if prev.get('_rej'):
                prev = calls[-2]
            d = vary(rng, A, L, B, X, prev)
            calls.append(d)
        if rng.random() < 0.4:
            calls.append(copy.deepcopy(calls[0]))      # and the first call once more
        if rng.random() < 0.3:
            # an unrelated primitive in between, on the same X
            other = gen_inside(rng, A, L, B, X, rng.choice(['sub', 'ins', 'del', 'multi', 'rand']))
            other.pop('A')
            other.pop('X')
            calls.insert(rng.randint(1, len(calls)), other)
        fam = family(A, X, calls)
        fam['opts'] = x_opts(rng) if rng.random() < 0.6 else {}
        yield fam


def generate(tier, rng):
    for src, g in (('small', gen_small), ('pos', gen_positions), ('random', gen_random),
                   ('forms', gen_forms), ('seq', gen_seq)):
        for inp in g(tier, rng):
            inp['_src'] = src
            yield inp


def shrink(inp):
    if inp['kind'] == 'seq':
        calls = inp['calls']
        # a single call of the family (with the family's X and options)
        if len(calls) > 1:
            for c in calls:
                d = {k: v for k, v in inp.items() if k != 'calls'}
                d.update(copy.deepcopy(c))
                o = dict(inp.get('opts') or {})
                o.update(c.get('opts') or {})
                d['opts'] = o
                yield d
            # halves, then drop one call
            h = len(calls) // 2
            yield dict(inp, calls=calls[:h])
            yield dict(inp, calls=calls[h:])
            if len(calls) <= 12:
                for i in range(len(calls)):
                    yield dict(inp, calls=calls[:i] + calls[i + 1:])
        elif calls:
            d = {k: v for k, v in inp.items() if k != 'calls'}
            d.update(copy.deepcopy(calls[0]))
            yield d
        return
    # default forms
    if inp.get('opts'):
        yield {k: v for k, v in inp.items() if k != 'opts'}
        for k in inp['opts']:
            yield dict(inp, opts={a: b for a, b in inp['opts'].items() if a != k})
    # drop batch rows
    B = len(inp['X'])
    if B > 1:
        for i in range(B):
            c = dict(inp)
            c['X'] = inp['X'][:i] + inp['X'][i + 1:]
            if inp['kind'] in ('sub', 'ins') and len(inp['M']['seqs']) == B:
                c['M'] = dict(inp['M'], seqs=inp['M']['seqs'][:i] + inp['M']['seqs'][i + 1:])
            if inp['kind'] == 'multi':
                c['Ms'] = [dict(m, seqs=(m['seqs'][:i] + m['seqs'][i + 1:]) if len(m['seqs']) == B else m['seqs'])
                           for m in inp['Ms']]
            if inp['kind'] == 'rand' and len(inp['probs']) == B:
                c['probs'] = inp['probs'][:i] + inp['probs'][i + 1:]
            yield c
    # shorten sequences from the right
    L = len(inp['X'][0])
    if L > 1:
        c = dict(inp)
        c['X'] = [s[:-1] for s in inp['X']]
        yield c
