"""C05 - DeepLIFT/SHAP multipliers equal an independent rescale-rule computation.

Same runner and Coq literals as C04 (harness/c04.py); the generator follows C05's quantifier
(linear / conv / avg-pool layers and element-wise activations, no max-pooling, a larger share of
purely affine models for the closed form) and coqc evaluates C05.Spec.check_case05: the
implementation's multipliers against the pointwise rescale-rule evaluation, its hypothetical and
default attributions against the projection formulas, and the affine closed form.
"""
from . import c04 as base
from .c04 import (run_impl, coq_case, nontrivial, hist_key, shrink, analyse, build,   # noqa: F401
                  SHARD, TRUSTED)

PID = 'C05'
COQ_DIRS = ['C04', 'C05']
IMPORTS = ['C04.Model', 'C04.Spec', 'C05.Spec']
CASE_TYPE = 'case'
CHECK = 'check_case05'
RULE = ('random sequential architectures of Conv1d (stride/dilation/padding), AvgPool1d, Linear and every '
        'supported element-wise activation (depth 1-4, Flatten+Linear head, optional final activation), one '
        'quarter purely affine; alphabets 2-4, length 4-10, 1-2 examples, 1-3 references (one-hot / mutated '
        'copies / dyadic backgrounds / dinucleotide_shuffle; reference tensors with an n_shuffles argument below/equal/'
        'above their count, 21-23 references under the default), every batch size; a fifth of the cases are call '
        'sequences in one freshly reloaded module (earlier calls with additional_nonlinear_ops overriding or adding '
        'rules on the same / another model, plain and raising calls on the same model object, then the checked call), '
        'a tenth register Softsign/Tanhshrink/Hardswish/Hardtanh with the library rule; half exact mode, half '
        'co-simulation mode; non-trivial = some activation whose two halves differ on a unit, or an affine '
        'model whose example differs from a reference; cases with some 1e-7 <= |delta_in| <= 1e-5 are '
        'excluded and counted (hist key "band-excluded")')
ASSUMPTIONS = ['floating-point rounding is not modelled: every comparison is 1e-9 relative to the largest entry '
               'of the compared vector',
               'the band 1e-7 <= |delta_in| <= 1e-5 around the 1e-6 switch is excluded, not verified; below it the ordinary derivative is demanded, above it the secant slope',
               'the forward values (in, out) of each activation and its ordinary derivative are torch\'s own',
               'torch autograd dispatches the registered hooks as documented (exercised by every case)']


def generate(tier, rng):
    n = 260 if tier != 'thorough' else 1000
    for i in range(n):
        yield base.gen_input(rng, exact=(i % 2 == 0), allow_maxpool=False, affine_only=(i % 8 in (2, 3)), pid=PID)


def nontrivial(inp, out):      # noqa: F811
    try:
        a = analyse(inp)
        if not out.get('ok') or a.get('band'):
            return False
        if a.get('nontrivial'):
            return True
        affine = all(ly['t'] not in ('act', 'maxpool') for ly in inp['layers'])
        return affine and a['refs'] is not None and bool((a['X'][:, None] != a['refs']).any())
    except Exception:       # noqa: BLE001
        return False


def tags(inp, out):
    return base.hook_tags(inp)
