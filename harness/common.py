"""Shared machinery of the correspondence harness.

The Coq development under /verif/coq carries the theorems.  This module ties it to /repo:
it builds the development, asks coqc to evaluate (vm_compute, inside the kernel's VM) the
decidable spec and the executable model on the very cases the implementation was run on,
and turns the verdict codes into the VIOLATION / KNOWN-FINDING / evidence protocol.
"""
import concurrent.futures
import glob
import hashlib
import json
import os
import random
import re
import shutil
import subprocess
import sys
import time

VERIF = os.path.dirname(os.path.dirname(os.path.abspath(__file__)))
COQ = os.path.join(VERIF, 'coq')
WORK = os.path.join(VERIF, '.work')
REPO = os.environ.get('VERIF_REPO', '/repo')
COQC_TIMEOUT = 600
MAKE_TIMEOUT = 1500


# ----------------------------------------------------------------------------------------
# Coq literals

def z(n):
    n = int(n)
    return '(%d)' % n if n < 0 else str(n)


def nat(n):
    n = int(n)
    assert 0 <= n < 5000, n
    return '%d%%nat' % n


def lst(items):
    return '[' + '; '.join(items) + ']'


def zlist(xs):
    return lst([z(x) for x in xs])


def natlist(xs):
    return lst([nat(x) for x in xs])


def zmat(rows):
    return lst([zlist(r) for r in rows])


def opt(x, f=z):
    return 'None' if x is None else '(Some %s)' % f(x)


def boolean(b):
    return 'true' if b else 'false'


def q(fr):
    """A Python Fraction / float / int as a Coq Q literal (exact)."""
    from fractions import Fraction
    fr = Fraction(fr)
    return '(%s # %d)' % (z(fr.numerator), fr.denominator)


def res(out, f):
    """out is None (raised) or a value."""
    return 'Err' if out is None else '(Ok %s)' % f(out)


def batch_lit(X):
    """X: nested list [B][L][A] of ints (list of sequences of columns)."""
    return lst([lst([zlist(c) for c in s]) for s in X])


# ----------------------------------------------------------------------------------------
# Building and evaluating in Coq

def sh(cmd, timeout, cwd=None, env=None):
    try:
        p = subprocess.run(cmd, shell=True, cwd=cwd, env=env, stdout=subprocess.PIPE,
                           stderr=subprocess.STDOUT, timeout=timeout, text=True)
        return p.returncode, p.stdout
    except subprocess.TimeoutExpired as e:
        return 124, (e.stdout or '') + '\n[timeout]'


def coq_project_files():
    files = []
    for d in sorted(os.listdir(COQ)):
        p = os.path.join(COQ, d)
        if os.path.isdir(p):
            for f in sorted(os.listdir(p)):
                if f.endswith('.v'):
                    files.append('%s/%s' % (d, f))
    return files


def _ensure_project():
    """_CoqProject (for editors / coq_makefile users) lists every file; regenerated on demand."""
    with open(os.path.join(COQ, '_CoqProject.base')) as f:
        base = f.read()
    proj = base + '\n'.join(coq_project_files()) + '\n'
    pj = os.path.join(COQ, '_CoqProject')
    old = open(pj).read() if os.path.exists(pj) else None
    if old != proj:
        with open(pj, 'w') as f:
            f.write(proj)


def coq_build(dirs=None):
    """Full .vo build (coqc, never -vos/-vok) of the given sub-directories of /verif/coq in
    dependency order; a file is recompiled when it or anything it depends on is newer than
    its .vo.  dirs=None builds everything through coq_makefile + make.  Returns (ok, log)."""
    _ensure_project()
    if dirs is None:
        rc, out = sh('coq_makefile -f _CoqProject -o Makefile && make -j16', MAKE_TIMEOUT, cwd=COQ)
        return rc == 0, out
    files = []
    for d in dirs:
        files += sorted(glob.glob(os.path.join(COQ, d, '*.v')))
    files = [os.path.relpath(f, COQ) for f in files]
    if not files:
        return False, 'no Coq files in %s' % dirs
    rc, out = sh('coqdep -Q . TM -sort %s' % ' '.join(files), 120, cwd=COQ)
    if rc != 0:
        return False, out
    order = [f for f in out.split() if f.endswith('.v')]
    order = [os.path.normpath(f) for f in order]
    rc, depout = sh('coqdep -Q . TM %s' % ' '.join(files), 120, cwd=COQ)
    deps = {}
    for line in depout.splitlines():
        if ':' not in line:
            continue
        lhs, rhs = line.split(':', 1)
        tgt = [t for t in lhs.split() if t.endswith('.vo')]
        if tgt:
            deps[os.path.normpath(tgt[0])] = [os.path.normpath(x) for x in rhs.split() if x.endswith('.vo')]
    log = []
    rebuilt = set()
    for f in order:
        if f not in files:
            continue
        vo = f[:-2] + '.vo'
        src_m = os.path.getmtime(os.path.join(COQ, f))
        stale = not os.path.exists(os.path.join(COQ, vo)) or os.path.getmtime(os.path.join(COQ, vo)) < src_m
        for d in deps.get(vo, []):
            dp = os.path.join(COQ, d)
            if d in rebuilt or (os.path.exists(dp) and os.path.exists(os.path.join(COQ, vo))
                                and os.path.getmtime(dp) > os.path.getmtime(os.path.join(COQ, vo))):
                stale = True
        if stale:
            rc, out = sh('coqc -Q . TM -w -notation-overridden,-deprecated-hint-without-locality,-deprecated-syntactic-definition %s' % f,
                         COQC_TIMEOUT, cwd=COQ)
            log.append('coqc %s -> %d\n%s' % (f, rc, out[-3000:]))
            if rc != 0:
                return False, '\n'.join(log)
            rebuilt.add(vo)
    return True, '\n'.join(log)


def count_obligations(dirs):
    """Number of Theorem/Lemma/Corollary/Example/Fact statements in the given coq subdirs."""
    n = 0
    names = []
    pat = re.compile(r'^\s*(?:Theorem|Lemma|Corollary|Example|Fact|Proposition)\s+([A-Za-z0-9_\']+)', re.M)
    for d in dirs:
        for f in sorted(glob.glob(os.path.join(COQ, d, '*.v'))):
            src = open(f).read()
            found = pat.findall(src)
            n += len(found)
            names += ['%s/%s:%s' % (d, os.path.basename(f), x) for x in found]
    return n, names


FORBIDDEN = re.compile(r'\b(Admitted|admit|Axiom|Parameter|Conjecture|Admit Obligations|'
                       r'Unset Guard Checking|bypass_check|Unset Universe Checking|'
                       r'Unset Positivity Checking|type-in-type|impredicative-set)\b')


def forbidden_scan():
    bad = []
    for f in glob.glob(os.path.join(COQ, '**', '*.v'), recursive=True):
        src = re.sub(r'\(\*.*?\*\)', '', open(f).read(), flags=re.S)
        for m in FORBIDDEN.finditer(src):
            bad.append('%s: %s' % (os.path.relpath(f, COQ), m.group(0)))
    return bad


def print_assumptions(pid):
    """Recompile <pid>/Property.v and return what its Print Assumptions commands print."""
    f = '%s/Property.v' % pid
    if not os.path.exists(os.path.join(COQ, f)):
        return None, 'no Property.v'
    rc, out = sh('coqc -Q . TM -w none %s' % f, COQC_TIMEOUT, cwd=COQ)
    if rc != 0:
        return None, out
    axioms = []
    closed = len(re.findall(r'Closed under the global context', out))
    for m in re.finditer(r'Axioms:\n((?:.+\n?)+?)(?=\n\S|\Z)', out):
        axioms.append(m.group(1).strip())
    return {'closed': closed, 'axioms': axioms, 'raw': out[-4000:]}, None


def coqchk(pid):
    """Independent re-check of <pid>/Property.vo and everything it depends on; returns the
    CONTEXT SUMMARY (axioms, type-in-type, unsafe fixpoints, assumed positivity)."""
    rc, out = sh('coqchk -silent -o -Q . TM TM.%s.Property' % pid, 3000, cwd=COQ)
    summ = out[out.find('CONTEXT SUMMARY'):] if 'CONTEXT SUMMARY' in out else out[-1500:]
    fields = {}
    for key in ('Axioms', 'Constants/Inductives relying on type-in-type',
                'Constants/Inductives relying on unsafe (co)fixpoints',
                'Inductives whose positivity is assumed'):
        m = re.search(r'\* ' + re.escape(key) + r':\s*(.*?)(?=\n\s*\n\* |\Z)', summ, re.S)
        fields[key] = re.sub(r'\s+', ' ', m.group(1)).strip() if m else '?'
    return rc == 0, fields, summ[-1500:]


def _run_shard(args):
    path, = args
    rc, out = sh('coqc -Q . TM -w none %s' % path, COQC_TIMEOUT, cwd=COQ)
    return path, rc, out


def coq_eval(pid, imports, case_type, check_fn, terms, shard=400, tag='cases'):
    """Evaluate check_fn on every case term inside Coq.  Returns (codes, error):
    codes is a list of verdict codes (0 for agreeing cases), error is None or a log."""
    # one directory per harness process, so concurrent runs of the same property do not collide
    wd = os.path.join(WORK, pid, 'run_%d' % os.getpid())
    os.makedirs(wd, exist_ok=True)
    for f in glob.glob(os.path.join(wd, tag + '_*')):
        os.remove(f)
    shards = []
    # shard by count and by size (a multi-MB literal is slow to parse)
    cur, size = [], 0
    for i, t in enumerate(terms):
        cur.append((i, t))
        size += len(t)
        if len(cur) >= shard or size > 600000:
            shards.append(cur)
            cur, size = [], 0
    if cur:
        shards.append(cur)
    paths = []
    for k, sh_cases in enumerate(shards):
        path = os.path.join(wd, '%s_%d.v' % (tag, k))
        with open(path, 'w') as f:
            f.write('From TM Require Import Base.Prelude %s.\n' % ' '.join(imports))
            f.write('Open Scope Z_scope.\n')
            f.write('Definition cases : list %s := [\n' % case_type)
            f.write(';\n'.join(t for _, t in sh_cases))
            f.write('\n].\n')
            f.write('Eval vm_compute in (bad %s cases).\n' % check_fn)
        paths.append(path)
    codes = [0] * len(terms)
    with concurrent.futures.ThreadPoolExecutor(max_workers=12) as ex:
        results = list(ex.map(_run_shard, [(os.path.relpath(p, COQ),) for p in paths]))
    for k, (path, rc, out) in enumerate(results):
        if rc != 0:
            return None, 'coqc failed on %s:\n%s' % (path, out[-3000:])
        flat = re.sub(r'\s+', '', out).replace('%nat', '')
        m = re.search(r'=\[(.*?)\]:list\(nat\*nat\)', flat)
        if not m:
            return None, 'cannot parse coqc output for %s:\n%s' % (path, out[-2000:])
        pairs = re.findall(r'\((\d+),(\d+)\)', m.group(1))
        if m.group(1) and len(pairs) != m.group(1).count('('):
            return None, 'cannot parse verdict list for %s: %s' % (path, m.group(1)[:500])
        for a, b in pairs:
            codes[shards[k][int(a)][0]] = int(b)
    # drop stale per-process directories of earlier runs (keep the most recent few for inspection)
    try:
        runs = sorted(glob.glob(os.path.join(WORK, pid, 'run_*')), key=os.path.getmtime)
        for old in runs[:-3]:
            # only directories no concurrent run can still be using
            if old != wd and time.time() - os.path.getmtime(old) > 3 * 3600:
                shutil.rmtree(old, ignore_errors=True)
    except Exception:
        pass
    for p in paths:  # keep .v for inspection, drop compiled output
        for ext in ('.vo', '.vok', '.vos', '.glob'):
            q_ = p[:-2] + ext
            if os.path.exists(q_):
                os.remove(q_)
        aux = os.path.join(os.path.dirname(p), '.' + os.path.basename(p)[:-2] + '.aux')
        if os.path.exists(aux):
            os.remove(aux)
    return codes, None


# ----------------------------------------------------------------------------------------
# environment for running the implementation

def repo_source_hash():
    h = hashlib.sha256()
    for f in sorted(glob.glob(os.path.join(REPO, 'tangermeme', '**', '*.py'), recursive=True)):
        h.update(f.encode())
        h.update(open(f, 'rb').read())
    return h.hexdigest()[:16]


def setup_numba_cache():
    """Compiled numba code is keyed by the hash of the current sources and kept outside /repo."""
    d = os.path.join(VERIF, '.cache', 'numba', repo_source_hash())
    os.makedirs(d, exist_ok=True)
    os.environ['NUMBA_CACHE_DIR'] = d
    # drop caches of other source versions (disk)
    base = os.path.dirname(d)
    others = sorted((o for o in os.listdir(base) if os.path.join(base, o) != d),
                    key=lambda o: os.path.getmtime(os.path.join(base, o)))
    for o in others[:-6]:
        shutil.rmtree(os.path.join(base, o), ignore_errors=True)
    os.utime(d)
    return d


def git_head(path):
    rc, out = sh('git -C %s rev-parse --short HEAD' % path, 20)
    return out.strip() if rc == 0 else '?'


def git_dirty(path):
    rc, out = sh('git -C %s status --porcelain --untracked-files=no' % path, 20)
    return bool(out.strip())


# ----------------------------------------------------------------------------------------
# known findings

def load_known_findings(pid):
    p = os.path.join(VERIF, 'KNOWN_FINDINGS.json')
    if not os.path.exists(p):
        return []
    data = json.load(open(p))
    return [e for e in data.get('findings', []) if e['property'] == pid and e.get('status') == 'open']


class Rng(random.Random):
    """All random choices of a run derive from one seed."""
    pass


def write_json(path, obj):
    os.makedirs(os.path.dirname(path), exist_ok=True)
    tmp = path + '.tmp'
    with open(tmp, 'w') as f:
        json.dump(obj, f, indent=1, sort_keys=True, default=str)
    os.replace(tmp, path)
