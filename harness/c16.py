"""C16 - extract_loci / read_meme: correspondence with coq/C16 (model + spec).

read_meme: MEME files are drawn from the grammar of coq/C16/Spec.v (the grammar tree is the
input; the harness renders it to bytes, Coq renders it again and compares a checksum), read by
the real io.read_meme, once in the drawn layout and once re-written in the plain layout, with
n_motifs = None / k, several times in a row on the same file.
extract_loci: synthetic genomes written as FASTA + bigwig + BED files and handed over as
in-memory arrays / DataFrames (and mixtures); both results go to Coq together with the genome.
One input is a SEQUENCE of calls made in one process on the same files and the same in-memory
objects, one parameter changed from call to call; afterwards the caller's objects are compared
with copies taken before the first call.
"""
import atexit
import contextlib
import copy
import hashlib
import io as _io
import json
import os
import pathlib
import shutil
from fractions import Fraction

import numpy

from . import common as C

PID = 'C16'
IMPORTS = ['C16.Model', 'C16.Spec']
CASE_TYPE = 'mcase'
CHECK = 'check_mcase'
SHARD = 60
RULE = ('extract_loci: synthetic genomes (1-4 chromosomes of 12-90 bases, upper/lower case, N runs; 0-3 '
        'signal and 0-2 in_signal integer tracks with uncovered stretches) written as FASTA+bigwig+BED and '
        'passed as arrays/DataFrames or mixtures of both (dtypes int8/bool/float32/int64/memmap, float32/'
        'float64/int64 signals, DataFrames with extra columns, int32/object columns, default / shuffled / '
        'reversed / duplicate / stale row labels; list / tuple / single containers; numpy integer and '
        'float parameters); 1-3 locus sets of unequal length with midpoints drawn mostly so that the '
        'expanded window ends within 2 positions of a chromosome end; in/out windows 1-14 (and = / > '
        'chromosome length) of both parities, in <,=,> out, jitter 0-3, chroms filters (incl. chromosome-'
        'sorted sets whose requested chromosomes are not the first, empty list, tuple), n_loci 0..kept+1, '
        'integer and half-integer min/max counts on the boundary, permuted / 5-letter alphabets. '
        'read_meme: files drawn from the grammar header . (MOTIF . other lines . letter line . w rows . '
        'separators*)* with 1-6 motifs, w 0-6, blank/URL/whitespace separators or none, LF/CRLF/mixed, '
        'with/without final newline, trailing blanks, decimal/exponent/signed tokens, n_motifs None/0..n+1, '
        'str / pathlib paths. 35 % of the inputs are sequences of 2-3 calls on the same objects with one '
        'parameter changed. '
        'non-trivial = some locus whose expanded window lies within max(w_in,w_out) of a chromosome end, '
        'or a MEME file in which some matrix is directly followed by the next MOTIF line or by the end '
        'of the file')
TRUSTED = ['pyfaidx and pyBigWig return the bytes / values written to the FASTA / bigwig files (not verified; '
           'the file-vs-array identity is a correspondence result)',
           'decoding of returned one-hot columns to the row index (-1 = all-zero, 99 = not one-hot) and of '
           'float signals to integers (non-integral -> sentinel) in harness/c16.py',
           'Python float(token) vs the exact decimal of the token: compared in Coq with relative '
           'tolerance 1e-12 on Fraction(float)']
ASSUMPTIONS = ['chromosome names are modelled as integer ids (chr<id>)',
               'an uncovered bigwig position / NaN array cell counts as the value 0 (numpy.nan_to_num)',
               'every genome character outside the alphabet is in `ignore` (generator invariant)',
               'signals=None with in_signals and out_window//2 > in_window//2 is outside the scope (the text '
               'does not define the expanded window there)']

_TMP = None
_CACHE = {}


def tmpdir():
    global _TMP
    if _TMP is None:
        _TMP = '/tmp/c16_%d' % os.getpid()
        os.makedirs(_TMP, exist_ok=True)
        atexit.register(lambda: shutil.rmtree(_TMP, ignore_errors=True))
    return _TMP


# ------------------------------------------------------------------------------------------
# MEME grammar trees

def line_txt(t):
    return t['lead'] + ''.join(tok + sep for tok, sep in t['toks'])


def file_lines(g):
    ls = [(r['txt'], r['crlf']) for r in g['header']]
    for b in g['blocks']:
        ls.append(('MOTIF ' + b['name'], b['crlf']))
        ls += [(r['txt'], r['crlf']) for r in b['mid']]
        ls.append((line_txt(b['letter']), b['letter']['crlf']))
        ls += [(line_txt(t), t['crlf']) for t in b['rows']]
        ls += [(r['txt'], r['crlf']) for r in b['sep']]
    return ls


def render(g):
    ls = file_lines(g)
    out = []
    for k, (txt, crlf) in enumerate(ls):
        out.append(txt)
        if k + 1 < len(ls) or g['final_nl']:
            out.append('\r\n' if crlf else '\n')
    return ''.join(out).encode('ascii')


def plain_layout(g):
    """Same motifs (names, row tokens), written the way MEME itself lays a file out."""
    out = ['MEME version 4\n\nALPHABET= ACGT\n\nstrands: + -\n\n'
           'Background letter frequencies\nA 0.25 C 0.25 G 0.25 T 0.25\n\n']
    for b in g['blocks']:
        out.append('MOTIF %s\n' % b['name'])
        out.append('letter-probability matrix: alength= 4 w= %d nsites= 20 E= 0\n' % len(b['rows']))
        for t in b['rows']:
            out.append(' ' + '  '.join(tok for tok, _ in t['toks']) + '\n')
        out.append('URL http://example.org/%d\n\n' % len(out))
    return ''.join(out).encode('ascii')



def meme_steps(inp):
    """the calls of one read_meme input: n_motifs of the first call, then of the later ones"""
    return [inp.get('n_motifs')] + [s.get('n_motifs') for s in inp.get('then', [])]


def motifs_out(motifs):
    out = []
    for k, v in motifs.items():
        out.append([k, [[str(Fraction(float(x))) for x in r] for r in v.tolist()]])
    return out


def run_meme(inp):
    from tangermeme.io import read_meme
    files = [('m.meme', render(inp)), ('p.meme', plain_layout(inp))]
    paths = []
    for name, data in files:
        p = os.path.join(tmpdir(), name)
        with open(p, 'wb') as f:
            f.write(data)
        paths.append(p)
    steps = []
    earlier = []
    ok = True
    try:
        for k, n in enumerate(meme_steps(inp)):
            if n is not None and inp.get('np_int'):
                n = numpy.int64(n)
            outs = []
            for p in paths:
                arg = pathlib.Path(p) if (inp.get('pathlib') and k % 2 == 0) else p
                try:
                    motifs = read_meme(arg) if n is None else read_meme(arg, n_motifs=n)
                    outs.append(motifs_out(motifs))
                    # scribble over what was returned: a later call must not hand it out again
                    earlier.append((motifs, copy.deepcopy(outs[-1])))
                    for v in motifs.values():
                        if v.numel():
                            v.fill_(7.0)
                except Exception:
                    outs.append(None)
            steps.append(outs)
    finally:
        for (_, data), p in zip(files, paths):
            ok = ok and open(p, 'rb').read() == data       # the file itself is left alone
            os.remove(p)
    return {'steps': steps, 'unmodified': ok, 'hash': file_hash(files[0][1]),
            'file': files[0][1].decode('latin-1')}


# ------------------------------------------------------------------------------------------
# genomes as files and as arrays

def chrom_name(i):
    return 'chr%d' % i


def norm_inp(inp):
    """defaults for the fields older corpus / replay files do not have"""
    inp = dict(inp)
    if 'min2' not in inp:
        inp['min2'] = None if inp.get('min') is None else 2 * inp['min']
        inp['max2'] = None if inp.get('max') is None else 2 * inp['max']
    inp.setdefault('nin', 0)
    inp.setdefault('alpha', 'ACGT')
    inp.setdefault('ignore', ['N'])
    inp.setdefault('then', [])
    inp.setdefault('dfindex', None)
    f = dict(inp.get('forms') or {})
    f.setdefault('container', 'list' if (inp.get('aslist', True) or len(inp['sets']) > 1) else 'single')
    f.setdefault('bed_extra', False)
    f.setdefault('df_extra', False)
    f.setdefault('df_dtype', 'int64')
    f.setdefault('seq_dtype', 'int8')
    f.setdefault('sig_dtype', 'float32')
    f.setdefault('np_int', False)
    f.setdefault('count_type', 'py')
    f.setdefault('chroms_tuple', False)
    f.setdefault('mem', {'loci': 'df', 'seq': 'dict', 'sig': 'dict', 'insig': 'dict'})
    inp['forms'] = f
    inp['genome'] = [dict(c, insig=c.get('insig', [])) for c in inp['genome']]
    return inp


def write_bw(path, genome, key, t):
    import pyBigWig
    bw = pyBigWig.open(path, 'w')
    bw.addHeader([(chrom_name(c['id']), len(c['seq'])) for c in genome])
    for c in genome:
        v = c[key][t]
        pos = [i for i, x in enumerate(v) if x is not None]
        if pos:
            bw.addEntries([chrom_name(c['id'])] * len(pos), pos, ends=[i + 1 for i in pos],
                          values=[float(v[i]) for i in pos])
    bw.close()


def genome_files(inp):
    key = hashlib.sha1(json.dumps([inp['genome'], inp['nsig'], inp['nin']], sort_keys=True).encode()).hexdigest()[:16]
    if key in _CACHE:
        return _CACHE[key]
    d = os.path.join(tmpdir(), key)
    os.makedirs(d, exist_ok=True)
    fa = os.path.join(d, 'g.fa')
    with open(fa, 'w') as f:
        for c in inp['genome']:
            f.write('>%s\n' % chrom_name(c['id']))
            s = c['seq']
            for i in range(0, len(s), 23):
                f.write(s[i:i + 23] + '\n')
    bws, ibws = [], []
    for t in range(inp['nsig']):
        bws.append(os.path.join(d, 's%d.bw' % t))
        write_bw(bws[-1], inp['genome'], 'sig', t)
    for t in range(inp['nin']):
        ibws.append(os.path.join(d, 'i%d.bw' % t))
        write_bw(ibws[-1], inp['genome'], 'insig', t)
    if len(_CACHE) > 64:
        k0, (fa0, _, _) = next(iter(_CACHE.items()))
        shutil.rmtree(os.path.dirname(fa0), ignore_errors=True)
        del _CACHE[k0]
    _CACHE[key] = (fa, bws, ibws)
    return fa, bws, ibws


def seq_arrays(inp, alpha):
    dt = inp['forms']['seq_dtype']
    out = {}
    for c in inp['genome']:
        a = numpy.zeros((len(alpha), len(c['seq'])), dtype=numpy.int8)
        for i, ch in enumerate(c['seq'].upper()):
            if ch in alpha:
                a[alpha.index(ch), i] = 1
        if dt == 'memmap':
            p = os.path.join(tmpdir(), 'mm_%d_%d.dat' % (c['id'], len(_KEEP)))
            m = numpy.memmap(p, dtype=numpy.int8, mode='w+', shape=a.shape)
            m[:] = a
            m.flush()
            a = numpy.memmap(p, dtype=numpy.int8, mode='r', shape=a.shape)
            _KEEP.append(p)
        elif dt != 'int8':
            a = a.astype({'float32': numpy.float32, 'int64': numpy.int64, 'bool': bool}[dt])
        out[chrom_name(c['id'])] = a
    return out


_KEEP = []


def sig_arrays(inp, key, n):
    dt = inp['forms']['sig_dtype']
    out = [dict() for _ in range(n)]
    for c in inp['genome']:
        for t in range(n):
            if dt == 'int64':
                a = numpy.array([0 if x is None else x for x in c[key][t]], dtype=numpy.int64)
            else:
                a = numpy.array([numpy.nan if x is None else float(x) for x in c[key][t]],
                                dtype=numpy.float32 if dt == 'float32' else numpy.float64)
            out[t][chrom_name(c['id'])] = a
    return out


def decode_rows(y, nsig, nin):
    if not isinstance(y, (list, tuple)):
        y = [y]
    y = list(y)
    X = y.pop(0)
    S = y.pop(0).tolist() if nsig else None
    I = y.pop(0).tolist() if nin else None
    X = X.numpy() if hasattr(X, 'numpy') else numpy.asarray(X)
    rows = []

    def ints(tracks):
        return [[int(v) if (v == v and float(v) == int(v)) else -999983 for v in tr] for tr in tracks]
    for i in range(X.shape[0]):
        codes = []
        for col in X[i].T.tolist():
            nz = [k for k, v in enumerate(col) if v != 0]
            if not nz:
                codes.append(-1)
            elif len(nz) == 1 and col[nz[0]] == 1:
                codes.append(nz[0])
            else:
                codes.append(99)
        rows.append([codes, ints(S[i]) if nsig else [], ints(I[i]) if nin else []])
    return rows


def step_params(inp):
    """the parameter sets of the calls of one input (first call + one per `then` entry)"""
    keys = ('chroms', 'win', 'wout', 'jit', 'min2', 'max2', 'tgt', 'nloci', 'alpha', 'ignore')
    cur = {k: inp[k] for k in keys}
    out = [dict(cur)]
    for st in inp['then']:
        cur = dict(cur)
        cur.update({k: v for k, v in st.items() if k in keys})
        out.append(cur)
    return out


def count_value(v2, typ):
    if v2 is None:
        return None
    v = v2 // 2 if v2 % 2 == 0 else v2 / 2.0
    if typ == 'float':
        return float(v)
    if typ == 'np32':
        return numpy.float32(v)
    if typ == 'np64':
        return numpy.float64(v)
    return v


def snapshot(objs):
    import pandas
    out = []
    for o in objs:
        if isinstance(o, pandas.DataFrame):
            out.append(('df', o.copy(deep=True), list(o.columns), list(o.index)))
        elif isinstance(o, dict):
            out.append(('dict', {k: numpy.array(v, copy=True) for k, v in o.items()}))
        else:
            out.append(('obj', copy.deepcopy(o)))
    return out


def same(objs, snaps):
    for o, s in zip(objs, snaps):
        if s[0] == 'df':
            if list(o.columns) != s[2] or list(o.index) != s[3] or not o.equals(s[1]):
                return False
        elif s[0] == 'dict':
            if set(o) != set(s[1]):
                return False
            for k in o:
                a, b = numpy.asarray(o[k]), s[1][k]
                if a.dtype != b.dtype or a.shape != b.shape or not numpy.array_equal(a, b, equal_nan=a.dtype.kind == 'f'):
                    return False
        elif o != s[1]:
            return False
    return True


def run_loci(inp):
    import pandas
    from tangermeme.io import extract_loci
    F = inp['forms']
    sets = [[(chrom_name(c), s, e) for c, s, e in st] for st in inp['sets']]
    fa, bws, ibws = genome_files(inp)
    # ---- BED files
    beds = []
    for i, st in enumerate(sets):
        p = os.path.join(tmpdir(), 'l%d.bed' % i)
        with open(p, 'w') as f:
            for k, l in enumerate(st):
                f.write('%s\t%d\t%d' % l + ('\tpeak%d\t%d\t+\n' % (k, 7 * k) if F['bed_extra'] else '\n'))
        beds.append(p)
    # ---- in-memory objects, built ONCE and reused by every call of the sequence
    idx = inp['dfindex'] or [None] * len(sets)
    dfs = []
    for st, ix in zip(sets, idx):
        df = pandas.DataFrame(st, columns=['chrom', 'start', 'end'], index=ix)
        if F['df_dtype'] == 'int32':
            df = df.astype({'start': numpy.int32, 'end': numpy.int32})
        elif F['df_dtype'] == 'object':
            df = df.astype({'start': object, 'end': object})
        if F['df_extra']:
            df['name'] = ['p%d' % k for k in range(len(df))]
            df['idx'] = 5                      # a column called like the one _interleave_loci adds
        dfs.append(df)
    sigd = sig_arrays(inp, 'sig', inp['nsig'])
    insd = sig_arrays(inp, 'insig', inp['nin'])
    seqd = {}
    M = F['mem']

    def pick(form, files, mems):
        if form in ('bed', 'bw', 'fasta'):
            return list(files)
        if form == 'mixed':
            return [f if k % 2 == 0 else m for k, (f, m) in enumerate(zip(files, mems))]
        return list(mems)

    def container(xs):
        if F['container'] == 'single' and len(xs) == 1:
            return xs[0]
        return tuple(xs) if F['container'] == 'tuple' else list(xs)
    loci_f, loci_m = container(beds), container(pick(M['loci'], beds, dfs))
    sig_f, sig_m = list(bws), pick(M['sig'], bws, sigd)
    ins_f, ins_m = list(ibws), pick(M['insig'], ibws, insd)
    watched = dfs + sigd + insd
    snaps = snapshot(watched)
    steps = []
    cast = (lambda v: numpy.int64(v)) if F['np_int'] else (lambda v: v)
    for P in step_params(inp):
        alpha = list(P['alpha'])
        if P['alpha'] not in seqd:
            seqd[P['alpha']] = seq_arrays(inp, alpha)
            watched.append(seqd[P['alpha']])
            snaps += snapshot([seqd[P['alpha']]])
        chroms = None if P['chroms'] is None else [chrom_name(i) for i in P['chroms']]
        if chroms is not None and F['chroms_tuple']:
            chroms = tuple(chroms)
        chroms0 = copy.deepcopy(chroms)
        kw = dict(chroms=chroms, in_window=cast(P['win']), out_window=cast(P['wout']),
                  max_jitter=cast(P['jit']), min_counts=count_value(P['min2'], F['count_type']),
                  max_counts=count_value(P['max2'], F['count_type']), target_idx=cast(P['tgt']),
                  n_loci=None if P['nloci'] is None else cast(P['nloci']))
        outs = []
        for mode in ('file', 'mem'):
            try:
                if mode == 'file':
                    with contextlib.redirect_stdout(_io.StringIO()):
                        y = extract_loci(loci_f, fa, signals=sig_f if inp['nsig'] else None,
                                         in_signals=ins_f if inp['nin'] else None,
                                         alphabet=alpha, ignore=list(P['ignore']), **kw)
                else:
                    seq = fa if M['seq'] == 'fasta' else seqd[P['alpha']]
                    with contextlib.redirect_stdout(_io.StringIO()):
                        y = extract_loci(loci_m, seq, signals=sig_m if inp['nsig'] else None,
                                         in_signals=ins_m if inp['nin'] else None,
                                         alphabet=alpha, ignore=list(P['ignore']), **kw)
                outs.append(decode_rows(y, inp['nsig'], inp['nin']))
            except Exception:
                outs.append(None)
        if chroms != chroms0:
            snaps.append(('obj', None))
            watched.append(0)
        steps.append(outs)
    return {'steps': steps, 'unmodified': same(watched, snaps)}


def run_impl(inp):
    if inp['kind'] == 'meme':
        return run_meme(inp)
    return run_loci(norm_inp(inp))


# ------------------------------------------------------------------------------------------
# Coq literals

# byte strings that coq/C16/Spec.v defines by name (shorter literals, same terms)
KNOWN = {
    "k_lp": "letter-probability",
    "k_lprob": "letter-prob",
    "k_letter": "letter",
    "k_matrix": "matrix:",
    "k_alength": "alength=",
    "k_w": "w=",
    "k_nsites": "nsites=",
    "k_E": "E=",
    "k_tiny": "1.2e-05",
    "k_h0": "MEME version 4",
    "k_h2": "ALPHABET= ACGT",
    "k_h4": "strands: + -",
    "k_h6": "Background letter frequencies",
    "k_h7": "A 0.25 C 0.25 G 0.25 T 0.25",
    "k_url": "URL http://jaspar.genereg.net/matrix/MA0001.1"
}
KNOWN = {v: k for k, v in KNOWN.items()}
P61 = 2305843009213693951


def file_hash(data):
    h = len(data)
    for b in data:
        h = (h * 257 + b + 1) % P61
    return h


def bts(s):
    if isinstance(s, bytes):
        s = s.decode('latin-1')
    if s in KNOWN:
        return KNOWN[s]
    return C.zlist(list(s.encode('latin-1')))


def rline_lit(r):
    return '(mkR %s %s)' % (bts(r['txt']), C.boolean(r['crlf']))


def tline_lit(t):
    return '(mkT %s %s %s)' % (bts(t['lead']),
                               C.lst(['(%s, %s)' % (bts(a), bts(b)) for a, b in t['toks']]),
                               C.boolean(t['crlf']))


def block_lit(b):
    return '(mkB %s %s %s %s %s %s)' % (
        bts(b['name']), C.boolean(b['crlf']), C.lst([rline_lit(r) for r in b['mid']]),
        tline_lit(b['letter']), C.lst([tline_lit(t) for t in b['rows']]),
        C.lst([rline_lit(r) for r in b['sep']]))


def qlit(s):
    """exact value of a double, as m / 2^e"""
    fr = Fraction(s)
    e = fr.denominator.bit_length() - 1
    assert fr.denominator == 1 << e
    return '(mkd %s %d)' % (C.z(fr.numerator), e)



def meme_out_lit(o):
    if o is None:
        return 'Err'
    return '(Ok (VMeme %s))' % C.lst(
        ['(%s, %s)' % (bts(k), C.lst([C.lst([qlit(x) for x in r]) for r in M])) for k, M in o])


def loci_out_lit(o):
    if o is None:
        return 'Err'
    return '(Ok (VLoci %s))' % C.lst(['(%s, %s, %s)' % (C.zlist(sq), C.zmat(sg), C.zmat(ig)) for sq, sg, ig in o])


def pair_lit(call, o1, o2, h):
    if o1 == o2 and len(o1) > 40:      # same literal: let Coq check it once
        return '(let o := %s in (%s, o, o, %s))' % (o1, call, h)
    return '(%s, %s, %s, %s)' % (call, o1, o2, h)


def coq_case(inp, out):
    if inp['kind'] == 'meme':
        g = '(mkF %s %s %s)' % (C.lst([rline_lit(r) for r in inp['header']]),
                                C.lst([block_lit(b) for b in inp['blocks']]),
                                C.boolean(inp['final_nl']))
        cases = []
        for n, (o1, o2) in zip(meme_steps(inp), out['steps']):
            cases.append(pair_lit('(CMeme g %s)' % C.opt(n), meme_out_lit(o1), meme_out_lit(o2),
                                  C.z(out['hash'])))
        return '(let g := %s in (%s, %s))' % (g, C.lst(cases), C.boolean(out['unmodified']))
    inp = norm_inp(inp)
    gen = C.lst(['(mkChrom %s %s %s %s)' % (
        C.z(c['id']), bts(c['seq']),
        C.zmat([[0 if v is None else v for v in t] for t in c['sig'][:inp['nsig']]]),
        C.zmat([[0 if v is None else v for v in t] for t in c['insig'][:inp['nin']]]))
        for c in inp['genome']])
    sets = C.lst([C.lst(['(mkLocus %s %s %s)' % (C.z(c), C.z(s), C.z(e)) for c, s, e in st])
                  for st in inp['sets']])
    cases = []
    for P, (o1, o2) in zip(step_params(inp), out['steps']):
        chroms = 'None' if P['chroms'] is None else '(Some %s)' % C.zlist(P['chroms'])
        call = '(CLoci (mkX g s %s %s %s %s %d %d %s %s %d %s %s))' % (
            chroms, C.z(P['win']), C.z(P['wout']), C.z(P['jit']), inp['nsig'], inp['nin'],
            C.opt(P['min2']), C.opt(P['max2']), P['tgt'], C.opt(P['nloci']),
            C.zlist([ord(ch) for ch in P['alpha']]))
        cases.append(pair_lit(call, loci_out_lit(o1), loci_out_lit(o2), '0'))
    return '(let g := %s in let s := %s in (%s, %s))' % (gen, sets, C.lst(cases),
                                                         C.boolean(out['unmodified']))


# ------------------------------------------------------------------------------------------
# evidence helpers

def near_edge(inp):
    lens = {c['id']: len(c['seq']) for c in inp['genome']}
    W = max(inp['win'], inp['wout'] if inp['nsig'] else 0)
    for st in inp['sets']:
        for c, s, e in st:
            if c in lens and (inp['chroms'] is None or c in inp['chroms']):
                mid = s + (e - s) // 2
                if mid <= W or lens[c] - mid <= W:
                    return True
    return False


def nontrivial(inp, out):
    if inp['kind'] == 'meme':
        return any(not b['sep'] for b in inp['blocks'])
    return near_edge(inp)


def hist_key(inp, out):
    n = 1 + len(inp.get('then') or [])
    if inp['kind'] == 'meme':
        return 'meme/%dmotifs/%s/%dcalls' % (len(inp['blocks']), 'nl' if inp['final_nl'] else 'no-final-nl', n)
    o = out['steps'][0][0]
    return 'loci/%dsets/%s/%dcalls' % (len(inp['sets']), 'raise' if o is None else 'rows', n)


def tags(inp, out):
    return set()


# ------------------------------------------------------------------------------------------
# generators

HEADER = ['MEME version 4', '', 'ALPHABET= ACGT', '', 'strands: + -', '',
          'Background letter frequencies', 'A 0.25 C 0.25 G 0.25 T 0.25', '']
NAMECH = 'ABCDEFGHIJKLMNOPQRSTUVWXYZabcdefghijklmnopqrstuvwxyz0123456789._-:()'


def gen_token(rng):
    k = rng.random()
    if k < 0.55:
        return '%.6f' % rng.random()
    if k < 0.65:
        return rng.choice(['0.25', '0.250000', '1', '0', '1.000000', '0.000000', '0.5', '.5', '1.',
                           '+0.5', '-0.0', '1e0', '0.142857', '0.015873'])
    if k < 0.8:
        return '%.3e' % (rng.random() * 10 ** rng.randint(-6, 0))
    if k < 0.9:
        return ('%.2E' % rng.random()).replace('E-0', 'E-')
    return '%.*f' % (rng.randint(1, 12), rng.random())


def gen_tline(rng, toks, crlf, lead_ok=True, messy=False):
    lead = rng.choice(['', ' ', '  ', '\t']) if lead_ok else ''
    out = []
    for k, t in enumerate(toks):
        last = k + 1 == len(toks)
        if last:
            sep = rng.choice(['', '', ' ', '  ', ' \t']) if messy else ''
        else:
            sep = rng.choice([' ', '  ', '\t', '   ']) if messy else ' '
        out.append([t, sep])
    if not messy and lead_ok:
        lead = rng.choice(['', ' '])
    return {'lead': lead, 'toks': out, 'crlf': crlf}


def gen_name(rng, used):
    while True:
        k = rng.random()
        if k < 0.5:
            nm = 'MA%04d.%d %s' % (rng.randint(0, 9999), rng.randint(1, 3),
                                   ''.join(rng.choice(NAMECH) for _ in range(rng.randint(1, 6))))
        elif k < 0.8:
            nm = ''.join(rng.choice(NAMECH + ' ') for _ in range(rng.randint(1, 10)))
        elif k < 0.9:
            nm = rng.choice(['xMOTIFy', 'MOTIF', 'a MOTIF', 'MOTIFS b', 'MOTIF\tc']) + str(rng.randint(0, 99))
        else:
            nm = ''.join(rng.choice(NAMECH) for _ in range(rng.randint(1, 5))) + rng.choice([' ', '  ', '\t', ' \t '])
        if 'MOTIF ' in nm or nm in used:
            continue
        used.add(nm)
        return nm


def gen_meme(rng, small=False):
    style = rng.choice(['lf', 'lf', 'crlf', 'mixed'])
    crlf = (lambda: style == 'crlf') if style != 'mixed' else (lambda: rng.random() < 0.5)
    messy = rng.random() < 0.4
    k = rng.random()
    if k < 0.6:
        header = [{'txt': t, 'crlf': crlf()} for t in HEADER]
    elif k < 0.75:
        header = []
    else:
        header = [{'txt': rng.choice(['', ' ', 'MEME version 5', 'x MOTIF y', 'letter', 'motif a', '\t',
                                      'Background letter frequencies', 'A 0.3 C 0.2 G 0.2 T 0.3']),
                   'crlf': crlf()} for _ in range(rng.randint(1, 4))]
    nb = rng.randint(1, 3 if small else 6)
    tight = rng.random() < 0.3         # motifs follow each other without separating lines
    used = set()
    blocks = []
    for _b in range(nb):
        w = rng.choice([0, 1, 1, 2, 2, 3, 3, 4, 5, 6]) if not small else rng.choice([1, 2])
        mid = []
        if rng.random() < 0.25:
            mid = [{'txt': rng.choice(['', ' ', 'some text', 'Letter x', ' letter', 'URL u', 'MOTI']),
                    'crlf': crlf()} for _ in range(rng.randint(1, 2))]
        first = rng.choice(['letter-probability', 'letter-probability', 'letter-prob', 'letter'])
        ltoks = [first, 'matrix:', 'alength=', '4', 'w=', str(w)]
        if rng.random() < 0.8:
            ltoks += ['nsites=', str(rng.randint(1, 500)), 'E=', rng.choice(['0', '1.2e-05'])]
        letter = gen_tline(rng, ltoks, crlf(), lead_ok=False, messy=messy)
        rows = [gen_tline(rng, [gen_token(rng) for _ in range(4)], crlf(), messy=messy) for _ in range(w)]
        if tight or rng.random() < 0.15:
            sep = []
        else:
            sep = [{'txt': rng.choice(['', '', '', 'URL http://jaspar.genereg.net/matrix/MA0001.1', ' ', '\t',
                                       'URL x']), 'crlf': crlf()} for _ in range(rng.randint(1, 3))]
        blocks.append({'name': gen_name(rng, used), 'crlf': crlf(), 'mid': mid, 'letter': letter,
                       'rows': rows, 'sep': sep})
    g = {'kind': 'meme', 'header': header, 'blocks': blocks, 'final_nl': rng.random() < 0.5}
    ls = file_lines(g)
    if not g['final_nl'] and ls and ls[-1][0] == '':
        g['final_nl'] = True
    return g



def gen_meme_call(rng, small=False):
    g = gen_meme(rng, small)
    nb = len(g['blocks'])
    pick = lambda: rng.choice([None, None, 0, 1, 1, nb - 1, nb, nb + 1, rng.randint(1, nb)])
    if rng.random() < 0.4:
        g['n_motifs'] = pick()
    if rng.random() < 0.35:
        g['then'] = [{'n_motifs': pick()} for _ in range(rng.randint(1, 2))]
    g['np_int'] = rng.random() < 0.3
    g['pathlib'] = rng.random() < 0.3
    return g


BASES = 'ACGTacgt'


def gen_genome(rng, nsig, nin):
    out = []
    ids = rng.sample(range(1, 9), rng.randint(1, 4))
    for i in ids:
        L = rng.choice([12, 15, 20, 24, 31, 40, 57, 90])
        s = [rng.choice(BASES) for _ in range(L)]
        for _ in range(rng.randint(0, 2)):
            a = rng.randrange(L)
            for p in range(a, min(L, a + rng.randint(1, 6))):
                s[p] = rng.choice('NNn')

        def track():
            v = [rng.choice([0, 0, 1, 1, 2, 3, 5, 8]) for _ in range(L)]
            if rng.random() < 0.3:
                a = rng.randrange(L)
                for p in range(a, min(L, a + rng.randint(1, 5))):
                    v[p] = None
            if all(x is None for x in v):
                v[0] = 1
            return v
        out.append({'id': i, 'seq': ''.join(s), 'sig': [track() for _ in range(nsig)],
                    'insig': [track() for _ in range(nin)]})
    return out


def gen_forms(rng, nsets):
    plain = rng.random() < 0.35
    if plain:
        return {'container': 'list' if nsets > 1 or rng.random() < 0.5 else 'single'}
    return {
        'container': rng.choice(['list', 'tuple'] + (['single'] if nsets == 1 else [])),
        'bed_extra': rng.random() < 0.3,
        'df_extra': rng.random() < 0.3,
        'df_dtype': rng.choice(['int64', 'int64', 'int32', 'object']),
        'seq_dtype': rng.choice(['int8', 'int8', 'float32', 'int64', 'bool', 'memmap']),
        'sig_dtype': rng.choice(['float32', 'float32', 'float64', 'int64']),
        'np_int': rng.random() < 0.3,
        'count_type': rng.choice(['py', 'py', 'float', 'np32', 'np64']),
        'chroms_tuple': rng.random() < 0.3,
        'mem': {'loci': rng.choice(['df', 'df', 'df', 'mixed', 'bed']),
                'seq': rng.choice(['dict', 'dict', 'dict', 'fasta']),
                'sig': rng.choice(['dict', 'dict', 'mixed', 'bw']),
                'insig': rng.choice(['dict', 'dict', 'mixed', 'bw'])},
    }


def gen_alpha(rng):
    k = rng.random()
    if k < 0.7:
        return 'ACGT', rng.choice([['N'], ['N'], ['N', 'X']])
    if k < 0.9:
        a = list('ACGT')
        rng.shuffle(a)
        return ''.join(a), ['N']
    return rng.choice(['ACGTN', 'NACGT']), rng.choice([[], ['X']])


def gen_loci(rng):
    nsig = rng.choice([0, 1, 1, 2, 3])
    nin = rng.choice([0, 0, 0, 1, 2])
    genome = gen_genome(rng, nsig, nin)
    lens = {c['id']: len(c['seq']) for c in genome}
    Lmin = min(lens.values())
    win = rng.choice([1, 2, 3, 4, 5, 6, 7, 8, 9, 10, 13, 14, Lmin - 1, Lmin, Lmin + 1])
    wout = rng.choice([win, win - 1, win + 1, 1, 2, 3, 4, 5, 6, 7, 8, 11, 12, Lmin])
    win, wout = max(1, win), max(1, wout)
    if nsig == 0 and nin and rng.random() < 0.85:
        wout = rng.randint(1, win + (1 if win % 2 == 0 else 0))     # out window inside the in window
        if wout // 2 > win // 2:
            wout = win
    jit = rng.choice([0, 0, 0, 1, 2, 3])
    W = max(win // 2, (wout // 2) if (nsig or nin) else 0) + jit
    ids = list(lens)
    chroms = None
    extra = []
    if rng.random() < 0.35:
        chroms = sorted(rng.sample(ids, rng.randint(1, len(ids))))
        if rng.random() < 0.3:
            extra = [99]             # a chromosome absent from the genome, excluded by chroms
        if rng.random() < 0.05:
            chroms = []
    nsets = rng.choice([1, 1, 2, 2, 3])
    sets = []
    for _s in range(nsets):
        st = []
        for _l in range(rng.choice([1, 2, 3, 4, 5, 7, 9])):
            c = rng.choice(ids + extra)
            L = lens.get(c, 30)
            k = rng.random()
            if k < 0.3:
                mid = W + rng.randint(-2, 2)                 # left end: lo = -2..2
            elif k < 0.6:
                mid = L - W + rng.randint(-3, 1)             # right end
            else:
                mid = rng.randint(0, L)
            h = rng.randint(0, 6)
            odd = rng.randint(0, 1)
            if rng.random() < 0.05:
                st.append([c, mid + h + odd, mid - h])       # end < start: (end-start)//2 floors
            else:
                st.append([c, mid - h, mid + h + odd])
        sets.append(st)
    if chroms and rng.random() < 0.6:
        # BED-like files sorted by chromosome; the requested chromosomes are not the first ones,
        # so the filter removes prefixes / middles of different lengths in the different sets
        order = ids + extra
        rng.shuffle(order)
        sets = [sorted(st, key=lambda l: order.index(l[0])) for st in sets]
        rest = [c for c in order[1:] if c in lens]
        if rest:
            chroms = sorted(rng.sample(rest, rng.randint(1, len(rest))))
    mn = mx = None
    if nsig and rng.random() < 0.4:
        typ = (wout + 2 * jit) * 4
        if rng.random() < 0.7:
            mn = rng.randint(0, typ + 8)
        if rng.random() < 0.5:
            mx = rng.randint(max(0, typ - 12), typ + 20)
    alpha, ignore = gen_alpha(rng)
    inp = {'kind': 'loci', 'genome': genome, 'sets': sets, 'chroms': chroms, 'win': win, 'wout': wout,
           'jit': jit, 'nsig': nsig, 'nin': nin, 'min2': mn, 'max2': mx,
           'tgt': rng.randrange(nsig) if nsig else 0,
           'nloci': rng.choice([None, None, None, 0, 1, 2, 3, 5]), 'alpha': alpha, 'ignore': ignore,
           'forms': gen_forms(rng, nsets), 'dfindex': gen_dfindex(rng, sets), 'then': []}
    if rng.random() < 0.35:
        inp['then'] = [gen_step(rng, inp) for _ in range(rng.randint(1, 2))]
    return inp


def gen_step(rng, inp):
    """one parameter changed for the next call on the same objects"""
    ids = [c['id'] for c in inp['genome']]
    k = rng.choice(['win', 'wout', 'jit', 'chroms', 'nloci', 'alpha', 'counts', 'tgt', 'same'])
    if k == 'win':
        w = max(1, inp['win'] + rng.choice([-1, 1, 2, -2]))
        if inp['nsig'] == 0 and inp['nin'] and inp['wout'] // 2 > w // 2:
            return {}
        return {'win': w}
    if k == 'wout':
        if inp['nsig'] == 0 and inp['nin']:
            return {}
        return {'wout': max(1, inp['wout'] + rng.choice([-1, 1, 2, -2]))}
    if k == 'jit':
        return {'jit': rng.choice([0, 1, 2])}
    if k == 'chroms':
        return {'chroms': rng.choice([None, sorted(rng.sample(ids, rng.randint(1, len(ids))))])}
    if k == 'nloci':
        return {'nloci': rng.choice([None, 0, 1, 2, 4])}
    if k == 'alpha':
        a, ig = gen_alpha(rng)
        return {'alpha': a, 'ignore': ig}
    if k == 'counts' and inp['nsig']:
        return {'min2': rng.choice([None, rng.randint(0, 60)]), 'max2': rng.choice([None, rng.randint(10, 120)])}
    if k == 'tgt' and inp['nsig'] > 1:
        return {'tgt': rng.randrange(inp['nsig']), 'min2': rng.randint(0, 40)}
    return {}


def gen_dfindex(rng, sets):
    """row labels of the DataFrames handed to extract_loci (None = default RangeIndex)"""
    if rng.random() < 0.5:
        return None
    out = []
    for st in sets:
        n = len(st)
        k = rng.random()
        if k < 0.25:
            out.append(None)
        elif k < 0.5:
            ix = list(range(n))
            rng.shuffle(ix)
            out.append(ix)                                   # shuffled
        elif k < 0.65:
            out.append(list(range(n - 1, -1, -1)))          # reversed
        elif k < 0.8:
            out.append([rng.randint(0, 2) for _ in range(n)])   # duplicates
        elif k < 0.9:
            out.append([7 + 3 * i for i in range(n)])        # left over from an earlier filter
        else:
            out.append([rng.randint(-5, 40) for _ in range(n)])
    return out


def retarget(inp, rng):
    """re-target min/max/n_loci so that some locus sits exactly on the threshold / the cap equals
    the number of rows"""
    base = dict(inp, min2=None, max2=None, nloci=None, then=[], forms={'container': 'list'})
    out = run_loci(norm_inp(base))['steps'][0][1]
    if not out:
        return inp
    inp = dict(inp)
    k = rng.random()
    if k < 0.3:
        inp['nloci'] = len(out) + rng.choice([-1, 0, 0, 1])
    elif inp['nsig']:
        tot = sum(rng.choice(out)[1][inp['tgt']])
        if k < 0.65:
            inp['min2'] = 2 * tot + rng.choice([0, 0, 1, -1, 2])
        else:
            inp['max2'] = 2 * tot - rng.choice([0, 0, 1, -1, 2])
    return inp


def generate(tier, rng):
    quick = tier != 'thorough'
    n_loci_cases = 600 if quick else 4200
    n_meme = 320 if quick else 2400
    # a small systematic sweep: one locus at every position of a short chromosome, all window parities
    seq = 'ACGTNacgtnGATTACAgg'
    sig = [[(3 * i + 1) % 7 for i in range(len(seq))]]
    for win, wout, jit, nsig, nin in ((1, 1, 0, 0, 0), (2, 2, 0, 1, 0), (3, 2, 0, 1, 1), (2, 3, 1, 1, 0),
                                      (5, 8, 0, 1, 1), (8, 5, 1, 1, 0), (4, 4, 2, 0, 1), (7, 7, 0, 1, 0),
                                      (19, 19, 0, 1, 1), (18, 19, 0, 1, 0), (19, 18, 0, 1, 0), (20, 2, 0, 1, 0)):
        st = [[1, p, p] for p in range(-1, len(seq) + 2)]
        yield {'kind': 'loci', 'genome': [{'id': 1, 'seq': seq, 'sig': sig[:nsig], 'insig': sig[:nin]}],
               'sets': [st], 'chroms': None, 'win': win, 'wout': wout, 'jit': jit, 'nsig': nsig, 'nin': nin,
               'min2': None, 'max2': None, 'tgt': 0, 'nloci': None, 'alpha': 'ACGT', 'ignore': ['N'],
               'forms': {'container': 'single'}, 'dfindex': None, 'then': []}
    for k in range(n_loci_cases):
        inp = gen_loci(rng)
        if k % 4 == 0:
            inp = retarget(inp, rng)
        yield inp
    for k in range(n_meme):
        yield gen_meme_call(rng, small=(k % 4 == 0))


def shrink(inp):
    if inp.get('then'):
        yield dict(inp, then=[])
        T = inp['then']
        if inp['kind'] == 'meme':
            for i in range(len(T)):
                yield dict(inp, n_motifs=T[i].get('n_motifs'), then=[])
        else:
            cur = {}
            for i in range(len(T)):
                cur.update(T[i])
                yield dict(inp, then=[], **cur)
        for i in range(len(T)):
            yield dict(inp, then=T[:i] + T[i + 1:])
    if inp['kind'] == 'meme':
        B = inp['blocks']
        for i in range(len(B)):
            if len(B) > 1:
                yield dict(inp, blocks=B[:i] + B[i + 1:])
        if inp['header']:
            yield dict(inp, header=[])
            yield dict(inp, header=inp['header'][1:])
        for i, b in enumerate(B):
            if b['mid']:
                yield dict(inp, blocks=B[:i] + [dict(b, mid=[])] + B[i + 1:])
            if len(b['sep']) > 1:
                yield dict(inp, blocks=B[:i] + [dict(b, sep=b['sep'][:1])] + B[i + 1:])
            if len(b['rows']) > 1:
                w = len(b['rows']) - 1
                toks = [list(t) for t in b['letter']['toks']]
                toks[5][0] = str(w)
                yield dict(inp, blocks=B[:i] + [dict(b, rows=b['rows'][:w],
                                                     letter=dict(b['letter'], toks=toks))] + B[i + 1:])
        return
    inp = norm_inp(inp)
    inp.pop('min', None)
    inp.pop('max', None)
    if inp['forms'] != norm_inp(dict(inp, forms={'container': 'list'}))['forms']:
        yield dict(inp, forms={'container': 'list'})
    S = inp['sets']
    D = inp.get('dfindex') or [None] * len(S)
    if inp.get('dfindex'):
        yield dict(inp, dfindex=None)
    for i in range(len(S)):
        if len(S) > 1:
            yield dict(inp, sets=S[:i] + S[i + 1:], dfindex=D[:i] + D[i + 1:])
        for k in range(len(S[i])):
            if sum(len(s) for s in S) > 1:
                di = None if D[i] is None else D[i][:k] + D[i][k + 1:]
                yield dict(inp, sets=S[:i] + [S[i][:k] + S[i][k + 1:]] + S[i + 1:],
                           dfindex=D[:i] + [di] + D[i + 1:])
    used = {l[0] for s in S for l in s}
    G = inp['genome']
    if len(G) > 1:
        for i in range(len(G)):
            if G[i]['id'] not in used:
                yield dict(inp, genome=G[:i] + G[i + 1:])
    for key in ('min2', 'max2', 'nloci', 'chroms'):
        if inp[key] is not None:
            yield dict(inp, **{key: None})
    if inp['nin'] and (inp['nsig'] or inp['wout'] // 2 <= inp['win'] // 2):
        yield dict(inp, nin=0)
    if inp['alpha'] != 'ACGT':
        yield dict(inp, alpha='ACGT', ignore=['N'])
    if inp['jit'] > 0:
        yield dict(inp, jit=inp['jit'] - 1)


def search(rng, disagreeing):
    for _ in range(300):
        yield gen_loci(rng)
    for _ in range(200):
        yield gen_meme_call(rng, small=True)
