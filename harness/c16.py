"""C16 - extract_loci / read_meme: correspondence with coq/C16 (model + spec).

read_meme: MEME files are drawn from the grammar of coq/C16/Spec.v (the grammar tree is the
input; the harness renders it to bytes, Coq renders it again and compares), read by the real
io.read_meme, once in the drawn layout and once re-written in the plain layout.
extract_loci: synthetic genomes written as FASTA + bigwig + BED files and handed over as
in-memory arrays / DataFrames; both results go to Coq together with the genome.
"""
import atexit
import contextlib
import hashlib
import io as _io
import json
import os
import shutil
from fractions import Fraction

import numpy

from . import common as C

PID = 'C16'
IMPORTS = ['C16.Model', 'C16.Spec']
CASE_TYPE = 'case'
CHECK = 'check_case'
SHARD = 80
RULE = ('extract_loci: synthetic genomes (1-4 chromosomes of 12-90 bases, upper/lower case, N runs; 0-3 '
        'integer signal tracks with uncovered stretches) written as FASTA+bigwig+BED and passed as arrays/'
        'DataFrames; 1-3 locus sets of unequal length with midpoints drawn mostly so that the expanded '
        'window ends within 2 positions of a chromosome end; in/out windows 1-14 of both parities, '
        'in <,=,> out, jitter 0-3, chroms filters (incl. chromosome-sorted sets whose requested '
        'chromosomes are not the first, so prefixes/middles of different lengths are removed per set), '
        'DataFrames with default / shuffled / reversed / duplicate / stale row labels, n_loci caps, '
        'min/max counts on the boundary. '
        'read_meme: files drawn from the grammar header . (MOTIF . other lines . letter line . w rows . '
        'separators*)* with 1-6 motifs, w 0-6, blank/URL/whitespace separators or none, LF/CRLF/mixed, '
        'with/without final newline, trailing blanks, decimal/exponent tokens. '
        'non-trivial = some locus whose expanded window lies within max(w_in,w_out) of a chromosome end, '
        'or a MEME file in which some matrix is directly followed by the next MOTIF line or by the end '
        'of the file')
TRUSTED = ['pyfaidx and pyBigWig return the bytes / values written to the FASTA / bigwig files (not verified; '
           'the file-vs-array identity is a correspondence result)',
           'decoding of returned one-hot columns to codes 0-4 (9 = not one-hot) and of float signals to '
           'integers (non-integral -> sentinel) in harness/c16.py',
           'Python float(token) vs the exact decimal of the token: compared in Coq with relative '
           'tolerance 1e-12 on Fraction(float)']
ASSUMPTIONS = ['chromosome names are modelled as integer ids (chr<id>)',
               'an uncovered bigwig position / NaN array cell counts as the value 0 (numpy.nan_to_num)',
               'in_signals and n_motifs are outside the property text and are not exercised']

_TMP = None
_CACHE = {}


def tmpdir():
    global _TMP
    if _TMP is None:
        _TMP = '/tmp/c16_%d' % os.getpid()
        os.makedirs(_TMP, exist_ok=True)
        atexit.register(lambda: shutil.rmtree(_TMP, ignore_errors=True))
    return _TMP


# ------------------------------------------------------------------------------------------
# MEME grammar trees

def line_txt(t):
    return t['lead'] + ''.join(tok + sep for tok, sep in t['toks'])


def file_lines(g):
    ls = [(r['txt'], r['crlf']) for r in g['header']]
    for b in g['blocks']:
        ls.append(('MOTIF ' + b['name'], b['crlf']))
        ls += [(r['txt'], r['crlf']) for r in b['mid']]
        ls.append((line_txt(b['letter']), b['letter']['crlf']))
        ls += [(line_txt(t), t['crlf']) for t in b['rows']]
        ls += [(r['txt'], r['crlf']) for r in b['sep']]
    return ls


def render(g):
    ls = file_lines(g)
    out = []
    for k, (txt, crlf) in enumerate(ls):
        out.append(txt)
        if k + 1 < len(ls) or g['final_nl']:
            out.append('\r\n' if crlf else '\n')
    return ''.join(out).encode('ascii')


def plain_layout(g):
    """Same motifs (names, row tokens), written the way MEME itself lays a file out."""
    out = ['MEME version 4\n\nALPHABET= ACGT\n\nstrands: + -\n\n'
           'Background letter frequencies\nA 0.25 C 0.25 G 0.25 T 0.25\n\n']
    for b in g['blocks']:
        out.append('MOTIF %s\n' % b['name'])
        out.append('letter-probability matrix: alength= 4 w= %d nsites= 20 E= 0\n' % len(b['rows']))
        for t in b['rows']:
            out.append(' ' + '  '.join(tok for tok, _ in t['toks']) + '\n')
        out.append('URL http://example.org/%d\n\n' % len(out))
    return ''.join(out).encode('ascii')


def read_meme_file(data, name):
    from tangermeme.io import read_meme
    p = os.path.join(tmpdir(), name)
    with open(p, 'wb') as f:
        f.write(data)
    try:
        motifs = read_meme(p)
        out = []
        for k, v in motifs.items():
            M = v.tolist()
            out.append([k, [[str(Fraction(float(x))) for x in r] for r in M]])
        return out
    except Exception:
        return None
    finally:
        os.remove(p)


# ------------------------------------------------------------------------------------------
# genomes as files and as arrays

CODES = {'A': 0, 'C': 1, 'G': 2, 'T': 3}


def chrom_name(i):
    return 'chr%d' % i


def genome_files(inp):
    key = hashlib.sha1(json.dumps([inp['genome'], inp['nsig']], sort_keys=True).encode()).hexdigest()[:16]
    if key in _CACHE:
        return _CACHE[key]
    import pyBigWig
    d = os.path.join(tmpdir(), key)
    os.makedirs(d, exist_ok=True)
    fa = os.path.join(d, 'g.fa')
    with open(fa, 'w') as f:
        for c in inp['genome']:
            f.write('>%s\n' % chrom_name(c['id']))
            s = c['seq']
            for i in range(0, len(s), 23):
                f.write(s[i:i + 23] + '\n')
    bws = []
    for t in range(inp['nsig']):
        p = os.path.join(d, 's%d.bw' % t)
        bw = pyBigWig.open(p, 'w')
        bw.addHeader([(chrom_name(c['id']), len(c['seq'])) for c in inp['genome']])
        for c in inp['genome']:
            v = c['sig'][t]
            pos = [i for i, x in enumerate(v) if x is not None]
            if pos:
                bw.addEntries([chrom_name(c['id'])] * len(pos), pos, ends=[i + 1 for i in pos],
                              values=[float(v[i]) for i in pos])
        bw.close()
        bws.append(p)
    if len(_CACHE) > 64:
        k0, (fa0, _) = next(iter(_CACHE.items()))
        shutil.rmtree(os.path.dirname(fa0), ignore_errors=True)
        del _CACHE[k0]
    _CACHE[key] = (fa, bws)
    return fa, bws


def genome_arrays(inp):
    seqs, sigs = {}, [dict() for _ in range(inp['nsig'])]
    for c in inp['genome']:
        a = numpy.zeros((4, len(c['seq'])), dtype=numpy.int8)
        for i, ch in enumerate(c['seq'].upper()):
            if ch in CODES:
                a[CODES[ch], i] = 1
        seqs[chrom_name(c['id'])] = a
        for t in range(inp['nsig']):
            sigs[t][chrom_name(c['id'])] = numpy.array(
                [numpy.nan if x is None else float(x) for x in c['sig'][t]], dtype=numpy.float32)
    return seqs, sigs


def decode_rows(y, nsig):
    if nsig:
        X, S = y[0], y[1]
        S = S.tolist()
    else:
        X, S = y, None
    X = X.numpy() if hasattr(X, 'numpy') else numpy.asarray(X)
    rows = []
    for i in range(X.shape[0]):
        codes = []
        for col in X[i].T.tolist():
            if sorted(col) == [0, 0, 0, 1]:
                codes.append(col.index(1))
            elif col == [0, 0, 0, 0]:
                codes.append(4)
            else:
                codes.append(9)
        sig = []
        if nsig:
            for tr in S[i]:
                sig.append([int(v) if float(v) == int(v) else -999983 for v in tr])
        rows.append([codes, sig])
    return rows


def run_loci(inp, mode):
    import pandas
    from tangermeme.io import extract_loci
    kw = dict(chroms=None if inp['chroms'] is None else [chrom_name(i) for i in inp['chroms']],
              in_window=inp['win'], out_window=inp['wout'], max_jitter=inp['jit'],
              min_counts=inp['min'], max_counts=inp['max'], target_idx=inp['tgt'], n_loci=inp['nloci'])
    sets = [[(chrom_name(c), s, e) for c, s, e in st] for st in inp['sets']]
    try:
        if mode == 'file':
            fa, bws = genome_files(inp)
            beds = []
            for i, st in enumerate(sets):
                p = os.path.join(tmpdir(), 'l%d.bed' % i)
                with open(p, 'w') as f:
                    for l in st:
                        f.write('%s\t%d\t%d\n' % l)
                beds.append(p)
            loci = beds if (len(beds) > 1 or inp.get('aslist')) else beds[0]
            with contextlib.redirect_stdout(_io.StringIO()):
                y = extract_loci(loci, fa, signals=bws if inp['nsig'] else None, **kw)
        else:
            seqs, sigs = genome_arrays(inp)
            idx = inp.get('dfindex') or [None] * len(sets)
            dfs = [pandas.DataFrame(st, columns=['chrom', 'start', 'end'], index=ix)
                   for st, ix in zip(sets, idx)]
            loci = dfs if (len(dfs) > 1 or inp.get('aslist')) else dfs[0]
            y = extract_loci(loci, seqs, signals=sigs if inp['nsig'] else None, **kw)
        return decode_rows(y, inp['nsig'])
    except Exception:
        return None


def run_impl(inp):
    if inp['kind'] == 'meme':
        data = render(inp)
        return {'o1': read_meme_file(data, 'm.meme'), 'o2': read_meme_file(plain_layout(inp), 'p.meme'),
                'hash': file_hash(data), 'file': data.decode('latin-1')}
    return {'o1': run_loci(inp, 'file'), 'o2': run_loci(inp, 'mem')}


# ------------------------------------------------------------------------------------------
# Coq literals

# byte strings that coq/C16/Spec.v defines by name (shorter literals, same terms)
KNOWN = {
    "k_lp": "letter-probability",
    "k_lprob": "letter-prob",
    "k_letter": "letter",
    "k_matrix": "matrix:",
    "k_alength": "alength=",
    "k_w": "w=",
    "k_nsites": "nsites=",
    "k_E": "E=",
    "k_tiny": "1.2e-05",
    "k_h0": "MEME version 4",
    "k_h2": "ALPHABET= ACGT",
    "k_h4": "strands: + -",
    "k_h6": "Background letter frequencies",
    "k_h7": "A 0.25 C 0.25 G 0.25 T 0.25",
    "k_url": "URL http://jaspar.genereg.net/matrix/MA0001.1"
}
KNOWN = {v: k for k, v in KNOWN.items()}
P61 = 2305843009213693951


def file_hash(data):
    h = len(data)
    for b in data:
        h = (h * 257 + b + 1) % P61
    return h


def bts(s):
    if isinstance(s, bytes):
        s = s.decode('latin-1')
    if s in KNOWN:
        return KNOWN[s]
    return C.zlist(list(s.encode('latin-1')))


def rline_lit(r):
    return '(mkR %s %s)' % (bts(r['txt']), C.boolean(r['crlf']))


def tline_lit(t):
    return '(mkT %s %s %s)' % (bts(t['lead']),
                               C.lst(['(%s, %s)' % (bts(a), bts(b)) for a, b in t['toks']]),
                               C.boolean(t['crlf']))


def block_lit(b):
    return '(mkB %s %s %s %s %s %s)' % (
        bts(b['name']), C.boolean(b['crlf']), C.lst([rline_lit(r) for r in b['mid']]),
        tline_lit(b['letter']), C.lst([tline_lit(t) for t in b['rows']]),
        C.lst([rline_lit(r) for r in b['sep']]))


def qlit(s):
    """exact value of a double, as m / 2^e"""
    fr = Fraction(s)
    e = fr.denominator.bit_length() - 1
    assert fr.denominator == 1 << e
    return '(mkd %s %d)' % (C.z(fr.numerator), e)


def meme_out_lit(o):
    if o is None:
        return 'Err'
    return '(Ok (VMeme %s))' % C.lst(
        ['(%s, %s)' % (bts(k), C.lst([C.lst([qlit(x) for x in r]) for r in M])) for k, M in o])


def loci_out_lit(o):
    if o is None:
        return 'Err'
    return '(Ok (VLoci %s))' % C.lst(['(%s, %s)' % (C.zlist(sq), C.zmat(sg)) for sq, sg in o])


def optz(v):
    return C.opt(v)


def coq_case(inp, out):
    if inp['kind'] == 'meme':
        call = '(CMeme (mkF %s %s %s))' % (C.lst([rline_lit(r) for r in inp['header']]),
                                           C.lst([block_lit(b) for b in inp['blocks']]),
                                           C.boolean(inp['final_nl']))
        return pair_lit(call, meme_out_lit(out['o1']), meme_out_lit(out['o2']), C.z(out['hash']))
    gen = C.lst(['(mkChrom %s %s %s)' % (C.z(c['id']), bts(c['seq']),
                                        C.zmat([[0 if v is None else v for v in t] for t in c['sig']]))
                 for c in inp['genome']])
    sets = C.lst([C.lst(['(mkLocus %s %s %s)' % (C.z(c), C.z(s), C.z(e)) for c, s, e in st])
                  for st in inp['sets']])
    chroms = 'None' if inp['chroms'] is None else '(Some %s)' % C.zlist(inp['chroms'])
    call = '(CLoci (mkX %s %s %s %s %s %s %d %s %s %d %s))' % (
        gen, sets, chroms, C.z(inp['win']), C.z(inp['wout']), C.z(inp['jit']), inp['nsig'],
        optz(inp['min']), optz(inp['max']), inp['tgt'], optz(inp['nloci']))
    return pair_lit(call, loci_out_lit(out['o1']), loci_out_lit(out['o2']), '0')


def pair_lit(call, o1, o2, h):
    if o1 == o2 and len(o1) > 40:      # same literal: let Coq check it once
        return '(let o := %s in (%s, o, o, %s))' % (o1, call, h)
    return '(%s, %s, %s, %s)' % (call, o1, o2, h)


# ------------------------------------------------------------------------------------------
# evidence helpers

def near_edge(inp):
    lens = {c['id']: len(c['seq']) for c in inp['genome']}
    W = max(inp['win'], inp['wout'] if inp['nsig'] else 0)
    for st in inp['sets']:
        for c, s, e in st:
            if c in lens and (inp['chroms'] is None or c in inp['chroms']):
                mid = s + (e - s) // 2
                if mid <= W or lens[c] - mid <= W:
                    return True
    return False


def nontrivial(inp, out):
    if inp['kind'] == 'meme':
        return any(not b['sep'] for b in inp['blocks'])
    return near_edge(inp)


def hist_key(inp, out):
    if inp['kind'] == 'meme':
        return 'meme/%dmotifs/%s' % (len(inp['blocks']), 'nl' if inp['final_nl'] else 'no-final-nl')
    o = out['o1']
    return 'loci/%dsets/%s' % (len(inp['sets']), 'raise' if o is None else 'rows')


def tags(inp, out):
    return set()


# ------------------------------------------------------------------------------------------
# generators

HEADER = ['MEME version 4', '', 'ALPHABET= ACGT', '', 'strands: + -', '',
          'Background letter frequencies', 'A 0.25 C 0.25 G 0.25 T 0.25', '']
NAMECH = 'ABCDEFGHIJKLMNOPQRSTUVWXYZabcdefghijklmnopqrstuvwxyz0123456789._-:()'


def gen_token(rng):
    k = rng.random()
    if k < 0.55:
        return '%.6f' % rng.random()
    if k < 0.65:
        return rng.choice(['0.25', '0.250000', '1', '0', '1.000000', '0.000000', '0.5', '.5', '1.'])
    if k < 0.8:
        return '%.3e' % (rng.random() * 10 ** rng.randint(-6, 0))
    if k < 0.9:
        return ('%.2E' % rng.random()).replace('E-0', 'E-')
    return '%.*f' % (rng.randint(1, 12), rng.random())


def gen_tline(rng, toks, crlf, lead_ok=True, messy=False):
    lead = rng.choice(['', ' ', '  ', '\t']) if lead_ok else ''
    out = []
    for k, t in enumerate(toks):
        last = k + 1 == len(toks)
        if last:
            sep = rng.choice(['', '', ' ', '  ', ' \t']) if messy else ''
        else:
            sep = rng.choice([' ', '  ', '\t', '   ']) if messy else ' '
        out.append([t, sep])
    if not messy and lead_ok:
        lead = rng.choice(['', ' '])
    return {'lead': lead, 'toks': out, 'crlf': crlf}


def gen_name(rng, used):
    while True:
        k = rng.random()
        if k < 0.5:
            nm = 'MA%04d.%d %s' % (rng.randint(0, 9999), rng.randint(1, 3),
                                   ''.join(rng.choice(NAMECH) for _ in range(rng.randint(1, 6))))
        elif k < 0.8:
            nm = ''.join(rng.choice(NAMECH + ' ') for _ in range(rng.randint(1, 10)))
        elif k < 0.9:
            nm = rng.choice(['xMOTIFy', 'MOTIF', 'a MOTIF', 'MOTIFS b', 'MOTIF\tc']) + str(rng.randint(0, 99))
        else:
            nm = ''.join(rng.choice(NAMECH) for _ in range(rng.randint(1, 5))) + rng.choice([' ', '  ', '\t', ' \t '])
        if 'MOTIF ' in nm or nm in used:
            continue
        used.add(nm)
        return nm


def gen_meme(rng, small=False):
    style = rng.choice(['lf', 'lf', 'crlf', 'mixed'])
    crlf = (lambda: style == 'crlf') if style != 'mixed' else (lambda: rng.random() < 0.5)
    messy = rng.random() < 0.4
    k = rng.random()
    if k < 0.6:
        header = [{'txt': t, 'crlf': crlf()} for t in HEADER]
    elif k < 0.75:
        header = []
    else:
        header = [{'txt': rng.choice(['', ' ', 'MEME version 5', 'x MOTIF y', 'letter', 'motif a', '\t',
                                      'Background letter frequencies', 'A 0.3 C 0.2 G 0.2 T 0.3']),
                   'crlf': crlf()} for _ in range(rng.randint(1, 4))]
    nb = rng.randint(1, 3 if small else 6)
    tight = rng.random() < 0.3         # motifs follow each other without separating lines
    used = set()
    blocks = []
    for _b in range(nb):
        w = rng.choice([0, 1, 1, 2, 2, 3, 3, 4, 5, 6]) if not small else rng.choice([1, 2])
        mid = []
        if rng.random() < 0.25:
            mid = [{'txt': rng.choice(['', ' ', 'some text', 'Letter x', ' letter', 'URL u', 'MOTI']),
                    'crlf': crlf()} for _ in range(rng.randint(1, 2))]
        first = rng.choice(['letter-probability', 'letter-probability', 'letter-prob', 'letter'])
        ltoks = [first, 'matrix:', 'alength=', '4', 'w=', str(w)]
        if rng.random() < 0.8:
            ltoks += ['nsites=', str(rng.randint(1, 500)), 'E=', rng.choice(['0', '1.2e-05'])]
        letter = gen_tline(rng, ltoks, crlf(), lead_ok=False, messy=messy)
        rows = [gen_tline(rng, [gen_token(rng) for _ in range(4)], crlf(), messy=messy) for _ in range(w)]
        if tight or rng.random() < 0.15:
            sep = []
        else:
            sep = [{'txt': rng.choice(['', '', '', 'URL http://jaspar.genereg.net/matrix/MA0001.1', ' ', '\t',
                                       'URL x']), 'crlf': crlf()} for _ in range(rng.randint(1, 3))]
        blocks.append({'name': gen_name(rng, used), 'crlf': crlf(), 'mid': mid, 'letter': letter,
                       'rows': rows, 'sep': sep})
    g = {'kind': 'meme', 'header': header, 'blocks': blocks, 'final_nl': rng.random() < 0.5}
    ls = file_lines(g)
    if not g['final_nl'] and ls and ls[-1][0] == '':
        g['final_nl'] = True
    return g


BASES = 'ACGTacgt'


def gen_genome(rng, nsig):
    out = []
    ids = rng.sample(range(1, 9), rng.randint(1, 4))
    for i in ids:
        L = rng.choice([12, 15, 20, 24, 31, 40, 57, 90])
        s = [rng.choice(BASES) for _ in range(L)]
        for _ in range(rng.randint(0, 2)):
            a = rng.randrange(L)
            for p in range(a, min(L, a + rng.randint(1, 6))):
                s[p] = rng.choice('NNn')
        sig = []
        for _t in range(nsig):
            v = [rng.choice([0, 0, 1, 1, 2, 3, 5, 8]) for _ in range(L)]
            if rng.random() < 0.3:
                a = rng.randrange(L)
                for p in range(a, min(L, a + rng.randint(1, 5))):
                    v[p] = None
            if all(x is None for x in v):
                v[0] = 1
            sig.append(v)
        out.append({'id': i, 'seq': ''.join(s), 'sig': sig})
    return out


def gen_loci(rng):
    nsig = rng.choice([0, 1, 1, 2, 3])
    genome = gen_genome(rng, nsig)
    win = rng.choice([1, 2, 3, 4, 5, 6, 7, 8, 9, 10, 13, 14])
    wout = rng.choice([win, win - 1, win + 1, 1, 2, 3, 4, 5, 6, 7, 8, 11, 12])
    wout = max(1, wout)
    jit = rng.choice([0, 0, 0, 1, 2, 3])
    W = max(win // 2, (wout // 2) if nsig else 0) + jit
    lens = {c['id']: len(c['seq']) for c in genome}
    ids = list(lens)
    chroms = None
    extra = []
    if rng.random() < 0.35:
        chroms = sorted(rng.sample(ids, rng.randint(1, len(ids))))
        if rng.random() < 0.3:
            extra = [99]             # a chromosome absent from the genome, excluded by chroms
    nsets = rng.choice([1, 1, 2, 2, 3])
    sets = []
    for _s in range(nsets):
        st = []
        for _l in range(rng.choice([1, 2, 3, 4, 5, 7, 9])):
            c = rng.choice(ids + extra)
            L = lens.get(c, 30)
            k = rng.random()
            if k < 0.3:
                mid = W + rng.randint(-2, 2)                 # left end: lo = -2..2
            elif k < 0.6:
                mid = L - W + rng.randint(-3, 1)             # right end
            else:
                mid = rng.randint(0, L)
            h = rng.randint(0, 6)
            odd = rng.randint(0, 1)
            if rng.random() < 0.05:
                st.append([c, mid + h + odd, mid - h])       # end < start: (end-start)//2 floors
            else:
                st.append([c, mid - h, mid + h + odd])
        sets.append(st)
    mn = mx = None
    if nsig and rng.random() < 0.4:
        typ = (wout + 2 * jit) * 2
        if rng.random() < 0.7:
            mn = rng.randint(0, typ + 4)
        if rng.random() < 0.5:
            mx = rng.randint(max(0, typ - 6), typ + 10)
    if chroms is not None and rng.random() < 0.6:
        # BED-like files sorted by chromosome; the requested chromosomes are not the first ones,
        # so the filter removes prefixes / middles of different lengths in the different sets
        order = ids + extra
        rng.shuffle(order)
        sets = [sorted(st, key=lambda l: order.index(l[0])) for st in sets]
        if len(order) > 1:
            rest = [c for c in order[1:] if c in lens]
            if rest:
                chroms = sorted(rng.sample(rest, rng.randint(1, len(rest))))
    inp = {'kind': 'loci', 'genome': genome, 'sets': sets, 'chroms': chroms, 'win': win, 'wout': wout,
           'jit': jit, 'nsig': nsig, 'min': mn, 'max': mx, 'tgt': rng.randrange(nsig) if nsig else 0,
           'nloci': rng.choice([None, None, None, 0, 1, 2, 3, 5]), 'aslist': rng.random() < 0.5,
           'dfindex': gen_dfindex(rng, sets)}
    return inp


def gen_dfindex(rng, sets):
    """row labels of the DataFrames handed to extract_loci (None = default RangeIndex)"""
    if rng.random() < 0.5:
        return None
    out = []
    for st in sets:
        n = len(st)
        k = rng.random()
        if k < 0.25:
            out.append(None)
        elif k < 0.5:
            ix = list(range(n))
            rng.shuffle(ix)
            out.append(ix)                                   # shuffled
        elif k < 0.65:
            out.append(list(range(n - 1, -1, -1)))          # reversed
        elif k < 0.8:
            out.append([rng.randint(0, 2) for _ in range(n)])   # duplicates
        elif k < 0.9:
            out.append([7 + 3 * i for i in range(n)])        # left over from an earlier filter
        else:
            out.append([rng.randint(-5, 40) for _ in range(n)])
    return out


def counts_on_boundary(inp, rng):
    """re-target min/max so that some locus sits exactly on the threshold"""
    if not inp['nsig']:
        return inp
    out = run_loci(dict(inp, min=None, max=None, nloci=None), 'mem')
    if not out:
        return inp
    tot = sum(rng.choice(out)[1][inp['tgt']])
    inp = dict(inp)
    if rng.random() < 0.5:
        inp['min'] = tot + rng.choice([0, 0, 1])
    else:
        inp['max'] = tot - rng.choice([0, 0, 1])
    return inp


def generate(tier, rng):
    quick = tier != 'thorough'
    n_loci_cases = 900 if quick else 9000
    n_meme = 450 if quick else 4000
    # a small systematic sweep: one locus at every position of a short chromosome, all window parities
    seq = 'ACGTNacgtnGATTACAgg'
    sig = [[(3 * i + 1) % 7 for i in range(len(seq))]]
    for win, wout, jit, nsig in ((1, 1, 0, 0), (2, 2, 0, 1), (3, 2, 0, 1), (2, 3, 1, 1), (5, 8, 0, 1),
                                 (8, 5, 1, 1), (4, 4, 2, 0), (7, 7, 0, 1)):
        st = [[1, p, p] for p in range(-1, len(seq) + 2)]
        yield {'kind': 'loci', 'genome': [{'id': 1, 'seq': seq, 'sig': sig[:nsig]}], 'sets': [st],
               'chroms': None, 'win': win, 'wout': wout, 'jit': jit, 'nsig': nsig, 'min': None, 'max': None,
               'tgt': 0, 'nloci': None, 'aslist': False}
    for k in range(n_loci_cases):
        inp = gen_loci(rng)
        if k % 5 == 0:
            inp = counts_on_boundary(inp, rng)
        yield inp
    for k in range(n_meme):
        yield gen_meme(rng, small=(k % 4 == 0))


def shrink(inp):
    if inp['kind'] == 'meme':
        B = inp['blocks']
        for i in range(len(B)):
            if len(B) > 1:
                yield dict(inp, blocks=B[:i] + B[i + 1:])
        if inp['header']:
            yield dict(inp, header=[])
            yield dict(inp, header=inp['header'][1:])
        for i, b in enumerate(B):
            if b['mid']:
                yield dict(inp, blocks=B[:i] + [dict(b, mid=[])] + B[i + 1:])
            if len(b['sep']) > 1:
                yield dict(inp, blocks=B[:i] + [dict(b, sep=b['sep'][:1])] + B[i + 1:])
            if len(b['rows']) > 1:
                w = len(b['rows']) - 1
                toks = [list(t) for t in b['letter']['toks']]
                toks[5][0] = str(w)
                yield dict(inp, blocks=B[:i] + [dict(b, rows=b['rows'][:w],
                                                     letter=dict(b['letter'], toks=toks))] + B[i + 1:])
        return
    S = inp['sets']
    D = inp.get('dfindex') or [None] * len(S)
    if inp.get('dfindex'):
        yield dict(inp, dfindex=None)
    for i in range(len(S)):
        if len(S) > 1:
            yield dict(inp, sets=S[:i] + S[i + 1:], dfindex=D[:i] + D[i + 1:])
        for k in range(len(S[i])):
            if sum(len(s) for s in S) > 1:
                di = None if D[i] is None else D[i][:k] + D[i][k + 1:]
                yield dict(inp, sets=S[:i] + [S[i][:k] + S[i][k + 1:]] + S[i + 1:],
                           dfindex=D[:i] + [di] + D[i + 1:])
    used = {l[0] for s in S for l in s}
    G = inp['genome']
    if len(G) > 1:
        for i in range(len(G)):
            if G[i]['id'] not in used:
                yield dict(inp, genome=G[:i] + G[i + 1:])
    for key in ('min', 'max', 'nloci', 'chroms'):
        if inp[key] is not None:
            yield dict(inp, **{key: None})
    if inp['jit'] > 0:
        yield dict(inp, jit=inp['jit'] - 1)


def search(rng, disagreeing):
    for _ in range(300):
        yield gen_loci(rng)
    for _ in range(200):
        yield gen_meme(rng, small=True)
