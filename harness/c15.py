"""C15 - sequence representations: one_hot_encode / characters / reverse_complement / chunk /
unchunk of tangermeme.utils, tied to coq/C15 (executable model + pointwise spec).

Every case is a two-stage pipeline of real API calls (see coq/C15/Spec.v `call`); the outcome
is what each stage returned (None = it, or the stage before it, raised)."""
import importlib
import itertools

import numpy
import torch

from . import common as C

PID = 'C15'
IMPORTS = ['Base.OneHot', 'C15.Model', 'C15.Spec']
CASE_TYPE = 'case'
CHECK = 'check_case'
SHARD = 100
RULE = ('round trips: every string up to the tier length (quick 4, thorough 6) over alphabet+ignore, and up to '
        'length 3 (4) with one outside letter, for alphabets of size 1-3, both allow_N settings, all 9 numpy-backed dtypes in '
        'rotation; seeded random ASCII (1..127) alphabets of size 1-8 with ignore sets of size 0-3 and '
        'strings up to length 300, a share with an outside letter / overlapping ignore set / repeated '
        'alphabet letter; decode-then-encode on every one-hot-or-zero tensor up to length 3 (4) plus '
        'random and malformed (tied, 2-valued, negative) tensors; reverse complement: every string up to '
        'length 3 (5) over keys+N for 5 complement maps, random involutions on 1-8 ASCII keys, non-'
        'involutive and non-closed maps, random integer tensors, string/tensor agreement; chunk/unchunk: '
        'every (size, overlap) with 1 <= size <= 40, 0 <= overlap < size, 1-4 sequences whose lengths '
        'give 1, 2, 3 and many chunks with every remainder class sampled, unique integer entries so '
        'that a misplaced position is visible, plus rejected configurations (overlap >= size, size > '
        'length, non-positive size, negative overlap); forms: every accepted way of handing over each argument '
        '(alphabet list/str/omitted, ignore list/str/tuple/omitted, dtype omitted, characters alphabet tuple/omitted, '
        'force on/off, flags omitted, (1,A,L) tensors, transpose views, complement map omitted, unchunk X as tensor / '
        'numpy / list of numpy / nested lists, lengths as list / tuple / numpy int64,int32 / tensor int64,int32 / numpy '
        'scalars, size and overlap keyword / positional / numpy / omitted incl. the default size 1024, mixed dtypes in '
        'one chunk call); sequences: each pipeline after earlier calls of the same process that differ in one thing '
        '(ignore set, alphabet order/size/case, dtype, a rejected call, complement map pairing/order, allow_N, overlap, '
        'size, same stride, number of sequences, input form); every argument object is compared with a copy taken '
        'before the call. Non-trivial = chunk case accepted with an odd '
        'overlap or a sequence of exactly one or two chunks; other kinds: non-empty input')
EXHAUSTIVE = {'quick': False, 'thorough': False}
TRUSTED = ['tensors of any dtype are read back as exact integers (a non-integral entry is reported as a spec failure)',
           'chunk/unchunk inputs carry pairwise distinct integers below 2**24 (exact in float32)']
ASSUMPTIONS = ['the functions are pure: the model has no state; statelessness of the implementation is exercised by '
               'the multi-call sequences, argument objects must be unmodified after every call',
               'torch unfold/cat/flip/slicing and numpy argmax implement the list operations of the model '
               '(exercised by every case)',
               'bytes 1..127 only: NUL is numpy\'s string padding, non-ASCII letters are multi-byte',
               'dtypes without a numpy counterpart or an order (bfloat16, complex, quantised) are outside '
               'the check: characters() goes through numpy / max()']

DTYPES = ['bool', 'uint8', 'int8', 'int16', 'int32', 'int64', 'float16', 'float32', 'float64']
WIDE = ['int8', 'int16', 'int32', 'int64', 'float32', 'float64']      # can hold small negative / >1 values
BIG = ['int32', 'int64', 'float32', 'float64']                        # can hold the chunk entries
DNA = [['A', 'T'], ['C', 'G'], ['G', 'C'], ['T', 'A']]
BAD = 'bad'


def codes(s):
    return [ord(c) for c in s]


def to_tensor(cols, A, dtype):
    """list of L columns (each a list of A ints) -> tensor (A, L) of the named dtype"""
    dt = getattr(torch, dtype)
    if not cols:
        return torch.zeros((A, 0), dtype=dt)
    return torch.tensor(cols, dtype=torch.int64).T.contiguous().to(dt)


def from_tensor(X):
    """tensor (A, L) -> list of L columns of exact ints, or BAD"""
    if not isinstance(X, torch.Tensor) or X.ndim != 2:
        return BAD
    X = X.detach().cpu()
    Xd = X.to(torch.float64)
    if not bool(torch.equal(Xd, Xd.round())):
        return BAD
    return X.T.to(torch.int64).tolist()


def seq_entry(i, q, a, A):
    return (i * 1553 + q) * A + a + 1


def make_seq(i, A, L, dtype):
    cols = [[seq_entry(i, q, a, A) for a in range(A)] for q in range(L)]
    return cols, to_tensor(cols, A, dtype)


def _try(f):
    try:
        return f(), True
    except Exception:
        return None, False


# ---- how an argument is handed to the API (the Coq call is the same for every form) ----------
# inp['forms'] maps an argument name to a form; a missing entry is the plain form.
#   alpha  (one_hot_encode alphabet): 'list' | 'str' | 'default' (argument omitted; alphabet must be ACGT)
#   ign    (one_hot_encode ignore):   'list' | 'str' | 'tuple' | 'default' (omitted; must be N)
#   dtype:                            'kw' | 'default' (omitted; must be int8)
#   calpha (characters alphabet):     'list' | 'tuple' | 'default'
#   flags  (force / allow_N / rc allow_N): 'kw' | 'default' (omitted where the value is the default)
#   pwm    (characters input):        '2d' | 'batch1' (a (1, A, L) tensor)
#   cmap   (complement_map):          'kw' | 'default' (omitted; must be the DNA map)
#   ten    (tensor handed to reverse_complement / chunk): 'contig' | 'view' (non-contiguous transpose view)
#   X      (unchunk X):               'tensor' | 'numpy' | 'list_numpy' | 'nested'
#   lengths (unchunk lengths):        'list' | 'tuple' | 'np64' | 'np32' | 't64' | 't32' | 'list_np'
#   size / overlap:                   'kw' | 'pos' | 'default' (omitted; size 1024 / overlap 0) | 'np' (unchunk overlap only)

def form(inp, name, plain):
    return inp.get('forms', {}).get(name, plain)


def _ohe(utils, inp, s, alpha, ign, watch):
    kw = {}
    fa, fi = form(inp, 'alpha', 'list'), form(inp, 'ign', 'list')
    if fa != 'default':
        kw['alphabet'] = list(alpha) if fa == 'list' else alpha
        if fa == 'list':
            watch.append((kw['alphabet'], list(alpha)))
    if fi != 'default':
        kw['ignore'] = list(ign) if fi == 'list' else tuple(ign) if fi == 'tuple' else ign
        if fi == 'list':
            watch.append((kw['ignore'], list(ign)))
    if form(inp, 'dtype', 'kw') != 'default':
        kw['dtype'] = getattr(torch, inp['dtype'])
    return utils.one_hot_encode(s, **kw)


def _chars(utils, inp, X, alpha, watch):
    kw = {}
    fc = form(inp, 'calpha', 'list')
    if fc != 'default':
        kw['alphabet'] = list(alpha) if fc == 'list' else tuple(alpha)
        if fc == 'list':
            watch.append((kw['alphabet'], list(alpha)))
    dflt = form(inp, 'flags', 'kw') == 'default'
    if not (dflt and not inp['allowN']):
        kw['allow_N'] = inp['allowN']
    if not (dflt and not inp.get('force', False)):
        kw['force'] = inp.get('force', False)
    if form(inp, 'pwm', '2d') == 'batch1':
        X = X[None]
    keep = X.clone()
    t = utils.characters(X, **kw)
    watch.append((X, keep))
    return t


def _rc(utils, inp, seq, cm, watch, with_flag=True):
    kw = {}
    if form(inp, 'cmap', 'kw') != 'default':
        kw['complement_map'] = cm
        watch.append((cm, dict(cm)))
    if with_flag and not (form(inp, 'flags', 'kw') == 'default' and inp['allowN']):
        kw['allow_N'] = inp['allowN']
    if isinstance(seq, torch.Tensor):
        keep = seq.clone()
        r = utils.reverse_complement(seq, **kw)
        watch.append((seq, keep))
        return r
    return utils.reverse_complement(seq, **kw)


def _same(a, b):
    if isinstance(a, torch.Tensor):
        return isinstance(b, torch.Tensor) and a.shape == b.shape and a.dtype == b.dtype and bool(torch.equal(a, b))
    if isinstance(a, numpy.ndarray):
        return a.shape == b.shape and a.dtype == b.dtype and bool((a == b).all())
    if isinstance(a, (list, tuple)) and a and isinstance(a[0], (torch.Tensor, numpy.ndarray)):
        return len(a) == len(b) and all(_same(x, y) for x, y in zip(a, b))
    return type(a) == type(b) and a == b


def unchanged(watch):
    """every (object handed to the API, copy taken before the call) pair still agrees"""
    return all(_same(a, b) for a, b in watch)


def _view(cols, A, dtype):
    """the same (A, L) tensor as to_tensor, as a non-contiguous transpose view (what one_hot_encode returns)"""
    dt = getattr(torch, dtype)
    if not cols:
        return torch.zeros((0, A), dtype=dt).T
    return torch.tensor(cols, dtype=torch.int64).to(dt).T


def run_impl(inp, _nested=False):
    from tangermeme import utils
    if 'pre' in inp and not _nested:
        # a case that brings its own history starts from a freshly loaded module, so that it fails or
        # passes on its own (shrinking and --replay then keep exactly the earlier calls that matter)
        importlib.reload(utils)
    for p in inp.get('pre', []):                 # earlier calls in the same process, results discarded
        try:
            run_impl(p, _nested=True)
        except Exception:
            pass
    k = inp['kind']
    watch = []
    tensor_of = _view if form(inp, 'ten', 'contig') == 'view' else to_tensor
    if k == 'round':
        alpha, ign = inp['alpha'], inp['ign']
        X, ok = _try(lambda: _ohe(utils, inp, inp['s'], alpha, ign, watch))
        if not ok:
            return {'st': [None, None]}
        ok_dt = isinstance(X, torch.Tensor) and X.dtype == getattr(torch, inp['dtype'])
        t, ok = _try(lambda: _chars(utils, inp, X, alpha, watch))
        good = ok_dt and unchanged(watch)
        return {'st': [['ten', from_tensor(X) if good else BAD],
                       ['str', codes(t) if isinstance(t, str) and good else BAD] if ok else None]}
    if k == 'back':
        alpha, ign = inp['alpha'], inp['ign']
        X = tensor_of(inp['X'], len(alpha), inp['dtype'])
        t, ok = _try(lambda: _chars(utils, inp, X, alpha, watch))
        if not ok:
            return {'st': [None, None]}
        Y, ok = _try(lambda: _ohe(utils, inp, t, alpha, ign, watch))
        good = unchanged(watch)
        return {'st': [['str', codes(t) if isinstance(t, str) and good else BAD],
                       ['ten', from_tensor(Y) if good else BAD] if ok else None]}
    if k == 'rcstr':
        cm = dict((a, b) for a, b in inp['cmap'])
        r, ok = _try(lambda: _rc(utils, inp, inp['s'], cm, watch))
        if not ok:
            return {'st': [None, None]}
        r2, ok = _try(lambda: _rc(utils, inp, r, cm, watch))
        good = unchanged(watch)
        return {'st': [['str', codes(r) if isinstance(r, str) and good else BAD],
                       ['str', codes(r2) if isinstance(r2, str) and good else BAD] if ok else None]}
    if k == 'rcten':
        cm = dict((a, b) for a, b in inp['cmap'])
        X = tensor_of(inp['X'], inp['A'], inp['dtype'])
        r, ok = _try(lambda: _rc(utils, inp, X, cm, watch, with_flag=False))
        if not ok:
            return {'st': [None, None]}
        r2, ok = _try(lambda: _rc(utils, inp, r, cm, watch, with_flag=False))
        good = unchanged(watch)
        return {'st': [['ten', from_tensor(r) if good else BAD], ['ten', from_tensor(r2) if good else BAD] if ok else None]}
    if k == 'agree':
        cm = dict((a, b) for a, b in inp['cmap'])
        keys, ign = ''.join(cm.keys()), inp['ign']
        a, oka = _try(lambda: _ohe(utils, inp, _rc(utils, inp, inp['s'], cm, watch), keys, ign, watch))
        b, okb = _try(lambda: _rc(utils, inp, _ohe(utils, inp, inp['s'], keys, ign, watch), cm, watch, with_flag=False))
        good = unchanged(watch)
        return {'st': [['ten', from_tensor(a) if good else BAD] if oka else None,
                       ['ten', from_tensor(b) if good else BAD] if okb else None]}
    if k == 'chunk':
        A, lengths = inp['A'], inp['lengths']
        dts = inp.get('dtypes') or [inp['dtype']] * len(lengths)
        xs = [tensor_of(make_seq(i, A, L, 'int64')[0], A, dts[i]) for i, L in enumerate(lengths)]
        watch.append((xs, [x.clone() for x in xs]))
        fs, fo = form(inp, 'size', 'kw'), form(inp, 'overlap', 'kw')
        args, kw = [xs], {}
        if fs == 'pos':
            args.append(inp['size'])
            if fo == 'pos':
                args.append(inp['overlap'])
        elif fs != 'default':
            kw['size'] = inp['size']
        if fo in ('kw', 'np') or (fo == 'pos' and fs != 'pos'):
            kw['overlap'] = inp['overlap']
        ch, ok = _try(lambda: utils.chunk(*args, **kw))
        if not ok:
            return {'st': [None, None]}
        good3 = isinstance(ch, torch.Tensor) and ch.ndim == 3
        chl = [from_tensor(c) for c in ch] if good3 else BAD
        fx, fl = form(inp, 'X', 'tensor'), form(inp, 'lengths', 'list')
        if good3:
            Xa = {'tensor': lambda: ch, 'numpy': lambda: ch.numpy().copy(),
                  'list_numpy': lambda: [c.numpy().copy() for c in ch], 'nested': lambda: ch.tolist()}[fx]()
            watch.append((Xa, ch.clone() if fx == 'tensor' else Xa.copy() if fx == 'numpy'
                          else [c.copy() for c in Xa] if fx == 'list_numpy' else ch.tolist()))
        else:
            Xa = ch
        La = {'list': lambda: list(lengths), 'tuple': lambda: tuple(lengths),
              'np64': lambda: numpy.array(lengths, dtype=numpy.int64), 'np32': lambda: numpy.array(lengths, dtype=numpy.int32),
              't64': lambda: torch.tensor(lengths, dtype=torch.int64), 't32': lambda: torch.tensor(lengths, dtype=torch.int32),
              'list_np': lambda: [numpy.int64(L) for L in lengths]}[fl]()
        watch.append((La, La.clone() if isinstance(La, torch.Tensor) else La.copy() if isinstance(La, numpy.ndarray)
                      else type(La)(La)))
        uargs, ukw = [Xa, La], {}
        if fo == 'pos':
            uargs.append(inp['overlap'])
        elif fo == 'np':
            ukw['overlap'] = numpy.int64(inp['overlap'])
        elif fo != 'default':
            ukw['overlap'] = inp['overlap']
        ys, ok = _try(lambda: utils.unchunk(*uargs, **ukw))
        if ok:
            yl = [from_tensor(y) for y in ys] if isinstance(ys, (list, tuple)) and unchanged(watch) else BAD
        return {'st': [['batch', chl], ['batch', yl] if ok else None]}
    raise KeyError(k)


# ----------------------------------------------------------------------------------------
# Coq literals

def dna_lit(cols):
    return C.lst([C.zlist(c) for c in cols])


def val_lit(v):
    if v is None:
        return 'Err'
    tag, d = v
    if d == BAD or (tag == 'batch' and any(x == BAD for x in d)):
        return '(Ok (VBatch [[[(-7)]]; [[(-7)]]; [[(-7)]]; [[(-7)]]; [[(-7)]]; [[(-7)]]]))'   # certainly wrong
    if tag == 'str':
        return '(Ok (VStr %s))' % C.zlist(d)
    if tag == 'ten':
        return '(Ok (VTen %s))' % dna_lit(d)
    return '(Ok (VBatch %s))' % C.lst([dna_lit(x) for x in d])


def cmap_lit(pairs):
    return C.lst(['(%s, %s)' % (C.z(ord(a)), C.z(ord(b))) for a, b in pairs])


def coq_case(inp, out):
    k = inp['kind']
    if k == 'round':
        call = '(CRound %s %s %s %s %s)' % (C.zlist(codes(inp['alpha'])), C.zlist(codes(inp['ign'])),
                                            C.zlist(codes(inp['s'])), C.boolean(inp.get('force', False)),
                                            C.boolean(inp['allowN']))
    elif k == 'back':
        call = '(CBack %s %s %s %s %s)' % (C.zlist(codes(inp['alpha'])), C.zlist(codes(inp['ign'])),
                                           dna_lit(inp['X']), C.boolean(inp.get('force', False)),
                                           C.boolean(inp['allowN']))
    elif k == 'rcstr':
        call = '(CRcStr %s %s %s)' % (cmap_lit(inp['cmap']), C.boolean(inp['allowN']), C.zlist(codes(inp['s'])))
    elif k == 'rcten':
        call = '(CRcTen %s %s)' % (cmap_lit(inp['cmap']), dna_lit(inp['X']))
    elif k == 'agree':
        call = '(CRcAgree %s %s %s %s)' % (cmap_lit(inp['cmap']), C.zlist(codes(inp['ign'])),
                                           C.boolean(inp['allowN']), C.zlist(codes(inp['s'])))
    else:
        xs = [make_seq(i, inp['A'], L, 'int64')[0] for i, L in enumerate(inp['lengths'])]
        call = '(CChunk %s %s %s)' % (C.z(inp['size']), C.z(inp['overlap']), C.lst([dna_lit(x) for x in xs]))
    return '(%s, %s)' % (call, C.lst([val_lit(v) for v in out['st']]))


# ----------------------------------------------------------------------------------------
# evidence helpers

def n_chunks(inp):
    step = inp['size'] - inp['overlap']
    if step <= 0 or inp['size'] <= 0:
        return []
    return [(L - inp['size']) // step + 1 for L in inp['lengths']]


def nontrivial(inp, out):
    k = inp['kind']
    if k == 'chunk':
        if out['st'][1] is None:
            return False
        return inp['overlap'] % 2 == 1 or any(n in (1, 2) for n in n_chunks(inp))
    if k in ('back', 'rcten'):
        return len(inp['X']) >= 1
    return len(inp['s']) >= 1


def hist_key(inp, out):
    k = inp['kind']
    tag = ''.join('r' if v is None else 'o' for v in out['st'])
    if k == 'chunk' and out['st'][1] is not None:
        ns = n_chunks(inp)
        tag += '/n=' + ','.join(sorted(set('1' if n == 1 else '2' if n == 2 else '3' if n == 3 else 'many' for n in ns)))
        tag += '/odd' if inp['overlap'] % 2 else '/even'
    if any(v not in ('list', 'kw', '2d', 'contig', 'tensor') for v in inp.get('forms', {}).values()):
        tag += '/forms'
    if inp.get('pre'):
        tag += '/after-%d-calls' % len(inp['pre'])
    return '%s/%s' % (k, tag)


# ----------------------------------------------------------------------------------------
# generators

def chunk_input(size, overlap, ns, extras, A, dtype):
    step = size - overlap
    lengths = [(n - 1) * step + size + e for n, e in zip(ns, extras)]
    return {'kind': 'chunk', 'size': size, 'overlap': overlap, 'A': A, 'lengths': lengths, 'dtype': dtype}


def cap_n(n, size, budget):
    return max(1, min(n, budget // size))


def gen_chunk(tier, rng):
    quick = tier != 'thorough'
    # full small grid: one sequence, one channel, every remainder class
    top = 8 if quick else 10
    for size in range(1, top + 1):
        for overlap in range(size):
            step = size - overlap
            for n in (1, 2, 3, 4, 5, 6):
                for e in sorted(set([0, step // 2, step - 1])):
                    yield chunk_input(size, overlap, [n], [e], 1, 'int64')
    # every (size, overlap) up to 40: 1, 2, 3 and many chunks, 1-4 sequences
    counter = 0
    reps = 1 if quick else 2
    budget = 240 if quick else 700                  # chunk columns per case (literal size)
    for size in range(1, 41):
        for overlap in range(size):
            step = size - overlap
            for _ in range(reps):
                B = rng.randint(1, 4)
                many = cap_n(rng.randint(4, 30), size, budget // B)
                forced = [1, 2, 3, many][counter % 4]
                counter += 1
                ns = [cap_n(rng.choice([1, 2, 3, rng.randint(4, 12)]), size, budget // B) for _i in range(B)]
                ns[rng.randrange(B)] = forced
                extras = [rng.choice([0, step - 1, rng.randrange(step)]) for _i in range(B)]
                yield chunk_input(size, overlap, ns, extras, rng.choice([1, 1, 1, 2, 4] if not quick else [1, 1, 1, 2]), rng.choice(BIG))
            if not quick:
                for n in (1, 2, 3):
                    yield chunk_input(size, overlap, [n], [rng.randrange(step)], 1, 'int64')
    # rejected configurations (model equality; the spec is silent on most of them)
    for _ in range(60 if quick else 400):
        size = rng.choice([0, -1, 1, 2, 3, 5, 8])
        overlap = rng.choice([-1, size, size + 1, size - 1, 0, 1])
        B = rng.randint(1, 3)
        lengths = [rng.choice([max(size, 0) + rng.randint(-2, 6), rng.randint(0, 12)]) for _i in range(B)]
        lengths = [max(0, L) for L in lengths]
        yield {'kind': 'chunk', 'size': size, 'overlap': overlap, 'A': rng.choice([1, 2]), 'lengths': lengths,
               'dtype': 'int64'}


LETTERS = 'ACGTUWSY'


def all_strings(symbols, maxlen):
    for L in range(maxlen + 1):
        for t in itertools.product(symbols, repeat=L):
            yield ''.join(t)


def rand_ascii(rng, n, avoid=''):
    out = []
    while len(out) < n:
        c = chr(rng.randint(1, 127))
        if c not in out and c not in avoid:
            out.append(c)
    return ''.join(out)


def gen_round(tier, rng):
    quick = tier != 'thorough'
    maxlen = 4 if quick else 6          # every string over alphabet+ignore up to this length
    maxlen_out = 3 if quick else 4      # ... and with one outside letter up to this length
    k = 0
    for A in (1, 2, 3):
        alpha = LETTERS[:A]
        for ign, outside in (('N', 'x'), ('X', 'N')):
            if ign == 'X' and (quick or A == 3):
                continue
            strings = list(all_strings(alpha + ign, maxlen))
            strings += [s for s in all_strings(alpha + ign + outside, maxlen_out) if outside in s]
            for s in strings:
                has_ign = ign in s
                for allowN in ((True, False) if has_ign or len(s) <= 2 else (bool(k % 2),)):
                    k += 1
                    yield {'kind': 'round', 'alpha': alpha, 'ign': ign, 's': s, 'allowN': allowN,
                           'force': k % 5 == 0, 'dtype': DTYPES[k % len(DTYPES)]}
    for _ in range(500 if quick else 3000):
        A = rng.randint(1, 8)
        alpha = rand_ascii(rng, A) if rng.random() < 0.7 else ''.join(rng.sample('ACGTNacgtn-.*', A))
        ign = rand_ascii(rng, rng.choice([0, 1, 1, 2, 3]), avoid=alpha)
        if rng.random() < 0.4 and 'N' not in alpha and 'N' not in ign:
            ign += 'N'
        r = rng.random()
        if r < 0.05 and ign:
            alpha = alpha + ign[0]                       # ignored letter also in the alphabet
        elif r < 0.10:
            alpha = alpha + alpha[0]                     # repeated letter
        pool = alpha + ign * (1 if rng.random() < 0.6 else 0) or alpha
        L = rng.choice([0, 1, 2, 3, 7, 20, 64, 150, 300])
        s = ''.join(rng.choice(pool) for _i in range(L))
        if rng.random() < 0.12 and L:
            p = rng.randrange(L)
            s = s[:p] + rand_ascii(rng, 1, avoid=alpha + ign) + s[p + 1:]
        yield {'kind': 'round', 'alpha': alpha, 'ign': ign, 's': s, 'allowN': rng.random() < 0.6,
               'force': rng.random() < 0.3, 'dtype': rng.choice(DTYPES)}


def onehot(A, k):
    c = [0] * A
    if k >= 0:
        c[k] = 1
    return c


def gen_back(tier, rng):
    quick = tier != 'thorough'
    maxlen = 3 if quick else 4
    k = 0
    for A in (1, 2, 3):
        alpha = LETTERS[:A]
        for L in range(maxlen + 1):
            for t in itertools.product(range(-1, A), repeat=L):
                for allowN in (True, False):
                    k += 1
                    yield {'kind': 'back', 'alpha': alpha, 'ign': ['N', 'N', 'X', ''][k % 4], 'allowN': allowN,
                           'force': k % 5 == 0, 'X': [onehot(A, j) for j in t], 'dtype': DTYPES[k % len(DTYPES)],
                           'forms': {'ten': 'view'} if k % 3 == 0 else {}}
    for _ in range(300 if quick else 2000):
        A = rng.randint(1, 8)
        alpha = rand_ascii(rng, A) if rng.random() < 0.5 else ''.join(rng.sample('ACGTNWSY', A))
        ign = rand_ascii(rng, rng.choice([0, 1, 2]), avoid=alpha)
        if rng.random() < 0.6 and 'N' not in alpha:
            ign += 'N'
        L = rng.choice([0, 1, 2, 5, 17, 60, 200])
        zero = rng.random() < 0.5
        X = [onehot(A, rng.randrange(-1 if zero else 0, A)) for _i in range(L)]
        dtype = rng.choice(DTYPES)
        r = rng.random()
        if r < 0.25 and L:                                # malformed column
            p = rng.randrange(L)
            kind = rng.choice(['tie', 'two', 'neg', 'big', 'width'])
            dtype = rng.choice(WIDE)
            if kind == 'tie':
                X[p] = [1] * A
            elif kind == 'two':
                X[p] = [rng.choice([0, 1, 2]) for _i in range(A)]
            elif kind == 'neg':
                X[p] = [rng.choice([-1, 0, -2]) for _i in range(A)]
            elif kind == 'big':
                X[p] = [rng.randint(-3, 5) for _i in range(A)]
            else:
                X = [c + [0] for c in X]
        yield {'kind': 'back', 'alpha': alpha, 'ign': ign, 'allowN': rng.random() < 0.6, 'force': rng.random() < 0.3,
               'X': X, 'dtype': dtype, 'forms': {'ten': rng.choice(['contig', 'view'])}}


def rand_cmap(rng):
    """(pairs, expected-to-be-involutive)"""
    n = rng.randint(1, 8)
    keys = list(rand_ascii(rng, n) if rng.random() < 0.5 else ''.join(rng.sample('ACGTNWSYRKM', n)))
    r = rng.random()
    if r < 0.70:
        perm = list(range(n))
        rng.shuffle(perm)
        vals = list(keys)
        for j in range(0, n - 1, 2):
            if rng.random() < 0.75:
                a, b = perm[j], perm[j + 1]
                vals[a], vals[b] = keys[b], keys[a]
        return [[k, v] for k, v in zip(keys, vals)]
    if r < 0.90:
        return [[k, rng.choice(keys)] for k in keys]          # closed, usually not an involution
    vals = [rng.choice(keys) for _k in keys]
    vals[rng.randrange(n)] = rand_ascii(rng, 1, avoid=''.join(keys))   # value that is not a key
    return [[k, v] for k, v in zip(keys, vals)]


NMAP = [['A', 'N'], ['C', 'G'], ['G', 'C'], ['N', 'A']]          # N is an ordinary letter of the map
FIXED_MAPS = [DNA, [['A', 'T'], ['T', 'A']], [['A', 'A']], [['A', 'C'], ['C', 'A'], ['G', 'G']], NMAP, [['N', 'X'], ['X', 'N']],
              [['A', 'C'], ['C', 'G'], ['G', 'A']]]


def gen_rc(tier, rng):
    quick = tier != 'thorough'
    maxlen = 3 if quick else 5
    k = 0
    for cm in FIXED_MAPS:
        keys = ''.join(a for a, _b in cm)
        for s in all_strings(keys + ('' if 'N' in keys else 'N'), maxlen if cm is DNA or quick else maxlen - 1):
            k += 1
            allowN = k % 3 != 0
            yield {'kind': 'rcstr', 'cmap': cm, 'allowN': allowN, 's': s}
            yield {'kind': 'agree', 'cmap': cm, 'ign': 'N' if (k % 5 and 'N' not in keys) else '', 'allowN': allowN,
                   's': s, 'dtype': DTYPES[k % len(DTYPES)]}
    for _ in range(400 if quick else 2500):
        cm = rand_cmap(rng)
        keys = ''.join(a for a, _b in cm)
        pool = keys + ('N' if rng.random() < 0.5 else '')
        L = rng.choice([0, 1, 2, 3, 8, 30, 120])
        s = ''.join(rng.choice(pool) for _i in range(L))
        if rng.random() < 0.08 and L:
            p = rng.randrange(L)
            s = s[:p] + rand_ascii(rng, 1, avoid=keys) + s[p + 1:]
        allowN = rng.random() < 0.8
        kind = rng.choice(['rcstr', 'rcten', 'agree'])
        if kind == 'rcstr':
            yield {'kind': 'rcstr', 'cmap': cm, 'allowN': allowN, 's': s}
        elif kind == 'agree':
            ign = '' if 'N' in keys else rng.choice(['N', 'N', 'N', '', 'N' + rand_ascii(rng, 1, avoid=keys + 'N')])
            yield {'kind': 'agree', 'cmap': cm, 'ign': ign, 'allowN': allowN, 's': s, 'dtype': rng.choice(DTYPES)}
        else:
            A = len(cm) if rng.random() < 0.9 else max(1, len(cm) + rng.choice([-1, 1]))
            L = rng.choice([0, 1, 2, 3, 8, 30])
            if L == 0:
                A = len(cm)
            if rng.random() < 0.4:          # 0/1 entries: every dtype can hold them
                X = [[rng.randint(0, 1) for _a in range(A)] for _i in range(L)]
                dtype = rng.choice(DTYPES)
            else:
                X = [[rng.randint(-4, 9) for _a in range(A)] for _i in range(L)]
                dtype = rng.choice(WIDE)
            yield {'kind': 'rcten', 'cmap': cm, 'A': A, 'X': X, 'dtype': dtype,
                   'forms': {'ten': rng.choice(['contig', 'view'])}}


def rand_str(rng, pool, L):
    return ''.join(rng.choice(pool) for _i in range(L))


def gen_forms(tier, rng):
    """every accepted way of handing over each argument, argument defaults, force, batch-1 tensors"""
    quick = tier != 'thorough'
    # one_hot_encode / characters on the default alphabet: the full product of forms (defaults included)
    k = 0
    for fa, fi, fd, fc, ff, fp in itertools.product(('list', 'str', 'default'), ('list', 'str', 'tuple', 'default'),
                                                    ('kw', 'default'), ('list', 'tuple', 'default'),
                                                    ('kw', 'default'), ('2d', 'batch1')):
        for force, allowN in ((False, False), (False, True), (True, False), (True, True)):
            k += 1
            if quick and k % 2:
                continue
            s = rand_str(rng, 'ACGTN' if allowN or k % 3 else 'ACGT', rng.choice([0, 1, 2, 5, 9]))
            if k % 17 == 0:
                s += 'x'
            forms = {'alpha': fa, 'ign': fi, 'dtype': fd, 'calpha': fc, 'flags': ff, 'pwm': fp}
            yield {'kind': 'round', 'alpha': 'ACGT', 'ign': 'N', 's': s, 'allowN': allowN, 'force': force,
                   'dtype': 'int8', 'forms': forms}
            if k % 4 == 0:
                X = [onehot(4, rng.randrange(-1 if allowN else 0, 4)) for _i in range(rng.choice([0, 1, 3, 6]))]
                yield {'kind': 'back', 'alpha': 'ACGT', 'ign': 'N', 'X': X, 'allowN': allowN, 'force': force,
                       'dtype': 'int8', 'forms': dict(forms, ten=rng.choice(['contig', 'view']))}
    # other alphabets / ignore sets / dtypes with the non-default forms
    for _ in range(150 if quick else 1500):
        A = rng.randint(1, 8)
        alpha = rand_ascii(rng, A) if rng.random() < 0.5 else ''.join(rng.sample('ACGTNWSY', A))
        ign = rand_ascii(rng, rng.choice([0, 1, 2]), avoid=alpha) + ('N' if 'N' not in alpha and rng.random() < 0.6 else '')
        forms = {'alpha': rng.choice(['list', 'str']), 'ign': rng.choice(['list', 'str', 'tuple']),
                 'calpha': rng.choice(['list', 'tuple']), 'flags': rng.choice(['kw', 'default']),
                 'pwm': rng.choice(['2d', 'batch1'])}
        s = rand_str(rng, alpha + ign, rng.choice([0, 1, 2, 5, 12, 40]))
        yield {'kind': 'round', 'alpha': alpha, 'ign': ign, 's': s, 'allowN': rng.random() < 0.6,
               'force': rng.random() < 0.4, 'dtype': rng.choice(DTYPES), 'forms': forms}
    # reverse_complement with its defaults (DNA map omitted, allow_N omitted), views, one-hot tensors of every dtype
    k = 0
    for fm, ff, ft in itertools.product(('kw', 'default'), ('kw', 'default'), ('contig', 'view')):
        for _ in range(6 if quick else 30):
            k += 1
            allowN = k % 4 != 0
            s = rand_str(rng, 'ACGTN' if allowN else 'ACGT', rng.choice([0, 1, 2, 5, 11]))
            forms = {'cmap': fm, 'flags': ff, 'ten': ft}
            yield {'kind': 'rcstr', 'cmap': DNA, 'allowN': allowN, 's': s, 'forms': forms}
            yield {'kind': 'agree', 'cmap': DNA, 'ign': 'N', 'allowN': allowN, 's': s, 'dtype': DTYPES[k % len(DTYPES)],
                   'forms': dict(forms, alpha=rng.choice(['list', 'str']), ign=rng.choice(['list', 'str', 'tuple']))}
            L = rng.choice([0, 1, 2, 7])
            yield {'kind': 'rcten', 'cmap': DNA, 'A': 4, 'X': [onehot(4, rng.randrange(-1, 4)) for _i in range(L)],
                   'dtype': DTYPES[k % len(DTYPES)], 'forms': forms}
    # unchunk: every form of X and of lengths, overlap / size positional, keyword, numpy, omitted
    k = 0
    for fx, fl in itertools.product(('tensor', 'numpy', 'list_numpy', 'nested'),
                                    ('list', 'tuple', 'np64', 'np32', 't64', 't32', 'list_np')):
        for fo in ('kw', 'pos', 'np', 'default'):
            for _ in range(1 if quick else 4):
                k += 1
                size = rng.randint(1, 9)
                overlap = 0 if fo == 'default' else rng.randrange(size)
                B = rng.randint(1, 3)
                ns = [rng.choice([1, 2, 3, 5]) for _i in range(B)]
                ns[rng.randrange(B)] = [1, 2, 3, 4][k % 4]
                extras = [rng.randrange(size - overlap) for _i in range(B)]
                inp = chunk_input(size, overlap, ns, extras, rng.choice([1, 2, 3]), rng.choice(BIG))
                inp['forms'] = {'X': fx, 'lengths': fl, 'overlap': fo, 'size': 'pos' if fo == 'pos' or k % 2 else 'kw',
                                'ten': 'view' if k % 3 == 0 else 'contig'}
                yield inp
    # sequences of different dtypes in one call (torch.cat promotes; the entries stay exact)
    for _ in range(40 if quick else 300):
        size = rng.randint(1, 12)
        overlap = rng.randrange(size)
        B = rng.randint(2, 4)
        ns = [rng.choice([1, 2, 3, 6]) for _i in range(B)]
        extras = [rng.randrange(size - overlap) for _i in range(B)]
        inp = chunk_input(size, overlap, ns, extras, rng.choice([1, 2]), 'int64')
        inp['dtypes'] = [rng.choice(BIG + ['int16', 'float64']) for _i in range(B)]
        inp['forms'] = {'ten': rng.choice(['contig', 'view']), 'lengths': rng.choice(['list', 'np64', 't64'])}
        yield inp
    # the default chunk size (1024), with the default overlap and with an explicit one
    for n, overlap, e in ((1, 0, 0), (2, 0, 37), (1, 7, 100), (2, 513, 0)) if quick else \
            ((1, 0, 0), (2, 0, 37), (1, 7, 100), (2, 513, 0), (3, 1, 5), (3, 1023, 0), (2, 1, 1022)):
        inp = chunk_input(1024, overlap, [n], [e], 1, 'int32')
        inp['forms'] = {'size': 'default', 'overlap': 'default' if overlap == 0 else 'kw'}
        yield inp


def gen_sequences(tier, rng):
    """calls that follow other calls in the same process with ONE thing changed (stale caches, leaked
    module state, modified defaults): the earlier calls are part of the input ('pre') so that a replay
    reproduces them"""
    quick = tier != 'thorough'
    reps = 1 if quick else 6
    alphas = ['ACGT', 'A', 'AC', 'ACGTU']
    for _ in range(reps):
        for alpha in alphas:
            A = len(alpha)
            perm = ''.join(rng.sample(alpha, A))
            variants = [('ign', alpha, 'X'), ('ign', alpha, ''), ('ign', alpha, 'NX'), ('alpha', perm, 'N'),
                        ('alpha', alpha[:-1] or 'C', 'N'), ('alpha', alpha + 'W', 'N'), ('alpha', alpha.lower(), 'N'),
                        ('dtype', alpha, 'N'), ('reject', alpha, 'N')]
            for what, a2, i2 in variants:
                s = rand_str(rng, alpha + 'NX', rng.choice([1, 2, 4, 7])) + rng.choice(['', 'N', 'X', alpha[-1]])
                base = {'kind': 'round', 'alpha': alpha, 'ign': 'N', 's': s, 'allowN': True, 'force': False,
                        'dtype': 'int8'}
                other = dict(base, alpha=a2, ign=i2, dtype='float32' if what == 'dtype' else 'int8')
                if what == 'reject':
                    other = dict(base, s=s + '?')
                for first, second in ((base, other), (other, base)):
                    yield dict(second, pre=[dict(first, s=rand_str(rng, first['alpha'] + first['ign'], 3))])
                yield dict(other, pre=[base, other, base])
                X = [onehot(A, rng.randrange(-1, A)) for _i in range(rng.choice([1, 3, 5]))]
                yield {'kind': 'back', 'alpha': alpha, 'ign': 'N', 'X': X, 'allowN': True, 'force': False,
                       'dtype': 'int8', 'pre': [other]}
    # reverse complement: the same keys paired differently, the same map with allow_N flipped, reordered keys
    maps = [DNA, [['A', 'C'], ['C', 'A'], ['G', 'T'], ['T', 'G']], [['T', 'A'], ['G', 'C'], ['C', 'G'], ['A', 'T']],
            [['A', 'A'], ['C', 'C'], ['G', 'G'], ['T', 'T']], NMAP]
    for _ in range(reps):
        for m1 in maps:
            for m2 in maps:
                if m1 is m2:
                    continue
                s = rand_str(rng, 'ACGTN', rng.choice([1, 2, 5, 9]))
                pre = [{'kind': 'rcstr', 'cmap': m1, 'allowN': True, 's': rand_str(rng, 'ACGT', 4),
                        'forms': {'cmap': 'default'} if m1 is DNA else {}},
                       {'kind': 'rcten', 'cmap': m1, 'A': 4, 'X': [onehot(4, j) for j in (0, 1, 2, 3)], 'dtype': 'int8',
                        'forms': {'cmap': 'default'} if m1 is DNA else {}}]
                dflt = {'cmap': 'default', 'flags': 'default'} if m2 is DNA else {}
                yield {'kind': 'rcstr', 'cmap': m2, 'allowN': True, 's': s, 'pre': pre, 'forms': dflt}
                yield {'kind': 'agree', 'cmap': m2, 'ign': '' if m2 is NMAP else 'N', 'allowN': True, 's': s,
                       'dtype': 'int8', 'pre': pre, 'forms': dflt}
                yield {'kind': 'rcten', 'cmap': m2, 'A': 4, 'X': [[rng.randint(-3, 9) for _a in range(4)] for _i in range(3)],
                       'dtype': 'int32', 'pre': pre, 'forms': {'cmap': 'default'} if m2 is DNA else {}}
        yield {'kind': 'rcstr', 'cmap': DNA, 'allowN': True, 's': 'ACGTN',
               'pre': [{'kind': 'rcstr', 'cmap': DNA, 'allowN': False, 's': 'ACGTN'}]}
    # chunk / unchunk after a call with another overlap, size, number of sequences, dtype or X form
    for _ in range(reps):
        for size in (1, 2, 3, 4, 5, 8, 13):
            for overlap in sorted(set([0, 1, size // 2, size - 1])):
                if overlap >= size:
                    continue
                B = rng.randint(1, 3)
                ns = [rng.choice([1, 2, 3, 5]) for _i in range(B)]
                extras = [rng.randrange(size - overlap) for _i in range(B)]
                base = chunk_input(size, overlap, ns, extras, rng.choice([1, 2]), 'int64')
                o2 = rng.choice([o for o in range(size) if o != overlap] or [0])
                s2 = size + rng.choice([1, 2])
                others = [chunk_input(size, o2, ns, [0] * B, base['A'], 'int64'),
                          chunk_input(size + 1, overlap + 1, ns, [0] * B, base['A'], 'int64'),      # same stride
                          chunk_input(s2, min(overlap, s2 - 1), ns, [0] * B, base['A'], 'int64'),
                          chunk_input(size, overlap, ns + [2], extras + [0], base['A'], 'float32'),
                          dict(chunk_input(size, overlap, [1], [0], base['A'], 'int64'),
                               forms={'X': 'numpy', 'lengths': 'np64'})]
                for other in others:
                    yield dict(base, pre=[other])
                yield dict(base, pre=others + [base])


def generate(tier, rng):
    global SHARD
    SHARD = 100 if tier != 'thorough' else 200      # cases per coqc process (about 1 MB of memory per kB of literal)
    for g in (gen_sequences, gen_chunk, gen_round, gen_back, gen_rc, gen_forms):
        for inp in g(tier, rng):
            yield inp


# ----------------------------------------------------------------------------------------
# shrinking / directed search

def shrink(inp):
    k = inp['kind']
    if inp.get('pre'):                              # fewer earlier calls first
        yield dict(inp, pre=[])
        if len(inp['pre']) > 1:
            for i in range(len(inp['pre'])):
                yield dict(inp, pre=inp['pre'][:i] + inp['pre'][i + 1:])
    if inp.get('forms'):                            # then the plain way of passing every argument
        if not (form(inp, 'size', 'kw') == 'default'):
            yield dict(inp, forms={})
        for name in list(inp['forms']):
            if name != 'size':
                yield dict(inp, forms={n: v for n, v in inp['forms'].items() if n != name})
    if inp.get('force'):
        yield dict(inp, force=False)
    if k == 'chunk':
        B = len(inp['lengths'])
        if B > 1:
            for i in range(B):
                c = dict(inp, lengths=inp['lengths'][:i] + inp['lengths'][i + 1:])
                if inp.get('dtypes'):
                    c['dtypes'] = inp['dtypes'][:i] + inp['dtypes'][i + 1:]
                yield c
        if inp['A'] > 1:
            yield dict(inp, A=1)
        step = inp['size'] - inp['overlap']
        for i, L in enumerate(inp['lengths']):
            for L2 in (L - step, L - 1):
                if step > 0 and L2 >= inp['size'] and L2 < L:
                    yield dict(inp, lengths=inp['lengths'][:i] + [L2] + inp['lengths'][i + 1:])
        if inp['size'] > 1 and inp['overlap'] > 0:
            yield dict(inp, size=inp['size'] - 1, overlap=inp['overlap'] - 1)
        return
    if k in ('back', 'rcten'):
        X = inp['X']
        for i in range(len(X)):
            yield dict(inp, X=X[:i] + X[i + 1:])
        return
    s = inp['s']
    if len(s) > 8:
        yield dict(inp, s=s[:len(s) // 2])
        yield dict(inp, s=s[len(s) // 2:])
    for i in range(min(len(s), 20)):
        yield dict(inp, s=s[:i] + s[i + 1:])


def search(rng, disagreeing):
    """boundary-directed extras: the smallest configurations of every pipeline"""
    for size in range(1, 11):
        for overlap in range(size):
            step = size - overlap
            for n in (1, 2, 3, 4):
                for e in range(step):
                    yield chunk_input(size, overlap, [n], [e], 1, 'int64')
                yield chunk_input(size, overlap, [n, 1, 2], [0, 0, 0], 2, 'int64')
    for A in (1, 2):
        for s in all_strings(LETTERS[:A] + 'Nx', 3):
            for allowN in (True, False):
                yield {'kind': 'round', 'alpha': LETTERS[:A], 'ign': 'N', 's': s, 'allowN': allowN, 'dtype': 'int8'}
    for s in all_strings('ACGTN', 3):
        yield {'kind': 'rcstr', 'cmap': DNA, 'allowN': True, 's': s}
        yield {'kind': 'agree', 'cmap': DNA, 'ign': 'N', 'allowN': True, 's': s, 'dtype': 'int8'}
