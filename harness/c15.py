"""C15 - sequence representations: one_hot_encode / characters / reverse_complement / chunk /
unchunk of tangermeme.utils, tied to coq/C15 (executable model + pointwise spec).

Every case is a two-stage pipeline of real API calls (see coq/C15/Spec.v `call`); the outcome
is what each stage returned (None = it, or the stage before it, raised)."""
import itertools

import torch

from . import common as C

PID = 'C15'
IMPORTS = ['Base.OneHot', 'C15.Model', 'C15.Spec']
CASE_TYPE = 'case'
CHECK = 'check_case'
SHARD = 1000
RULE = ('round trips: every string up to the tier length (quick 4, thorough 6) over alphabet+ignore, and up to '
        'length 3 (4) with one outside letter, for alphabets of size 1-3, both allow_N settings, all 9 numpy-backed dtypes in '
        'rotation; seeded random ASCII (1..127) alphabets of size 1-8 with ignore sets of size 0-3 and '
        'strings up to length 300, a share with an outside letter / overlapping ignore set / repeated '
        'alphabet letter; decode-then-encode on every one-hot-or-zero tensor up to length 3 (4) plus '
        'random and malformed (tied, 2-valued, negative) tensors; reverse complement: every string up to '
        'length 3 (5) over keys+N for 5 complement maps, random involutions on 1-8 ASCII keys, non-'
        'involutive and non-closed maps, random integer tensors, string/tensor agreement; chunk/unchunk: '
        'every (size, overlap) with 1 <= size <= 40, 0 <= overlap < size, 1-4 sequences whose lengths '
        'give 1, 2, 3 and many chunks with every remainder class sampled, unique integer entries so '
        'that a misplaced position is visible, plus rejected configurations (overlap >= size, size > '
        'length, non-positive size, negative overlap). Non-trivial = chunk case accepted with an odd '
        'overlap or a sequence of exactly one or two chunks; other kinds: non-empty input')
EXHAUSTIVE = {'quick': False, 'thorough': False}
TRUSTED = ['tensors of any dtype are read back as exact integers (a non-integral entry is reported as a spec failure)',
           'chunk/unchunk inputs carry pairwise distinct integers below 2**24 (exact in float32)']
ASSUMPTIONS = ['torch unfold/cat/flip/slicing and numpy argmax implement the list operations of the model '
               '(exercised by every case)',
               'bytes 1..127 only: NUL is numpy\'s string padding, non-ASCII letters are multi-byte',
               'dtypes without a numpy counterpart or an order (bfloat16, complex, quantised) are outside '
               'the check: characters() goes through numpy / max()']

DTYPES = ['bool', 'uint8', 'int8', 'int16', 'int32', 'int64', 'float16', 'float32', 'float64']
WIDE = ['int8', 'int16', 'int32', 'int64', 'float32', 'float64']      # can hold small negative / >1 values
BIG = ['int32', 'int64', 'float32', 'float64']                        # can hold the chunk entries
DNA = [['A', 'T'], ['C', 'G'], ['G', 'C'], ['T', 'A']]
BAD = 'bad'


def codes(s):
    return [ord(c) for c in s]


def to_tensor(cols, A, dtype):
    """list of L columns (each a list of A ints) -> tensor (A, L) of the named dtype"""
    dt = getattr(torch, dtype)
    if not cols:
        return torch.zeros((A, 0), dtype=dt)
    return torch.tensor(cols, dtype=torch.int64).T.contiguous().to(dt)


def from_tensor(X):
    """tensor (A, L) -> list of L columns of exact ints, or BAD"""
    if not isinstance(X, torch.Tensor) or X.ndim != 2:
        return BAD
    X = X.detach().cpu()
    Xd = X.to(torch.float64)
    if not bool(torch.equal(Xd, Xd.round())):
        return BAD
    return X.T.to(torch.int64).tolist()


def seq_entry(i, q, a, A):
    return (i * 1553 + q) * A + a + 1


def make_seq(i, A, L, dtype):
    cols = [[seq_entry(i, q, a, A) for a in range(A)] for q in range(L)]
    return cols, to_tensor(cols, A, dtype)


def _try(f):
    try:
        return f(), True
    except Exception:
        return None, False


def run_impl(inp):
    from tangermeme import utils
    k = inp['kind']
    if k == 'round':
        alpha, ign, dt = list(inp['alpha']), list(inp['ign']), getattr(torch, inp['dtype'])
        X, ok = _try(lambda: utils.one_hot_encode(inp['s'], alphabet=alpha, dtype=dt, ignore=ign))
        if not ok:
            return {'st': [None, None]}
        ok_dt = X.dtype == dt
        t, ok = _try(lambda: utils.characters(X, alphabet=alpha, allow_N=inp['allowN']))
        return {'st': [['ten', from_tensor(X) if ok_dt else BAD],
                       ['str', codes(t) if isinstance(t, str) else BAD] if ok else None]}
    if k == 'back':
        alpha, ign, dt = list(inp['alpha']), list(inp['ign']), getattr(torch, inp['dtype'])
        X = to_tensor(inp['X'], len(alpha), inp['dtype'])
        t, ok = _try(lambda: utils.characters(X, alphabet=alpha, allow_N=inp['allowN']))
        if not ok:
            return {'st': [None, None]}
        Y, ok = _try(lambda: utils.one_hot_encode(t, alphabet=alpha, dtype=dt, ignore=ign))
        return {'st': [['str', codes(t) if isinstance(t, str) else BAD],
                       ['ten', from_tensor(Y)] if ok else None]}
    if k == 'rcstr':
        cm = dict((a, b) for a, b in inp['cmap'])
        r, ok = _try(lambda: utils.reverse_complement(inp['s'], complement_map=cm, allow_N=inp['allowN']))
        if not ok:
            return {'st': [None, None]}
        r2, ok = _try(lambda: utils.reverse_complement(r, complement_map=cm, allow_N=inp['allowN']))
        return {'st': [['str', codes(r) if isinstance(r, str) else BAD],
                       ['str', codes(r2) if isinstance(r2, str) else BAD] if ok else None]}
    if k == 'rcten':
        cm = dict((a, b) for a, b in inp['cmap'])
        X = to_tensor(inp['X'], inp['A'], inp['dtype'])
        r, ok = _try(lambda: utils.reverse_complement(X, complement_map=cm))
        if not ok:
            return {'st': [None, None]}
        r2, ok = _try(lambda: utils.reverse_complement(r, complement_map=cm))
        return {'st': [['ten', from_tensor(r)], ['ten', from_tensor(r2)] if ok else None]}
    if k == 'agree':
        cm = dict((a, b) for a, b in inp['cmap'])
        keys, ign, dt = list(cm.keys()), list(inp['ign']), getattr(torch, inp['dtype'])
        a, oka = _try(lambda: utils.one_hot_encode(
            utils.reverse_complement(inp['s'], complement_map=cm, allow_N=inp['allowN']),
            alphabet=keys, dtype=dt, ignore=ign))
        b, okb = _try(lambda: utils.reverse_complement(
            utils.one_hot_encode(inp['s'], alphabet=keys, dtype=dt, ignore=ign), complement_map=cm))
        return {'st': [['ten', from_tensor(a)] if oka else None, ['ten', from_tensor(b)] if okb else None]}
    if k == 'chunk':
        A, lengths = inp['A'], inp['lengths']
        xs = [make_seq(i, A, L, inp['dtype'])[1] for i, L in enumerate(lengths)]
        keep = [x.clone() for x in xs]
        ch, ok = _try(lambda: utils.chunk(xs, size=inp['size'], overlap=inp['overlap']))
        if not ok:
            return {'st': [None, None]}
        chl = [from_tensor(c) for c in ch] if isinstance(ch, torch.Tensor) and ch.ndim == 3 else BAD
        ys, ok = _try(lambda: utils.unchunk(ch, lengths, overlap=inp['overlap']))
        same = all(torch.equal(a, b) for a, b in zip(xs, keep))
        if ok:
            yl = [from_tensor(y) for y in ys] if isinstance(ys, (list, tuple)) and same else BAD
        return {'st': [['batch', chl], ['batch', yl] if ok else None]}
    raise KeyError(k)


# ----------------------------------------------------------------------------------------
# Coq literals

def dna_lit(cols):
    return C.lst([C.zlist(c) for c in cols])


def val_lit(v):
    if v is None:
        return 'Err'
    tag, d = v
    if d == BAD or (tag == 'batch' and any(x == BAD for x in d)):
        return '(Ok (VBatch [[[[(-7)]]]; [[[(-7)]]]; [[[(-7)]]]; [[[(-7)]]]; [[[(-7)]]]; [[[(-7)]]]]))'   # certainly wrong
    if tag == 'str':
        return '(Ok (VStr %s))' % C.zlist(d)
    if tag == 'ten':
        return '(Ok (VTen %s))' % dna_lit(d)
    return '(Ok (VBatch %s))' % C.lst([dna_lit(x) for x in d])


def cmap_lit(pairs):
    return C.lst(['(%s, %s)' % (C.z(ord(a)), C.z(ord(b))) for a, b in pairs])


def coq_case(inp, out):
    k = inp['kind']
    if k == 'round':
        call = '(CRound %s %s %s %s)' % (C.zlist(codes(inp['alpha'])), C.zlist(codes(inp['ign'])),
                                         C.zlist(codes(inp['s'])), C.boolean(inp['allowN']))
    elif k == 'back':
        call = '(CBack %s %s %s %s)' % (C.zlist(codes(inp['alpha'])), C.zlist(codes(inp['ign'])),
                                        dna_lit(inp['X']), C.boolean(inp['allowN']))
    elif k == 'rcstr':
        call = '(CRcStr %s %s %s)' % (cmap_lit(inp['cmap']), C.boolean(inp['allowN']), C.zlist(codes(inp['s'])))
    elif k == 'rcten':
        call = '(CRcTen %s %s)' % (cmap_lit(inp['cmap']), dna_lit(inp['X']))
    elif k == 'agree':
        call = '(CRcAgree %s %s %s %s)' % (cmap_lit(inp['cmap']), C.zlist(codes(inp['ign'])),
                                           C.boolean(inp['allowN']), C.zlist(codes(inp['s'])))
    else:
        xs = [make_seq(i, inp['A'], L, 'int64')[0] for i, L in enumerate(inp['lengths'])]
        call = '(CChunk %s %s %s)' % (C.z(inp['size']), C.z(inp['overlap']), C.lst([dna_lit(x) for x in xs]))
    return '(%s, %s)' % (call, C.lst([val_lit(v) for v in out['st']]))


# ----------------------------------------------------------------------------------------
# evidence helpers

def n_chunks(inp):
    step = inp['size'] - inp['overlap']
    if step <= 0 or inp['size'] <= 0:
        return []
    return [(L - inp['size']) // step + 1 for L in inp['lengths']]


def nontrivial(inp, out):
    k = inp['kind']
    if k == 'chunk':
        if out['st'][1] is None:
            return False
        return inp['overlap'] % 2 == 1 or any(n in (1, 2) for n in n_chunks(inp))
    if k in ('back', 'rcten'):
        return len(inp['X']) >= 1
    return len(inp['s']) >= 1


def hist_key(inp, out):
    k = inp['kind']
    tag = ''.join('r' if v is None else 'o' for v in out['st'])
    if k == 'chunk' and out['st'][1] is not None:
        ns = n_chunks(inp)
        tag += '/n=' + ','.join(sorted(set('1' if n == 1 else '2' if n == 2 else '3' if n == 3 else 'many' for n in ns)))
        tag += '/odd' if inp['overlap'] % 2 else '/even'
    return '%s/%s' % (k, tag)


# ----------------------------------------------------------------------------------------
# generators

def chunk_input(size, overlap, ns, extras, A, dtype):
    step = size - overlap
    lengths = [(n - 1) * step + size + e for n, e in zip(ns, extras)]
    return {'kind': 'chunk', 'size': size, 'overlap': overlap, 'A': A, 'lengths': lengths, 'dtype': dtype}


def cap_n(n, size, budget):
    return max(1, min(n, budget // size))


def gen_chunk(tier, rng):
    quick = tier != 'thorough'
    # full small grid: one sequence, one channel, every remainder class
    top = 8 if quick else 10
    for size in range(1, top + 1):
        for overlap in range(size):
            step = size - overlap
            for n in (1, 2, 3, 4, 5, 6):
                for e in sorted(set([0, step // 2, step - 1])):
                    yield chunk_input(size, overlap, [n], [e], 1, 'int64')
    # every (size, overlap) up to 40: 1, 2, 3 and many chunks, 1-4 sequences
    counter = 0
    reps = 1 if quick else 3
    budget = 360 if quick else 700                  # chunk columns per case (literal size)
    for size in range(1, 41):
        for overlap in range(size):
            step = size - overlap
            for _ in range(reps):
                B = rng.randint(1, 4)
                many = cap_n(rng.randint(4, 30), size, budget // B)
                forced = [1, 2, 3, many][counter % 4]
                counter += 1
                ns = [cap_n(rng.choice([1, 2, 3, rng.randint(4, 12)]), size, budget // B) for _i in range(B)]
                ns[rng.randrange(B)] = forced
                extras = [rng.choice([0, step - 1, rng.randrange(step)]) for _i in range(B)]
                yield chunk_input(size, overlap, ns, extras, rng.choice([1, 1, 1, 2, 4] if not quick else [1, 1, 1, 2]), rng.choice(BIG))
            if not quick:
                for n in (1, 2, 3):
                    yield chunk_input(size, overlap, [n], [rng.randrange(step)], 1, 'int64')
    # rejected configurations (model equality; the spec is silent on most of them)
    for _ in range(60 if quick else 400):
        size = rng.choice([0, -1, 1, 2, 3, 5, 8])
        overlap = rng.choice([-1, size, size + 1, size - 1, 0, 1])
        B = rng.randint(1, 3)
        lengths = [rng.choice([max(size, 0) + rng.randint(-2, 6), rng.randint(0, 12)]) for _i in range(B)]
        lengths = [max(0, L) for L in lengths]
        yield {'kind': 'chunk', 'size': size, 'overlap': overlap, 'A': rng.choice([1, 2]), 'lengths': lengths,
               'dtype': 'int64'}


LETTERS = 'ACGTUWSY'


def all_strings(symbols, maxlen):
    for L in range(maxlen + 1):
        for t in itertools.product(symbols, repeat=L):
            yield ''.join(t)


def rand_ascii(rng, n, avoid=''):
    out = []
    while len(out) < n:
        c = chr(rng.randint(1, 127))
        if c not in out and c not in avoid:
            out.append(c)
    return ''.join(out)


def gen_round(tier, rng):
    quick = tier != 'thorough'
    maxlen = 4 if quick else 6          # every string over alphabet+ignore up to this length
    maxlen_out = 3 if quick else 4      # ... and with one outside letter up to this length
    k = 0
    for A in (1, 2, 3):
        alpha = LETTERS[:A]
        for ign, outside in (('N', 'x'), ('X', 'N')):
            if ign == 'X' and (quick or A == 3):
                continue
            strings = list(all_strings(alpha + ign, maxlen))
            strings += [s for s in all_strings(alpha + ign + outside, maxlen_out) if outside in s]
            for s in strings:
                has_ign = ign in s
                for allowN in ((True, False) if has_ign or len(s) <= 2 else (bool(k % 2),)):
                    k += 1
                    yield {'kind': 'round', 'alpha': alpha, 'ign': ign, 's': s, 'allowN': allowN,
                           'dtype': DTYPES[k % len(DTYPES)]}
    for _ in range(500 if quick else 5000):
        A = rng.randint(1, 8)
        alpha = rand_ascii(rng, A) if rng.random() < 0.7 else ''.join(rng.sample('ACGTNacgtn-.*', A))
        ign = rand_ascii(rng, rng.choice([0, 1, 1, 2, 3]), avoid=alpha)
        if rng.random() < 0.4 and 'N' not in alpha and 'N' not in ign:
            ign += 'N'
        r = rng.random()
        if r < 0.05 and ign:
            alpha = alpha + ign[0]                       # ignored letter also in the alphabet
        elif r < 0.10:
            alpha = alpha + alpha[0]                     # repeated letter
        pool = alpha + ign * (1 if rng.random() < 0.6 else 0) or alpha
        L = rng.choice([0, 1, 2, 3, 7, 20, 64, 150, 300])
        s = ''.join(rng.choice(pool) for _i in range(L))
        if rng.random() < 0.12 and L:
            p = rng.randrange(L)
            s = s[:p] + rand_ascii(rng, 1, avoid=alpha + ign) + s[p + 1:]
        yield {'kind': 'round', 'alpha': alpha, 'ign': ign, 's': s, 'allowN': rng.random() < 0.6,
               'dtype': rng.choice(DTYPES)}


def onehot(A, k):
    c = [0] * A
    if k >= 0:
        c[k] = 1
    return c


def gen_back(tier, rng):
    quick = tier != 'thorough'
    maxlen = 3 if quick else 4
    k = 0
    for A in (1, 2, 3):
        alpha = LETTERS[:A]
        for L in range(maxlen + 1):
            for t in itertools.product(range(-1, A), repeat=L):
                for allowN in (True, False):
                    k += 1
                    yield {'kind': 'back', 'alpha': alpha, 'ign': ['N', 'N', 'X', ''][k % 4], 'allowN': allowN,
                           'X': [onehot(A, j) for j in t], 'dtype': DTYPES[k % len(DTYPES)]}
    for _ in range(300 if quick else 3000):
        A = rng.randint(1, 8)
        alpha = rand_ascii(rng, A) if rng.random() < 0.5 else ''.join(rng.sample('ACGTNWSY', A))
        ign = rand_ascii(rng, rng.choice([0, 1, 2]), avoid=alpha)
        if rng.random() < 0.6 and 'N' not in alpha:
            ign += 'N'
        L = rng.choice([0, 1, 2, 5, 17, 60, 200])
        zero = rng.random() < 0.5
        X = [onehot(A, rng.randrange(-1 if zero else 0, A)) for _i in range(L)]
        dtype = rng.choice(DTYPES)
        r = rng.random()
        if r < 0.25 and L:                                # malformed column
            p = rng.randrange(L)
            kind = rng.choice(['tie', 'two', 'neg', 'big', 'width'])
            dtype = rng.choice(WIDE)
            if kind == 'tie':
                X[p] = [1] * A
            elif kind == 'two':
                X[p] = [rng.choice([0, 1, 2]) for _i in range(A)]
            elif kind == 'neg':
                X[p] = [rng.choice([-1, 0, -2]) for _i in range(A)]
            elif kind == 'big':
                X[p] = [rng.randint(-3, 5) for _i in range(A)]
            else:
                X = [c + [0] for c in X]
        yield {'kind': 'back', 'alpha': alpha, 'ign': ign, 'allowN': rng.random() < 0.6, 'X': X, 'dtype': dtype}


def rand_cmap(rng):
    """(pairs, expected-to-be-involutive)"""
    n = rng.randint(1, 8)
    keys = list(rand_ascii(rng, n) if rng.random() < 0.5 else ''.join(rng.sample('ACGTNWSYRKM', n)))
    r = rng.random()
    if r < 0.70:
        perm = list(range(n))
        rng.shuffle(perm)
        vals = list(keys)
        for j in range(0, n - 1, 2):
            if rng.random() < 0.75:
                a, b = perm[j], perm[j + 1]
                vals[a], vals[b] = keys[b], keys[a]
        return [[k, v] for k, v in zip(keys, vals)]
    if r < 0.90:
        return [[k, rng.choice(keys)] for k in keys]          # closed, usually not an involution
    vals = [rng.choice(keys) for _k in keys]
    vals[rng.randrange(n)] = rand_ascii(rng, 1, avoid=''.join(keys))   # value that is not a key
    return [[k, v] for k, v in zip(keys, vals)]


FIXED_MAPS = [DNA, [['A', 'T'], ['T', 'A']], [['A', 'A']], [['A', 'C'], ['C', 'A'], ['G', 'G']],
              [['A', 'C'], ['C', 'G'], ['G', 'A']]]


def gen_rc(tier, rng):
    quick = tier != 'thorough'
    maxlen = 3 if quick else 5
    k = 0
    for cm in FIXED_MAPS:
        keys = ''.join(a for a, _b in cm)
        for s in all_strings(keys + 'N', maxlen):
            k += 1
            allowN = k % 3 != 0
            yield {'kind': 'rcstr', 'cmap': cm, 'allowN': allowN, 's': s}
            yield {'kind': 'agree', 'cmap': cm, 'ign': 'N' if k % 5 else '', 'allowN': allowN, 's': s,
                   'dtype': DTYPES[k % len(DTYPES)]}
    for _ in range(400 if quick else 4000):
        cm = rand_cmap(rng)
        keys = ''.join(a for a, _b in cm)
        pool = keys + ('N' if rng.random() < 0.5 else '')
        L = rng.choice([0, 1, 2, 3, 8, 30, 120])
        s = ''.join(rng.choice(pool) for _i in range(L))
        if rng.random() < 0.08 and L:
            p = rng.randrange(L)
            s = s[:p] + rand_ascii(rng, 1, avoid=keys) + s[p + 1:]
        allowN = rng.random() < 0.8
        kind = rng.choice(['rcstr', 'rcten', 'agree'])
        if kind == 'rcstr':
            yield {'kind': 'rcstr', 'cmap': cm, 'allowN': allowN, 's': s}
        elif kind == 'agree':
            ign = '' if 'N' in keys else rng.choice(['N', 'N', 'N', '', 'N' + rand_ascii(rng, 1, avoid=keys + 'N')])
            yield {'kind': 'agree', 'cmap': cm, 'ign': ign, 'allowN': allowN, 's': s, 'dtype': rng.choice(DTYPES)}
        else:
            A = len(cm) if rng.random() < 0.9 else max(1, len(cm) + rng.choice([-1, 1]))
            L = rng.choice([0, 1, 2, 3, 8, 30])
            if L == 0:
                A = len(cm)
            X = [[rng.randint(-4, 9) for _a in range(A)] for _i in range(L)]
            yield {'kind': 'rcten', 'cmap': cm, 'A': A, 'X': X, 'dtype': rng.choice(WIDE)}


def generate(tier, rng):
    for g in (gen_chunk, gen_round, gen_back, gen_rc):
        for inp in g(tier, rng):
            yield inp


# ----------------------------------------------------------------------------------------
# shrinking / directed search

def shrink(inp):
    k = inp['kind']
    if k == 'chunk':
        B = len(inp['lengths'])
        if B > 1:
            for i in range(B):
                yield dict(inp, lengths=inp['lengths'][:i] + inp['lengths'][i + 1:])
        if inp['A'] > 1:
            yield dict(inp, A=1)
        step = inp['size'] - inp['overlap']
        for i, L in enumerate(inp['lengths']):
            for L2 in (L - step, L - 1):
                if step > 0 and L2 >= inp['size'] and L2 < L:
                    yield dict(inp, lengths=inp['lengths'][:i] + [L2] + inp['lengths'][i + 1:])
        if inp['size'] > 1 and inp['overlap'] > 0:
            yield dict(inp, size=inp['size'] - 1, overlap=inp['overlap'] - 1)
        return
    if k in ('back', 'rcten'):
        X = inp['X']
        for i in range(len(X)):
            yield dict(inp, X=X[:i] + X[i + 1:])
        return
    s = inp['s']
    if len(s) > 8:
        yield dict(inp, s=s[:len(s) // 2])
        yield dict(inp, s=s[len(s) // 2:])
    for i in range(min(len(s), 20)):
        yield dict(inp, s=s[:i] + s[i + 1:])


def search(rng, disagreeing):
    """boundary-directed extras: the smallest configurations of every pipeline"""
    for size in range(1, 11):
        for overlap in range(size):
            step = size - overlap
            for n in (1, 2, 3, 4):
                for e in range(step):
                    yield chunk_input(size, overlap, [n], [e], 1, 'int64')
                yield chunk_input(size, overlap, [n, 1, 2], [0, 0, 0], 2, 'int64')
    for A in (1, 2):
        for s in all_strings(LETTERS[:A] + 'Nx', 3):
            for allowN in (True, False):
                yield {'kind': 'round', 'alpha': LETTERS[:A], 'ign': 'N', 's': s, 'allowN': allowN, 'dtype': 'int8'}
    for s in all_strings('ACGTN', 3):
        yield {'kind': 'rcstr', 'cmap': DNA, 'allowN': True, 's': s}
        yield {'kind': 'agree', 'cmap': DNA, 'ign': 'N', 'allowN': True, 's': s, 'dtype': 'int8'}
